import json, os
R = {
"C01-r3m1": ("field/json.py: J tags written with ensure_ascii=False", "J tag whose JSON text has a \\uXXXX escape of a non-ASCII character"),
"C01-r3m2": ("lines/collections.py: NONCUSTOM_GFA2_KEYS a string (substring test): some custom records are not written", "GFA2 custom record whose type is a multi-letter substring of `H#FSEGUO` (SEG, GU, UO ...)"),
"C02-r3m1": ("disconnection.py: cascade skips a dependant equal in content to one already handled", "two identical ID-less C / E * / F lines on a segment, then rm of the segment"),
"C02-r3m2": ("virtual_to_real.py: placeholder of the same type and name is not unregistered (`*` = `*`)", "P line before its link, the link arrives without ID"),
"C03-r3m1": ("path/references.py: placeholder link takes a step's CIGAR without complementing it", "two paths over one link in opposite directions, first with `*`, both before the link, asymmetric CIGAR"),
"C03-r3m2": ("connection.py `connect`: a virtual line never replaces an unknown-type placeholder", "GFA2: group listing X, then E/G/F referring to X, then S X"),
"C04-r3m1": ("construction.py `_initialize_tag`: duplicate test on `_datatype` (custom tags only)", "a predefined tag given twice (LN, VN, RC ...)"),
"C04-r3m2": ("path `_undef_overlaps` = all overlaps `*`; overlap count check reuses it", "P line with a wrong number of overlaps, all `*`"),
"C05-r3m1": ("field_data.py `delete`: the tag's datatype is not forgotten", "delete a tag, then set it to a value of another default type"),
"C05-r3m2": ("ordered/references.py `_backreference_keys`: a set listing an O group is looked up under `paths`", "U set over two lines listing an O group in the first one, then rm of the group"),
"C06-r3m1": ("edge/gfa2/to_gfa1.py `overlap`: complement without undoing the reversal", "native GFA2 edge with sid1 on the to-side and a non-palindromic CIGAR"),
"C06-r3m2": ("containment/to_gfa2.py `from_coords`: end = pos + length_on_query", "containment whose CIGAR has unequal I/D balance"),
"C07-r3m1": ("creators.py `_register_line`: the string `*` is not taken for a placeholder name", "L/C line with ID:Z:*, then rm of one of its segments (KeyError)"),
"C07-r3m2": ("identifier_list_gfa2.py: regex with nested quantifier (exponential backtracking)", "U line with a long identifier followed by an invalid character"),
"C08-r3m1": ("creators.py: version assigned before the header line is merged", "version unknown, earlier H with TS, then a refused H carrying VN"),
"C08-r3m2": ("field_data.py `set`: datatype of a new tag recorded before validation", "vlevel 3, new tag with a refused value, then a value of another class"),
"C09-r3m1": ("segment/gfa2.py: `__len__` = slen, so a zero-length segment is falsy in `connect()`", "GFA2 segment with slen 0, then any line with the same name"),
"C09-r3m2": ("edge/gfa1/references.py `_backreference_keys`: one field per collection", "hairpin link arriving before its segment, then rename of the segment"),
"C10-r3m1": ("finders.py `select`: `name` popped from the criteria dict", "the same criteria dict used for two searches"),
"C10-r3m2": ("cloning.py: the clone shares the `_datatype` table", "clone of a line with a custom tag, then delete / set_datatype on the clone"),
"C11-r3m1": ("segment/references.py `neighbours` = neighbours_L + neighbours_R", "circular self-link (right end to own left end)"),
"C11-r3m2": ("topology.py `is_cut_segment`: early exit when an end has no dovetail", "segment with a dead end on one side and >= 2 dovetails on the other"),
"C12-r3m1": ("path/references.py: placeholder link stores a step's CIGAR un-complemented", "`*` path then a reversed step with an asymmetric CIGAR, both before the link"),
"C12-r3m2": ("link/equivalence.py: `complement()` of the overlap memoised per link", "link compared once, its CIGAR edited in place, compared again"),
"C13-r3m1": ("creators.py: queue replayed before the version is set from the first S line", "L/C/P/custom line queued, then a segment of the other version"),
"C13-r3m2": ("gfa.py `from_file`: version inferred first and compared with the explicit one afterwards", "from_file(version='gfa1') of an empty / comment-only / VN-less file"),
"C14-r3m1": ("linear_paths.py: both ends relinked from the original links in one step", "circular chain or lasso: a dovetail joining the chain's last R end to its first L end"),
"C14-r3m2": ("linear_paths.py `_add_segment_to_merged`: a member of unknown length is skipped in LN", "non-first member with `*` sequence and no LN after members of known length"),
"C15-r3m1": ("multiplication.py: connections de-duplicated by content equality", "segment with two identical parallel C / E * edges"),
"C15-r3m2": ("collections.py `segment_names` hides virtual segments", "dangling reference to a name equal to an automatic copy name"),
"C16-r3m1": ("edge/gfa1/references.py `_backreference_keys` narrowed by collection", "L before the S of its from-segment, opposite orientations"),
"C16-r3m2": ("topology.py: edge counts through a set of lines (content equality)", "two identical unnamed edges"),
"C17-r3m1": ("captured_path memoised on the group's own items string", "captured path asked, a further line changes the walk, asked again"),
"C17-r3m2": ("induced_set: edges filtered through dovetail `neighbours`", "set whose segments are joined only by containment / internal edges"),
"C18-r3m1": ("field_data.py `_set_existing_field`: level-3 check uses `get_datatype` of the stored value", "level 3: attribute-created tag deleted and assigned again"),
"C18-r3m2": ("writer.py `field_to_s`: string values no longer validated at level 2", "level 2: invalid string assigned to a positional field, then written"),
"C19-r3m1": ("field/json.py: parsed JSON cached (shared mutable object)", "vlevel 0 / text-assigned J tag, clone, edit one side in place"),
"C19-r3m2": ("cloning.py: `_datatype` of predefined tags not copied", "vlevel 0 line with a predefined tag of non-standard datatype (KC:f, ID:A)"),
"C20-r3m1": ("field_data.py `delete`: datatype entry kept", "tag deleted then re-created with a value of another default datatype"),
"C20-r3m2": ("numeric_array.py: subtype cached, dropped only by item assignment", "array written once, then edited with append / pop / extend, written again"),
}
for k,(c,n) in R.items():
    p="/verif/seeded/%s/meta.json"%k
    if not os.path.exists(p): print("missing",k); continue
    m=json.load(open(p)); m["change"]=c; m["needs"]=n; m["round"]=3
    json.dump(m,open(p,"w"),indent=1)
print("done")
