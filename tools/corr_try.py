#!/venv/bin/python
"""corr_try.py <cXX> [n] [--seed S]: run the correspondence generator of a property (harness/corr/cXX.py) on the gfapy tree
named by GFAPY_REPO and compare the library's replies with the native model driver (no Lean build, no GfaGen)."""
import sys, os, importlib, argparse, subprocess
sys.path.insert(0, os.path.dirname(os.path.dirname(os.path.abspath(__file__))))
from harness import lib
ap = argparse.ArgumentParser(); ap.add_argument("prop"); ap.add_argument("n", nargs="?", type=int); ap.add_argument("--seed", type=int, default=0)
a = ap.parse_args()
C = importlib.import_module("harness.corr." + a.prop.lower())
lib.import_gfapy()
n = a.n or C.budget("quick")
ops, exp, owner = [], [], []
for i in range(n):
    case = C.gen_case(lib.Rng(lib.sub_seed(a.seed, a.prop.upper(), "cr", i)), "quick", i)
    o, e = C.model_ops(case)
    ops += o; exp += e; owner += [i] * len(o)
drv = os.path.join(os.path.dirname(os.path.dirname(os.path.abspath(__file__))), "lean", ".lake", "build", "bin", "driver")
p = subprocess.run([drv], input="\n".join(ops) + "\n", stdout=subprocess.PIPE, text=True)
got = p.stdout.split("\n")[:len(ops)]
bad = [(owner[i], ops[i], got[i], lib.esc(exp[i])) for i in range(len(ops)) if got[i] != lib.esc(exp[i])]
print("%d ops, %d disagreements" % (len(ops), len(bad)))
for b in bad[:4]:
    print("case %s\n op    %s\n model %s\n impl  %s" % tuple(str(x)[:700] for x in b))
