#!/bin/bash
# process every finished behaviour-preserving change /tmp/wt6/Cxx/_out/hN not yet in /verif/harmless
cd /verif
for d in /tmp/wt6/C*/_out/h*; do
  [ -f "$d/patch.diff" ] && [ -f "$d/notes.md" ] && [ -f "$d/same.py" ] || continue
  p=$(echo "$d" | sed -E 's#/tmp/wt6/(C[0-9]+)/_out/.*#\1#'); n=$(basename "$d")
  [ -f "harmless/$p-$n/meta.json" ] && continue
  echo "=== $p $n"; /venv/bin/python tools/harmlesstest.py "$p" "$d" --name "$n" --max-checks 4 2>&1 | tail -12
done
