#!/venv/bin/python
"""harmlesstest.py <Cxx> <dir> --name hN [--checks C01,C02]

A behaviour-preserving change (patch.diff + same.py + notes.md, written by an independent agent who was asked to keep the
property true): confirm in a scratch worktree that the suite is unchanged and that same.py prints the same with and
without the patch, then run the registered quick checks against the patched scratch worktree (GFAPY_REPO) and store
everything as /verif/harmless/<Cxx>-<name>/.  Nothing touches /repo.

The checks run: the named property, plus every property one of whose anchor files is touched by the patch.
Expected: exit 0.  A VIOLATION ending in no-failing-input-found is the tie reporting a rewrite of translated code (the brief
asks for exactly that); any other VIOLATION has a replay that must be triaged: either the change is not harmless after
all, or the oracle demands more than the property states.
"""
import sys, os, json, subprocess, shutil, time, argparse, re, fnmatch

VERIF = os.path.dirname(os.path.dirname(os.path.abspath(__file__)))
PY = "/venv/bin/python"


def sh(cmd, cwd=None, env=None, timeout=3600):
    p = subprocess.run(cmd, cwd=cwd, env=env, shell=isinstance(cmd, str), stdout=subprocess.PIPE,
                       stderr=subprocess.STDOUT, text=True, timeout=timeout)
    return p.returncode, p.stdout


def related(prop, patch_text):
    files = re.findall(r"^\+\+\+ b/(\S+)", patch_text, flags=re.M)
    out = [prop]
    for l in open(os.path.join(VERIF, "properties.jsonl")):
        d = json.loads(l)
        if d["id"] in out:
            continue
        pats = d["anchors"]["files"]
        if any(fnmatch.fnmatch(f, p) for f in files for p in pats):
            out.append(d["id"])
    return out, files


def main():
    ap = argparse.ArgumentParser()
    ap.add_argument("prop"); ap.add_argument("mdir"); ap.add_argument("--name", default=None)
    ap.add_argument("--checks", default=None); ap.add_argument("--max-checks", type=int, default=8)
    a = ap.parse_args()
    prop = a.prop.upper(); mdir = os.path.abspath(a.mdir)
    name = a.name or os.path.basename(mdir.rstrip("/"))
    hid = "%s-%s" % (prop, name)
    out = os.path.join(VERIF, "harmless", hid)
    os.makedirs(out, exist_ok=True)
    for f in ("patch.diff", "same.py", "notes.md"):
        if os.path.exists(os.path.join(mdir, f)) and mdir != os.path.abspath(out):
            shutil.copy(os.path.join(mdir, f), os.path.join(out, f))
    patch = os.path.join(out, "patch.diff"); same = os.path.join(out, "same.py")
    meta_path = os.path.join(out, "meta.json")
    meta = json.load(open(meta_path)) if os.path.exists(meta_path) else {}
    meta.update({"id": hid, "written_for_property": prop, "kind": "behaviour-preserving change"})
    checks, files = related(prop, open(patch).read())
    if a.checks:
        checks = a.checks.split(",")
    checks = checks[:a.max_checks]
    meta["files"] = files

    wt = "/tmp/harmwt_%s" % hid
    sh(["git", "-C", "/repo", "worktree", "remove", "--force", wt])
    rc, o = sh(["git", "-C", "/repo", "worktree", "add", "--detach", wt, "HEAD"])
    assert rc == 0, o
    try:
        env = dict(os.environ, PYTHONPATH=wt, PYTHONHASHSEED="0")
        rc0, o0 = sh([PY, same], cwd=wt, env=env, timeout=900) if os.path.exists(same) else (None, "")
        rc, o = sh(["git", "apply", patch], cwd=wt)
        assert rc == 0, "patch does not apply: " + o
        rct, ot = sh([PY, "-m", "pytest", "-q", "-p", "no:cacheprovider", "--timeout=900", "tests"], cwd=wt, env=env, timeout=1800)
        tail = ot.strip().splitlines()[-1] if ot.strip() else ""
        rc1, o1 = sh([PY, same], cwd=wt, env=env, timeout=900) if os.path.exists(same) else (None, "")
        meta["confirmed"] = {"same_py_exit": [rc0, rc1], "same_py_output_identical": o0 == o1, "same_py_output_bytes": len(o0),
                             "pytest_summary_patched": tail,
                             "suite_unchanged": bool(re.search(r"\b1 failed, 365 passed\b", tail)) or bool(re.search(r"^366 passed", tail))}
        print("confirm: same.py identical=%s (%d bytes); pytest: %s" % (o0 == o1, len(o0), tail))
        # the checks run against this patched worktree
        cenv = dict(os.environ, GFAPY_REPO=wt)
        res = meta.setdefault("checks", {})
        for c in checks:
            t0 = time.time()
            rc, o = sh(["./check", c, "--tier", "quick"], cwd=VERIF, timeout=7200, env=cenv)
            viol = [l for l in o.splitlines() if l.startswith("VIOLATION")]
            res[c + ":quick"] = {"exit": rc, "violation_lines": viol[:5], "summary": o.strip().splitlines()[-1:], "wall_s": round(time.time() - t0, 1)}
            print("check %s: exit=%d %s" % (c, rc, viol[:2]))
            for i, v in enumerate(viol[:2]):
                m = re.search(r"replay=(\S+)", v)
                if m and os.path.exists(os.path.join(VERIF, m.group(1))):
                    shutil.copy(os.path.join(VERIF, m.group(1)), os.path.join(out, "replay_%s_%d.json" % (c, i)))
    finally:
        sh(["git", "-C", "/repo", "worktree", "remove", "--force", wt])
        shutil.rmtree(wt, ignore_errors=True)
    alarms = {k: v for k, v in meta["checks"].items() if v["exit"] != 0}
    meta["alarms"] = sorted(alarms)
    meta["tie_only"] = sorted(k for k, v in alarms.items() if v["violation_lines"] and
                              all("no-failing-input-found" in l for l in v["violation_lines"]))
    json.dump(meta, open(meta_path, "w"), indent=1, sort_keys=True)


if __name__ == "__main__":
    main()
