#!/usr/bin/env python3
"""Rebuild MANIFEST.json from harness/props/*.py (ID, MANIFEST_TEXT, ...) — keeps it valid at all times."""
import json, os, sys, importlib, glob
VERIF = os.path.dirname(os.path.dirname(os.path.abspath(__file__)))
sys.path.insert(0, VERIF)
props = [json.loads(l) for l in open(os.path.join(VERIF, "properties.jsonl"))]
checks, na = [], []
for p in props:
    pid = p["id"]
    path = os.path.join(VERIF, "harness", "props", pid.lower() + ".py")
    from harness import leanspec
    has_lean = False
    if os.path.exists(path):
        m = importlib.import_module("harness.props." + pid.lower())
        has_lean = hasattr(m, "LEAN") or pid in leanspec.SPEC
    if not has_lean:
        na.append({"property_id": pid, "reason": "no Lean theorems tied to the code for this property yet (planned in DESIGN.md §6); no claim is made"})
        continue
    for k, v in leanspec.SPEC.get(pid, {}).items():
        if not hasattr(m, k):
            setattr(m, k, v)
    lean = getattr(m, "LEAN", {})
    thms = [t.split(".")[-1] for t in lean.get("theorems", []) if ".Bridge." not in t]
    bridges = [t.split("Bridge.")[-1] for t in lean.get("theorems", []) if ".Bridge." in t]
    gaps = list(getattr(m, "ASSUMPTIONS", []))
    text = ("Lean 4 theorems about the executable model, for all inputs/histories of the model: %s. " % ", ".join(thms[:14]) +
            ("Bridge lemmas over code regenerated from /repo on every run: %s. " % ", ".join(bridges[:10]) if bridges else "") +
            "Tie to the code: regenerated tables/regexes/translated functions (Bridge), model-vs-implementation correspondence through the native "
            "driver, and a python oracle on the real library that turns a broken tie into a concrete replay. "
            "Stated gaps: " + (" | ".join(gaps) if gaps else "none"))
    checks.append({
        "property_id": pid,
        "quick_cmd": "./check %s --tier quick" % pid,
        "thorough_cmd": "./check %s --tier thorough" % pid,
        "evidence_file": "evidence/%s.json" % pid,
        "replay_cmd_template": "./check %s --replay {path}" % pid,
        "engine": "lean4-model+correspondence",
        "level_claimed": {"category": "proof", "text": getattr(m, "LEVEL_TEXT", text), "design_ref": "DESIGN.md §12 (as built) and §6 " + pid},
        "level_note": getattr(m, "LEVEL_NOTE", "Trusted: Lean kernel; axioms propext/Classical.choice/Quot.sound; translator/extract.py; harness + oracle. The model is hand-written: the theorems are about the model, the tie to the code is differential (bounded) plus exact table extraction."),
        "technique": getattr(m, "TECHNIQUE", "Lean 4 proof over executable model + generated-table bridge + differential correspondence"),
    })
man = {
    "version": 1,
    "setup_cmd": "cd lean && lake build",
    "hooks": {"guard": "GFAPY_VERIF", "enable": "no hooks are needed: every observation uses gfapy's public API (the guard names no code)",
              "baseline_off_cmd": "cd /repo && /venv/bin/python -m pytest -ra -q -p no:cacheprovider --timeout=900 --continue-on-collection-errors",
              "source_commits": [], "add_only": True},
    "engines": [{"name": "lean4-model+correspondence", "path": "lean/", "serves_properties": [c["property_id"] for c in checks],
                 "kind_free_text": "Lean 4.33 lake project (GfaModel executable model, GfaGen regenerated from /repo, GfaProofs theorems + Bridge) driven by harness/check.py"}],
    "checks": checks,
    "not_applicable": na,
    "notes": "See DESIGN.md. ./check <id> regenerates lean/GfaGen from /repo's working tree, rebuilds and audits the theorems, then runs corpus + generated cases through the real library (oracle) and the native model driver (correspondence).",
}
json.dump(man, open(os.path.join(VERIF, "MANIFEST.json"), "w"), indent=1)
print("checks:", [c["property_id"] for c in checks], "not_applicable:", len(na))
