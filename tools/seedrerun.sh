#!/bin/bash
# re-run the registered quick check of every seeded change against /repo + patch (sequential: /repo is shared)
cd /verif
for d in seeded/*/; do
  id=$(basename $d); p=${id%%-*}
  [ -n "$1" ] && [[ ! "$id" =~ $1 ]] && continue
  echo "=== $id"; /venv/bin/python tools/seedtest.py "$p" "$d" --name "${id#*-}" --skip-confirm $SEEDTEST_OPTS 2>&1 | tail -2
done
