#!/bin/bash
# round 5: process every finished mutation dir /tmp/wt7/Cxx/_out/mN not yet in /verif/seeded (sequential: /repo is shared)
cd /verif
for d in /tmp/wt7/C*/_out/m*; do
  [ -f "$d/patch.diff" ] && [ -f "$d/demo.py" ] && [ -f "$d/notes.md" ] || continue
  p=$(echo "$d" | sed -E 's#/tmp/wt7/(C[0-9]+)/_out/.*#\1#'); n=r6$(basename "$d")
  [ -f "seeded/$p-$n/meta.json" ] && continue
  echo "=== $p $n"; /venv/bin/python tools/seedtest.py "$p" "$d" --name "$n" $SEEDTEST_OPTS 2>&1 | tail -4
done
