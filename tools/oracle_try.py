#!/venv/bin/python
"""oracle_try.py <cXX> [n] [--tier quick|thorough] [--seed S] [--corr] [--shrink] [--show K]

Runs the python side of a check (generator + oracle on the real library; no Lean) on the gfapy tree named by
the environment variable GFAPY_REPO (default /repo), sequentially, and prints the failure signatures.
Meant for developing generators/oracles against a scratch worktree with a seeded change applied:

    GFAPY_REPO=/tmp/st/x /venv/bin/python tools/oracle_try.py c12 1500

Uses the same per-case seeds as harness/check.py (kind "r" random cases, "x" exhaustive cases).
"""
import sys, os, collections, importlib, argparse, traceback
sys.path.insert(0, os.path.dirname(os.path.dirname(os.path.abspath(__file__))))
from harness import lib


def main():
    ap = argparse.ArgumentParser()
    ap.add_argument("prop"); ap.add_argument("n", nargs="?", type=int, default=None)
    ap.add_argument("--tier", default="quick"); ap.add_argument("--seed", type=int, default=0)
    ap.add_argument("--corr", action="store_true", help="use harness/corr/<prop>.py generator (no oracle there: only counts cases)")
    ap.add_argument("--shrink", action="store_true"); ap.add_argument("--show", type=int, default=3)
    ap.add_argument("--tags", action="store_true")
    a = ap.parse_args()
    pid = a.prop.lower()
    prop = importlib.import_module(("harness.corr." if a.corr else "harness.props.") + pid)
    lib.import_gfapy()
    n_ex = prop.n_exhaustive(a.tier) if hasattr(prop, "n_exhaustive") else 0
    n = a.n if a.n is not None else prop.budget(a.tier)
    idx = [("cx" if a.corr else "x", i) for i in range(n_ex)] + [("cr" if a.corr else "r", i) for i in range(n)]
    fails = []; cnt = collections.Counter(); tags = collections.Counter(); allsig = collections.Counter()
    for kind, i in idx:
        if kind in ("x", "cx"):
            case = prop.exhaustive_case(i, a.tier)
        else:
            case = prop.gen_case(lib.Rng(lib.sub_seed(a.seed, pid.upper(), kind, i)), a.tier, i)
        if hasattr(prop, "tags"):
            for t in prop.tags(case):
                tags[t] += 1
        if not hasattr(prop, "oracle"):
            continue
        try:
            f = list(prop.oracle(case) or [])
        except Exception as e:  # noqa
            f = ["HARNESS-EXCEPTION %s: %s" % (e.__class__.__name__, traceback.format_exc()[-600:])]
        if f:
            fails.append((kind, i, case, f))
            sig = prop.signature(case, f[0]) if hasattr(prop, "signature") else f[0].split(":")[0]
            cnt[sig] += 1
            for x in f[1:]:
                allsig[prop.signature(case, x) if hasattr(prop, "signature") else x.split(":")[0]] += 1
    print("%d failing of %d cases (%d exhaustive); signatures: %s" % (len(fails), len(idx), n_ex, dict(cnt)))
    if allsig:
        print("signatures of further failures of these cases: %s" % dict(allsig))
    seen = set()
    for kind, i, case, f in fails:
        sig = prop.signature(case, f[0]) if hasattr(prop, "signature") else f[0].split(":")[0]
        if sig in seen or len(seen) >= a.show:
            continue
        seen.add(sig)
        if a.shrink and hasattr(prop, "shrink"):
            try:
                case = prop.shrink(case, f[0])
            except Exception:  # noqa
                pass
        print("--- %s %d  %s\n    case: %s\n    fail: %s" % (kind, i, sig, str(case)[:1200], [x[:500] for x in f[:2]]))
    if a.tags:
        print(dict(tags))
    sys.exit(1 if fails else 0)


if __name__ == "__main__":
    main()
