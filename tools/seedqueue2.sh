#!/bin/bash
# round 2: process every finished mutation dir /tmp/wt2/Cxx/_out/mN not yet in /verif/seeded (sequential: /repo is shared)
cd /verif
for d in /tmp/wt2/C*/_out/m*; do
  [ -f "$d/patch.diff" ] && [ -f "$d/demo.py" ] || continue
  p=$(echo "$d" | sed -E 's#/tmp/wt2/(C[0-9]+)/_out/.*#\1#'); n=r2$(basename "$d")
  [ -f "seeded/$p-$n/meta.json" ] && continue
  echo "=== $p $n"; /venv/bin/python tools/seedtest.py "$p" "$d" --name "$n" 2>&1 | tail -4
done
