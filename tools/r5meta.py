import json, os
R = {
"C01-r5m1": ("header/multiline.py `_merge`: a tag whose stored value `==` the new one is skipped", "same header tag in two H lines with an equal value, repeated while the header still holds a single value (ct:i:7 twice)"),
"C01-r5m2": ("field/float.py `validate_decoded`: abs(value) > FLT_MAX (float32) refused, on the writing side only", "`f` tag beyond 3.4028e38 (xx:f:3.5e38), parsed then written"),
"C02-r5m1": ("gap/references.py + fragment/references.py: placeholder segment registered with `_register_line`, no `connect()`", "U/O group mentions x, then a G or F line names x as segment, before `S x` (and before any E naming x)"),
"C02-r5m2": ("group/path/references.py `_initialize_segments`: per-name cache, `_add_reference(self, 'paths')` only on first sight", "GFA1 path visiting the same segment more than once (a+,b+,a+)"),
"C03-r5m1": ("virtual_to_real.py `_import_nonfield_references`: only the DEPENDENT_LINES collections are copied from the placeholder", "GFA2 named gap listed by a U group, the U line arriving before the G line (g.sets empty)"),
"C03-r5m2": ("edge/gfa2/references.py `_backreference_keys`: for an S line only `sid1` or `sid2`, chosen by name", "GFA2 E line with sid1 and sid2 the same segment, arriving before its S line"),
"C04-r5m1": ("rgfa.py `_validate_rgfa_tags_in_lines`: `continue` when the mandatory table of the record type is empty (L)", "dialect rgfa, L line carrying SR / L1 / L2 with a datatype other than i (SR:Z:0)"),
"C04-r5m2": ("alignment/alignment.py `_from_string`: `Trace.validate()` no longer called after `Trace._from_string`", "GFA2 E/F line whose trace alignment has a negative element that is not the first (12,-8)"),
"C05-r5m1": ("lines/destructors.py `rm`: new sweep disconnects virtual segments with no edges and no paths", "GFA2 gap or fragment on a still undefined segment, then `rm()` of any unrelated line"),
"C05-r5m2": ("field_data.py `_set_existing_field`: rename onto a same-type placeholder accepted via `_substitute_virtual_line`", "line mentions undefined segment b, a connected segment a with dependants is renamed to b, then rm(b)"),
"C06-r5m1": ("segment/gfa1_to_gfa2.py `_to_gfa2_a`: tags written with `_to_gfa_tag(value, fn)`, datatype guessed from the value", "GFA1 segment with an A tag or a J tag holding a flat int/float (or empty) array, converted to GFA2"),
"C06-r5m2": ("edge/gfa1/to_gfa2.py `_to_gfa2_a`: overlap checked with `_validate_gfa_field(overlap, 'alignment_gfa2')` (decoded branch = gfa1)", "link/containment with =, X, N, S or H in the CIGAR, `to_gfa2_s()` at any vlevel or `to_gfa2()` at vlevel 0"),
"C07-r5m1": ("field_data.py `_set_existing_field`: name-removal error message joins `g.name` of the referring groups", "GFA2 group with pid `*` listing a named line, then `set(<name field>, '*')` on that line (TypeError)"),
"C07-r5m2": ("lines/finders.py `__line_by_name`: scans every collection of `_records` except H (F is keyed by external name)", "GFA2 with an F line, then lookup / rm / add / mention of an identifier equal to its external name (AttributeError)"),
"C08-r5m1": ("group/path/references.py: `_compute_required_links` made a generator, `_initialize_links` iterates it lazily", "vlevel 0, P line with fewer overlaps than steps but not `*` (`P p a+,b+,c+ 10M`): rejected, placeholders stay"),
"C08-r5m2": ("group/gfa2/same_id.py `_process_not_unique`: tag check moved after `_initialize_references()`", "second U/O line with the identifier of a stored group and a shared tag with a different value (xx:i:1 / xx:i:2)"),
"C09-r5m1": ("field_data.py `set`: a predefined tag not yet in `_data` is written directly, bypassing `_set_existing_field`", "connected GFA1 L/C without ID: `set('ID', x)` or `to_gfa2()`, then lookup / reuse of x / rm of the link"),
"C09-r5m2": ("lines/finders.py `_search_duplicate`: only the record types of the version are searched, gfa1 = S and P", "GFA1 L or C with an ID tag, then an S / P / C line arriving after it with the same identifier"),
"C10-r5m1": ("rgfa.py `_validate_rgfa_tags_in_lines`: `.copy()` lost, optional tags `update()` the class-level mandatory table", "dialect rgfa, L line lacking SR / L1 / L2, a second `validate()` or another rGFA Gfa in the same process"),
"C10-r5m2": ("alignment/cigar.py `complement`: operations with an unchanged code (M = X P H) appended as the same object", "in-place edit of an M operation of `link.complement().overlap` (`op.length -= 1`), then write the original"),
"C11-r5m1": ("topology.py `__traverse_component`: explicit stack, only the end opposite to the arrival end is pushed", "fork: two dovetails on the same end of a segment (`L a + c +`, `L b + c +`), one branch reachable only there"),
"C11-r5m2": ("gap/references.py `_initialize_references`: gap filed only if `self not in` the collection (content equality)", "two content-identical anonymous G lines on the same segment ends, or a gap `a+ a-` on one end"),
"C12-r5m1": ("segment/references.py `_backreference_keys`: for an L line only the `dovetails_` list of one end", "self-loop link with equal orientations (A+ A+), path over it arriving before the link, or rm of the link"),
"C12-r5m2": ("link/equivalence.py `is_complement`: the overlap of self is not compared when it is `*`", "two links in opposite forms (or a hairpin), one with `*` and one with a CIGAR; test called on / line added is the `*` one"),
"C13-r5m1": ("creators.py `__add_line_unknown_version` (H): `_version` assigned before `header._merge()`", "`H TS:i:100`, then refused `H VN:Z:2.0 TS:i:200`, then GFA1 content (or lines queued before the refused header)"),
"C13-r5m2": ("gfa.py `dialect` setter: `_checked_dialect` validates `lower()` but returns the name as given", "`g.dialect = 'rGFA'` through the setter (not all lower-case), GFA2 content, then `validate()` / `read_file()`"),
"C14-r5m1": ("linear_paths.py `_add_segment_to_merged`: `if not s` instead of `is_placeholder(segment.sequence)`", "GFA1 chain with a non-first member whose all-M overlap equals its length (`S B CCG`, `L A + B + 3M`)"),
"C14-r5m2": ("group/path/references.py `_remove_nonfield_backreferences`: `l.virtual` filter lost, overlap of every link reset", "GFA1 path through a chain and on over a real link with a CIGAR outside of it, then `merge_linear_paths`"),
"C15-r5m1": ("multiplication.py `__divide_segment_and_connection_counts`: loops over `segment.edges` (includes internals)", "GFA2 multiplied segment with an internal-overlap E line carrying RC / FC / KC, factor >= 2"),
"C15-r5m2": ("multiplication.py `__clone_segment_and_connections`: `if lc.to_segment == ...` becomes `elif`", "multiplied segment with an edge to itself (circular link `L s + s + 5M`, hairpin, self E), factor >= 2"),
"C16-r5m1": ("edge/gfa2/references.py `_refkey_for_s`: dovetail end chosen by comparing the sid name with `from_name`", "GFA2 dovetail of a segment with itself in the same orientation (`E * a+ a+ 90 100$ 0 10`), then n_dead_ends"),
"C16-r5m2": ("field_data.py `_set_existing_field`: line registered under the new name first, previous key popped afterwards", "connected segment assigned the name it already has (`s.name = s.name.lower()`), then topology queries"),
"C17-r5m1": ("group/gfa2/same_id.py `_process_not_unique`: a line whose items equal those of the group so far adds no items", "two O (or U) lines with one identifier and identical item lists (`O lap a+ b+ c+` twice)"),
"C17-r5m2": ("ordered/captured_path.py: helper `_oriented_segments_of_edge` complements but does not swap the first edge", "O group whose first item is an edge with `-`, alone (`O single e1-`), before an edge on the same two segments, or a hairpin"),
"C18-r5m1": ("header/multiline.py `_check_mergeable`: previous datatype guessed with `_get_default_gfa_tag_datatype(prev)`", "vlevel 2 or 3, the same A tag (or J tag with a numeric / empty array) defined in two H lines"),
"C18-r5m2": ("creators.py `__add_line_unknown_version` (E F G U O): the line is built without `vlevel=self._vlevel`", "Gfa(vlevel 2/3) without version, first E/F/G/U/O string line before any S or VN, invalid value set on that line"),
"C19-r5m1": ("custom_record/construction.py `clone`: `_positional_fieldnames` recomputed with `sorted()` (field10 < field2)", "clone of a custom record with at least 10 positional fields, then write it"),
"C19-r5m2": ("lastpos.py `__new__`: valid non-negative int values pooled, `LastPos(v)` returns the pooled instance", "clone of an E/F line with a `$` position, in-place edit `clone.end1.value -= 7`, then write the original"),
"C20-r5m1": ("field/field.py `_get_default_gfa_tag_datatype`: dict lookup by `type(obj)`, fallback `Z`", "new tag set to an instance of a subclass of dict / list / int / float (OrderedDict, IntEnum member)"),
"C20-r5m2": ("field/json.py `encode` / `unsafe_encode`: `json.dumps(obj, default=str)`", "J value (list/dict) with a nested non-JSON element (ByteArray, set, Decimal, Placeholder), validated or written"),
}
for k,(c,n) in R.items():
    p="/verif/seeded/%s/meta.json"%k
    if not os.path.exists(p): print("missing",k); continue
    m=json.load(open(p)); m["change"]=c; m["needs"]=n; m["round"]=5
    json.dump(m,open(p,"w"),indent=1)
print("done")
