#!/venv/bin/python
"""Regenerates the seeded-changes table of DESIGN.md (between the BEGIN/END:seeded markers) from seeded/*/meta.json."""
import json, glob, os, re
VERIF = os.path.dirname(os.path.dirname(os.path.abspath(__file__)))
rows = ["| id | change (still passes the 365 tests) | needs | first quick run | now | caught by |", "|---|---|---|---|---|---|"]
n = caught = first = 0
for p in sorted(glob.glob(os.path.join(VERIF, "seeded", "*", "meta.json"))):
    m = json.load(open(p))
    n += 1
    fr = m.get("first_run", {})
    f_ok = any(v == 1 for v in fr.values())
    first += f_ok
    now = m.get("detected_by", [])
    caught += bool(now)
    how = m.get("caught_by", "")
    rows.append("| %s | %s | %s | %s | %s | %s |" % (m["id"], m.get("change", ""), m.get("needs", ""), "caught" if f_ok else "missed",
                                                 "caught" if now else "MISSED", how))
rows.append("")
rows.append("First run: %d of %d caught; now: %d of %d." % (first, n, caught, n))
path = os.path.join(VERIF, "DESIGN.md")
s = open(path).read()
s = re.sub(r"<!-- BEGIN:seeded -->.*<!-- END:seeded -->", "<!-- BEGIN:seeded -->\n" + "\n".join(rows) + "\n<!-- END:seeded -->", s, flags=re.S)
open(path, "w").write(s)
print("\n".join(rows[-3:]))
