#!/venv/bin/python
"""Regenerates the seeded-changes table of DESIGN.md (between the BEGIN/END:seeded markers) from seeded/*/meta.json."""
import json, glob, os, re
VERIF = os.path.dirname(os.path.dirname(os.path.abspath(__file__)))
rows = ["| id | change (still passes the 365 tests) | needs | first quick run | now | caught by |", "|---|---|---|---|---|---|"]
rounds = {}
n = caught = first = 0
neutralised = []
for p in sorted(glob.glob(os.path.join(VERIF, "seeded", "*", "meta.json"))):
    m = json.load(open(p))
    n += 1
    fr = m.get("first_run", {})
    f_ok = any(v == 1 for v in fr.values())
    first += f_ok
    rd = rounds.setdefault(m.get("round", 1), [0, 0, 0])
    rd[0] += 1; rd[1] += f_ok; rd[2] += bool(m.get("detected_by"))
    now = m.get("detected_by", [])
    neutral = m.get("neutralised")
    if neutral:
        # a later repair of gfapy removed the effect of this change: with it applied the property holds again
        neutralised.append(m["id"])
        now = ["n/a"]
    caught += bool(now)
    how = m.get("caught_by", "")
    rows.append("| %s | %s | %s | %s | %s | %s |" % (m["id"], m.get("change", ""), m.get("needs", ""), "caught" if f_ok else "missed",
                                                 ("no longer a defect" if neutral else "caught") if now else "MISSED",
                                                 (neutral if neutral else how)))
rows.append("")
rows.append("First run: %d of %d caught; now: %d of %d%s.  " % (first, n, caught, n, (" (%d of them no longer defects after a later repair: %s)" % (len(neutralised), ", ".join(neutralised))) if neutralised else "") +
            "; ".join("round %s: %d changes, %d caught at the first run, %d now" % (k, v[0], v[1], v[2]) for k, v in sorted(rounds.items())))
path = os.path.join(VERIF, "DESIGN.md")
s = open(path).read()
block = "<!-- BEGIN:seeded -->\n" + "\n".join(rows) + "\n<!-- END:seeded -->"
s = re.sub(r"<!-- BEGIN:seeded -->.*<!-- END:seeded -->", lambda m: block, s, flags=re.S)
open(path, "w").write(s)
print("\n".join(rows[-3:]))
