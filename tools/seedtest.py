#!/venv/bin/python
"""seedtest.py <Cxx> <mutation-dir> [--checks C01,C02] [--tier quick]

Confirms a seeded change (patch.diff + demo.py) in a scratch worktree, then applies it to /repo, runs the
registered check(s), undoes it, and stores everything as /verif/seeded/<Cxx>-<name>/.
The patch is never committed to /repo.
"""
import sys, os, json, subprocess, shutil, time, argparse, re

VERIF = os.path.dirname(os.path.dirname(os.path.abspath(__file__)))
PY = "/venv/bin/python"


def sh(cmd, cwd=None, env=None, timeout=3600):
    p = subprocess.run(cmd, cwd=cwd, env=env, shell=isinstance(cmd, str), stdout=subprocess.PIPE,
                       stderr=subprocess.STDOUT, text=True, timeout=timeout)
    return p.returncode, p.stdout


def main():
    ap = argparse.ArgumentParser()
    ap.add_argument("prop")
    ap.add_argument("mdir")
    ap.add_argument("--checks", default=None)
    ap.add_argument("--tier", default="quick")
    ap.add_argument("--name", default=None)
    ap.add_argument("--skip-confirm", action="store_true")
    ap.add_argument("--scratch", action="store_true",
                    help="apply the patch to a scratch worktree of /repo's HEAD and run the checks with GFAPY_REPO pointing at it "
                         "(used while a long run reads /repo itself); the default applies it to /repo and undoes it")
    a = ap.parse_args()
    prop = a.prop.upper()
    mdir = os.path.abspath(a.mdir)
    name = a.name or os.path.basename(mdir.rstrip("/"))
    sid = "%s-%s" % (prop, name)
    out = os.path.join(VERIF, "seeded", sid)
    os.makedirs(out, exist_ok=True)
    for f in ("patch.diff", "demo.py", "notes.md"):
        if os.path.exists(os.path.join(mdir, f)) and os.path.abspath(mdir) != os.path.abspath(out):
            shutil.copy(os.path.join(mdir, f), os.path.join(out, f))
    patch = os.path.join(out, "patch.diff")
    demo = os.path.join(out, "demo.py")
    meta_path = os.path.join(out, "meta.json")
    meta = json.load(open(meta_path)) if os.path.exists(meta_path) else {}
    meta.update({"id": sid, "breaks_property": prop})

    if not a.skip_confirm:
        wt = "/tmp/seedwt_%s" % sid
        sh(["git", "-C", "/repo", "worktree", "remove", "--force", wt])
        rc, o = sh(["git", "-C", "/repo", "worktree", "add", "--detach", wt, "HEAD"])
        assert rc == 0, o
        try:
            env = dict(os.environ, PYTHONPATH=wt)
            rc0, o0 = sh([PY, demo], cwd=wt, env=env, timeout=900)
            rc, o = sh(["git", "apply", patch], cwd=wt)
            assert rc == 0, "patch does not apply: " + o
            rct, ot = sh([PY, "-m", "pytest", "-q", "-p", "no:cacheprovider", "--timeout=900", "tests"], cwd=wt, env=env, timeout=1800)
            tail = ot.strip().splitlines()[-1] if ot.strip() else ""
            rc1, o1 = sh([PY, demo], cwd=wt, env=env, timeout=900)
            meta["confirmed"] = {
                "demo_exit_unmodified": rc0, "demo_exit_patched": rc1,
                "demo_output_patched_tail": o1[-600:],
                "pytest_summary_patched": tail,
                # tests/test_api_rgfa.py::test_stable_sequence_names fails or passes with the hash seed (baseline: always_fail)
                "suite_unchanged": bool(re.search(r"\b1 failed, 365 passed\b", tail)) or bool(re.search(r"^366 passed", tail)),
            }
            print("confirm: demo clean=%d patched=%d; pytest: %s" % (rc0, rc1, tail))
        finally:
            sh(["git", "-C", "/repo", "worktree", "remove", "--force", wt])
            shutil.rmtree(wt, ignore_errors=True)

    checks = (a.checks.split(",") if a.checks else [prop])
    target = "/repo"
    env = None
    if a.scratch:
        target = "/tmp/seedscratch_%s" % sid
        sh(["git", "-C", "/repo", "worktree", "remove", "--force", target])
        rc, o = sh(["git", "-C", "/repo", "worktree", "add", "--detach", target, "HEAD"])
        assert rc == 0, o
        env = dict(os.environ, GFAPY_REPO=target)
        meta["ran_against"] = "scratch worktree of /repo HEAD (GFAPY_REPO)"
    else:
        meta.pop("ran_against", None)
    rc, o = sh(["git", "-C", target, "status", "--porcelain"])
    assert o.strip() == "", target + " not clean: " + o
    rc, o = sh(["git", "-C", target, "apply", patch])
    assert rc == 0, o
    res = meta.setdefault("checks", {})
    try:
        for c in checks:
            t0 = time.time()
            rc, o = sh(["./check", c, "--tier", a.tier], cwd=VERIF, timeout=7200, env=env)
            viol = [l for l in o.splitlines() if l.startswith("VIOLATION")]
            res["%s:%s" % (c, a.tier)] = {"exit": rc, "violation_lines": viol[:5], "summary": o.strip().splitlines()[-1:] , "wall_s": round(time.time() - t0, 1)}
            print("check %s %s: exit=%d %s" % (c, a.tier, rc, viol[:2]))
            # keep the first replay as an example
            for v in viol[:1]:
                m = re.search(r"replay=(\S+)", v)
                if m and os.path.exists(os.path.join(VERIF, m.group(1))):
                    shutil.copy(os.path.join(VERIF, m.group(1)), os.path.join(out, "replay_%s.json" % c))
                    try:
                        rp = json.load(open(os.path.join(VERIF, m.group(1))))
                        what = rp.get("signature") or ", ".join(rp.get("no_longer_checks", [])[:3])
                        kind = "oracle" if rp.get("kind") == "oracle" else rp.get("kind", "?")
                        extra = " (no-failing-input-found)" if "no-failing-input-found" in v else ""
                        meta["caught_by"] = "%s %s: `%s`%s" % (c, kind, str(what)[:90], extra)
                    except Exception:
                        pass
    finally:
        if a.scratch:
            sh(["git", "-C", "/repo", "worktree", "remove", "--force", target])
            shutil.rmtree(target, ignore_errors=True)
        else:
            sh(["git", "-C", "/repo", "checkout", "--", "."])
            rc, o = sh(["git", "-C", "/repo", "status", "--porcelain"])
            assert o.strip() == "", "/repo not restored: " + o
    meta["detected_by"] = sorted(k for k, v in res.items() if v["exit"] == 1)
    if not meta["detected_by"]:
        meta.pop("caught_by", None)
    meta.setdefault("first_run", {k: v["exit"] for k, v in res.items()})
    json.dump(meta, open(meta_path, "w"), indent=1, sort_keys=True)


if __name__ == "__main__":
    main()
