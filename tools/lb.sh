#!/bin/bash
# build Lean targets by hand while checks may be running: same lock as harness/check.py, GfaGen regenerated from /repo first
cd /verif/lean
exec flock .check.lock bash -c '/venv/bin/python /verif/translator/extract.py --repo /repo --out /verif/lean/GfaGen >/dev/null 2>&1; lake build "$@" 2>&1 | grep -E "error|Build completed|sorry" -A12 | grep -v "^WARNING conda" | head -${LB_LINES:-60}' _ "$@"
