import json, os
R = {
"C02-r6m1": ("connection.py: self-reference / namespace pre-checks share `_mentioned_identifiers()`, which skips oriented identifiers inside lists (P segment_names, O items)", "an O/P line that lists its own identifier, or a path whose later step names a non-segment line (inputs the unchanged tree refuses)"),
"C02-r6m2": ("virtual_to_real.py + update_references.py: referring lines asked once per collection, replacement stops at the first hit (two sites)", "a line mentioning a placeholder twice in one list (P A+,B+,A+ / O a+ b+ a+ / U x x) before the definition arrives"),
"C03-r6m1": ("creators.py + virtual_to_real.py: in-place registry swap keeps the placeholder's key: an ID-tagged link replacing a path-created placeholder is stored under id()", "GFA1 link with ID tag, a path over it, P arriving before L"),
"C03-r6m2": ("link/references.py `_import_field_references`: a link with `*` overlap takes over the overlap of the placeholder it replaces", "link with `*` overlap, path stating CIGARs, P before L"),
"C05-r6m1": ("destructors.py `_unregister_line` (F): the whole entry of the external sequence is popped", "two F lines sharing an external identifier, one of them removed"),
"C05-r6m2": ("oriented_line.py `__str__` memoised, cleared only by the line/orient setters", "write, rename the referenced line, write again (E/G sid, O items, P segment names keep the old name)"),
"C08-r6m1": ("virtual_to_real.py `_substitute_virtual_line`: placeholder unregistered before the references are imported", "U/O mentions an identifier, then an E line of that name fails in `_initialize_references` (misplaced `$`): the placeholder is gone"),
"C08-r6m2": ("field_data.py: early validation of the new storage key only for lines stored by name (fragments lose it at level 1-2)", "`fragment.external = 'read3'` (not an oriented identifier) on a connected F line at level 1 or 2"),
"C09-r6m1": ("path/references.py `_initialize_segments`: segments already seen are skipped, later mentions stay strings", "P line visiting a segment twice, then rename of that segment"),
"C09-r6m2": ("connection.py `_referenced_names()` reads `_data` raw: an unparsed string reference field is compared with the name as text", "caller-built E/G/O/U/P line whose reference field was assigned as a string mentioning its own identifier, then added"),
"C13-r6m1": ("creators.py `process_line_queue`: iterates the live queue and clears it only at the end", "two queued lines (valid before invalid), the version becomes known, the VersionError is caught, the queue is replayed again"),
"C13-r6m2": ("gfa.py `__init__`: final `process_line_queue()` only if something is queued", "constructor data with neither a version-determining nor a queued line (empty, comments, H without VN): version stays None"),
"C14-r6m1": ("linear_paths.py `__create_merged_segment`: overlap length adds up `M` only (`=` counts 0)", "GFA1 chain whose joining overlap contains `=` operations"),
"C14-r6m2": ("linear_paths.py `__traverse_linear_path`: `exclude.add(current)` (a SegmentEnd, hash/eq of its string)", "segments named `X` and `XR`/`XL`, `X` the last member of a path left through that end, `XR` in a chain reached later"),
"C15-r6m1": ("disconnection.py: dependants iterated on the live list", "multiply(s, 0) on a segment with two dovetails on one end / two containments in one role / two paths"),
"C15-r6m2": ("multiplication.py `_compute_copy_names`: `offset = 0` inside the loop", "factor >= 3 with one of the default `*N` names (not the last) already taken"),
"C16-r6m1": ("collections.py `segment_names` leaves out placeholder segments", "edges before / without their S lines: a component made of placeholder segments only"),
"C16-r6m2": ("connection.py `_check_segment_references`: `return` instead of `continue` at the first existing segment", "refused line whose bad identifier is not its first segment reference (L C + l1 + *): stays in `dovetails_R`, counts off"),
"C17-r6m1": ("captured_path.py `_find_edge_from_path_to_segment`: edges fitting as written first, reversed ones only if none", "two edges between the same segments in opposite notations, path leaving the edge out: ambiguity not reported"),
"C17-r6m2": ("induced_set.py: lines de-duplicated by `str(line.name)`", "induced set whose segments are joined by two edges with eid `*`"),
}
for k,(c,n) in R.items():
    p="/verif/seeded/%s/meta.json"%k
    if not os.path.exists(p): print("missing",k); continue
    m=json.load(open(p)); m["change"]=c; m["needs"]=n; m["round"]=6
    json.dump(m,open(p,"w"),indent=1)
print("done")
