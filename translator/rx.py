"""Python `re` pattern  ->  Lean `Gfa.RE` term (for the subset gfapy uses).

The pattern is parsed by CPython's own parser (re._parser), so what is translated is what
the interpreter would execute.  Returns (lean_term, mode) where mode is
  "full"   : the pattern, used with re.match, can only succeed on the whole string
  "prefix" : re.match without end anchor
Python's `$` (AT_END) is translated faithfully as "end of string, or before one final \\n";
`\\Z` (AT_END_STRING) as the plain end.
"""
import re
try:
    import re._parser as sre_parse
    import re._constants as C
except ImportError:  # py < 3.11
    import sre_parse
    import sre_constants as C

MAXCH = 0x10FFFF
_cat_cache = {}


def _category_ranges(cat):
    if cat in _cat_cache:
        return _cat_cache[cat]
    pat = {C.CATEGORY_DIGIT: r"\d", C.CATEGORY_SPACE: r"\s", C.CATEGORY_WORD: r"\w",
           C.CATEGORY_NOT_DIGIT: r"\D", C.CATEGORY_NOT_SPACE: r"\S", C.CATEGORY_NOT_WORD: r"\W"}[cat]
    rx = re.compile(pat)
    rs = []; start = None
    for i in range(MAXCH + 1):
        if 0xD800 <= i <= 0xDFFF:
            ok = False
        else:
            ok = rx.match(chr(i)) is not None
        if ok and start is None:
            start = i
        if not ok and start is not None:
            rs.append((start, i - 1)); start = None
    if start is not None:
        rs.append((start, MAXCH))
    _cat_cache[cat] = rs
    return rs


def _norm(rs):
    rs = sorted(rs)
    out = []
    for a, b in rs:
        if out and a <= out[-1][1] + 1:
            out[-1] = (out[-1][0], max(out[-1][1], b))
        else:
            out.append((a, b))
    return out


def _negate(rs):
    rs = _norm(rs)
    out = []; cur = 0
    for a, b in rs:
        if a > cur:
            out.append((cur, a - 1))
        cur = b + 1
    if cur <= MAXCH:
        out.append((cur, MAXCH))
    # remove surrogates (not valid Lean Char)
    res = []
    for a, b in out:
        if b < 0xD800 or a > 0xDFFF:
            res.append((a, b))
        else:
            if a < 0xD800:
                res.append((a, 0xD7FF))
            if b > 0xDFFF:
                res.append((0xE000, b))
    return res


def _ch(i):
    c = chr(i)
    if c == "'":
        return "'\\''"
    if c == "\\":
        return "'\\\\'"
    if 32 <= i < 127:
        return "'%s'" % c
    return "(Char.ofNat %d)" % i


def _cls(rs):
    return "(.cls [%s])" % ", ".join("(%s, %s)" % (_ch(a), _ch(b)) for a, b in rs)


class Unsupported(Exception):
    pass


def _seq(items):
    """items: list of (lean, ends_anchored)"""
    terms = [t for t in items if t != ".eps"]
    if not terms:
        return ".eps"
    out = terms[-1]
    for t in reversed(terms[:-1]):
        out = "(.seq %s %s)" % (t, out)
    return out


def _conv(sub, state):
    terms = []
    n = len(sub)
    for k, (op, av) in enumerate(sub):
        if op is C.LITERAL:
            terms.append(_cls([(av, av)]))
        elif op is C.NOT_LITERAL:
            terms.append(_cls(_negate([(av, av)])))
        elif op is C.ANY:
            terms.append(_cls(_negate([(10, 10)])))
        elif op is C.IN:
            rs = []; neg = False
            for o2, a2 in av:
                if o2 is C.NEGATE:
                    neg = True
                elif o2 is C.LITERAL:
                    rs.append((a2, a2))
                elif o2 is C.RANGE:
                    rs.append(a2)
                elif o2 is C.CATEGORY:
                    rs.extend(_category_ranges(a2))
                else:
                    raise Unsupported(str(o2))
            rs = _norm(rs)
            terms.append(_cls(_negate(rs) if neg else rs))
        elif op is C.SUBPATTERN:
            terms.append(_conv(av[3], state))
        elif op is C.BRANCH:
            alts = [_conv(x, state) for x in av[1]]
            out = alts[-1]
            for t in reversed(alts[:-1]):
                out = "(.alt %s %s)" % (t, out)
            terms.append(out)
        elif op in (C.MAX_REPEAT, C.MIN_REPEAT):
            lo, hi, body = av
            b = _conv(body, state)
            if (lo, hi) == (0, C.MAXREPEAT):
                terms.append("(.star %s)" % b)
            elif (lo, hi) == (1, C.MAXREPEAT):
                terms.append("(RE.plus %s)" % b)
            elif (lo, hi) == (0, 1):
                terms.append("(RE.opt %s)" % b)
            else:
                raise Unsupported("repeat {%s,%s}" % (lo, hi))
        elif op is C.AT:
            if av is C.AT_BEGINNING or av is C.AT_BEGINNING_STRING:
                if k != 0:
                    raise Unsupported("^ not at the start")
            elif av is C.AT_END:
                if k != n - 1:
                    raise Unsupported("$ not at the end")
                state["anchored"] += 1
                terms.append("(RE.opt %s)" % _cls([(10, 10)]))
            elif av is C.AT_END_STRING:
                if k != n - 1:
                    raise Unsupported("\\Z not at the end")
                state["anchored"] += 1
            else:
                raise Unsupported(str(av))
        elif op is C.CATEGORY:
            terms.append(_cls(_category_ranges(av)))
        else:
            raise Unsupported(str(op))
    return _seq(terms)


def _ends_anchored(p):
    """every way through the top-level pattern ends in an end anchor"""
    if len(p) == 0:
        return False
    op, av = p[len(p) - 1]
    if op is C.AT and av in (C.AT_END, C.AT_END_STRING):
        return True
    if op is C.BRANCH:
        return all(_ends_anchored(x) for x in av[1])
    if op is C.SUBPATTERN:
        return _ends_anchored(av[3])
    return False


def py_regex_to_lean(pattern):
    p = sre_parse.parse(pattern)
    state = {"anchored": 0}
    term = _conv(p, state)
    mode = "full" if _ends_anchored(p) else "prefix"
    return term, mode
