"""T3: AST translation of small pure Python functions (whitelisted syntax) into Lean 4.

Supported: docstring, if/elif/else chains whose branches end in return/raise, return of
constants / tuples / names / bound attribute expressions, comparisons, and/or/not, calls to a
fixed vocabulary.  Anything else raises NotImplementedError: the bridge lemma is then *missing*
and the check treats that exactly like a lemma that fails.
"""
import ast, inspect, textwrap

class T3:
    """python (whitelisted subset) -> Lean 4 term. Returns Except String α style via `throw`."""
    def __init__(self, bindings, calls, strmap=None, excmap=None, ret="pure %s", throw='throw "%s"', tests=None):
        self.b = bindings; self.calls = calls
        self.tests = tests or {}       # python truthiness of a name used as a condition, spelled out per name
        self.strmap = strmap or {}; self.excmap = excmap or {}
        self.ret = ret; self.throw = throw
    def expr(self, e):
        if isinstance(e, ast.Constant):
            v = e.value
            if v is None: return "none"
            if isinstance(v, bool): return "true" if v else "false"
            if isinstance(v, int): return str(v)
            if isinstance(v, str): return self.strmap.get(v, '"%s"' % v)
        if isinstance(e, ast.Name):
            return self.b.get(e.id, e.id)
        if isinstance(e, ast.Attribute):
            k = ast.unparse(e)
            if k in self.b: return self.b[k]
        if isinstance(e, ast.Tuple):
            return "(" + ", ".join(self.expr(x) for x in e.elts) + ")"
        if isinstance(e, ast.BoolOp):
            op = " && " if isinstance(e.op, ast.And) else " || "
            return "(" + op.join(self.expr(v) for v in e.values) + ")"
        if isinstance(e, ast.UnaryOp) and isinstance(e.op, ast.Not):
            return "(!" + self.expr(e.operand) + ")"
        if isinstance(e, ast.Compare) and len(e.ops) == 1 and isinstance(e.ops[0], ast.In) and \
                isinstance(e.comparators[0], ast.List):
            # x in [a, b, ...]
            return "(List.contains [%s] %s)" % (", ".join(self.expr(x) for x in e.comparators[0].elts), self.expr(e.left))
        if isinstance(e, ast.Compare) and len(e.ops) == 1:
            l, r = self.expr(e.left), self.expr(e.comparators[0])
            o = e.ops[0]
            m = {ast.Eq:"==", ast.NotEq:"!=", ast.Lt:"<", ast.LtE:"<=", ast.Gt:">", ast.GtE:">="}
            if type(o) in m: return "decide (%s %s %s)" % (l, m[type(o)].replace("==","=").replace("!=","≠"), r)
        if isinstance(e, ast.Call):
            k = ast.unparse(e.func)
            if k in self.calls:
                return "(" + self.calls[k] + " " + " ".join(self.expr(a) for a in e.args) + ")"
        raise NotImplementedError(ast.dump(e)[:120])
    def test(self, e):
        """a condition: a bare name is Python truthiness, given per name in `tests`"""
        k = ast.unparse(e)
        if k in self.tests:
            return self.tests[k]
        return self.expr(e)            # (a bare name not listed must be a Bool: anything else does not compile)
    def block(self, stmts, ind):
        s = stmts[0]; pad = "  " * ind
        if isinstance(s, ast.Expr) and isinstance(s.value, ast.Constant):   # docstring
            return self.block(stmts[1:], ind)
        if isinstance(s, ast.Return):
            return pad + self.ret % self.expr(s.value)
        if isinstance(s, ast.Raise):
            exc = ast.unparse(s.exc.func).split(".")[-1]
            return pad + self.throw % self.excmap.get(exc, exc)
        if isinstance(s, ast.If):
            rest = stmts[1:]
            els = s.orelse if s.orelse else rest
            if s.orelse and rest: raise NotImplementedError("code after if/else")
            body_falls = not isinstance(s.body[-1], (ast.Return, ast.Raise, ast.If))
            if body_falls: raise NotImplementedError("fallthrough")
            return (pad + "if " + self.test(s.test) + " then\n" + self.block(s.body, ind+1) +
                    "\n" + pad + "else\n" + self.block(els, ind+1))
        raise NotImplementedError(type(s).__name__)
    def fun(self, f, name, sig):
        src = textwrap.dedent(inspect.getsource(f))
        fd = [n for n in ast.parse(src).body if isinstance(n, ast.FunctionDef)][0]
        return "def %s %s :=\n%s\n" % (name, sig, self.block(fd.body, 1))



def translate_function(f, name, sig, bindings=None, calls=None, post=None, **kw):
    t = T3(bindings or {}, calls or {}, **kw)
    out = t.fun(f, name, sig)
    if post:
        out = post(out)
    return out
