import GfaModel.Regex
import GfaModel.Util.Digits
import GfaModel.Cigar
import GfaModel.CigarText
import GfaModel.Geometry
import GfaModel.GeometrySpec
import GfaModel.Driver
