import GfaGen.Cigar
import GfaGen.Geometry
