import GfaGen.Cigar
