import GfaGen.Cigar
import GfaGen.Geometry
import GfaGen.Regexes
import GfaGen.Multiply
import GfaGen.Seq
import GfaGen.Tags
import GfaGen.Clone
import GfaGen.Connect
