/- Decimal spelling of naturals and integers over `List Char` (Python `str(int)` / `int(str)`). -/
namespace Gfa

def digitChar (d : Nat) : Char := Char.ofNat (48 + d)
def isDigit (c : Char) : Bool := '0' ≤ c && c ≤ '9'
def digitVal (c : Char) : Nat := c.toNat - 48

/-- canonical decimal digits of `n` (what `str(n)` prints) -/
def digitsOf (n : Nat) : List Char :=
  if _h : n < 10 then [digitChar n] else digitsOf (n / 10) ++ [digitChar (n % 10)]
termination_by n
decreasing_by omega

/-- value of a digit string (what `int(s)` computes on `[0-9]+`; leading zeros allowed) -/
def natOf (ds : List Char) : Nat := ds.foldl (fun a c => 10 * a + digitVal c) 0

def allDigits (ds : List Char) : Bool := !ds.isEmpty && ds.all isDigit

/-- `str(i)` for an integer -/
def intStr (i : Int) : List Char :=
  match i with
  | .ofNat n => digitsOf n
  | .negSucc n => '-' :: digitsOf (n + 1)

/-- `int(s)` restricted to the grammar `[-+]?[0-9]+` -/
def intOf? (s : List Char) : Option Int :=
  match s with
  | '-' :: ds => if allDigits ds then some (- (natOf ds : Int)) else none
  | '+' :: ds => if allDigits ds then some (natOf ds : Int) else none
  | ds => if allDigits ds then some (natOf ds : Int) else none

def natOf? (s : List Char) : Option Nat := if allDigits s then some (natOf s) else none

end Gfa
