/-
  Least fixed point of "add every universe element adjacent to the set" — used for connected
  components (C16), induced sets (C17).  Core Lean only.
-/
namespace Gfa.Closure
variable {α : Type} [DecidableEq α]

def newOnes (univ : List α) (adj : α → α → Bool) (d : List α) : List α :=
  univ.filter (fun x => !d.contains x && d.any (fun y => adj y x))

theorem filter_length_le {p q : α → Bool} (l : List α)
    (himp : ∀ x ∈ l, q x = true → p x = true) :
    (l.filter q).length ≤ (l.filter p).length := by
  induction l with
  | nil => simp
  | cons y ys ih =>
    have := ih (fun x hx => himp x (List.mem_cons_of_mem _ hx))
    have hy := himp y (by simp)
    simp only [List.filter_cons]
    by_cases hq : q y = true <;> by_cases hp : p y = true <;> simp_all <;> omega

theorem filter_length_lt {p q : α → Bool} (l : List α)
    (himp : ∀ x ∈ l, q x = true → p x = true) (a : α) (ha : a ∈ l) (hpa : p a = true) (hqa : q a = false) :
    (l.filter q).length < (l.filter p).length := by
  induction l with
  | nil => cases ha
  | cons y ys ih =>
    have hle := filter_length_le (p := p) (q := q) ys (fun x hx => himp x (List.mem_cons_of_mem _ hx))
    have hy := himp y (by simp)
    simp only [List.filter_cons]
    rcases List.mem_cons.mp ha with rfl | hin
    · simp [hpa, hqa]; omega
    · have ih' := ih (fun x hx => himp x (List.mem_cons_of_mem _ hx)) hin
      by_cases hq : q y = true <;> by_cases hp : p y = true <;> simp_all <;> omega

def lfp (univ : List α) (adj : α → α → Bool) (d : List α) : List α :=
  if h : newOnes univ adj d = [] then d else lfp univ adj (d ++ newOnes univ adj d)
termination_by (univ.filter (fun x => !d.contains x)).length
decreasing_by
  obtain ⟨x, hx⟩ := List.exists_mem_of_ne_nil _ h
  have hx' := List.mem_filter.mp hx
  apply filter_length_lt univ _ x hx'.1
  · grind
  · grind
  · grind

end Gfa.Closure
