/-
  Nucleotide sequences: reverse complement (gfapy/sequence.py) and the spelled sequence of a merged
  linear path (gfapy/graph_operations/linear_paths.py `__create_merged_segment`, `_add_segment_to_merged`).
-/
namespace Gfa.Seq

/-- `WCC`: Watson–Crick complement of one character (`none`: not in the table) -/
def wccTable : List (Char × Char) :=
  [('a','t'),('t','a'),('A','T'),('T','A'),('c','g'),('g','c'),('C','G'),('G','C'),
   ('b','v'),('B','V'),('v','b'),('V','B'),('h','d'),('H','D'),('d','h'),('D','H'),
   ('R','Y'),('Y','R'),('r','y'),('y','r'),('K','M'),('M','K'),('k','m'),('m','k'),
   ('S','S'),('s','s'),('w','w'),('W','W'),('n','n'),('N','N'),('u','a'),('U','A'),
   ('-','-'),('.','.'),('=','=')]

def wcc (c : Char) : Option Char := wccTable.lookup c

/-- `rc(sequence)`: `none` when a character has no complement (gfapy raises ValueError) -/
def rc (s : List Char) : Option (List Char) := (s.reverse).mapM wcc

/-- characters on which complementing twice is the identity (everything in the table but `u`/`U`) -/
def involutive (c : Char) : Bool := match wcc c with
  | some d => wcc d == some c
  | none => false

/-- a member of a chain: its sequence, whether it is traversed reversed, how much of its beginning is
    covered by the overlap with its predecessor -/
structure Member where
  seq : List Char
  reversed : Bool
  cut : Nat

def oriented (m : Member) : Option (List Char) := if m.reversed then rc m.seq else some m.seq

/-- spelled sequence of a chain: each member oriented by the traversal, each successor trimmed by the overlap -/
def spell : List Member → Option (List Char)
  | [] => some []
  | m :: ms =>
    match oriented m, spell ms with
    | some s, some rest => some (s.drop m.cut ++ rest)
    | _, _ => none

end Gfa.Seq
