import GfaModel.GraphObs
import GfaModel.Util.Closure
/-
  Connected components and topology counts (gfapy/graph_operations/topology.py).
-/
namespace Gfa.G

def segNames (st : St) : List String := (st.lines.filter (fun r => r.rt = .S)).filterMap Rec.name

def isDovKey (k : Key) : Bool := k == .dovL || k == .dovR

/-- the two segments joined by a dovetail record (L line, or E line classified as dovetail) -/
def dovetailPair (r : Rec) : Option (String × String) :=
  match r.filing with
  | [(a, k1), (b, k2)] => if isDovKey k1 && isDovKey k2 then some (a, b) else none
  | _ => none

def dovetailPairs (st : St) : List (String × String) := st.lines.filterMap dovetailPair

/-- `a` and `b` are the two segments of some dovetail -/
def adj (st : St) (a b : String) : Bool :=
  (dovetailPairs st).any (fun p => (p.1 == a && p.2 == b) || (p.1 == b && p.2 == a))

/-- `segment_connected_component` -/
def component (st : St) (s : String) : List String := Closure.lfp (segNames st) (adj st) [s]

/-- `connected_components`: scan the segment names, skipping the visited ones -/
def componentsAux (st : St) : List String → List String → List (List String)
  | [], _ => []
  | s :: rest, visited =>
    if visited.contains s then componentsAux st rest visited
    else
      let c := component st s
      c :: componentsAux st rest (visited ++ c)

def components (st : St) : List (List String) := componentsAux st (segNames st) []

def collSize (st : St) (s : String) (k : Key) : Nat := (coll st s k).length

def nDovetails (st : St) : Nat :=
  ((segNames st).map (fun s => collSize st s .dovL + collSize st s .dovR)).sum / 2
def nContainments (st : St) : Nat :=
  ((segNames st).map (fun s => collSize st s .toContained + collSize st s .toContainers)).sum / 2
def nInternals (st : St) : Nat := ((segNames st).map (fun s => collSize st s .internals)).sum / 2
def nDeadEnds (st : St) : Nat :=
  ((segNames st).map (fun s => (if collSize st s .dovL = 0 then 1 else 0) + (if collSize st s .dovR = 0 then 1 else 0))).sum

end Gfa.G
