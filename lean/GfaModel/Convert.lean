import GfaModel.Cigar
import GfaModel.Geometry
import GfaModel.GeometrySpec
/-
  GFA1 ⇄ GFA2 edge conversion (gfapy/line/edge/{link,containment}/to_gfa2.py, gfa1/to_gfa2.py,
  gfa2/to_gfa1.py): coordinates from CIGAR lengths and segment lengths, and back.
-/
namespace Gfa.Conv

/-- geometry of a GFA2 E line -/
structure Edge where
  s1 : String
  o1 : Orient
  s2 : String
  o2 : Orient
  b1 : Nat
  e1 : Nat
  b2 : Nat
  e2 : Nat
  aln : Cigar
  deriving Repr, DecidableEq, Inhabited

/-- `Link.from_coords` on a from-segment of length `nf` -/
def fromCoords (fo : Orient) (nf : Nat) (c : Cigar) : Nat × Nat :=
  if fo = .plus then (nf - c.refLen, nf) else (0, c.refLen)

/-- `Link.to_coords` on a to-segment of length `nt` -/
def toCoords (too : Orient) (nt : Nat) (c : Cigar) : Nat × Nat :=
  if too = .plus then (0, c.queryLen) else (nt - c.queryLen, nt)

/-- L → E (`_to_gfa2_a`): sid1 = from, sid2 = to, alignment = overlap -/
def edgeOfLink (f : String) (fo : Orient) (t : String) (too : Orient) (c : Cigar) (nf nt : Nat) : Edge :=
  let a := fromCoords fo nf c
  let b := toCoords too nt c
  ⟨f, fo, t, too, a.1, a.2, b.1, b.2, c⟩

/-- C → E: container interval `[pos, pos + refLen]`, contained segment whole -/
def edgeOfContainment (f : String) (fo : Orient) (t : String) (too : Orient) (pos : Nat) (c : Cigar) (nt : Nat) : Edge :=
  ⟨f, fo, t, too, pos, pos + c.refLen, 0, nt, c⟩

/-- E → L/C (`_to_gfa1_a`): which side is `from`, with the alignment read from → to -/
def gfa1OfEdge (e : Edge) (n1 n2 : Nat) : Option (AlnT × Link × Nat) :=
  let pb1 := Pos.mk e.b1 n1; let pe1 := Pos.mk e.e1 n1; let pb2 := Pos.mk e.b2 n2; let pe2 := Pos.mk e.e2 n2
  match substringType pb1 pe1, substringType pb2 pe2 with
  | .ok (st1, _), .ok (st2, _) =>
    match alignmentType e.o1 e.o2 st1 st2 with
    | .I => none
    | t =>
      match isSid1From (segmentRole pb1 pe1 e.o1) (segmentRole pb2 pe2 e.o2) with
      | .ok true =>
        -- pos of a containment: begin on the container
        let pos := if pb1.isFirst then (if pb2.isFirst && pe2.isLast then e.b1 else e.b2) else e.b1
        some (t, ⟨e.s1, e.o1, e.s2, e.o2, .cigar e.aln⟩, pos)
      | .ok false =>
        let pos := if pb1.isFirst then (if pb2.isFirst && pe2.isLast then e.b1 else e.b2) else e.b1
        some (t, ⟨e.s2, e.o2, e.s1, e.o1, .cigar e.aln.swapRoles⟩, pos)
      | .error _ => none
  | _, _ => none

/-- the same E line written with its two sides exchanged -/
def swapEdge (e : Edge) : Edge := ⟨e.s2, e.o2, e.s1, e.o1, e.b2, e.e2, e.b1, e.e1, e.aln.swapRoles⟩

end Gfa.Conv
