import GfaModel.MergeGraph
/-
  `Gfa.validate()` (gfapy/gfa.py): the structural checks made once a whole document is read —
  `__validate_segment_references`, `__validate_path_links`, `__validate_group_items`,
  `__validate_gfa2_positions` (edge/gfa2/validation.py, fragment/validation.py `validate_positions`).
-/
namespace Gfa.G

inductive VErr where
  | notFound | inconsistent
  deriving DecidableEq, Repr, Inhabited

def VErr.str : VErr → String
  | .notFound => "NotFoundError" | .inconsistent => "InconsistencyError"

/-- a placeholder segment is left: something refers to a segment the document does not define -/
def virtualSegment (st : St) : Bool := st.lines.any (fun r => r.rt == .S && r.virt)

/-- the stored link a path step resolves to (first compatible stored link) is a placeholder -/
def stepUnresolved (st : St) (s : Link) : Bool :=
  match st.lines.find? (fun q => match q.linkOf with
      | some k => k.compatible s.frm s.fo s.to s.too s.ovl
      | none => false) with
  | some q => q.virt
  | none => true

def pathLinkMissing (st : St) : Bool :=
  st.ver == .gfa1 && st.lines.any (fun r => r.rt == .P && r.pathSteps.any (stepUnresolved st))

/-- an item of a set or of an ordered group is a placeholder -/
def itemMissing (st : St) : Bool :=
  st.ver == .gfa2 && st.lines.any (fun r => (r.rt == .O || r.rt == .U) &&
    r.itemRefs.any (fun n => match findNamed st n with
      | some q => q.virt
      | none => true))

def isLast (s : String) : Bool := s.toList.getLast? == some '$'

/-- a position written with `$` on a segment whose sequence is known must be the length of that sequence -/
def dollarWrong (st : St) (seg : String) (pos : String) : Bool :=
  match findSeg st seg with
  | some q => sSeq st.ver q != "*" && isLast pos && posVal pos != ((sSeq st.ver q).length : Int)
  | none => false

def positionsWrong (st : St) : Bool :=
  st.ver == .gfa2 && st.lines.any (fun r =>
    match r.rt with
    | .E =>
      let a := (splitOriented (fld r 1)).1
      let b := (splitOriented (fld r 2)).1
      dollarWrong st a (fld r 3) || dollarWrong st a (fld r 4) || dollarWrong st b (fld r 5) || dollarWrong st b (fld r 6)
    | .F =>
      let a := fld r 0
      dollarWrong st a (fld r 2) || dollarWrong st a (fld r 3)
    | _ => false)

/-- `Gfa.validate()`: `none` = accepted; otherwise the class of the first error, in the library's order -/
def validateGfa (st : St) : Option VErr :=
  if virtualSegment st then some .notFound
  else if pathLinkMissing st then some .notFound
  else if itemMissing st then some .notFound
  else if positionsWrong st then some .inconsistent
  else none

end Gfa.G
