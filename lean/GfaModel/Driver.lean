import GfaModel.Regex
import GfaModel.Cigar
import GfaModel.CigarText
import GfaModel.Geometry
import GfaModel.GraphObs
import GfaModel.Field
import GfaModel.Version
import GfaModel.Multiply
import GfaModel.Convert
import GfaModel.Components
import GfaModel.LinearPaths
import GfaModel.MultiplyGraph
import GfaModel.LineFmt
import GfaModel.DocOrder
import GfaModel.MergeGraph
import GfaModel.Validate
import GfaModel.Rgfa
import GfaModel.Seq
import GfaModel.Line
import GfaModel.Levels
import GfaModel.Partial
import GfaModel.Groups
import GfaModel.Captured
import GfaModel.Edit
/- Line protocol of the model driver: `op US arg US arg …` → one reply line. -/
namespace Gfa
namespace Driver

def US : Char := Char.ofNat 0x1f

def unesc : List Char → List Char
  | '\\' :: 'n' :: r => '\n' :: unesc r
  | '\\' :: 'r' :: r => '\r' :: unesc r
  | '\\' :: '\\' :: r => '\\' :: unesc r
  | c :: r => c :: unesc r
  | [] => []

def esc : List Char → List Char
  | '\\' :: r => '\\' :: '\\' :: esc r
  | '\n' :: r => '\\' :: 'n' :: esc r
  | '\r' :: r => '\\' :: 'r' :: esc r
  | c :: r => c :: esc r
  | [] => []

def splitOnC (sep : Char) : List Char → List (List Char)
  | [] => [[]]
  | c :: cs =>
    match splitOnC sep cs with
    | [] => [[]]     -- unreachable
    | f :: fs => if c = sep then [] :: f :: fs else (c :: f) :: fs

def str (l : List Char) : String := String.ofList l
def endc : EndT → String | .L => "L" | .R => "R"
def b2s (b : Bool) : String := if b then "1" else "0"

def parseLink (f fo t too o : List Char) : Option Link :=
  match fo, too with
  | [a], [b] =>
    match Orient.ofChar? a, Orient.ofChar? b, Aln.parse o with
    | some x, some y, some al => some ⟨str f, x, str t, y, al⟩
    | _, _, _ => none
  | _, _ => none

def printLink (l : Link) : String :=
  str (l.frm.toList ++ ['\t', l.fo.toChar, '\t'] ++ l.to.toList ++ ['\t', l.too.toChar, '\t'] ++ l.ovl.print)

def keyName : Key → String
  | .dovL => "dovetails_L" | .dovR => "dovetails_R" | .toContained => "edges_to_contained"
  | .toContainers => "edges_to_containers" | .internals => "internals" | .gapsL => "gaps_L" | .gapsR => "gaps_R"

def sortStrs (l : List String) : List String := (l.toArray.qsort (· < ·)).toList

def geoEdge (o1 : Orient) (n1 b1 e1 : Nat) (o2 : Orient) (n2 b2 e2 : Nat) : String :=
  let pb1 := Pos.mk b1 n1; let pe1 := Pos.mk e1 n1; let pb2 := Pos.mk b2 n2; let pe2 := Pos.mk e2 n2
  match substringType pb1 pe1, substringType pb2 pe2 with
  | .ok (st1, _), .ok (st2, _) =>
    let k1 := keyName (refkey true o1 o2 st1 st2)
    let k2 := keyName (refkey false o1 o2 st1 st2)
    let t := match alignmentType o1 o2 st1 st2 with | .C => "C" | .L => "L" | .I => "I"
    let f := match isSid1From (segmentRole pb1 pe1 o1) (segmentRole pb2 pe2 o2) with
      | .ok true => "1" | .ok false => "0" | .error _ => "err"
    s!"ok keys={",".intercalate (sortStrs [k1, k2])} type={t} from={f}"
  | _, _ => "err"

def dtOfName : String → Option Datatype
  | "A" => some .A | "i" => some .i | "f" => some .f | "Z" => some .Z | "J" => some .J | "H" => some .H | "B" => some .B
  | "alignment_gfa1" => some .alnGfa1 | "alignment_list_gfa1" => some .alnListGfa1
  | "oriented_identifier_list_gfa1" => some .oidListGfa1 | "position_gfa1" => some .posGfa1
  | "segment_name_gfa1" => some .segNameGfa1 | "sequence_gfa1" => some .seqGfa1 | "path_name_gfa1" => some .pathNameGfa1
  | "alignment_gfa2" => some .alnGfa2 | "generic" => some .generic | "identifier_gfa2" => some .idGfa2
  | "oriented_identifier_gfa2" => some .oidGfa2 | "identifier_list_gfa2" => some .idListGfa2
  | "oriented_identifier_list_gfa2" => some .oidListGfa2 | "optional_identifier_gfa2" => some .optIdGfa2
  | "position_gfa2" => some .posGfa2 | "custom_record_type" => some .customRecordType | "sequence_gfa2" => some .seqGfa2
  | "optional_integer" => some .optInt | "comment" => some .comment | "orientation" => some .orientation
  | _ => none

def kindOfName : String → Option V.Kind
  | "comment" => some .comment | "hNone" => some .hNone | "hVN1" => some .hVN1 | "hVN2" => some .hVN2
  | "hBad" => some .hBad | "s1" => some .s1 | "s2" => some .s2 | "g1" => some .g1 | "g2" => some .g2
  | "custom" => some .custom | _ => none

def tagValStr : TagVal → String
  | .int i => "int " ++ str (intStr i)
  | .str s => "str " ++ str s
  | .chr c => "chr " ++ String.ofList [c]
  | .bytes bs => "bytes " ++ str (Field.hexOf bs)
  | .intArr xs => "intarr " ++ ",".intercalate (xs.map (fun x => str (intStr x)))
  | .opaque d s => "opaque " ++ String.ofList [d] ++ " " ++ str s

def parseTagVal (kind : String) (p : List Char) : Option TagVal :=
  match kind with
  | "int" => (intOf? p).map .int
  | "str" => some (.str p)
  | "chr" => (match p with | [c] => some (.chr c) | _ => none)
  | "bytes" => if p.isEmpty then some (.bytes []) else ((Field.splitOn ',' p).mapM natOf?).map .bytes
  | "intarr" => if p.isEmpty then some (.intArr []) else ((Field.splitOn ',' p).mapM intOf?).map .intArr
  | _ => none

/-- run a script of field operations at one validation level; one result token per operation -/
def lvlRun {V : Type} (c : Lvl.Codec V) (mk : List Char → Option V) (k : Nat) (delayed : Bool) (text : List Char)
    (ops : List String) : String :=
  match Lvl.initF c k delayed text with
  | none => "init:err"
  | some cell0 =>
    let rec go (cell : Lvl.Cell V) (ops : List String) (acc : List String) : List String :=
      match ops with
      | [] => acc.reverse
      | o :: rest =>
        if o == "get" then
          (match Lvl.getF c k cell with
          | some cell' => go cell' rest ("get:ok" :: acc)
          | none => go cell rest ("get:err" :: acc))
        else if o == "write" then
          (match Lvl.writeF c k cell with
          | some t => go cell rest (("write:" ++ str t) :: acc)
          | none => go cell rest ("write:err" :: acc))
        else if o == "validate" then
          go cell rest ((if Lvl.validateF c cell then "validate:ok" else "validate:err") :: acc)
        else if o.startsWith "setraw:" then
          (match Lvl.setF c k (.raw (o.toList.drop 7)) with
          | some cell' => go cell' rest ("set:ok" :: acc)
          | none => go cell rest ("set:err" :: acc))
        else if o.startsWith "setval:" then
          (match mk (o.toList.drop 7) with
          | some v => (match Lvl.setF c k (.val v) with
            | some cell' => go cell' rest ("set:ok" :: acc)
            | none => go cell rest ("set:err" :: acc))
          | none => go cell rest ("bad-op" :: acc))
        else go cell rest ("bad-op" :: acc)
    "init:ok " ++ " ".intercalate (go cell0 ops [])

def lvlScript (dt : String) (k : Nat) (delayed : Bool) (text : List Char) (ops : List String) : String :=
  match dt with
  | "i" => lvlRun Lvl.intCodec intOf? k delayed text ops
  | "Z" => lvlRun Lvl.strCodec (fun s => some s) k delayed text ops
  | "H" => lvlRun Lvl.bytesCodec (fun s => if s.isEmpty then some [] else (Field.splitOn ',' s).mapM natOf?) k delayed text ops
  | _ => "bad-op"

/-- stateless commands -/
def pure? (cmd : String) (args : List (List Char)) : Option String :=
  match cmd, args with
  | "cigar.compl", [s] =>
    some (match Aln.parse s with
    | some a => "ok " ++ str a.compl.print
    | none => "err")
  | "cigar.lens", [s] =>
    some (match Aln.parse s with
    | some (.cigar c) => s!"ok {c.refLen} {c.queryLen}"
    | some .star => "ok * *"
    | none => "err")
  | "link.compl", [f, fo, t, too, o] =>
    some (match parseLink f fo t too o with
    | some l => "ok " ++ printLink l.compl
    | none => "err")
  | "link.rel", [f, fo, t, too, o, f', fo', t', too', o'] =>
    some (match parseLink f fo t too o, parseLink f' fo' t' too' o' with
    | some a, some b =>
      s!"ok same={b2s (a.isSame b)} compl={b2s (a.isComplement b)} eql={b2s (a.isEql b)} canon={b2s a.isCanonical} ends={str a.fromEnd.1.toList}{endc a.fromEnd.2},{str a.toEnd.1.toList}{endc a.toEnd.2}"
    | _, _ => "err")
  | "link.compat", [f, fo, t, too, o, f', fo', t', too', o'] =>
    some (match parseLink f fo t too o, parseLink f' fo' t' too' o' with
    | some a, some b => s!"ok {b2s (a.compatible b.frm b.fo b.to b.too b.ovl)}"
    | _, _ => "err")
  | "field.accept", [dt, s] =>
    some (match dtOfName (str dt) with
    | some d => "ok " ++ b2s (Field.accept d s)
    | none => "bad-op")
  | "tag.decode", [dt, s] =>
    some (match dt with
    | [c] => (match Field.decode c s with
      | some v => "ok " ++ tagValStr v
      | none => "err")
    | _ => "bad-op")
  | "tag.encode", [kind, payload] =>
    some (match parseTagVal (str kind) payload with
    | some v => (match Field.encode v with
      | some t => "ok " ++ String.ofList [Field.datatypeOf v] ++ ":" ++ str t
      | none => "err")
    | none => "bad-op")
  | "ver.build", explicit :: kinds =>
    some (let ex := if explicit = "gfa1".toList then some V.Ver.gfa1 else if explicit = "gfa2".toList then some V.Ver.gfa2 else none
      match kinds.mapM (fun k => kindOfName (str k)) with
      | some ks => (match V.build ex ks with
        | some (v, n) => s!"ok {match v with | .gfa1 => "gfa1" | .gfa2 => "gfa2"} {n}"
        | none => "gerr VersionError")
      | none => "bad-op")
  | "mul.auto", [k, b, e, eq] =>
    some (match natOf? k, natOf? b, natOf? e with
    | some k, some b, some e =>
      (match Mul.autoSelect k b e (eq = ['1']) with
      | some true => "ok R" | some false => "ok L" | none => "ok None")
    | _, _, _ => "bad-op")
  | "mul.windows", [n, k] =>
    some (match natOf? n, natOf? k with
    | some n, some k =>
      "ok " ++ ";".intercalate ((List.range k).map (fun i =>
        ",".intercalate (((List.range n).filter (Mul.keeps n k i)).map toString)))
    | _, _ => "bad-op")
  | "mul.names", used :: count :: cand :: [] =>
    some (match (Field.splitOn ',' used).filter (· ≠ []) |>.mapM natOf?, natOf? count, natOf? cand with
    | some u, some c, some d => "ok " ++ ",".intercalate ((Mul.copyNums u c d).map toString)
    | _, _, _ => "bad-op")
  | "conv.link", [fo, too, nf, nt, c] =>
    some (match fo, too with
    | [a], [b] =>
      (match Orient.ofChar? a, Orient.ofChar? b, natOf? nf, natOf? nt, Cigar.parse c with
      | some fo, some too, some nf, some nt, some cg =>
        let e := Conv.edgeOfLink "A" fo "B" too cg nf nt
        let p (x n : Nat) : String := if x = n then s!"{x}$" else s!"{x}"
        let back := match Conv.gfa1OfEdge e nf nt with
          | some (t, l, _) => (match t with | .L => "L" | .C => "C" | .I => "I") ++ " " ++ printLink l
          | none => "none"
        s!"ok {p e.b1 nf} {p e.e1 nf} {p e.b2 nt} {p e.e2 nt} | {back}"
      | _, _, _, _, _ => "err")
    | _, _ => "bad-op")
  | "conv.edge", [o1, n1, b1, e1, o2, n2, b2, e2, c] =>
    some (match o1, o2 with
    | [c1], [c2] =>
      (match Orient.ofChar? c1, Orient.ofChar? c2, natOf? n1, natOf? b1, natOf? e1, natOf? n2, natOf? b2, natOf? e2, Cigar.parse c with
      | some x, some y, some n1, some b1, some e1, some n2, some b2, some e2, some cg =>
        (match Conv.gfa1OfEdge ⟨"A", x, "B", y, b1, e1, b2, e2, cg⟩ n1 n2 with
         | some (t, l, pos) => "ok " ++ (match t with | .L => "L" | .C => "C" | .I => "I") ++ " " ++ printLink l ++
             (match t with | .C => s!" pos={pos}" | _ => "")
         | none => "none")
      | _, _, _, _, _, _, _, _, _ => "err")
    | _, _ => "bad-op")
  | "py.decode", [dt, q] =>
    some (match dt with
    | [c] => (match Py.decodeTag c q with | .ok _ => "ok" | .gerr _ => "gerr" | .foreign e => "foreign " ++ e)
    | _ => if dt = "position_gfa2".toList then
        (match Py.decodePos q with | .ok _ => "ok" | .gerr _ => "gerr" | .foreign e => "foreign " ++ e) else "bad-op")
  | "py.line", dts :: l :: [] =>
    some (match ((Field.splitOn ',' dts).filter (· ≠ [])).mapM (fun d => dtOfName (str d)) with
    | some ds => (match Py.parseLine ds l with | .ok _ => "ok" | .gerr _ => "gerr" | .foreign e => "foreign " ++ e)
    | none => "bad-op")
  | "seq.rc", [q] =>
    some (match Seq.rc q with | some r => "ok " ++ str r | none => "gerr ValueError")
  | "seq.spell", members =>
    -- each member: seq US-separated triple encoded as  seq,reversed(0/1),cut
    some (match members.mapM (fun m => match Field.splitOn ',' m with
        | [q, [r], c] => (natOf? c).map (fun n => (⟨q, r == '1', n⟩ : Seq.Member))
        | _ => none) with
      | some ms => (match Seq.spell ms with | some r => "ok " ++ str r | none => "gerr ValueError")
      | none => "bad-op")
  | "doc.order", rts =>
    some ("ok " ++ " ".intercalate (Doc.docOrder (rts.map str)))
  | "line.parse", [n, l] =>
    some (match natOf? n with
    | some n => (match Line.parseLine n l with
      | some pl => "ok " ++ str pl.rt ++ "|" ++ "|".intercalate (pl.pos.map str) ++ "|#" ++
          "|".intercalate (pl.tags.map (fun t => str (Line.printTag t))) ++ "|=" ++ str (Line.writeLine pl)
      | none => "err")
    | none => "bad-op")
  | "lvl.script", dt :: k :: delayed :: text :: ops =>
    some (match natOf? k with
    | some k => lvlScript (str dt) k (delayed = ['1']) text (ops.map str)
    | none => "bad-op")
  | "geo.edge", [o1, n1, b1, e1, o2, n2, b2, e2] =>
    some (match o1, o2 with
    | [c1], [c2] =>
      match Orient.ofChar? c1, Orient.ofChar? c2, natOf? n1, natOf? b1, natOf? e1, natOf? n2, natOf? b2, natOf? e2 with
      | some x, some y, some n1, some b1, some e1, some n2, some b2, some e2 => geoEdge x n1 b1 e1 y n2 b2 e2
      | _, _, _, _, _, _, _, _ => "err"
    | _, _ => "err")
  | _, _ => none

/-- driver state: one model Gfa -/
structure DState where
  g : G.St := G.St.empty .gfa1
  deriving Inhabited

def gres (d : DState) (r : Except G.Err G.St) : DState × String :=
  match r with
  | .ok st => ({ d with g := st }, "ok")
  | .error e => (d, "gerr " ++ e.str)

/-- as `gres`, the error class left out (which gfapy.Error a refused merge raises is the oracle's business) -/
def gresR (d : DState) (r : Except G.Err G.St) : DState × String :=
  match r with
  | .ok st => ({ d with g := st }, "ok")
  | .error _ => (d, "refused")

/-- stateful commands (the model Gfa) -/
def step (d : DState) (cmd : String) (args : List (List Char)) : DState × String :=
  match cmd, args with
  | "g.new", [v] =>
    if v = "gfa1".toList then ({ d with g := G.St.empty .gfa1 }, "ok")
    else if v = "gfa2".toList then ({ d with g := G.St.empty .gfa2 }, "ok")
    else (d, "bad-op")
  | "g.add", [l] =>
    match G.parseRec (str l) with
    | some r => gres d (G.add d.g r)
    | none => (d, "bad-op")
  | "g.rm", [n] => gres d (G.rm d.g (str n))
  | "g.rename", [a, b] => gres d (G.rename d.g (str a) (str b))
  | "g.rmtext", [t] => gres d (G.rmText d.g (str t))
  | "g.settag", [t, tn, new] => gres d (G.setTag d.g (str t) (str tn) (some (str new)))
  | "g.deltag", [t, tn] => gres d (G.setTag d.g (str t) (str tn) none)
  | "g.obs", [] => (d, "ok " ++ G.obs d.g)
  | "g.cc", [] =>
    (d, "ok " ++ ";".intercalate (sortStrs ((G.components d.g).map (fun c => ",".intercalate (sortStrs c)))))
  | "g.cc1", [s] => (d, "ok " ++ ",".intercalate (sortStrs (G.component d.g (str s))))
  | "g.induced", [u] => (d, "ok " ++ ",".intercalate (sortStrs (G.inducedSegments d.g (str u))))
  | "g.inducedE", [u] => (d, "ok " ++ ";".intercalate (sortStrs ((G.inducedEdges d.g (str u)).map G.Rec.text)))
  | "g.captured", [p] =>
    (d, match G.Cap.capturedPath d.g (str p) with
        | .ok path => "ok " ++ "|".intercalate (path.map (G.Cap.El.show d.g))
        | .error e => "gerr " ++ e.str)
  | "line.accept", [v, l] =>
    (d, match (if v = "gfa1".toList then some G.Ver.gfa1 else if v = "gfa2".toList then some G.Ver.gfa2 else none) with
        | some ver => (match LineFmt.acceptLine ver l with
            | some b => "ok " ++ (if b then "true" else "false")
            | none => "ok other")
        | none => "bad-op")
  | "g.multiply", [sn, k, names, policy] =>
    (match natOf? k with
     | some kk => gres d (G.multiplyD d.g (str sn) kk (if names.isEmpty then [] else (splitOnC ',' names).map str) (str policy))
     | none => (d, "bad-op"))
  | "g.multiply", [sn, k, names] =>
    (match natOf? k with
     | some kk => gres d (G.multiply d.g (str sn) kk (if names.isEmpty then [] else (splitOnC ',' names).map str))
     | none => (d, "bad-op"))
  | "g.merge", [path, vl] =>
    (match (splitOnC ',' path).mapM (fun e => G.parseEnd (str e)), natOf? vl with
     | some p, some k => gresR d (G.mergePath d.g p k)
     | _, _ => (d, "bad-op"))
  | "g.mergeall", [vl] =>
    (match natOf? vl with
     | some k => gresR d (G.mergeAll d.g k)
     | none => (d, "bad-op"))
  | "g.validate", [] => (d, match G.validateGfa d.g with | none => "ok" | some e => "gerr " ++ e.str)
  | "g.rgfa", [h] => (d, match G.validateRgfa d.g (h == ['1']) with | none => "ok" | some e => "gerr " ++ e.str)
  | "g.lpaths", [] => (d, "ok " ++ ";".intercalate ((G.linearPaths d.g).map G.showPath))
  | "g.lpath", [s] =>
    (d, "ok " ++ G.showPath (G.linearPath (G.otherEnds d.g) (G.pathFuel d.g) (str s) []).1)
  | "g.counts", [] =>
    (d, s!"ok dovetails={G.nDovetails d.g} containments={G.nContainments d.g} internals={G.nInternals d.g} dead_ends={G.nDeadEnds d.g}")
  | _, _ =>
    match pure? cmd args with
    | some r => (d, r)
    | none => (d, "bad-op")

end Driver
end Gfa
