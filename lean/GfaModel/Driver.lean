import GfaModel.Regex
import GfaModel.Cigar
import GfaModel.CigarText
/- Line protocol of the model driver: `op US arg US arg …` → one reply line. -/
namespace Gfa
namespace Driver

def US : Char := Char.ofNat 0x1f

def unesc : List Char → List Char
  | '\\' :: 'n' :: r => '\n' :: unesc r
  | '\\' :: 'r' :: r => '\r' :: unesc r
  | '\\' :: '\\' :: r => '\\' :: unesc r
  | c :: r => c :: unesc r
  | [] => []

def esc : List Char → List Char
  | '\\' :: r => '\\' :: '\\' :: esc r
  | '\n' :: r => '\\' :: 'n' :: esc r
  | '\r' :: r => '\\' :: 'r' :: esc r
  | c :: r => c :: esc r
  | [] => []

def splitOnC (sep : Char) : List Char → List (List Char)
  | [] => [[]]
  | c :: cs =>
    match splitOnC sep cs with
    | [] => [[]]     -- unreachable
    | f :: fs => if c = sep then [] :: f :: fs else (c :: f) :: fs

def str (l : List Char) : String := String.ofList l
def endc : EndT → String | .L => "L" | .R => "R"
def b2s (b : Bool) : String := if b then "1" else "0"

def parseLink (f fo t too o : List Char) : Option Link :=
  match fo, too with
  | [a], [b] =>
    match Orient.ofChar? a, Orient.ofChar? b, Aln.parse o with
    | some x, some y, some al => some ⟨str f, x, str t, y, al⟩
    | _, _, _ => none
  | _, _ => none

def printLink (l : Link) : String :=
  str (l.frm.toList ++ ['\t', l.fo.toChar, '\t'] ++ l.to.toList ++ ['\t', l.too.toChar, '\t'] ++ l.ovl.print)

/-- stateless commands -/
def pure? (cmd : String) (args : List (List Char)) : Option String :=
  match cmd, args with
  | "cigar.compl", [s] =>
    some (match Aln.parse s with
    | some a => "ok " ++ str a.compl.print
    | none => "err")
  | "cigar.lens", [s] =>
    some (match Aln.parse s with
    | some (.cigar c) => s!"ok {c.refLen} {c.queryLen}"
    | some .star => "ok * *"
    | none => "err")
  | "link.compl", [f, fo, t, too, o] =>
    some (match parseLink f fo t too o with
    | some l => "ok " ++ printLink l.compl
    | none => "err")
  | "link.rel", [f, fo, t, too, o, f', fo', t', too', o'] =>
    some (match parseLink f fo t too o, parseLink f' fo' t' too' o' with
    | some a, some b =>
      s!"ok same={b2s (a.isSame b)} compl={b2s (a.isComplement b)} eql={b2s (a.isEql b)} canon={b2s a.isCanonical} ends={str a.fromEnd.1.toList}{endc a.fromEnd.2},{str a.toEnd.1.toList}{endc a.toEnd.2}"
    | _, _ => "err")
  | "link.compat", [f, fo, t, too, o, f', fo', t', too', o'] =>
    some (match parseLink f fo t too o, parseLink f' fo' t' too' o' with
    | some a, some b => s!"ok {b2s (a.compatible b.frm b.fo b.to b.too b.ovl)}"
    | _, _ => "err")
  | _, _ => none

end Driver
end Gfa
