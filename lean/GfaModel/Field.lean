import GfaModel.Grammar
import GfaModel.Util.Digits
import GfaModel.CigarText
/-
  Field layer: acceptance of encoded fields (level ≥ 1), and the tag-value codec.
  (gfapy/field/*.py, numeric_array.py, byte_array.py)
-/
namespace Gfa

-- ------------------------------------------------------------------ acceptance
namespace Field

/-- `re.search("[+-],", s)` of segment_name_gfa1 -/
def hasOrientComma : List Char → Bool
  | a :: b :: r => ((a == '+' || a == '-') && b == ',') || hasOrientComma (b :: r)
  | _ => false

def splitOn (sep : Char) : List Char → List (List Char)
  | [] => [[]]
  | c :: cs =>
    match splitOn sep cs with
    | [] => [[]]
    | f :: fs => if c = sep then [] :: f :: fs else (c :: f) :: fs

def intercalate (sep : Char) : List (List Char) → List Char
  | [] => []
  | [x] => x
  | x :: xs => x ++ sep :: intercalate sep xs

/-- the decimal numeral `m × 10^e` read by Python's `float()` is finite: it rounds to a double, i.e. it is below
    2^1024 - 2^970, the midpoint between the largest double and 2^1024 (the tie rounds to even, which is infinity).
    `s` matches the float grammar: `[-+]?[0-9]*\.?[0-9]+([eE][-+]?[0-9]+)?` -/
def floatFinite (s : List Char) : Bool :=
  let s := match s with | '-' :: r => r | '+' :: r => r | _ => s
  let mant := s.takeWhile (fun c => c != 'e' && c != 'E')
  let expo := (s.dropWhile (fun c => c != 'e' && c != 'E')).drop 1
  let ip := mant.takeWhile (· != '.')
  let fp := (mant.dropWhile (· != '.')).drop 1
  let m := natOf (ip ++ fp)
  let e : Int := (if expo.isEmpty then 0 else (intOf? expo).getD 0) - (fp.length : Int)
  let ndig := (ip ++ fp).length
  let limit : Nat := 2 ^ 1024 - 2 ^ 970
  if m = 0 then true
  else if e ≥ 0 then (if e > 310 then false else decide (m * 10 ^ e.toNat < limit))
  else (if (-e).toNat > ndig then true else decide (m < limit * 10 ^ (-e).toNat))

/-- NumericArray.SUBTYPE_RANGE: inclusive lower bound, exclusive upper bound -/
def subtypeRange : Char → Option (Int × Int)
  | 'C' => some (0, 256) | 'S' => some (0, 65536) | 'I' => some (0, 4294967296)
  | 'c' => some (-128, 128) | 's' => some (-32768, 32768) | 'i' => some (-2147483648, 2147483648)
  | _ => none

/-- range check of the elements of an integer `B` array given in text (after the regex passed) -/
def numArrayInRange (s : List Char) : Bool :=
  match splitOn ',' s with
  | [st] :: elems =>
    if st == 'f' then elems.all floatFinite else
    match subtypeRange st with
    | none => false
    | some (lo, hi) => elems.all (fun e => match intOf? e with | some v => lo ≤ v && v < hi | none => false)
  | _ => false

def reservedRecordTypes : List (List Char) := [['E'], ['G'], ['F'], ['O'], ['U'], ['H'], ['#'], ['S']]

/-- side conditions beyond the regular language -/
def sideOk (dt : Datatype) (s : List Char) : Bool :=
  match dt with
  | .H => s.length % 2 == 0
  | .B => numArrayInRange s
  | .segNameGfa1 => !hasOrientComma s
  | .oidListGfa1 => (splitOn ',' s).all (fun e => Grammar.oid1.accepts e)
  | .customRecordType => !reservedRecordTypes.contains s
  | .f => floatFinite s           -- a numeral beyond the double range is read as infinity, which no f field holds
  | .idGfa2 => s != ['*']          -- the placeholder is not an identifier where one is required
  | _ => true

/-- is the encoded field accepted with validation on?  (JSON well-formedness of `J` and trace/
    float value conversion are outside the model: see `jsonOk` parameter in the driver) -/
def accept (dt : Datatype) (s : List Char) : Bool :=
  (Grammar.re dt).accepts s && sideOk dt s

end Field

-- ------------------------------------------------------------------ tag values
inductive TagVal where
  | int (i : Int)
  | str (s : List Char)          -- Z
  | chr (c : Char)               -- A
  | bytes (bs : List Nat)        -- H
  | intArr (xs : List Int)       -- B, integer
  | opaque (dt : Char) (s : List Char)   -- f, J, float arrays: canonical text kept verbatim
  deriving Repr, DecidableEq, Inhabited

namespace Field

def hexDigit (n : Nat) : Char := if n < 10 then Char.ofNat (48 + n) else Char.ofNat (55 + n)
def hexVal (c : Char) : Nat := if c.toNat < 58 then c.toNat - 48 else c.toNat - 55
def isHex (c : Char) : Bool := ('0' ≤ c && c ≤ '9') || ('A' ≤ c && c ≤ 'F')

def hexOf : List Nat → List Char
  | [] => []
  | b :: bs => hexDigit (b / 16) :: hexDigit (b % 16) :: hexOf bs

def unhex : List Char → Option (List Nat)
  | [] => some []
  | [_] => none
  | a :: b :: r => if isHex a && isHex b then (unhex r).map (fun t => (16 * hexVal a + hexVal b) :: t) else none

/-- `NumericArray.integer_type((min,max))` -/
def integerType (lo hi : Int) : Option Char :=
  if lo < 0 then
    if -128 ≤ lo ∧ hi < 128 then some 'c'
    else if -32768 ≤ lo ∧ hi < 32768 then some 's'
    else if -2147483648 ≤ lo ∧ hi < 2147483648 then some 'i'
    else none
  else
    if hi < 256 then some 'C'
    else if hi < 65536 then some 'S'
    else if hi < 4294967296 then some 'I'
    else none

def listMin : List Int → Int
  | [] => 0
  | [x] => x
  | x :: xs => min x (listMin xs)
def listMax : List Int → Int
  | [] => 0
  | [x] => x
  | x :: xs => max x (listMax xs)

/-- `compute_subtype` of a non-empty integer array -/
def computeSubtype (xs : List Int) : Option Char := integerType (listMin xs) (listMax xs)

def isPrintableSp (c : Char) : Bool := ' ' ≤ c && c ≤ '~'
def isPrintable (c : Char) : Bool := '!' ≤ c && c ≤ '~'

/-- `encode`: value → text, or `none` when the value cannot be represented (an error is raised) -/
def encode : TagVal → Option (List Char)
  | .int i => some (intStr i)
  | .str s => if !s.isEmpty && s.all isPrintableSp then some s else none
  | .chr c => if isPrintable c then some [c] else none
  | .bytes bs => if !bs.isEmpty && bs.all (· < 256) then some (hexOf bs) else none
  | .intArr xs =>
    if xs.isEmpty then none else
    match computeSubtype xs with
    | some st => some (st :: xs.flatMap (fun x => ',' :: intStr x))
    | none => none
  | .opaque _ s => some s

def datatypeOf : TagVal → Char
  | .int _ => 'i' | .str _ => 'Z' | .chr _ => 'A' | .bytes _ => 'H' | .intArr _ => 'B' | .opaque d _ => d

/-- `decode` (safe) of a tag value -/
def decode (dt : Char) (s : List Char) : Option TagVal :=
  match dt with
  | 'i' => if accept .i s then (intOf? s).map .int else none
  | 'Z' => if accept .Z s then some (.str s) else none
  | 'A' => match s with
    | [c] => if accept .A s then some (.chr c) else none
    | _ => none
  | 'H' => if accept .H s then (unhex s).map .bytes else none
  | 'B' =>
    if accept .B s then
      match splitOn ',' s with
      | [st] :: elems => if st == 'f' then some (.opaque 'B' s) else (elems.mapM intOf?).map .intArr
      | _ => none
    else none
  | 'f' => if accept .f s then some (.opaque 'f' s) else none
  | 'J' => if accept .J s then some (.opaque 'J' s) else none
  | _ => none

end Field
end Gfa
