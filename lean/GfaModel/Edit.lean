import GfaModel.GraphObs
/-
  The remaining public mutations of a connected line (C05): removal of a line given as an object (`Gfa.rm(line)`,
  `line.disconnect()`), and `line.set(tag, value)` / `line.delete(tag)` of a tag.

  A line given as an object is designated by its written form (lines without identifier have nothing else): the first
  real record with that text.  Two real lines with the same text are interchangeable for every observation.
-/
namespace Gfa.G

def findText (st : St) (t : String) : Option Nat := st.lines.findIdx? (fun q => !q.virt && q.text == t)

/-- `Gfa.rm(line)` / `line.disconnect()` -/
def rmText (st : St) (t : String) : Except Err St :=
  match findText st t with
  | none => .error .notFound
  | some i => .ok (rmIdx st [i])

/-- where the tags of a record start (`npos` counts the sequence of a GFA2 segment as a tag) -/
def tagStart (v : Ver) (rt : RT) : Nat := if rt = .S ∧ v = .gfa2 then 3 else npos rt

/-- `set`: an existing tag keeps its place, a new one goes to the end; `delete` (`none`): the tag is taken out -/
def editTags (tn : String) (new : Option String) (tags : List String) : List String :=
  match new with
  | none => tags.filter (fun t => tagName t != tn)
  | some t =>
    if tags.any (fun x => tagName x == tn) then tags.map (fun x => if tagName x == tn then t else x)
    else tags ++ [t]

def Rec.editTag (v : Ver) (r : Rec) (tn : String) (new : Option String) : Rec :=
  { r with fields := r.fields.take (tagStart v r.rt) ++ editTags tn new (r.fields.drop (tagStart v r.rt)) }

/-- the text given for the tag must carry the tag name -/
def wrongName (tn : String) : Option String → Bool
  | some x => tagName x != tn
  | none => false

/-- `line.set(tn, value)` (`new = some "tn:T:value"`) / `line.delete(tn)` (`new = none`) on the real line written `t`.
    The ID tag of a link or containment is its identifier: changing it is a rename, not modelled here. -/
def setTag (st : St) (t tn : String) (new : Option String) : Except Err St :=
  match findText st t with
  | none => .error .notFound
  | some i =>
    if tn = "ID" then .error .other else
    if (st.lines.getD i default).fields.length < tagStart st.ver (st.lines.getD i default).rt then .error .other else
    if wrongName tn new then .error .other else
    .ok { st with lines := st.lines.set i ((st.lines.getD i default).editTag st.ver tn new) }

end Gfa.G
