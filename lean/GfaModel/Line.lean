import GfaModel.Field
/-
  A line as text: tab-separated fields, tags `NN:T:value` (gfapy/line/common/construction.py
  `__init__`/`_initialize_tags`, gfapy/field/parser.py `_parse_gfa_tag`, writer.py `to_list`/`__str__`).
-/
namespace Gfa.Line
open Field

def isAlpha (c : Char) : Bool := ('A' ≤ c && c ≤ 'Z') || ('a' ≤ c && c ≤ 'z')
def isAlnum (c : Char) : Bool := isAlpha c || ('0' ≤ c && c ≤ '9')
def tagTypes : List Char := ['A', 'i', 'f', 'Z', 'J', 'H', 'B']

structure Tag where
  n1 : Char
  n2 : Char
  dt : Char
  value : List Char
  deriving Repr, DecidableEq, Inhabited

/-- `_parse_gfa_tag`: `^([A-Za-z][A-Za-z0-9]):([AifZJHB]):(.+)\Z` -/
def parseTag : List Char → Option Tag
  | a :: b :: ':' :: d :: ':' :: v =>
    if isAlpha a && isAlnum b && tagTypes.contains d && !v.isEmpty && !v.contains '\n' then some ⟨a, b, d, v⟩ else none
  | _ => none

def printTag (t : Tag) : List Char := t.n1 :: t.n2 :: ':' :: t.dt :: ':' :: t.value

def Tag.WF (t : Tag) : Prop :=
  isAlpha t.n1 = true ∧ isAlnum t.n2 = true ∧ t.dt ∈ tagTypes ∧ t.value ≠ [] ∧ '\n' ∉ t.value

/-- a parsed line: record type, positional fields (text), tags -/
structure PLine where
  rt : List Char
  pos : List (List Char)
  tags : List Tag
  deriving Repr, DecidableEq, Inhabited

/-- `__str__`: fields joined by tabs -/
def writeLine (l : PLine) : List Char := intercalate '\t' (l.rt :: (l.pos ++ l.tags.map printTag))

/-- split into fields, the first `npos` after the record type are positional, the others must be tags -/
def parseLine (npos : Nat) (s : List Char) : Option PLine :=
  match splitOn '\t' s with
  | [] => none
  | rt :: fs =>
    if fs.length < npos then none else
    match (fs.drop npos).mapM parseTag with
    | some tags => some ⟨rt, fs.take npos, tags⟩
    | none => none

def PLine.WF (l : PLine) : Prop :=
  '\t' ∉ l.rt ∧ (∀ f ∈ l.pos, '\t' ∉ f) ∧ (∀ t ∈ l.tags, t.WF ∧ '\t' ∉ t.value)

end Gfa.Line
