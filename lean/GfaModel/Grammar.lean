import GfaModel.Regex
/-
  The GFA1/GFA2 field grammar as regular expressions, transcribed from the specifications
  (GFA1.md "Line structure"/"Optional fields", GFA2.md "GRAMMAR") and from gfapy's documented
  datatypes.  Independent of gfapy's code: `GfaProofs.Bridge.Regex` shows the regex literals the
  code *currently* uses are these.
-/
namespace Gfa
open RE

inductive Datatype where
  -- tags
  | A | i | f | Z | J | H | B
  -- GFA1 positional
  | alnGfa1 | alnListGfa1 | oidListGfa1 | posGfa1 | segNameGfa1 | seqGfa1 | pathNameGfa1
  -- GFA2 positional
  | alnGfa2 | generic | idGfa2 | oidGfa2 | idListGfa2 | oidListGfa2 | optIdGfa2 | posGfa2
  | customRecordType | seqGfa2 | optInt
  -- both
  | comment | orientation
  deriving Repr, DecidableEq, Inhabited

namespace Grammar

def digit : RE := cls [('0', '9')]
def printable : RE := cls [('!', '~')]            -- [!-~]
def printableSp : RE := cls [(' ', '~')]          -- [ !-~]
def sign : RE := cls [('+', '+'), ('-', '-')]     -- [-+]
def hexdig : RE := cls [('0', '9'), ('A', 'F')]
def nameStart : RE := cls [('!', ')'), ('+', '<'), ('>', '~')]   -- [!-)+-<>-~]: printable but * and =
def cigarOp1 : RE := cls [('=', '='), ('D', 'D'), ('H', 'I'), ('M', 'N'), ('P', 'P'), ('S', 'S'), ('X', 'X')]
def cigarOp2 : RE := cls [('D', 'D'), ('I', 'I'), ('M', 'M'), ('P', 'P')]
def star1 : RE := chr '*'

def int : RE := seq (opt sign) (plus digit)                                        -- [-+]?[0-9]+
def uint : RE := plus digit
def float : RE :=                                                                  -- [-+]?[0-9]*\.?[0-9]+([eE][-+]?[0-9]+)?
  seqs [opt sign, star digit, opt (chr '.'), plus digit, opt (seqs [cls [('E', 'E'), ('e', 'e')], opt sign, plus digit])]
def cigar1 : RE := plus (seq (plus digit) cigarOp1)
def cigar2 : RE := plus (seq (plus digit) cigarOp2)
def trace : RE := seq (plus digit) (star (seq (chr ',') (plus digit)))
def segName1 : RE := seq nameStart (star printable)
def oid1 : RE := seqs [nameStart, star printable, sign]

/-- the language of each datatype (regular part) -/
def re : Datatype → RE
  | .A => printable
  | .i => int
  | .f => float
  | .Z => plus printableSp
  | .J => plus printableSp
  | .H => plus hexdig
  | .B => alts [seq (chr 'f') (plus (seq (chr ',') float)),
                seq (cls [('C', 'C'), ('I', 'I'), ('S', 'S'), ('c', 'c'), ('i', 'i'), ('s', 's')])
                  (plus (seqs [chr ',', opt sign, plus digit]))]   -- a sign also for the unsigned subtypes ("-0"): the range decides
  | .alnGfa1 => alt star1 cigar1
  | .alnListGfa1 => seq (alt star1 cigar1) (star (seq (chr ',') (alt star1 cigar1)))
  | .oidListGfa1 => seqs [nameStart, star printable, sign]   -- the list is split at the commas by the side condition
  | .posGfa1 => uint
  | .segNameGfa1 => segName1
  | .seqGfa1 => alt star1 (plus (cls [('.', '.'), ('=', '='), ('A', 'Z'), ('a', 'z')]))
  | .pathNameGfa1 => segName1
  | .alnGfa2 => alts [star1, cigar2, trace]
  | .generic => star (cls [(Char.ofNat 0, Char.ofNat 8), (Char.ofNat 11, Char.ofNat 0xD7FF), (Char.ofNat 0xE000, Char.ofNat 0x10FFFF)])
  | .idGfa2 => plus printable
  | .oidGfa2 => seq (plus printable) sign
  | .idListGfa2 => plus printableSp
  | .oidListGfa2 => seqs [plus printable, sign, star (seqs [chr ' ', plus printable, sign])]
  | .optIdGfa2 => plus printable
  | .posGfa2 => seq (plus digit) (opt (chr '$'))
  | .customRecordType => plus printable
  | .seqGfa2 => plus printable
  | .optInt => alt star1 int
  | .comment => star (cls [(Char.ofNat 0, Char.ofNat 9), (Char.ofNat 11, Char.ofNat 0xD7FF), (Char.ofNat 0xE000, Char.ofNat 0x10FFFF)])
  | .orientation => sign

/-- tag syntax `[A-Za-z][A-Za-z0-9]:[AifZJHB]:.+` -/
def tagName : RE := seq (cls [('A', 'Z'), ('a', 'z')]) (cls [('0', '9'), ('A', 'Z'), ('a', 'z')])

end Grammar
end Gfa
