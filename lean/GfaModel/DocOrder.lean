/-
  The order in which `Gfa.__str__` / `Gfa.lines` writes the records (gfapy/lines/collections.py `lines`):
  comments, headers, segments, edges (links then containments in GFA1), paths (P then O), sets, gaps, fragments,
  custom records — within a group in arrival order.
-/
namespace Gfa.Doc

/-- group of a record type in the written document (custom records: 11) -/
def groupOf (rt : String) : Nat :=
  match rt with
  | "#" => 0 | "H" => 1 | "S" => 2 | "L" => 3 | "C" => 4 | "E" => 5 | "P" => 6 | "O" => 7 | "U" => 8 | "G" => 9 | "F" => 10
  | _ => 11

def nGroups : Nat := 12

/-- the records in written order: group after group, arrival order inside a group -/
def writeOrder {α} (key : α → Nat) (n : Nat) (ls : List α) : List α :=
  (List.range n).flatMap (fun g => ls.filter (fun x => key x == g))

def standard : List String := ["#", "H", "S", "L", "C", "E", "P", "O", "U", "G", "F"]

/-- the custom record types of a document, in order of first appearance (`custom_record_keys`: the keys of the
    record dictionary in insertion order) -/
def customKeys (rts : List String) : List String := (rts.filter (fun r => !standard.contains r)).eraseDups

/-- group of a record type in a given document: custom records are written type after type, in order of first appearance -/
def groupIn (rts : List String) (rt : String) : Nat :=
  if standard.contains rt then groupOf rt else 11 + (customKeys rts).idxOf rt

def nGroupsIn (rts : List String) : Nat := 12 + (customKeys rts).length

/-- `Gfa.lines` as record types -/
def docOrder (rts : List String) : List String := writeOrder (groupIn rts) (nGroupsIn rts) rts

end Gfa.Doc
