/-
  The order in which `Gfa.__str__` / `Gfa.lines` writes the records (gfapy/lines/collections.py `lines`):
  comments, headers, segments, edges (links then containments in GFA1), paths (P then O), sets, gaps, fragments,
  custom records — within a group in arrival order.
-/
namespace Gfa.Doc

/-- group of a record type in the written document (custom records: 11) -/
def groupOf (rt : String) : Nat :=
  match rt with
  | "#" => 0 | "H" => 1 | "S" => 2 | "L" => 3 | "C" => 4 | "E" => 5 | "P" => 6 | "O" => 7 | "U" => 8 | "G" => 9 | "F" => 10
  | _ => 11

def nGroups : Nat := 12

/-- the records in written order: group after group, arrival order inside a group -/
def writeOrder {α} (key : α → Nat) (n : Nat) (ls : List α) : List α :=
  (List.range n).flatMap (fun g => ls.filter (fun x => key x == g))

end Gfa.Doc
