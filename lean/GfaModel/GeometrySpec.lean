import GfaModel.Geometry
/-
  Specification side of C11, written independently of the code: what the GFA2 specification
  says an interval on an oriented segment *means*.
-/
namespace Gfa.Spec

/-- An interval `[b,e]` on a segment of length `n`, looked at on the segment read in orientation `o`:
    does it begin at the start / finish at the end of the *oriented* sequence? -/
def touchesStart (o : Orient) (n b e : Nat) : Bool :=
  match o with
  | .plus => b == 0
  | .minus => e == n
def touchesEnd (o : Orient) (n b e : Nat) : Bool :=
  match o with
  | .plus => e == n
  | .minus => b == 0

/-- An interval written according to the specification (`$` exactly at the segment end). -/
structure ValidIv (n b e : Nat) : Prop where
  le : b ≤ e
  bound : e ≤ n
  pos : 0 < n

/-- kind of an interval from what it touches -/
def kindOf (n b e : Nat) : SubT :=
  if b = 0 then (if e = n then .whole else .pfx) else (if e = n then .sfx else .internal)

def isWhole (n b e : Nat) : Bool := b == 0 && e == n

/-- dovetail: neither interval is a whole segment and an oriented suffix of one meets an oriented
    prefix of the other -/
def isDovetail (o1 o2 : Orient) (n1 b1 e1 n2 b2 e2 : Nat) : Bool :=
  !isWhole n1 b1 e1 && !isWhole n2 b2 e2 &&
  ((touchesEnd o1 n1 b1 e1 && touchesStart o2 n2 b2 e2) ||
   (touchesStart o1 n1 b1 e1 && touchesEnd o2 n2 b2 e2))

def isContainment (n1 b1 e1 n2 b2 e2 : Nat) : Bool := isWhole n1 b1 e1 || isWhole n2 b2 e2

/-- the forward (as-stored) end of the segment that the interval touches -/
def forwardEnd (b : Nat) : Key := if b = 0 then .dovL else .dovR

/-- Where the specification files an E line on its first / second segment. -/
def filedUnder (first : Bool) (o1 o2 : Orient) (n1 b1 e1 n2 b2 e2 : Nat) : Key :=
  if isWhole n1 b1 e1 && isWhole n2 b2 e2 then (if first then .toContained else .toContainers)
  else if isWhole n1 b1 e1 then (if first then .toContainers else .toContained)   -- sid1 is inside sid2
  else if isWhole n2 b2 e2 then (if first then .toContained else .toContainers)
  else if isDovetail o1 o2 n1 b1 e1 n2 b2 e2 then forwardEnd (if first then b1 else b2)
  else .internals

/-- the segment whose oriented *suffix* overlaps the other's oriented prefix is the `from` side;
    for a containment the container is the `from` side -/
def sid1IsFrom (o1 o2 : Orient) (n1 b1 e1 n2 b2 e2 : Nat) : Option Bool :=
  if isWhole n2 b2 e2 then some true
  else if isWhole n1 b1 e1 then some false
  else if touchesEnd o1 n1 b1 e1 && !touchesStart o1 n1 b1 e1 && touchesStart o2 n2 b2 e2 && !touchesEnd o2 n2 b2 e2 then some true
  else if touchesEnd o2 n2 b2 e2 && !touchesStart o2 n2 b2 e2 && touchesStart o1 n1 b1 e1 && !touchesEnd o1 n1 b1 e1 then some false
  else none

/-- forward end of a segment reached when leaving the oriented segment at its end / entering at its start -/
def endOfOrientedEnd (o : Orient) : EndT := if o = .plus then .R else .L
def endOfOrientedStart (o : Orient) : EndT := if o = .plus then .L else .R

end Gfa.Spec
