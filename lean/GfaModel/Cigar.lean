/-
  CIGAR alignments and GFA1 links up to complement
  (gfapy/alignment/cigar.py, gfapy/line/edge/link/{complement,equivalence,canonical}.py).
-/
namespace Gfa

inductive Code where
  | M | I | D | N | S | H | P | X | Eq
  deriving Repr, DecidableEq, Inhabited

namespace Code
def toChar : Code → Char
  | M => 'M' | I => 'I' | D => 'D' | N => 'N' | S => 'S' | H => 'H' | P => 'P' | X => 'X' | Eq => '='
def ofChar? : Char → Option Code
  | 'M' => some M | 'I' => some I | 'D' => some D | 'N' => some N | 'S' => some S
  | 'H' => some H | 'P' => some P | 'X' => some X | '=' => some Eq | _ => none
def all : List Code := [M, I, D, N, S, H, P, X, Eq]
/-- `CIGAR.complement`'s operation map. -/
def flip : Code → Code
  | I => D | S => D | D => I | N => I | c => c
/-- codes counted by `length_on_reference`. -/
def onRef : Code → Bool
  | M | Eq | X | D | N => true | _ => false
/-- codes counted by `length_on_query`. -/
def onQuery : Code → Bool
  | M | Eq | X | I | S => true | _ => false
/-- the codes on which `flip` is an involution (the property's claim excludes `S`,`N`). -/
def involutive : Code → Bool
  | S | N => false | _ => true
/-- codes allowed in GFA2 -/
def gfa2 : Code → Bool
  | M | I | D | P => true | _ => false
end Code

structure Op where
  len : Nat
  code : Code
  deriving Repr, DecidableEq, Inhabited

abbrev Cigar := List Op

namespace Cigar
def flipOp (o : Op) : Op := { o with code := o.code.flip }
/-- `CIGAR.complement` -/
def compl (c : Cigar) : Cigar := c.reverse.map flipOp
/-- the same alignment with the roles of the two sequences exchanged, not their strands: I and D are
    exchanged, the order is kept (`Edge.overlap` of an E line whose sid1 is the to-side) -/
def swapRoles (c : Cigar) : Cigar := c.map flipOp
/-- `CIGAR.length_on_reference` -/
def refLen (c : Cigar) : Nat := (c.map fun o => if o.code.onRef then o.len else 0).sum
/-- `CIGAR.length_on_query` -/
def queryLen (c : Cigar) : Nat := (c.map fun o => if o.code.onQuery then o.len else 0).sum
def Involutive (c : Cigar) : Prop := ∀ o ∈ c, o.code.involutive = true
instance (c : Cigar) : Decidable (Involutive c) := by unfold Involutive; infer_instance
end Cigar

/-- An overlap: placeholder `*` or a CIGAR. -/
inductive Aln where
  | star : Aln
  | cigar : Cigar → Aln
  deriving Repr, DecidableEq, Inhabited

namespace Aln
def compl : Aln → Aln
  | star => star
  | cigar c => cigar c.compl
def Involutive : Aln → Prop
  | star => True
  | cigar c => c.Involutive
/-- Python truthiness of the overlap object (`not self.overlap`): placeholder and empty CIGAR are falsy -/
def truthy : Aln → Bool
  | star => false
  | cigar c => !c.isEmpty
end Aln

inductive Orient where
  | plus | minus
  deriving Repr, DecidableEq, Inhabited

namespace Orient
def inv : Orient → Orient
  | plus => minus | minus => plus
def toChar : Orient → Char
  | plus => '+' | minus => '-'
end Orient

inductive EndT where
  | L | R
  deriving Repr, DecidableEq, Inhabited

namespace EndT
def inv : EndT → EndT
  | L => R | R => L
end EndT

/-- A GFA1 link without its tags (tags take no part in link identity). -/
structure Link where
  frm : String
  fo : Orient
  to : String
  too : Orient
  ovl : Aln
  deriving Repr, DecidableEq, Inhabited

namespace Link
/-- `Link.complement` -/
def compl (l : Link) : Link :=
  { frm := l.to, fo := l.too.inv, to := l.frm, too := l.fo.inv, ovl := l.ovl.compl }
/-- `FromTo.from_end`: the segment end the link leaves from -/
def fromEnd (l : Link) : String × EndT := (l.frm, if l.fo = .plus then .R else .L)
/-- `FromTo.to_end` -/
def toEnd (l : Link) : String × EndT := (l.to, if l.too = .plus then .L else .R)
def isSame (a b : Link) : Bool := a.fromEnd == b.fromEnd && a.toEnd == b.toEnd && a.ovl == b.ovl
def isComplement (a b : Link) : Bool :=
  a.fromEnd == b.toEnd && a.toEnd == b.fromEnd && a.ovl == b.ovl.compl
def isEql (a b : Link) : Bool := a.isSame b || a.isComplement b
/-- `Canonical.is_canonical` -/
def isCanonical (l : Link) : Bool :=
  if l.frm < l.to then true
  else if l.to < l.frm then false
  else l.fo == .plus || l.too == .plus
def canon (l : Link) : Link := if l.isCanonical then l else l.compl
/-- `is_compatible_direct` with (oriented from, oriented to, overlap) -/
def compatDirect (l : Link) (f : String) (fo : Orient) (t : String) (too : Orient) (o : Aln) : Bool :=
  (l.frm == f && l.fo == fo && l.to == t && l.too == too) &&
  (!l.ovl.truthy || !o.truthy || l.ovl == o)
/-- `is_compatible_complement` -/
def compatCompl (l : Link) (f : String) (fo : Orient) (t : String) (too : Orient) (o : Aln) : Bool :=
  (l.to == f && l.too == fo.inv && l.frm == t && l.fo == too.inv) &&
  (!l.ovl.truthy || !o.truthy || l.ovl == o.compl)
def compatible (l : Link) (f : String) (fo : Orient) (t : String) (too : Orient) (o : Aln) : Bool :=
  l.compatDirect f fo t too o || l.compatCompl f fo t too o
end Link

end Gfa
