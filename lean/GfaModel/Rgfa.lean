import GfaModel.Validate
/-
  The rGFA dialect (gfapy/rgfa.py `validate_rgfa`): GFA1 only, no header / containment / path lines, segments
  carry SN:Z, SO:i, SR:i, links may carry SR/L1/L2 of type i, every overlap is written `0M`.
-/
namespace Gfa.G

inductive RErr where
  | version | value | notFound
  deriving DecidableEq, Repr, Inhabited

def RErr.str : RErr → String
  | .version => "VersionError" | .value => "ValueError" | .notFound => "NotFoundError"

def mandatoryS : List (String × Char) := [("SN", 'Z'), ("SO", 'i'), ("SR", 'i')]
def optionalL : List (String × Char) := [("SR", 'i'), ("L1", 'i'), ("L2", 'i')]

def tagOf? (n : String) (tags : List String) : Option String := tags.find? (isTagNamed n)
def tagType (t : String) : Char := t.toList.getD 3 ' '

/-- the first complaint about the tags of one line, in the library's order: presence of every mandatory tag first,
    then the datatypes of the mandatory and optional ones -/
def tagsComplaint (must may : List (String × Char)) (tags : List String) : Option RErr :=
  if must.any (fun p => (tagOf? p.1 tags).isNone) then some .notFound
  else if (must ++ may).any (fun p => match tagOf? p.1 tags with
      | some t => tagType t != p.2
      | none => false) then some .value
  else none

def firstSome {α β} (l : List α) (f : α → Option β) : Option β :=
  match l with
  | [] => none
  | x :: xs => match f x with
    | some e => some e
    | none => firstSome xs f

/-- the overlap is written `0M` by the library (`field_to_s`: the CIGAR is parsed, `00M` is written `0M`) -/
def isZeroM (ov : String) : Bool := Aln.parse ov.toList == some (.cigar [⟨0, .M⟩])

/-- `validate_rgfa()`; `hasHeader`: the Gfa holds a header line (headers are not part of the graph model) -/
def validateRgfa (st : St) (hasHeader : Bool) : Option RErr :=
  if st.ver != .gfa1 then some .version
  else if hasHeader then some .value
  else if st.lines.any (fun r => r.rt == .C) then some .value
  else if st.lines.any (fun r => r.rt == .P) then some .value
  else
    match firstSome (st.lines.filter (fun r => r.rt == .S)) (fun r => tagsComplaint mandatoryS [] (sTags .gfa1 r)) with
    | some e => some e
    | none =>
      match firstSome (st.lines.filter (fun r => r.rt == .L)) (fun r => tagsComplaint [] optionalL (r.fields.drop 5)) with
      | some e => some e
      | none => if st.lines.any (fun r => r.rt == .L && !isZeroM (fld r 4)) then some .value else none

end Gfa.G
