/-
  Arithmetic core of segment multiplication (gfapy/graph_operations/multiplication.py):
  automatic choice of the end whose links are distributed, the distribution windows,
  the automatic copy names, the division of the counts.
-/
namespace Gfa.Mul

/-- `_auto_select_distribute_end(factor, bsize, esize, equal_only)`; `some true` = "R", `some false` = "L" -/
def autoSelect (k b e : Nat) (eq : Bool) : Option Bool :=
  if e = k then some true else if b = k then some false else if eq then none
  else if e < 2 then (if b < 2 then none else some false)
  else if b < 2 then some true
  else if e < k then (if b ≤ e then some true else if b < k then some false else some true)
  else if b < k then some false else if b ≤ e then some false else some true

/-- copy number `i` (0 = the original) keeps the links with index in `sigs[i : i+diff+1]`,
    `diff = max(n-k, 0)`, of the `n` links of the distributed end -/
def keeps (n k i j : Nat) : Bool := decide (i ≤ j) && decide (j < i + (n - k) + 1) && decide (j < n)

/-- smallest `m ≥ n` not in `used` (the `while name in self.names: offset += 1` loop), with fuel -/
def nextFree (used : List Nat) : Nat → Nat → Nat
  | 0, n => n
  | fuel + 1, n => if used.contains n then nextFree used fuel (n + 1) else n

/-- numeric suffixes of the automatic copy names: candidates `first, first+1, …` shifted by a running
    offset that skips suffixes already in use -/
def copyNums (used : List Nat) : Nat → Nat → List Nat
  | 0, _ => []
  | count + 1, cand =>
    let m := nextFree used used.length cand
    m :: copyNums used count (m + 1)

/-- `__divide_counts` -/
def divideCount (c k : Nat) : Nat := c / k

end Gfa.Mul
