import GfaModel.LinearPaths
import GfaModel.Seq
/-
  Merging a linear path on the graph (gfapy/graph_operations/linear_paths.py `merge_linear_path`,
  `__create_merged_segment`, `_add_segment_to_merged`, `__link_merged`, `__move_edge_to_merged`), default
  parameters: no redundant junctions, no tracking, merged name = member names joined by `_`, counts not cut.

  A path is a list of segment ends: `name:R` = the member is read forward, `name:L` = reverse-complemented.
-/
namespace Gfa.G

def sSeq (v : Ver) (r : Rec) : String := match v with | .gfa1 => fld r 1 | .gfa2 => fld r 2
def sTags (v : Ver) (r : Rec) : List String := match v with | .gfa1 => r.fields.drop 2 | .gfa2 => r.fields.drop 3

def isTagNamed (n : String) (t : String) : Bool := (n ++ ":").toList.isPrefixOf t.toList

def intTag? (n : String) (tags : List String) : Option Int :=
  match tags.find? (isTagNamed n) with
  | some t => intOf? (t.toList.drop 5)
  | none => none

def seqLen? (s : String) : Option Int := if s = "*" then none else some (s.length : Int)

/-- `segment.length`: GFA1: the LN tag when it is there and not 0, else the length of the sequence, else nothing;
    GFA2: slen -/
def sLen (v : Ver) (r : Rec) : Option Int :=
  match v with
  | .gfa2 => intOf? (fld r 1).toList
  | .gfa1 =>
    match intTag? "LN" (sTags v r) with
    | some n => if n ≠ 0 then some n else seqLen? (sSeq v r)
    | none => seqLen? (sSeq v r)

/-- the dovetails joining segment end `a` with segment end `b` (`end_relations(a.end_type, b, "dovetails")`) -/
def joining (st : St) (a b : SegEnd) : List Rec :=
  st.lines.filter (fun r => match dovEnds r with
    | some (x, y) => (x = a ∧ y = b) || (x = b ∧ y = a)
    | none => false)

def overlapField (r : Rec) : String := match r.rt with | .L => fld r 4 | .E => fld r 7 | _ => "*"

/-- how much of the successor is covered by the overlap: 0 for `*`, the total length of an M/= CIGAR;
    `none`: another operation occurs (gfapy refuses to merge) -/
def cutOf (ov : String) : Option Nat :=
  match Aln.parse ov.toList with
  | some .star => some 0
  | some (.cigar c) => if c.all (fun o => o.code == .M || o.code == .Eq) then some (c.map (·.len)).sum else none
  | none => none

/-- the cuts along the path: one per consecutive pair, `none` if some pair is not joined by exactly one dovetail
    or its overlap cannot be merged over -/
def cutsAlong (st : St) : List SegEnd → Option (List Nat)
  | a :: b :: rest =>
    match joining st a b.inv with
    | [l] =>
      match cutOf (overlapField l), cutsAlong st (b :: rest) with
      | some c, some cs => some (c :: cs)
      | _, _ => none
    | _ => none
  | _ => some []

/-- LN / slen of the merged segment while members are added (`_add_segment_to_merged`, not init) -/
def lenStep (acc : Option Int) (seglen : Option Int) (cut : Nat) : Option Int :=
  match acc with
  | some n =>
    if n ≠ 0 then
      (match seglen with
       | some m => if m ≠ 0 then some (n + (m - (cut : Int))) else none
       | none => none)
    else acc
  | none => none

def lenAlong (acc : Option Int) : List (Option Int × Nat) → Option Int
  | [] => acc
  | (l, c) :: rest => lenAlong (lenStep acc l c) rest

/-- the members of the chain for `Seq.spell`; `none`: some sequence is a placeholder -/
def membersOf (v : Ver) (segs : List Rec) (path : List SegEnd) (cuts : List Nat) : Option (List Seq.Member) :=
  if segs.any (fun r => sSeq v r == "*") then none
  else some ((segs.zip (path.zip (0 :: cuts))).map (fun p => ⟨(sSeq v p.1).toList, !p.2.1.right, p.2.2⟩))

def isCountTag (t : String) : Bool := isTagNamed "KC" t || isTagNamed "RC" t || isTagNamed "FC" t

/-- tags of the merged segment: those of the first member without `jn`; LN rewritten in place, appended or
    dropped (GFA1); the count tags dropped when the length is known, else set to 0 for those any member carries -/
def mergedTags (v : Ver) (first : List String) (ln : Option Int) (known : Bool) (allTags : List String) : List String :=
  let t0 := first.filter (fun t => !isTagNamed "jn" t)
  let t1 :=
    match v with
    | .gfa2 => t0
    | .gfa1 =>
      match ln with
      | some n =>
        if t0.any (isTagNamed "LN") then t0.map (fun t => if isTagNamed "LN" t then "LN:i:" ++ String.ofList (intStr n) else t)
        else t0 ++ ["LN:i:" ++ String.ofList (intStr n)]
      | none => t0.filter (fun t => !isTagNamed "LN" t)
  if known then t1.filter (fun t => !isCountTag t)
  else
    ["KC", "RC", "FC"].foldl (fun ts n =>
      if allTags.any (isTagNamed n) then
        (if ts.any (isTagNamed n) then ts.map (fun t => if isTagNamed n t then n ++ ":i:0" else t) else ts ++ [n ++ ":i:0"])
      else ts) t1

/-- `__create_merged_segment`: the record of the merged segment and its length -/
def mergedSegment (st : St) (path : List SegEnd) (vlevel : Nat) : Except Err (Rec × Option Int) :=
  match path.mapM (fun e => findSeg st e.name) with
  | none => .error .notFound
  | some segs =>
    match segs, cutsAlong st path with
    | first :: others, some cuts =>
      let v := st.ver
      let name := "_".intercalate (path.map (·.name))
      let ln1 := lenAlong (sLen v first) ((others.map (sLen v)).zip cuts)
      match membersOf v segs path cuts with
      | none =>
        -- some sequence is a placeholder: the merged sequence is a placeholder, LN as computed
        let known := match v, ln1 with
          | .gfa2, _ => true
          | .gfa1, some n => n ≠ 0
          | .gfa1, none => false
        let tags := mergedTags v (sTags v first) ln1 known (segs.flatMap (sTags v))
        (match v with
         | .gfa1 => .ok (⟨.S, [name, "*"] ++ tags, false⟩, ln1)
         | .gfa2 => .ok (⟨.S, [name, String.ofList (intStr (ln1.getD 0)), "*"] ++ tags, false⟩, ln1))
      | some ms =>
        match Seq.spell ms with
        | none => .error .other
        | some sq =>
          (match v with
           | .gfa1 =>
             let ln2 : Int := match ln1 with
               | some n => if n ≠ 0 then n else (sq.length : Int)
               | none => (sq.length : Int)
             if vlevel > 0 ∧ ln2 ≠ (sq.length : Int) then .error .other
             else .ok (⟨.S, [name, String.ofList sq] ++ mergedTags v (sTags v first) (some ln2) true [], false⟩, some ln2)
           | .gfa2 =>
             .ok (⟨.S, [name, String.ofList (intStr (ln1.getD 0)), String.ofList sq] ++
                    mergedTags v (sTags v first) ln1 true [], false⟩, ln1))
    | _, _ => .error .other

def invOrientStr (s : String) : String := if s = "-" then "+" else "-"

def posVal (s : String) : Int :=
  match s.toList.reverse with
  | '$' :: r => (natOf r.reverse : Int)
  | _ => (natOf s.toList : Int)

/-- one side (0: sid1, 1: sid2) of an E record moved to the merged segment (`__move_edge_to_merged`) -/
def moveESide (r : Rec) (side : Nat) (merged : String) (reversed mergedRight : Bool) (mlen : Int) : Rec :=
  let so := splitOriented (fld r (1 + side))
  let o := if reversed then invOrientStr (orientStr so.2) else orientStr so.2
  let ovlen := posVal (fld r (4 + 2 * side)) - posVal (fld r (3 + 2 * side))
  let last := String.ofList (intStr mlen) ++ "$"
  let b := if mergedRight then (if ovlen = 0 then last else String.ofList (intStr (mlen - ovlen))) else "0"
  let e := if mergedRight then last else String.ofList (intStr ovlen)
  { r with fields := ((r.fields.set (1 + side) (merged ++ o)).set (3 + 2 * side) b).set (4 + 2 * side) e }

/-- a dovetail with the end `x` of a member moved to the merged segment (`__link_merged`); both ends of a hairpin move -/
def moveTo (r : Rec) (x : SegEnd) (merged : String) (reversed mergedRight : Bool) (mlen : Int) : Rec :=
  match dovEnds r with
  | none => r
  | some (e1, e2) =>
    match r.rt with
    | .L =>
      let r1 := if e2 = x then
          { r with fields := (r.fields.set 2 merged).set 3 (if reversed then invOrientStr (fld r 3) else fld r 3) } else r
      if e1 = x then
        { r1 with fields := (r1.fields.set 0 merged).set 1 (if reversed then invOrientStr (fld r1 1) else fld r1 1) } else r1
    | .E =>
      let r1 := if e1 = x then moveESide r 0 merged reversed mergedRight mlen else r
      if e2 = x then moveESide r1 1 merged reversed mergedRight mlen else r1
    | _ => r

/-- indices of the dovetails on segment end `x` -/
def dovIdxOn (st : St) (x : SegEnd) : List Nat :=
  (List.range st.lines.length).filter (fun i => match st.lines[i]? with
    | some r => (match dovEnds r with | some (a, b) => a = x || b = x | none => false)
    | none => false)

def addAll (st : St) : List Rec → Except Err St
  | [] => .ok st
  | r :: rs => match add st r with
    | .ok st1 => addAll st1 rs
    | .error e => .error e

def rmAll (st : St) : List String → Except Err St
  | [] => .ok st
  | n :: ns => match rm st n with
    | .ok st1 => rmAll st1 ns
    | .error e => .error e

/-- `__link_merged`: the dovetails on end `x` are taken off and put back on the merged segment -/
def relink (st : St) (x : SegEnd) (merged : String) (reversed mergedRight : Bool) (mlen : Int) : Except Err St :=
  let idx := dovIdxOn st x
  let moved := idx.filterMap (fun i => (st.lines[i]?).map (fun r => moveTo r x merged reversed mergedRight mlen))
  addAll (rmIdx st idx) moved

/-- `Gfa.merge_linear_path(path)` -/
def mergePath (st : St) (path : List SegEnd) (vlevel : Nat) : Except Err St :=
  if path.length < 2 then .ok st else
  match mergedSegment st path vlevel with
  | .error e => .error e
  | .ok (m, mlen) =>
    match add st m, path.head?, path.getLast? with
    | .ok st1, some a, some z =>
      let name := fld m 0
      let ml := mlen.getD 0
      (match relink st1 a.inv name (!a.right) false ml with
       | .ok st2 =>
         (match relink st2 z name (!z.right) true ml with
          | .ok st3 => rmAll st3 (path.map (·.name))
          | .error e => .error e)
       | .error e => .error e)
    | .error e, _, _ => .error e
    | _, _, _ => .error .other

/-- `Gfa.merge_linear_paths()`: the paths are found first, then merged one after the other -/
def mergeAll (st : St) (vlevel : Nat) : Except Err St :=
  (linearPaths st).foldl (fun acc p => match acc with
    | .ok s => mergePath s p vlevel
    | .error e => .error e) (.ok st)

def parseEnd (s : String) : Option SegEnd :=
  match (s.toList.reverse) with
  | 'R' :: ':' :: r => some ⟨String.ofList r.reverse, true⟩
  | 'L' :: ':' :: r => some ⟨String.ofList r.reverse, false⟩
  | _ => none

end Gfa.G
