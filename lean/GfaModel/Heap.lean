/-
  Object identity for C19 (clone) and C10: a field value is a tree of Python objects; every *mutable*
  object (list, CIGAR, Operation, OrientedLine, LastPos, FieldArray, dict, NumericArray…) carries its
  identity (`id()`), immutable ones (int, float, str, bytes) do not matter.  Two values alias when they
  contain a node with the same identity; an in-place edit of an object is seen by every holder.
  (gfapy/line/common/cloning.py)
-/
namespace Gfa.Heap

inductive Obj where
  | atom (s : String)                              -- immutable value
  | node (id : Nat) (label : String) (kids : List Obj)   -- mutable object with identity
  deriving Repr, Inhabited

mutual
/-- identities of the mutable objects reachable from a value -/
def ids : Obj → List Nat
  | .atom _ => []
  | .node i _ ks => i :: idsL ks
def idsL : List Obj → List Nat
  | [] => []
  | o :: os => ids o ++ idsL os
end

mutual
/-- written form (what `str()` shows): identities do not appear -/
def written : Obj → String
  | .atom s => s
  | .node _ l ks => l ++ "(" ++ writtenL ks ++ ")"
def writtenL : List Obj → String
  | [] => ""
  | o :: os => written o ++ "," ++ writtenL os
end

mutual
/-- deep copy allocating fresh identities `n, n+1, …` (what `clone()` must do for a mutable value) -/
def copy (n : Nat) : Obj → Obj × Nat
  | .atom s => (.atom s, n)
  | .node _ l ks =>
    let (ks', n') := copyL (n + 1) ks
    (.node n l ks', n')
def copyL (n : Nat) : List Obj → List Obj × Nat
  | [] => ([], n)
  | o :: os =>
    let (o', n1) := copy n o
    let (os', n2) := copyL n1 os
    (o' :: os', n2)
end

mutual
/-- an in-place edit of the object with identity `a`: every occurrence (= every alias) changes -/
def edit (a : Nat) (newLabel : String) (newKids : List Obj) : Obj → Obj
  | .atom s => .atom s
  | .node i l ks => if i = a then .node i newLabel newKids else .node i l (editL a newLabel newKids ks)
def editL (a : Nat) (newLabel : String) (newKids : List Obj) : List Obj → List Obj
  | [] => []
  | o :: os => edit a newLabel newKids o :: editL a newLabel newKids os
end

/-- how `Cloning.clone` treats a field -/
inductive Rule where
  | deep    -- copied
  | share   -- same object in clone and original
  | name    -- reference field: replaced by the identifier string
  deriving DecidableEq, Repr

def cloneField (r : Rule) (n : Nat) (o : Obj) : Obj × Nat :=
  match r with
  | .deep => copy n o
  | .share => (o, n)
  | .name => (.atom (written o), n)

end Gfa.Heap
