import GfaModel.Field
import GfaModel.Line
import GfaModel.Geometry
/-
  The partial Python primitives gfapy's parsing front end uses (indexing, int(), binascii.unhexlify, …)
  as total functions into an outcome that can be a *foreign* exception, and the guarded front end built
  from them (gfapy/lines/creators.py add_line, line/common/construction.py, field/*.py safe decoders,
  lastpos.py, byte_array.py, numeric_array.py).
-/
namespace Gfa.Py

inductive Outcome (α : Type) where
  | ok (a : α)
  | gerr (cls : String)       -- an exception derived from gfapy.Error
  | foreign (exc : String)    -- IndexError, ValueError, binascii.Error, …
  deriving Repr, DecidableEq

def Outcome.bind {α β} (o : Outcome α) (f : α → Outcome β) : Outcome β :=
  match o with
  | .ok a => f a
  | .gerr c => .gerr c
  | .foreign e => .foreign e

def Outcome.isForeign {α} : Outcome α → Bool
  | .foreign _ => true
  | _ => false

/-- `s[0]` -/
def idx0 (s : List Char) : Outcome Char :=
  match s with
  | [] => .foreign "IndexError"
  | c :: _ => .ok c

/-- `l[i]` -/
def listIdx {α} (l : List α) (i : Nat) : Outcome α :=
  match l[i]? with
  | some a => .ok a
  | none => .foreign "IndexError"

/-- `int(s)`: besides `[-+]?[0-9]+` Python also accepts surrounding blanks and single underscores between digits -/
def pyInt (s : List Char) : Outcome Int :=
  match intOf? s with
  | some v => .ok v
  | none =>
    let t := (s.filter (· ≠ '_')).dropWhile (· == ' ')
    match intOf? (t.reverse.dropWhile (· == ' ')).reverse with
    | some v => .ok v
    | none => .foreign "ValueError"

/-- `binascii.unhexlify(s)` -/
def unhexlify (s : List Char) : Outcome (List Nat) :=
  match Lvl.unhexAny' s with
  | some b => .ok b
  | none => .foreign "binascii.Error"
where
  Lvl.unhexAny' (s : List Char) : Option (List Nat) :=
    Field.unhex (s.map fun c => if 'a' ≤ c && c ≤ 'f' then Char.ofNat (c.toNat - 32) else c)

/-- safe decoder of a tag value: *validate first, then convert* (the structure of the repaired decoders) -/
def decodeTag (dt : Char) (s : List Char) : Outcome TagVal :=
  match dt with
  | 'i' => if Field.accept .i s then (pyInt s).bind (fun v => .ok (.int v)) else .gerr "FormatError"
  | 'Z' => if Field.accept .Z s then .ok (.str s) else .gerr "FormatError"
  | 'A' => if Field.accept .A s then (idx0 s).bind (fun c => .ok (.chr c)) else .gerr "FormatError"
  | 'H' => if Field.accept .H s then (unhexlify s).bind (fun b => .ok (.bytes b)) else .gerr "FormatError"
  | 'f' => if Field.accept .f s then .ok (.opaque 'f' s) else .gerr "FormatError"
  | 'J' => if Field.accept .J s then .ok (.opaque 'J' s) else .gerr "FormatError"
  | 'B' => if Field.accept .B s then .ok (.opaque 'B' s) else .gerr "FormatError"
  | _ => .gerr "TypeError"

/-- GFA2 position `[0-9]+\$?` (lastpos.py `_from_string`) -/
def decodePos (s : List Char) : Outcome Pos :=
  if !Field.accept .posGfa2 s then .gerr "FormatError" else
  match s.reverse with
  | '$' :: r => (pyInt r.reverse).bind (fun v => .ok (Pos.last v.toNat))
  | _ => (pyInt s).bind (fun v => .ok (Pos.int v.toNat))

/-- `add_line(text)`: record type of a line; the empty string is refused before it is indexed -/
def recordType (s : List Char) : Outcome (List Char) :=
  if s.isEmpty then .gerr "FormatError" else
  (listIdx (Field.splitOn '\t' s) 0)

/-- a line with `npos` positional fields: arity is checked before the fields are indexed; then the tags -/
def parseLine (dts : List Datatype) (s : List Char) : Outcome Line.PLine :=
  let npos := dts.length
  (recordType s).bind fun rt =>
    let fs := (Field.splitOn '\t' s).drop 1
    if fs.length < npos then .gerr "FormatError" else
    ((List.range npos).foldr (fun i (acc : Outcome (List (List Char))) => acc.bind fun l => (listIdx fs i).bind fun f => Outcome.ok (f :: l)) (Outcome.ok [])).bind fun pos =>
      if !(pos.zip dts).all (fun p => Field.accept p.2 p.1) then .gerr "FormatError" else
      match (fs.drop npos).mapM Line.parseTag with
      | none => .gerr "FormatError"
      | some tags =>
        -- every tag value goes through its safe decoder
        (tags.foldr (fun t (acc : Outcome Unit) => acc.bind fun _ => (decodeTag t.dt t.value).bind fun _ => Outcome.ok ()) (Outcome.ok ())).bind fun _ =>
          .ok ⟨rt, pos, tags⟩

end Gfa.Py
