/-
  Regular expressions over `Char` with a Brzozowski-derivative matcher.
  Core Lean only (the driver links this file).
-/
namespace Gfa

inductive RE where
  | empty : RE
  | eps : RE
  | cls : List (Char × Char) → RE          -- union of inclusive ranges
  | seq : RE → RE → RE
  | alt : RE → RE → RE
  | star : RE → RE
  deriving Repr, DecidableEq, Inhabited

namespace RE

def inRanges (rs : List (Char × Char)) (c : Char) : Bool :=
  rs.any (fun r => r.1 ≤ c && c ≤ r.2)

/-- `r+` -/
def plus (r : RE) : RE := seq r (star r)
/-- `r?` -/
def opt (r : RE) : RE := alt eps r
/-- one character -/
def chr (c : Char) : RE := cls [(c, c)]
/-- sequence of a list -/
def seqs : List RE → RE
  | [] => eps
  | [r] => r
  | r :: rs => seq r (seqs rs)
/-- alternative of a list -/
def alts : List RE → RE
  | [] => empty
  | [r] => r
  | r :: rs => alt r (alts rs)

def nullable : RE → Bool
  | empty => false | eps => true | cls _ => false
  | seq a b => nullable a && nullable b
  | alt a b => nullable a || nullable b
  | star _ => true

def deriv (c : Char) : RE → RE
  | empty => empty | eps => empty
  | cls rs => if inRanges rs c then eps else empty
  | seq a b => if nullable a then alt (seq (deriv c a) b) (deriv c b) else seq (deriv c a) b
  | alt a b => alt (deriv c a) (deriv c b)
  | star a => seq (deriv c a) (star a)

def accepts (r : RE) : List Char → Bool
  | [] => nullable r
  | c :: cs => accepts (deriv c r) cs

/-- Does some prefix of the string match?  (`re.match` without `$`.) -/
def acceptsPrefix (r : RE) : List Char → Bool
  | [] => nullable r
  | c :: cs => nullable r || acceptsPrefix (deriv c r) cs

/-- `re.search`: does some substring match? -/
def search (r : RE) : List Char → Bool
  | [] => nullable r
  | c :: cs => acceptsPrefix r (c :: cs) || search r cs

end RE
end Gfa
