/-
  Header merging (gfapy/line/header/multiline.py `_merge`/`add`, gfapy/lines/creators.py):
  an effect monad that keeps the state reached when an error is raised — exactly like Python — so that
  "what has already been written when the exception propagates" is visible to the theorems.
-/
namespace Gfa.Hdr

abbrev M (σ ε α : Type) := σ → (Except ε α × σ)
def pure' {σ ε α} (a : α) : M σ ε α := fun s => (.ok a, s)
def throw' {σ ε α} (e : ε) : M σ ε α := fun s => (.error e, s)
def bind' {σ ε α β} (m : M σ ε α) (f : α → M σ ε β) : M σ ε β := fun s =>
  match m s with
  | (.ok a, s') => f a s'
  | (.error e, s') => (.error e, s')
def modify' {σ ε} (f : σ → σ) : M σ ε Unit := fun s => (.ok (), f s)
def get' {σ ε} : M σ ε σ := fun s => (.ok s, s)

/-- header tags in insertion order: name ↦ written values (several for a multi-definition tag) -/
abbrev Hdr := List (String × List String)

def singleDef : List String := ["VN", "TS"]

def lookup : Hdr → String → Option (List String)
  | [], _ => none
  | p :: ps, n => if p.1 = n then some p.2 else lookup ps n

def setVals : Hdr → String → List String → Hdr
  | [], _, _ => []
  | p :: ps, n, vs => if p.1 = n then (n, vs) :: setVals ps n vs else p :: setVals ps n vs

/-- `Multiline.add` for one tag -/
def addTag (t : String × String) : M Hdr String Unit :=
  bind' get' fun h =>
    match lookup h t.1 with
    | none => modify' (· ++ [(t.1, [t.2])])
    | some vs =>
      if singleDef.contains t.1 then
        (if vs = [t.2] then pure' () else throw' "InconsistencyError")
      else modify' (fun h => setVals h t.1 (vs ++ [t.2]))

/-- the order of effects of the *pinned* tree: tag by tag, raising in the middle -/
def mergeTagByTag : List (String × String) → M Hdr String Unit
  | [] => pure' ()
  | t :: ts => bind' (addTag t) fun _ => mergeTagByTag ts

def conflicts (h : Hdr) (ts : List (String × String)) : Bool :=
  ts.any fun t => singleDef.contains t.1 &&
    (match lookup h t.1 with | some vs => vs != [t.2] | none => false)

/-- check before commit (the repaired `_merge`) -/
def merge (ts : List (String × String)) : M Hdr String Unit :=
  bind' get' fun h => if conflicts h ts then throw' "InconsistencyError" else mergeTagByTag ts

def isErr {ε α} : Except ε α → Bool | .error _ => true | .ok _ => false

end Gfa.Hdr
