import GfaModel.GraphObs
import GfaModel.Util.Closure
/-
  GFA2 groups: induced set of an unordered group (gfapy/line/group/unordered/induced_set.py).
  Several group lines with one identifier are merged by `G.mergeGroup` / `G.mergeTags` (same_id.py).
-/
namespace Gfa.G

/-- what a line directly brings into an induced set: the items of a group, the two segments of an edge -/
def expand (st : St) (n : String) : List String :=
  match findNamed st n with
  | some r =>
    match r.rt with
    | .O | .U => r.itemRefs
    | .E => r.segRefs
    | _ => []
  | none => []

def reaches (st : St) (y x : String) : Bool := (expand st y).contains x

/-- everything an unordered group mentions, directly or through edges, paths and nested sets -/
def inducedAll (st : St) (u : String) : List String := Closure.lfp (names st) (reaches st) [u]

def isSegName (st : St) (n : String) : Bool := (findSeg st n).isSome

/-- `induced_segments_set` -/
def inducedSegments (st : St) (u : String) : List String := (inducedAll st u).filter (isSegName st)

/-- `induced_edges_set`: every edge both of whose segments are in the induced segments -/
def inducedEdges (st : St) (u : String) : List Rec :=
  st.lines.filter (fun r => r.rt = .E && r.segRefs.all (fun s => (inducedSegments st u).contains s))

end Gfa.G
