import GfaModel.Line
import GfaModel.Graph
/-
  Acceptance of one line at validation level >= 1 (gfapy/line/common/construction.py `__init__`:
  `_initialize_positional_fields`, `_initialize_tags` / `_initialize_tag`, `_init_field_value` with safe decoding,
  `_validate_record_type_specific_info`), driven by the class tables POSFIELDS / DATATYPE / PREDEFINED_TAGS.
-/
namespace Gfa.LineFmt
open Field Line

/-- record classes with positional fields (segments split by version) -/
inductive LT where
  | S1 | S2 | L | C | P | E | G | F | O | U | H
  deriving DecidableEq, Repr, Inhabited

/-- datatypes of the positional fields (`POSFIELDS` through `DATATYPE`) -/
def posTypes : LT → List Datatype
  | .S1 => [.segNameGfa1, .seqGfa1]
  | .S2 => [.idGfa2, .i, .seqGfa2]
  | .L => [.segNameGfa1, .orientation, .segNameGfa1, .orientation, .alnGfa1]
  | .C => [.segNameGfa1, .orientation, .segNameGfa1, .orientation, .posGfa1, .alnGfa1]
  | .P => [.pathNameGfa1, .oidListGfa1, .alnListGfa1]
  | .E => [.optIdGfa2, .oidGfa2, .oidGfa2, .posGfa2, .posGfa2, .posGfa2, .posGfa2, .alnGfa2]
  | .G => [.optIdGfa2, .oidGfa2, .oidGfa2, .i, .optInt]
  | .F => [.idGfa2, .oidGfa2, .posGfa2, .posGfa2, .posGfa2, .posGfa2, .alnGfa2]
  | .O => [.optIdGfa2, .oidListGfa2]
  | .U => [.optIdGfa2, .idListGfa2]
  | .H => []

/-- predefined tags with their prescribed datatype (`PREDEFINED_TAGS` through `DATATYPE`) -/
def predefined : LT → List (Char × Char × Char)
  | .S1 => [('L', 'N', 'i'), ('R', 'C', 'i'), ('F', 'C', 'i'), ('K', 'C', 'i'), ('S', 'H', 'H'), ('U', 'R', 'Z')]
  | .S2 => [('R', 'C', 'i'), ('F', 'C', 'i'), ('K', 'C', 'i'), ('S', 'H', 'H'), ('U', 'R', 'Z')]
  | .L => [('M', 'Q', 'i'), ('N', 'M', 'i'), ('R', 'C', 'i'), ('F', 'C', 'i'), ('K', 'C', 'i'), ('I', 'D', 'Z')]
  | .C => [('M', 'Q', 'i'), ('N', 'M', 'i'), ('I', 'D', 'Z')]
  | .E | .F => [('T', 'S', 'i')]
  | .H => [('V', 'N', 'Z'), ('T', 'S', 'i')]
  | .P | .G | .O | .U => []

def tagDatatype : Char → Option Datatype
  | 'A' => some .A | 'i' => some .i | 'f' => some .f | 'Z' => some .Z | 'J' => some .J | 'H' => some .H | 'B' => some .B
  | _ => none

/-- value and type of one tag: its value matches its datatype, a predefined name carries the prescribed datatype -/
def tagOk (lt : LT) (t : Tag) : Bool :=
  (match tagDatatype t.dt with
    | some dt => Field.accept dt t.value
    | none => false) &&
  (predefined lt).all (fun p => !(p.1 == t.n1 && p.2.1 == t.n2) || p.2.2 == t.dt)

def tagNames (tags : List Tag) : List (Char × Char) := tags.map (fun t => (t.n1, t.n2))

/-- no tag name twice -/
def namesDistinct : List (Char × Char) → Bool
  | [] => true
  | x :: xs => !xs.contains x && namesDistinct xs

/-- value of a position `123` or `123$` -/
def posValue (s : List Char) : Nat :=
  match s.reverse with
  | '$' :: r => natOf r.reverse
  | _ => natOf s

/-- rules relating several fields (`_validate_record_type_specific_info`) -/
def crossOk (lt : LT) (pos : List (List Char)) (tags : List Tag) : Bool :=
  match lt with
  | .S1 =>
    -- LN equals the sequence length, unless the sequence is `*`
    let seq := pos.getD 1 []
    seq == ['*'] ||
    tags.all (fun t => !(t.n1 == 'L' && t.n2 == 'N') || (intOf? t.value == some (seq.length : Int)))
  | .P =>
    let nseg := (splitOn ',' (pos.getD 1 [])).length
    let ovls := splitOn ',' (pos.getD 2 [])
    ovls.length + 1 == nseg || (ovls == [['*']]) || ovls.length == nseg
  | .E =>
    posValue (pos.getD 3 []) ≤ posValue (pos.getD 4 []) && posValue (pos.getD 5 []) ≤ posValue (pos.getD 6 [])
  | .F =>
    posValue (pos.getD 2 []) ≤ posValue (pos.getD 3 []) && posValue (pos.getD 4 []) ≤ posValue (pos.getD 5 [])
  | _ => true

/-- the fields after the record type are accepted for the record class `lt` -/
def acceptFields (lt : LT) (fs : List (List Char)) : Bool :=
  let n := (posTypes lt).length
  decide (n ≤ fs.length) &&
  (List.zipWith Field.accept (posTypes lt) (fs.take n)).all id &&
  match (fs.drop n).mapM parseTag with
  | none => false
  | some tags => namesDistinct (tagNames tags) && tags.all (tagOk lt) && crossOk lt (fs.take n) tags

/-- record class of a record type in a version -/
def classOf (v : G.Ver) (rt : List Char) : Option LT :=
  match v, rt with
  | _, ['H'] => some .H
  | .gfa1, ['S'] => some .S1
  | .gfa1, ['L'] => some .L
  | .gfa1, ['C'] => some .C
  | .gfa1, ['P'] => some .P
  | .gfa2, ['S'] => some .S2
  | .gfa2, ['E'] => some .E
  | .gfa2, ['G'] => some .G
  | .gfa2, ['F'] => some .F
  | .gfa2, ['O'] => some .O
  | .gfa2, ['U'] => some .U
  | _, _ => none

/-- `gfapy.Line(text, version=v, vlevel>=1)` succeeds, for the record types with a class in that version -/
def acceptLine (v : G.Ver) (s : List Char) : Option Bool :=
  match splitOn '\t' s with
  | [] => none
  | rt :: fs =>
    match classOf v rt with
    | some lt => some (acceptFields lt fs)
    | none => none

end Gfa.LineFmt
