import GfaModel.Components
/-
  Linear paths (gfapy/graph_operations/linear_paths.py: `linear_path`, `linear_paths`,
  `__traverse_linear_path`; gfapy/line/edge/common/from_to.py: `other_end`; segment `_connectivity`).

  A segment end is (name, L/R).  The dovetails of the Gfa give, for every segment end, the list of the
  segment ends it is joined to (`otherEnds`): a hairpin is listed twice on its end, as in
  `Segment.dovetails_of_end`.  The traversal is written over that function only, so the theorems about it
  hold for every end graph.
-/
namespace Gfa.G

structure SegEnd where
  name : String
  right : Bool
  deriving DecidableEq, Repr, Inhabited

def SegEnd.inv (x : SegEnd) : SegEnd := ⟨x.name, !x.right⟩

def keyRight : Key → Bool
  | .dovR => true
  | _ => false

/-- the two segment ends joined by a dovetail record (`from_end`, `to_end`) -/
def dovEnds (r : Rec) : Option (SegEnd × SegEnd) :=
  match r.filing with
  | [(a, k1), (b, k2)] => if isDovKey k1 && isDovKey k2 then some (⟨a, keyRight k1⟩, ⟨b, keyRight k2⟩) else none
  | _ => none

/-- neighbours of one end, given the list of joined end pairs (`dovetails_of_end` mapped through `other_end`) -/
def otherEndsOf (ps : List (SegEnd × SegEnd)) (x : SegEnd) : List SegEnd :=
  ps.flatMap (fun p => (if p.1 = x then [p.2] else []) ++ (if p.2 = x then [p.1] else []))

def otherEnds (st : St) : SegEnd → List SegEnd := otherEndsOf (st.lines.filterMap dovEnds)

/-- `__traverse_linear_path` from `cur` (before the final orientation of the list) -/
def traverse (nb : SegEnd → List SegEnd) : Nat → SegEnd → List SegEnd → List String → List SegEnd × List String
  | 0, _, lst, ex => (lst, ex)
  | fuel + 1, cur, lst, ex =>
    if ((nb cur.inv).length = 1 ∧ (nb cur).length = 1) ∨ lst = [] then
      match nb cur with
      | [] => (lst, ex)
      | o :: _ =>
        if (cur.name :: ex).contains o.inv.name then (lst ++ [cur], cur.name :: ex)
        else traverse nb fuel o.inv (lst ++ [cur]) (cur.name :: ex)
    else if (nb cur.inv).length = 1 then (lst ++ [cur], cur.name :: ex)
    else (lst, ex)

/-- the path read in the other direction (`SegmentEndsPath.__reversed__`) -/
def revPath (p : List SegEnd) : List SegEnd := (p.map SegEnd.inv).reverse

def traverseFrom (nb : SegEnd → List SegEnd) (fuel : Nat) (start : SegEnd) (ex : List String) :
    List SegEnd × List String :=
  let r := traverse nb fuel start [] ex
  (if start.right then r.1 else revPath r.1, r.2)

/-- `Gfa.linear_path(segment, exclude)` -/
def linearPath (nb : SegEnd → List SegEnd) (fuel : Nat) (s : String) (ex : List String) :
    List SegEnd × List String :=
  let r1 := if (nb ⟨s, false⟩).length = 1 then traverseFrom nb fuel ⟨s, false⟩ (s :: ex) else ([], ex)
  if (nb ⟨s, true⟩).length = 1 then
    let r2 := traverseFrom nb fuel ⟨s, true⟩ (s :: r1.2)
    (r1.1.dropLast ++ r2.1, r2.2)
  else r1

/-- `Gfa.linear_paths()` (redundant_junctions = False) -/
def linearPathsAux (nb : SegEnd → List SegEnd) (fuel : Nat) : List String → List String → List (List SegEnd)
  | [], _ => []
  | s :: rest, ex =>
    if ex.contains s then linearPathsAux nb fuel rest ex
    else
      let r := linearPath nb fuel s ex
      if r.1.length > 1 then r.1 :: linearPathsAux nb fuel rest r.2
      else linearPathsAux nb fuel rest r.2

/-- names of the segment ends that carry a dovetail -/
def endNames (ps : List (SegEnd × SegEnd)) : List String := ps.flatMap (fun p => [p.1.name, p.2.name])

/-- enough steps for any traversal: every step but the first visits a new name among `endNames` -/
def pathFuel (st : St) : Nat := (endNames (st.lines.filterMap dovEnds)).length + 2

def linearPaths (st : St) : List (List SegEnd) :=
  linearPathsAux (otherEnds st) (pathFuel st) (segNames st) []

def SegEnd.show (x : SegEnd) : String := x.name ++ (if x.right then ":R" else ":L")

def showPath (p : List SegEnd) : String := ",".intercalate (p.map SegEnd.show)

end Gfa.G
