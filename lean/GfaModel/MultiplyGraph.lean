import GfaModel.GraphObs
import GfaModel.LinearPaths
import GfaModel.Multiply
/-
  Segment multiplication on the graph (gfapy/graph_operations/multiplication.py `multiply` with
  `distribute` off: `__divide_segment_and_connection_counts`, `__clone_segment_and_connections`).
-/
namespace Gfa.G

/-- a tag `KC:i:…`, `RC:i:…` or `FC:i:…` -/
def isCountTagL : List Char → Bool
  | a :: b :: ':' :: 'i' :: ':' :: _ => (a == 'K' || a == 'R' || a == 'F') && b == 'C'
  | _ => false

/-- `KC:i:10` divided by 3 is `KC:i:3` (Python `//`: floor division); other tags are left alone -/
def divTag (k : Nat) (t : String) : String :=
  if isCountTagL t.toList then
    match intOf? (t.toList.drop 5) with
    | some x => String.ofList (t.toList.take 5 ++ intStr (x / (k : Int)))
    | none => t
  else t

/-- `__divide_counts` on a record: the count tags among its tags -/
def divCounts (k : Nat) (r : Rec) : Rec :=
  { r with fields := r.fields.take (npos r.rt) ++ (r.fields.drop (npos r.rt)).map (divTag k) }

/-- the lines copied together with segment `s`: its dovetails and containments (`segment.dovetails +
    segment.containments`; a line joining `s` with itself is listed once) -/
def copiedWith (s : String) (r : Rec) : Bool :=
  (r.rt == .L || r.rt == .C || r.rt == .E) &&
  r.filing.any (fun p => p.1 == s && (p.2 == .dovL || p.2 == .dovR || p.2 == .toContained || p.2 == .toContainers))

/-- the identifier of a line cannot be used for its copy -/
def dropId (r : Rec) : Rec :=
  match r.rt with
  | .L | .C => { r with fields := r.fields.take (npos r.rt) ++ (r.fields.drop (npos r.rt)).filter (fun t => !isIdTag t) }
  | .E => { r with fields := "*" :: r.fields.drop 1 }
  | _ => r

/-- copy of segment `s` and of its connections under the name `cn` -/
def copiesFor (lines : List Rec) (s cn : String) : List Rec :=
  ((lines.filter (fun r => r.rt == .S && r.name == some s)).take 1).map (setName cn) ++
  (lines.filter (copiedWith s)).map (fun e => renameIn s cn (dropId e))

def hasDup : List String → Bool
  | [] => false
  | x :: xs => xs.contains x || hasDup xs

/-- `Gfa.multiply(segment, factor, copy_names)` without link distribution -/
def multiply (st : St) (s : String) (k : Nat) (names : List String) : Except Err St :=
  if (findSeg st s).isNone then .error .notFound
  else if k = 0 then rm st s
  else if k = 1 then .ok st
  else if names.any (fun n => hasName st n) || hasDup names then .error .notUnique
  else
    let lines1 := st.lines.map (fun r => if (r.rt == .S && r.name == some s) || copiedWith s r then divCounts k r else r)
    .ok { st with lines := lines1 ++ names.flatMap (copiesFor lines1 s) }

-- ------------------------------------------------------------------ distribution of the links of one end
/-- the other end of a dovetail record seen from segment end `x` (`l.other_end(x)`); for a hairpin on `x`: `x` -/
def otherEndOf (r : Rec) (x : SegEnd) : Option SegEnd :=
  match dovEnds r with
  | some (a, b) => if a = x then some b else if b = x then some a else none
  | none => none

/-- the dovetails on end `x`, in stored order (`dovetails_of_end`; a hairpin is listed twice) -/
def dovetailsOn (st : St) (x : SegEnd) : List Rec :=
  st.lines.flatMap (fun r => match dovEnds r with
    | some (a, b) => (if a = x then [r] else []) ++ (if b = x then [r] else [])
    | none => [])

/-- `_select_distribute_end`: `none` = no distribution -/
def selectEnd (st : St) (policy : String) (s : String) (k : Nat) : Option Bool :=
  match policy with
  | "off" => none
  | "L" => some false
  | "R" => some true
  | _ => Mul.autoSelect k (dovetailsOn st ⟨s, false⟩).length (dovetailsOn st ⟨s, true⟩).length (policy == "equal")

/-- one copy keeps, on the distributed end, the links whose other end is among `keep` -/
def thinOne (st : St) (x : SegEnd) (keep : List SegEnd) : St :=
  let dead := (List.range st.lines.length).filter (fun i => match st.lines[i]? with
    | some r => (match otherEndOf r x with
        | some o => !keep.contains o
        | none => false)
    | none => false)
  rmIdx st dead

/-- `_distribute_links`: copy number `i` (0 = the original) keeps the links whose other end is one of
    `signatures[i : i+diff+1]`, `diff = max(n - k, 0)` -/
def distribute (st : St) (s : String) (right : Bool) (names : List String) (k : Nat) : St :=
  let sigs := (dovetailsOn st ⟨s, right⟩).filterMap (fun r => otherEndOf r ⟨s, right⟩)
  let diff := sigs.length - k
  ((s :: names).zipIdx).foldl (fun acc p => thinOne acc ⟨p.1, right⟩ ((sigs.drop p.2).take (diff + 1))) st

/-- `Gfa.multiply(segment, factor, copy_names, distribute=policy)` -/
def multiplyD (st : St) (s : String) (k : Nat) (names : List String) (policy : String) : Except Err St :=
  match multiply st s k names with
  | .error e => .error e
  | .ok st1 =>
    if k < 2 then .ok st1
    else match selectEnd st1 policy s k with
      | none => .ok st1
      | some right => .ok (distribute st1 s right names k)

end Gfa.G
