import GfaModel.GraphObs
/-
  Segment multiplication on the graph (gfapy/graph_operations/multiplication.py `multiply` with
  `distribute` off: `__divide_segment_and_connection_counts`, `__clone_segment_and_connections`).
-/
namespace Gfa.G

/-- a tag `KC:i:…`, `RC:i:…` or `FC:i:…` -/
def isCountTagL : List Char → Bool
  | a :: b :: ':' :: 'i' :: ':' :: _ => (a == 'K' || a == 'R' || a == 'F') && b == 'C'
  | _ => false

/-- `KC:i:10` divided by 3 is `KC:i:3` (Python `//`: floor division); other tags are left alone -/
def divTag (k : Nat) (t : String) : String :=
  if isCountTagL t.toList then
    match intOf? (t.toList.drop 5) with
    | some x => String.ofList (t.toList.take 5 ++ intStr (x / (k : Int)))
    | none => t
  else t

/-- `__divide_counts` on a record: the count tags among its tags -/
def divCounts (k : Nat) (r : Rec) : Rec :=
  { r with fields := r.fields.take (npos r.rt) ++ (r.fields.drop (npos r.rt)).map (divTag k) }

/-- the lines copied together with segment `s`: its dovetails and containments (`segment.dovetails +
    segment.containments`; a line joining `s` with itself is listed once) -/
def copiedWith (s : String) (r : Rec) : Bool :=
  (r.rt == .L || r.rt == .C || r.rt == .E) &&
  r.filing.any (fun p => p.1 == s && (p.2 == .dovL || p.2 == .dovR || p.2 == .toContained || p.2 == .toContainers))

/-- the identifier of a line cannot be used for its copy -/
def dropId (r : Rec) : Rec :=
  match r.rt with
  | .L | .C => { r with fields := r.fields.take (npos r.rt) ++ (r.fields.drop (npos r.rt)).filter (fun t => !isIdTag t) }
  | .E => { r with fields := "*" :: r.fields.drop 1 }
  | _ => r

/-- copy of segment `s` and of its connections under the name `cn` -/
def copiesFor (lines : List Rec) (s cn : String) : List Rec :=
  ((lines.filter (fun r => r.rt == .S && r.name == some s)).take 1).map (setName cn) ++
  (lines.filter (copiedWith s)).map (fun e => renameIn s cn (dropId e))

def hasDup : List String → Bool
  | [] => false
  | x :: xs => xs.contains x || hasDup xs

/-- `Gfa.multiply(segment, factor, copy_names)` without link distribution -/
def multiply (st : St) (s : String) (k : Nat) (names : List String) : Except Err St :=
  if (findSeg st s).isNone then .error .notFound
  else if k = 0 then rm st s
  else if k = 1 then .ok st
  else if names.any (fun n => hasName st n) || hasDup names then .error .notUnique
  else
    let lines1 := st.lines.map (fun r => if (r.rt == .S && r.name == some s) || copiedWith s r then divCounts k r else r)
    .ok { st with lines := lines1 ++ names.flatMap (copiesFor lines1 s) }

end Gfa.G
