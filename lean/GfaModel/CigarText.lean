import GfaModel.Cigar
import GfaModel.Util.Digits
/- Text form of CIGARs / overlaps (`CIGAR._from_string`, `CIGAR.__str__`). -/
namespace Gfa

def parseOpsAux : List Char → List Char → Option (List Op)
  | [], [] => some []
  | [], _ :: _ => none
  | c :: cs, acc =>
    if isDigit c then parseOpsAux cs (acc ++ [c]) else
      match Code.ofChar? c with
      | some code => if acc.isEmpty then none else (parseOpsAux cs []).map (⟨natOf acc, code⟩ :: ·)
      | none => none

/-- `([0-9]+[MIDNSHPX=])+` -/
def Cigar.parse (s : List Char) : Option Cigar :=
  if s.isEmpty then none else parseOpsAux s []

def Cigar.print (c : Cigar) : List Char :=
  c.flatMap (fun o => digitsOf o.len ++ [o.code.toChar])

def Aln.parse (s : List Char) : Option Aln :=
  if s = ['*'] then some .star else (Cigar.parse s).map .cigar

/-- GFA2 alignment field: only `M I D P` -/
def Aln.parseGfa2 (s : List Char) : Option Aln :=
  match Aln.parse s with
  | some (.cigar c) => if c.all (fun o => o.code.gfa2) then some (.cigar c) else none
  | r => r

def Aln.print : Aln → List Char
  | .star => ['*']
  | .cigar [] => ['*']
  | .cigar c => Cigar.print c

def Orient.ofChar? : Char → Option Orient
  | '+' => some .plus | '-' => some .minus | _ => none

end Gfa
