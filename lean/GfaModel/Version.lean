/-
  Version inference state machine of `gfapy/lines/creators.py` (add_line / process_line_queue)
  at validation level ≥ 1, abstracted to the *kind* of each line, and its specification.
-/
namespace Gfa.V

inductive Ver where
  | gfa1 | gfa2
  deriving DecidableEq, Repr, Inhabited

/-- what a line says about the version -/
inductive Kind where
  | comment      -- `#…`
  | hNone        -- header without VN
  | hVN1 | hVN2  -- header with VN:Z:1.0 / VN:Z:2.0
  | hBad         -- header with any other VN
  | s1 | s2      -- segment in GFA1 / GFA2 syntax
  | g1           -- L, C, P
  | g2           -- E, F, G, O, U
  | custom       -- any other record type
  deriving DecidableEq, Repr, Inhabited

structure Stt where
  ver : Option Ver
  guess : Ver
  queue : List Kind
  count : Nat          -- number of lines added to the graph so far (each queued line must be added once)
  deriving Repr, DecidableEq

/-- adding a line when the version is known (`__add_line_GFA1/2`): accepted or VersionError -/
def okKnown : Ver → Kind → Bool
  | _, .comment => true
  | _, .hNone => true
  | .gfa1, .hVN1 => true | .gfa1, .s1 => true | .gfa1, .g1 => true
  | .gfa2, .hVN2 => true | .gfa2, .s2 => true | .gfa2, .g2 => true | .gfa2, .custom => true
  | _, _ => false

/-- process the queued lines under the now known version -/
def drain (v : Ver) : List Kind → Nat → Option Nat
  | [], n => some n
  | k :: ks, n => if okKnown v k then drain v ks (n + 1) else none

/-- `add_line` -/
def step (s : Stt) (k : Kind) : Option Stt :=
  match s.ver with
  | some v => if okKnown v k then some { s with count := s.count + 1 } else none
  | none =>
    match k with
    | .comment | .hNone => some { s with count := s.count + 1 }
    | .hBad => none
    | .hVN1 | .s1 =>
      (drain .gfa1 s.queue (s.count + 1)).map fun n => { ver := some .gfa1, guess := s.guess, queue := [], count := n }
    | .hVN2 | .s2 | .g2 =>
      (drain .gfa2 s.queue (s.count + 1)).map fun n => { ver := some .gfa2, guess := s.guess, queue := [], count := n }
    | .g1 => some { s with guess := .gfa1, queue := s.queue ++ [k] }
    | .custom => some { s with queue := s.queue ++ [k] }

def steps (s : Stt) : List Kind → Option Stt
  | [] => some s
  | k :: ks => (step s k).bind (fun s' => steps s' ks)

/-- final `process_line_queue()` -/
def finish (s : Stt) : Option (Ver × Nat) :=
  match s.ver with
  | some v => some (v, s.count)
  | none => (drain s.guess s.queue s.count).map fun n => (s.guess, n)

def init (explicit : Option Ver) : Stt :=
  { ver := explicit, guess := explicit.getD .gfa2, queue := [], count := 0 }

/-- `Gfa(lines, version=explicit)`: the version and the number of lines added, or VersionError -/
def build (explicit : Option Ver) (ls : List Kind) : Option (Ver × Nat) :=
  (steps (init explicit) ls).bind finish

-- ---------------------------------------------------------------- specification
/-- does the line demand a version? -/
def demands : Kind → Option Ver
  | .hVN1 | .s1 | .g1 => some .gfa1
  | .hVN2 | .s2 | .g2 | .custom => some .gfa2
  | _ => none

/-- does some line demand version `v`? -/
def wants (v : Ver) (ls : List Kind) : Bool := ls.any (fun k => decide (demands k = some v))
def hasBad (ls : List Kind) : Bool := ls.contains .hBad

def verdict (w1 w2 : Bool) (ls : List Kind) (cnt : Nat) : Option (Ver × Nat) :=
  if hasBad ls then none else
  let a := w1 || wants .gfa1 ls
  let b := w2 || wants .gfa2 ls
  if a && b then none else some (if a then .gfa1 else .gfa2, cnt)

/-- content-only specification: the version every version-specific construct (and the explicit
    parameter) agrees on, GFA2 by default, with every line added exactly once; `none` (VersionError)
    if two constructs disagree, the explicit parameter is contradicted, or a VN value is unknown -/
def spec (explicit : Option Ver) (ls : List Kind) : Option (Ver × Nat) :=
  verdict (explicit = some .gfa1) (explicit = some .gfa2) ls ls.length

end Gfa.V
