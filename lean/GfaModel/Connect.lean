import GfaModel.Graph
/-
  `Connection.connect`: what is checked before anything is changed
  (gfapy/line/common/connection.py `_check_segment_references`, `SEGMENT_REFERENCING_RECORD_TYPES`),
  and the class tables the removal cascade of `Graph.lean` implements
  (`DEPENDENT_LINES` / `OTHER_REFERENCES` / `REFERENCE_FIELDS` of the record classes).
-/
namespace Gfa.G

/-- record types whose reference fields name segments (`Connection.SEGMENT_REFERENCING_RECORD_TYPES`) -/
def segRefTypes : List RT := [.L, .C, .P, .E, .G, .F]

/-- `n` may be used as a segment reference: a segment carries it, or only placeholders of unknown type do -/
def refFree (st : St) (n : String) : Bool :=
  (findSeg st n).isSome || st.lines.all (fun q => q.name != some n || q.rt == .unk)

/-- `Connection._check_segment_references`: run by `connect` before the first effect -/
def precheck (st : St) (r : Rec) : Bool :=
  !segRefTypes.contains r.rt || r.segRefs.all (refFree st)

/-- reference fields per record type (`REFERENCE_FIELDS`) -/
def referenceFields : RT → List String
  | .L | .C => ["from_segment", "to_segment"]
  | .E | .G => ["sid1", "sid2"]
  | .F => ["sid"]
  | .P => ["segment_names", "overlaps"]
  | .O | .U => ["items"]
  | .S | .unk => []

/-- collections whose members cannot exist without the line (`DEPENDENT_LINES`): what `dependsOn` removes -/
def dependentLines (v : Ver) : RT → List String
  | .S => (match v with
      | .gfa1 => ["dovetails_L", "dovetails_R", "edges_to_contained", "edges_to_containers", "paths"]
      | .gfa2 => ["dovetails_L", "dovetails_R", "gaps_L", "gaps_R", "edges_to_contained", "edges_to_containers",
          "fragments", "internals", "paths", "sets"])
  | .L => ["paths"]
  | .E => ["paths", "sets"]
  | .G => ["paths"]
  | .O => ["paths", "sets"]
  | .U => ["sets", "paths"]
  | .unk => ["sets", "paths"]
  | .C | .F | .P => []

/-- collections that only mention the line (`OTHER_REFERENCES`): the mention is dropped, the member stays -/
def otherReferences (v : Ver) : RT → List String
  | .S => (match v with
      | .gfa1 => ["gaps_L", "gaps_R", "fragments", "internals", "sets"]
      | .gfa2 => [])
  | .G => ["sets"]
  | .P => ["links"]
  | _ => []

end Gfa.G
