import GfaModel.Cigar
/-
  E-line classification (gfapy/line/edge/gfa2/{alignment_type,references,to_gfa1}.py),
  gap filing (gfapy/line/gap/references.py).
-/
namespace Gfa

/-- a GFA2 position: plain integer or `n$` (`gfapy.LastPos`) -/
inductive Pos where
  | int (n : Nat)
  | last (n : Nat)
  deriving Repr, DecidableEq, Inhabited

namespace Pos
def value : Pos → Nat | int n => n | last n => n      -- gfapy.posvalue
def isFirst (p : Pos) : Bool := p.value == 0            -- gfapy.isfirstpos
def isLast : Pos → Bool | last _ => true | _ => false   -- gfapy.islastpos
/-- the position `x` on a segment of length `n`, written as the specification demands (`$` iff `x = n`) -/
def mk (x n : Nat) : Pos := if x = n then last x else int x
end Pos

inductive SubT where
  | pfx | sfx | whole | internal
  deriving Repr, DecidableEq, Inhabited

inductive GErr where
  | value | format | runtime | other
  deriving Repr, DecidableEq, Inhabited

deriving instance DecidableEq for Except

/-- `AlignmentType._substring_type` (first component) and the `empty` flag -/
def substringType (b e : Pos) : Except GErr (SubT × Bool) :=
  if b.value > e.value then .error .value
  else if b.isFirst then
    if e.isFirst then .ok (.pfx, true)
    else if e.isLast then .ok (.whole, false)
    else .ok (.pfx, false)
  else if b.isLast then
    if !e.isLast then .error .format else .ok (.sfx, true)
  else
    if e.isLast then .ok (.sfx, false)
    else .ok (.internal, b.value == e.value)

inductive Key where
  | dovL | dovR | toContained | toContainers | internals | gapsL | gapsR
  deriving Repr, DecidableEq, Inhabited

/-- `References._refkey_for_s` of an E line; `first = true` for sid1 -/
def refkey (first : Bool) (o1 o2 : Orient) (st1 st2 : SubT) : Key :=
  if st1 = .whole then
    if st2 = .whole then (if first then .toContained else .toContainers)
    else (if first then .toContainers else .toContained)
  else if st2 = .whole then (if !first then .toContainers else .toContained)
  else if o1 = o2 then
    if st1 = .pfx ∧ st2 = .sfx then (if first then .dovL else .dovR)
    else if st1 = .sfx ∧ st2 = .pfx then (if first then .dovR else .dovL)
    else .internals
  else
    if st1 = .pfx ∧ st2 = .pfx then .dovL
    else if st1 = .sfx ∧ st2 = .sfx then .dovR
    else .internals

inductive AlnT where
  | C | L | I
  deriving Repr, DecidableEq, Inhabited

/-- `_alignment_type_for_substring_types` -/
def alignmentType (o1 o2 : Orient) (st1 st2 : SubT) : AlnT :=
  if st1 = .whole ∨ st2 = .whole then .C
  else if o1 = o2 then
    if (st1 = .pfx ∧ st2 = .sfx) ∨ (st1 = .sfx ∧ st2 = .pfx) then .L else .I
  else
    if (st1 = .pfx ∧ st2 = .pfx) ∨ (st1 = .sfx ∧ st2 = .sfx) then .L else .I

inductive Role where
  | contained | pfx | sfx | other
  deriving Repr, DecidableEq, Inhabited

/-- `ToGFA1._segment_role` -/
def segmentRole (b e : Pos) (o : Orient) : Role :=
  if b.isFirst then
    if e.isLast then .contained else if o = .plus then .pfx else .sfx
  else
    if e.isLast then (if o = .plus then .sfx else .pfx) else .other

/-- `ToGFA1._is_sid1_from` -/
def isSid1From (sr1 sr2 : Role) : Except GErr Bool :=
  if sr2 = .contained then .ok true
  else if sr1 = .contained then .ok false
  else if sr1 = .sfx ∧ sr2 = .pfx then .ok true
  else if sr2 = .sfx ∧ sr1 = .pfx then .ok false
  else .error .value

/-- gap `_refkey_for_s` -/
def gapKey (first : Bool) (o1 o2 : Orient) : Key :=
  match o1, o2 with
  | .plus, .plus => if first then .gapsR else .gapsL
  | .plus, .minus => .gapsR
  | .minus, .plus => .gapsL
  | .minus, .minus => if first then .gapsL else .gapsR

/-- key under which an L line is filed on its from / to segment -/
def linkKey (from_ : Bool) (o : Orient) : Key :=
  if from_ then (if o = .plus then .dovR else .dovL) else (if o = .plus then .dovL else .dovR)

end Gfa
