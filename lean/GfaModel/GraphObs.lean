import GfaModel.Graph
/- Back-reference collections as queries, and the canonical observation of a model state. -/
namespace Gfa.G

def rtStr : RT → String
  | .S => "S" | .L => "L" | .C => "C" | .P => "P" | .E => "E" | .G => "G" | .F => "F" | .O => "O" | .U => "U"
  | .unk => "\n"

def rtOf? : String → Option RT
  | "S" => some .S | "L" => some .L | "C" => some .C | "P" => some .P | "E" => some .E | "G" => some .G
  | "F" => some .F | "O" => some .O | "U" => some .U | _ => none

def posOf (s : String) : Pos :=
  match s.toList.reverse with
  | '$' :: r => .last (natOf r.reverse)
  | _ => .int (natOf s.toList)

/-- written form; a link is printed in canonical direction -/
def Rec.text (r : Rec) : String :=
  let fs :=
    match r.rt, r.linkOf with
    | .L, some l =>
      if l.isCanonical then r.fields
      else
        let c := l.compl
        [c.frm, orientStr c.fo, c.to, orientStr c.too, String.ofList c.ovl.print] ++ r.fields.drop 5
    | _, _ => r.fields
  if r.rt = .unk then "?record_type?\t" ++ fld r 0 ++ "\tco:Z:line_created_by_gfapy"
  else "\t".intercalate (rtStr r.rt :: fs ++ (if r.virt then ["co:Z:GFAPY_virtual_line"] else []))

/-- E line: keys under which it is filed on sid1 / sid2 (`none` if its positions are inconsistent) -/
def edgeKeys (r : Rec) : Option (Key × Key) :=
  let (_, o1) := splitOriented (fld r 1)
  let (_, o2) := splitOriented (fld r 2)
  match substringType (posOf (fld r 3)) (posOf (fld r 4)), substringType (posOf (fld r 5)) (posOf (fld r 6)) with
  | .ok (st1, _), .ok (st2, _) => some (refkey true o1 o2 st1 st2, refkey false o1 o2 st1 st2)
  | _, _ => none

/-- the (segment, collection) pairs under which a record is filed -/
def Rec.filing (r : Rec) : List (String × Key) :=
  match r.rt with
  | .L => [(fld r 0, linkKey true (orientOf (fld r 1))), (fld r 2, linkKey false (orientOf (fld r 3)))]
  | .C => [(fld r 0, .toContained), (fld r 2, .toContainers)]
  | .E =>
    match edgeKeys r with
    | some (k1, k2) => [((splitOriented (fld r 1)).1, k1), ((splitOriented (fld r 2)).1, k2)]
    | none => []
  | .G =>
    let (a, o1) := splitOriented (fld r 1)
    let (b, o2) := splitOriented (fld r 2)
    [(a, gapKey true o1 o2), (b, gapKey false o1 o2)]
  | _ => []

def coll (st : St) (seg : String) (k : Key) : List Rec :=
  st.lines.flatMap (fun r => (r.filing.filter (fun p => p.1 = seg ∧ p.2 = k)).map (fun _ => r))

def fragmentsOf (st : St) (seg : String) : List Rec :=
  st.lines.filter (fun r => r.rt = .F ∧ fld r 0 = seg)

/-- paths (P / O records) mentioning identifier `n`, once per mention -/
def pathsOf (st : St) (n : String) : List Rec :=
  st.lines.flatMap (fun r =>
    match r.rt with
    | .P => (r.segRefs.filter (· = n)).map (fun _ => r)
    | .O => (r.itemRefs.filter (· = n)).map (fun _ => r)
    | _ => [])

def setsOf (st : St) (n : String) : List Rec :=
  st.lines.flatMap (fun r => if r.rt = .U then (r.itemRefs.filter (· = n)).map (fun _ => r) else [])

/-- paths over a link record: one per path step that this link satisfies (first compatible stored link) -/
def pathsOverLink (st : St) (i : Nat) : List Rec :=
  st.lines.flatMap (fun p => (p.pathSteps.filter (fun s =>
    st.lines.findIdx? (fun q => match q.linkOf with
      | some k => k.compatible s.frm s.fo s.to s.too s.ovl
      | none => false) = some i)).map (fun _ => p))

def sortStrs (l : List String) : List String := (l.toArray.qsort (· < ·)).toList

def A : String := String.ofList [Char.ofNat 0x1e]
def B : String := String.ofList [Char.ofNat 0x1d]
def C : String := String.ofList [Char.ofNat 0x1c]

def keyName : Key → String
  | .dovL => "dovetails_L" | .dovR => "dovetails_R" | .toContained => "edges_to_contained"
  | .toContainers => "edges_to_containers" | .internals => "internals" | .gapsL => "gaps_L" | .gapsR => "gaps_R"

def segKeys : List Key := [.dovL, .dovR, .toContained, .toContainers, .internals, .gapsL, .gapsR]

def joinL (l : List Rec) : String := A.intercalate (sortStrs (l.map Rec.text))

/-- back-reference collections of the record at index `i`, as `name=texts` entries -/
def backOf (st : St) (i : Nat) (r : Rec) : List String :=
  match r.rt with
  | .S =>
    match r.name with
    | some n =>
      -- same order as lib.BACKREF_COLLS["S"]
      [.dovL, .dovR, .toContained, .toContainers, .internals].map (fun k => keyName k ++ "=" ++ joinL (coll st n k)) ++
      [.gapsL, .gapsR].map (fun k => keyName k ++ "=" ++ joinL (coll st n k)) ++
      ["fragments=" ++ joinL (fragmentsOf st n), "paths=" ++ joinL (pathsOf st n), "sets=" ++ joinL (setsOf st n)]
    | none => []
  | .L => ["paths=" ++ joinL (pathsOverLink st i)]
  | .E | .O | .unk =>
    match r.name with
    | some n => ["paths=" ++ joinL (pathsOf st n), "sets=" ++ joinL (setsOf st n)]
    | none => ["paths=", "sets="]
  | .G | .U =>
    match r.name with
    | some n => ["sets=" ++ joinL (setsOf st n)]
    | none => ["sets="]
  | _ => []

def verStr : Ver → String | .gfa1 => "gfa1" | .gfa2 => "gfa2"

/-- `path.links`: for every step the stored link it resolves to (first compatible one) and the orientation flag -/
def pathLinks (st : St) (p : Rec) : List String :=
  p.pathSteps.map (fun s =>
    match st.lines.find? (fits s) with
    | some q => (match q.linkOf with
        | some k => q.text ++ " " ++ linkOrient k s
        | none => "?")
    | none => "?")

/-- canonical observation (same layout as harness/lib.py `obs_flat`) -/
def obs (st : St) : String :=
  let text := sortStrs (st.lines.map Rec.text)
  let nms := sortStrs ((st.lines.filter (fun r => r.rt ≠ .unk)).filterMap Rec.name)
  let virt := sortStrs ((st.lines.filter (·.virt)).map Rec.text)
  let back := sortStrs (st.lines.zipIdx.filterMap (fun (r, i) =>
    let b := backOf st i r
    if b.isEmpty then none else some (r.text ++ C ++ C.intercalate b)))
  let plinks := sortStrs ((st.lines.filter (fun r => r.rt = .P)).map (fun p => p.text ++ C ++ A.intercalate (pathLinks st p)))
  B.intercalate ["ver=" ++ verStr st.ver, "text=" ++ A.intercalate text, "names=" ++ A.intercalate nms,
    "virt=" ++ A.intercalate virt, "back=" ++ (B ++ B).intercalate back, "plinks=" ++ (B ++ B).intercalate plinks]

/-- parse one written line into a record -/
def parseRec (s : String) : Option Rec :=
  match splitStr '\t' s with
  | [] => none
  | rt :: fs =>
    match rtOf? rt with
    | some t => if fs.length < npos t then none else some ⟨t, fs, false⟩
    | none => none

end Gfa.G
