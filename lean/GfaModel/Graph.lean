import GfaModel.Cigar
import GfaModel.CigarText
import GfaModel.Geometry
import GfaModel.Field
/-
  The Gfa as a name-keyed store of records (gfapy/gfa.py, lines/{creators,destructors,finders}.py,
  line/common/{connection,disconnection,virtual_to_real,update_references,field_data}.py and the
  per-record `references.py`).

  References are *identifiers*: gfapy stores object pointers, but every referenced line is found under
  its identifier (that is part of C02/C09), so identifier-keyed references are observationally the
  same.  Back-reference collections are queries over the forward references.
-/
namespace Gfa.G

inductive RT where
  | S | L | C | P | E | G | F | O | U | unk
  deriving DecidableEq, Repr, Inhabited

inductive Ver where
  | gfa1 | gfa2
  deriving DecidableEq, Repr, Inhabited

/-- a record: record type, its fields (positional fields then tags, canonical spelling), virtual flag -/
structure Rec where
  rt : RT
  fields : List String
  virt : Bool := false
  deriving DecidableEq, Repr, Inhabited

def fld (r : Rec) (i : Nat) : String := r.fields.getD i ""

def splitStr (sep : Char) (s : String) : List String :=
  (Field.splitOn sep s.toList).map String.ofList

def joinStr (sep : Char) (xs : List String) : String :=
  String.ofList (Field.intercalate sep (xs.map String.toList))

/-- "A+" ↦ ("A", plus) -/
def splitOriented (s : String) : String × Orient :=
  let cs := s.toList
  match cs.reverse with
  | '-' :: r => (String.ofList r.reverse, .minus)
  | _ :: r => (String.ofList r.reverse, .plus)
  | [] => ("", .plus)

def orientStr : Orient → String | .plus => "+" | .minus => "-"
def orientOf (s : String) : Orient := if s = "-" then .minus else .plus

/-- value of tag `ID:Z:…` among the tags of an L/C record -/
def isIdTag (t : String) : Bool := "ID:Z:".toList.isPrefixOf t.toList

def idTag (tags : List String) : Option String :=
  match tags.find? isIdTag with
  | some t => some (String.ofList (t.toList.drop 5))
  | none => none

def npos : RT → Nat
  | .S => 2 | .L => 5 | .C => 6 | .P => 3 | .E => 8 | .G => 5 | .F => 7 | .O => 2 | .U => 2 | .unk => 1

/-- the identifier carried by a record (none for `*` / unnamed) -/
def Rec.name (r : Rec) : Option String :=
  match r.rt with
  | .L => idTag (r.fields.drop 5)
  | .C => idTag (r.fields.drop 6)
  | .F => none
  | _ => let n := fld r 0; if n = "*" then none else some n

/-- names of the segments a record refers to (reference fields) -/
def Rec.segRefs (r : Rec) : List String :=
  match r.rt with
  | .L | .C => [fld r 0, fld r 2]
  | .E | .G => [(splitOriented (fld r 1)).1, (splitOriented (fld r 2)).1]
  | .F => [fld r 0]
  | .P => (splitStr ',' (fld r 1)).map (fun s => (splitOriented s).1)
  | _ => []

/-- identifiers listed as items of a group -/
def Rec.itemRefs (r : Rec) : List String :=
  match r.rt with
  | .O => ((splitStr ' ' (fld r 1)).filter (· ≠ "")).map (fun s => (splitOriented s).1)
  | .U => (splitStr ' ' (fld r 1)).filter (· ≠ "")
  | _ => []

def Rec.linkOf (r : Rec) : Option Link :=
  match r.rt with
  | .L =>
    match Aln.parse (fld r 4).toList with
    | some a => some ⟨fld r 0, orientOf (fld r 1), fld r 2, orientOf (fld r 3), a⟩
    | none => none
  | _ => none

/-- the links a P record requires: consecutive oriented segments with the overlap between them -/
def Rec.pathSteps (r : Rec) : List Link :=
  match r.rt with
  | .P =>
    let segs := (splitStr ',' (fld r 1)).map splitOriented
    let ovls := (splitStr ',' (fld r 2)).map (fun s => (Aln.parse s.toList).getD .star)
    let undef := ovls.length == 1 && ovls.all (· == .star)
    let n := segs.length
    if n ≤ 1 then [] else
    let circular := ovls.length == n && !undef
    let idxs := List.range (if circular then n else n - 1)
    idxs.filterMap (fun i =>
      match segs[i]?, segs[(i + 1) % n]? with
      | some a, some b => some ⟨a.1, a.2, b.1, b.2, if undef then .star else ovls.getD i .star⟩
      | _, _ => none)
  | _ => []

structure St where
  ver : Ver
  lines : List Rec
  deriving Repr, Inhabited

def St.empty (v : Ver) : St := ⟨v, []⟩

inductive Err where
  | notUnique | notFound | version | format | runtime | other
  deriving DecidableEq, Repr, Inhabited

def Err.str : Err → String
  | .notUnique => "NotUniqueError" | .notFound => "NotFoundError" | .version => "VersionError"
  | .format => "FormatError" | .runtime => "RuntimeError" | .other => "Error"

-- ------------------------------------------------------------------ lookup
def names (st : St) : List String := st.lines.filterMap Rec.name

def findNamed (st : St) (n : String) : Option Rec := st.lines.find? (fun r => r.name = some n)

def findSeg (st : St) (n : String) : Option Rec := st.lines.find? (fun r => r.rt = .S ∧ r.name = some n)

def hasName (st : St) (n : String) : Bool := (findNamed st n).isSome

/-- `_search_link`: a stored link compatible with the given one (directly or as complement) -/
def findLink (st : St) (l : Link) : Option Rec :=
  if (findSeg st l.frm).isNone then none else
  st.lines.find? (fun r => match r.linkOf with
    | some k => k.compatible l.frm l.fo l.to l.too l.ovl
    | none => false)

-- ------------------------------------------------------------------ virtual lines
def virtSeg (v : Ver) (n : String) : Rec :=
  match v with
  | .gfa1 => ⟨.S, [n, "*"], true⟩
  | .gfa2 => ⟨.S, [n, "1", "*"], true⟩

def virtUnk (n : String) : Rec := ⟨.unk, [n], true⟩

def virtLink (l : Link) : Rec :=
  ⟨.L, [l.frm, orientStr l.fo, l.to, orientStr l.too, String.ofList l.ovl.print], true⟩

/-- make sure a segment called `n` exists: a virtual `unknown` placeholder of that name is turned into a
    virtual segment; a name held by a real line of another type is a clash -/
def ensureSeg (st : St) (n : String) : Except Err St :=
  if n = "*" then .error .format else
  if (findSeg st n).isSome then .ok st else
  match st.lines.findIdx? (fun q => q.name = some n) with
  | none => .ok { st with lines := st.lines ++ [virtSeg st.ver n] }
  | some i =>
    if (st.lines.getD i default).rt = .unk then .ok { st with lines := st.lines.set i (virtSeg st.ver n) }
    else .error .notUnique

def ensureSegs (st : St) : List String → Except Err St
  | [] => .ok st
  | n :: ns => (ensureSeg st n).bind (fun st1 => ensureSegs st1 ns)

/-- append a virtual `unknown` record for every listed identifier not in use yet -/
def ensureItems (st : St) : List String → St
  | [] => st
  | n :: ns =>
    if hasName st n then ensureItems st ns
    else ensureItems { st with lines := st.lines ++ [virtUnk n] } ns

/-- the record is a stored link that satisfies the step -/
def fits (s : Link) (q : Rec) : Bool :=
  match q.linkOf with
  | some k => k.compatible s.frm s.fo s.to s.too s.ovl
  | none => false

/-- `Path._link_orient`: "-" when the step walks the link backwards, i.e. it is matched by the complement of the
    link only (a hairpin link can match a step both ways: it is then taken forwards) -/
def linkOrient (k s : Link) : String :=
  if k.compatCompl s.frm s.fo s.to s.too s.ovl && !k.compatDirect s.frm s.fo s.to s.too s.ovl then "-" else "+"

/-- a placeholder link whose overlap is still open takes the overlap a step states for it (read in the direction
    of the placeholder): `Path._initialize_links` -/
def adoptOverlap (s : Link) (q : Rec) : Rec :=
  match q.linkOf with
  | some k =>
    if q.virt && k.ovl == .star && s.ovl != .star then
      { q with fields := q.fields.set 4 (String.ofList (if linkOrient k s == "-" then s.ovl.compl else s.ovl).print) }
    else q
  | none => q

/-- for every required path step: the stored link it resolves to (a placeholder among them adopts a stated overlap),
    or a new placeholder link -/
def ensureLinks (st : St) : List Link → Except Err St
  | [] => .ok st
  | l :: ls =>
    (ensureSegs st [l.frm, l.to]).bind fun st1 =>
      match st1.lines.findIdx? (fits l) with
      | some i => ensureLinks { st1 with lines := st1.lines.set i (adoptOverlap l (st1.lines.getD i default)) } ls
      | none => ensureLinks { st1 with lines := st1.lines ++ [virtLink l] } ls

-- ------------------------------------------------------------------ add
def allowed (v : Ver) : RT → Bool
  | .S => true
  | .L | .C | .P => v == .gfa1
  | .E | .G | .F | .O | .U | .unk => v == .gfa2

def replaceAt (ls : List Rec) (i : Nat) (r : Rec) : List Rec := ls.set i r

/-- tags of a record -/
def Rec.tags (r : Rec) : List String := r.fields.drop (npos r.rt)

def tagName (t : String) : String := String.ofList (t.toList.take 2)

/-- union of the tags of two group lines with one id; `none` on a contradictory tag -/
def mergeTags (prev cur : List String) : Option (List String) :=
  if prev.any (fun p => cur.any (fun c => tagName c == tagName p && c != p)) then none
  else some (cur ++ prev.filter (fun p => !cur.any (fun c => tagName c == tagName p)))

/-- references the new record needs, created as virtual lines when missing -/
def ensureRefs (st : St) (r : Rec) : Except Err St :=
  (ensureSegs st r.segRefs).bind fun st1 =>
  (match r.rt with
    | .P => ensureLinks st1 r.pathSteps
    | _ => .ok st1).map fun st2 => ensureItems st2 r.itemRefs

/-- does the field look like a tag (`Segment._subclass`: `^..:.:.*$`)? -/
def tagLike (s : String) : Bool :=
  match s.toList with
  | _ :: _ :: ':' :: _ :: ':' :: _ => true
  | _ => false

/-- number of positional fields of an S line: the fields before the trailing run of tag-like fields -/
def segPositionals (fields : List String) : Nat := (fields.reverse.dropWhile tagLike).length

/-- the GFA version an S line is written in -/
def segSyntax (r : Rec) : Option Ver :=
  match segPositionals r.fields with
  | 2 => some .gfa1
  | 3 => some .gfa2
  | _ => none

/-- register `r` after its references exist; its own identifier must still be free -/
def register (st : St) (r : Rec) : Except Err St :=
  (ensureRefs st r).bind fun st1 =>
    match r.name with
    | some n => if hasName st1 n then .error .notUnique else .ok { st1 with lines := st1.lines ++ [r] }
    | none => .ok { st1 with lines := st1.lines ++ [r] }

/-- the real line `r` takes the place of the placeholder at index `i` -/
def substitute (st : St) (i : Nat) (r : Rec) : Except Err St :=
  ensureRefs { st with lines := replaceAt st.lines i r } r

/-- is the identifier of `r` (if any) still free? -/
def nameFree (st : St) (r : Rec) : Bool :=
  match r.name with
  | some n => !hasName st n
  | none => true

/-- index of a stored link compatible with `l` (`_search_link`) -/
def findCompatIdx (st : St) (l : Link) : Option Nat :=
  st.lines.findIdx? (fun q => match q.linkOf with
    | some k => (findSeg st l.frm).isSome && k.compatible l.frm l.fo l.to l.too l.ovl
    | none => false)

/-- is `l` the complement of the link stored at index `i`? -/
def complOfStored (st : St) (l : Link) (i : Nat) : Bool :=
  match (st.lines.getD i default).linkOf with
  | some k => l.isComplement k
  | none => false

/-- a link that is compatible with the stored line at index `i` -/
def addLinkOnto (st : St) (r : Rec) (l : Link) (i : Nat) : Except Err St :=
  if (st.lines.getD i default).virt ∧ (st.lines.getD i default).name = none then
    -- the real link replaces the placeholder
    (if nameFree st r then substitute st i r else .error .notUnique)
  else if complOfStored st l i then .ok st
  else .error .notUnique

/-- a link with no compatible stored link: its ID tag lives in the namespace of the identifiers -/
def addLinkFresh (st : St) (r : Rec) : Except Err St :=
  match r.name with
  | none => register st r
  | some n =>
    match st.lines.findIdx? (fun q => q.name = some n) with
    | none => register st r
    | some j =>
      if (st.lines.getD j default).virt ∧ (st.lines.getD j default).rt = .unk then substitute st j r
      else .error .notUnique

/-- item lists of two lines of one group, concatenated (a group emptied by removals has no items) -/
def catItems (a b : String) : String := if a = "" then b else a ++ " " ++ b

/-- several group lines with one identifier: items concatenated, tags united -/
def mergeGroup (st : St) (r : Rec) (n : String) (i : Nat) : Except Err St :=
  match mergeTags (st.lines.getD i default).tags r.tags with
  | none => .error .notUnique
  | some tg =>
    let merged : Rec := ⟨r.rt, [n, catItems (fld (st.lines.getD i default) 1) (fld r 1)] ++ tg, false⟩
    ensureRefs { st with lines := replaceAt st.lines i merged } r

/-- a line whose identifier `n` is carried by the stored line at index `i` -/
def addOnto (st : St) (r : Rec) (n : String) (i : Nat) : Except Err St :=
  if (st.lines.getD i default).virt then
    (if (st.lines.getD i default).rt = .unk ∨ (st.lines.getD i default).rt = r.rt then substitute st i r
     else .error .notUnique)
  else if (r.rt = .O ∨ r.rt = .U) ∧ (st.lines.getD i default).rt = r.rt then mergeGroup st r n i
  else .error .notUnique

/-- a line that mentions its own identifier (`_check_self_reference`) -/
def selfRef (r : Rec) : Bool :=
  match r.name with
  | some n => (r.segRefs ++ r.itemRefs).contains n
  | none => false

/-- the identifier of `r` (if any) is carried by a real line other than the one at index `i` -/
def nameTakenElsewhere (st : St) (r : Rec) (i : Nat) : Bool :=
  match r.name with
  | none => false
  | some n =>
    match st.lines.findIdx? (fun q => q.name = some n) with
    | some j => j != i && !(st.lines.getD j default).virt
    | none => false

/-- `Gfa.add_line` for a connected-state Gfa of known version -/
def add (st : St) (r : Rec) : Except Err St :=
  if !allowed st.ver r.rt then .error .version else
  if r.rt = .S ∧ segSyntax r ≠ some st.ver then (if (segSyntax r).isNone then .error .format else .error .version) else
  if selfRef r then .error .notUnique else
  if r.rt = .L then
    match r.linkOf with
    | none => .error .format
    | some l =>
      match findCompatIdx st l with
      | some i =>
        -- the ID tag is looked up first (`_search_duplicate`): an identifier carried by another real line is a clash,
        -- whatever stored link the new one is compatible with
        if nameTakenElsewhere st r i then .error .notUnique else addLinkOnto st r l i
      | none => addLinkFresh st r
  else
    match r.name with
    | none => register st r
    | some n =>
      match st.lines.findIdx? (fun q => q.name = some n) with
      | none => register st r
      | some i => addOnto st r n i

-- ------------------------------------------------------------------ removal cascade
/-- is `x` (by index) a *dependant* of the removed set: a line that cannot exist without it -/
def dependsOn (st : St) (dead : List Nat) (i : Nat) : Bool :=
  match st.lines[i]? with
  | none => false
  | some r =>
    let deadRecs := dead.filterMap (fun j => st.lines[j]?)
    let deadSegs := deadRecs.filterMap (fun d => if d.rt = .S then d.name else none)
    -- a set only *mentions* a gap (the mention is dropped); a path over a removed gap goes with it
    let deadNamed := deadRecs.filterMap (fun d => if d.rt = .G ∧ r.rt = .U then none else d.name)
    r.segRefs.any (fun n => deadSegs.contains n) ||
    r.itemRefs.any (fun n => deadNamed.contains n) ||
    -- a path goes with the link a step of it is bound to: the first stored link that fits the step (`fits`, as in
    -- `pathLinks`); another link that would fit the step as well does not keep the path
    r.pathSteps.any (fun s => match st.lines.findIdx? (fits s) with
      | some k => dead.contains k
      | none => false)

def newDead (st : St) (dead : List Nat) : List Nat :=
  (List.range st.lines.length).filter (fun i => !dead.contains i && dependsOn st dead i)

theorem filter_length_le {α} {p q : α → Bool} (l : List α)
    (himp : ∀ x ∈ l, q x = true → p x = true) :
    (l.filter q).length ≤ (l.filter p).length := by
  induction l with
  | nil => simp
  | cons y ys ih =>
    have := ih (fun x hx => himp x (List.mem_cons_of_mem _ hx))
    have hy := himp y (by simp)
    simp only [List.filter_cons]
    by_cases hq : q y = true <;> by_cases hp : p y = true <;> simp_all <;> omega

theorem filter_length_lt {α} {p q : α → Bool} (l : List α)
    (himp : ∀ x ∈ l, q x = true → p x = true) (a : α) (ha : a ∈ l) (hpa : p a = true) (hqa : q a = false) :
    (l.filter q).length < (l.filter p).length := by
  induction l with
  | nil => cases ha
  | cons y ys ih =>
    have hle := filter_length_le (p := p) (q := q) ys (fun x hx => himp x (List.mem_cons_of_mem _ hx))
    have hy := himp y (by simp)
    simp only [List.filter_cons]
    rcases List.mem_cons.mp ha with rfl | hin
    · simp [hpa, hqa]; omega
    · have ih' := ih (fun x hx => himp x (List.mem_cons_of_mem _ hx)) hin
      by_cases hq : q y = true <;> by_cases hp : p y = true <;> simp_all <;> omega

/-- least set of line indices containing `dead` and closed under `dependsOn` -/
def cascade (st : St) (dead : List Nat) : List Nat :=
  if h : newDead st dead = [] then dead else cascade st (dead ++ newDead st dead)
termination_by ((List.range st.lines.length).filter (fun i => !dead.contains i)).length
decreasing_by
  obtain ⟨x, hx⟩ := List.exists_mem_of_ne_nil _ h
  have hx' := List.mem_filter.mp hx
  apply filter_length_lt (List.range st.lines.length) _ x hx'.1
  · grind
  · grind
  · grind

/-- drop from the item list of a `U`/`O` record the identifiers in `gone` (soft mentions: gaps) -/
def dropItems (gone : List String) (r : Rec) : Rec :=
  match r.rt with
  | .U =>
    let items := (splitStr ' ' (fld r 1)).filter (fun n => !gone.contains n)
    { r with fields := [fld r 0, joinStr ' ' items] ++ r.fields.drop 2 }
  | _ => r

/-- does a step of a stored path that states an overlap resolve to the record at index `i`? -/
def supported (lines : List Rec) (i : Nat) : Bool :=
  lines.any (fun p => p.rt == .P && p.pathSteps.any (fun s => s.ovl != .star && lines.findIdx? (fits s) == some i))

/-- a placeholder link keeps an overlap only as long as a step of a stored path states it
    (`Path._remove_nonfield_backreferences`) -/
def resetPlaceholder (lines : List Rec) (p : Rec × Nat) : Rec :=
  if p.1.virt && p.1.rt == .L && fld p.1 4 != "*" && !supported lines p.2 then
    { p.1 with fields := p.1.fields.set 4 "*" }
  else p.1

/-- the lines that remain when the lines with the given indices and all their dependants are taken away -/
def rmCore (st : St) (seed : List Nat) : St :=
  let dead := cascade st seed
  let gone := dead.filterMap (fun j => (st.lines[j]?).bind Rec.name)
  let kept := (st.lines.zipIdx.filter (fun p => !dead.contains p.2)).map (·.1)
  { st with lines := kept.map (dropItems gone) }

/-- every placeholder link gives up an overlap that no step of a stored path states any more -/
def resetAll (st : St) : St := { st with lines := st.lines.zipIdx.map (resetPlaceholder st.lines) }

/-- remove the lines with the given indices together with all their dependants -/
def rmIdx (st : St) (seed : List Nat) : St := resetAll (rmCore st seed)

/-- `Gfa.rm(identifier)` -/
def rm (st : St) (n : String) : Except Err St :=
  match st.lines.findIdx? (fun q => q.name = some n) with
  | none => .error .notFound
  | some i => .ok (rmIdx st [i])

-- ------------------------------------------------------------------ rename
def renameOriented (a b : String) (s : String) : String :=
  let (n, o) := splitOriented s
  if n = a then b ++ orientStr o else s

/-- apply `g` to the `i`-th element, if any -/
def modAt (l : List String) (i : Nat) (g : String → String) : List String :=
  match l, i with
  | [], _ => []
  | x :: xs, 0 => g x :: xs
  | x :: xs, i + 1 => x :: modAt xs i g

def renameIn (a b : String) (r : Rec) : Rec :=
  let sub (s : String) : String := if s = a then b else s
  match r.rt with
  | .L | .C => { r with fields := modAt (modAt r.fields 0 sub) 2 sub }
  | .E | .G => { r with fields := modAt (modAt r.fields 1 (renameOriented a b)) 2 (renameOriented a b) }
  | .F => { r with fields := modAt r.fields 0 sub }
  | .P => { r with fields := modAt r.fields 1 (fun s => joinStr ',' ((splitStr ',' s).map (renameOriented a b))) }
  | .O => { r with fields := modAt r.fields 1 (fun s => joinStr ' ' ((splitStr ' ' s).map (renameOriented a b))) }
  | .U => { r with fields := modAt r.fields 1 (fun s => joinStr ' ' ((splitStr ' ' s).map sub)) }
  | _ => r

def setName (b : String) (r : Rec) : Rec :=
  match r.rt with
  | .L | .C => { r with fields := r.fields.take (npos r.rt) ++
      (r.fields.drop (npos r.rt)).map (fun t => if isIdTag t then "ID:Z:" ++ b else t) }
  | _ => { r with fields := b :: r.fields.drop 1 }

/-- what a rename does to the other records: the identifier is substituted where it is mentioned -/
def renameOther (isSeg : Bool) (a b : String) (r : Rec) : Rec :=
  if isSeg then renameIn a b r
  else match r.rt with
    | .O | .U => renameIn a b r
    | _ => r

/-- `line.name = b` for the connected line currently called `a`.  References are object pointers in
    gfapy, so every mention of the renamed line (its own fields included) shows the new identifier. -/
def rename (st : St) (a b : String) : Except Err St :=
  match st.lines.findIdx? (fun q => q.name = some a) with
  | none => .error .notFound
  | some i =>
    if a = b then .ok st
    else if b = "*" then .error .other      -- making a line anonymous is not modelled
    else if hasName st b then .error .notUnique
    else
      .ok { st with lines := st.lines.zipIdx.map (fun p =>
        if p.2 = i then setName b (renameOther (decide ((st.lines.getD i default).rt = .S)) a b p.1)
        else renameOther (decide ((st.lines.getD i default).rt = .S)) a b p.1) }

end Gfa.G
