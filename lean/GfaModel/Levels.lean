import GfaModel.Field
/-
  Where the validation level is consulted for one field of a line
  (gfapy/line/common/construction.py `_init_field_value`, field_data.py `get` / `_set_existing_field`,
  writer.py `field_to_s`, validate.py `validate_field`).
-/
namespace Gfa.Lvl

/-- a datatype: safe decode and encode -/
structure Codec (V : Type) where
  decode : List Char → Option V
  encode : V → Option (List Char)
  /-- the decoder used at level 0 (`unsafe_decode`): may accept more than the grammar -/
  unsafeDecode : List Char → Option V := decode
  /-- the Python value of the datatype is itself a `str` (Z): it is never converted, only validated -/
  stringLike : Bool := false

/-- what is written reads back, and the level-0 decoder agrees with the safe one on valid text -/
def Codec.Lawful {V : Type} (c : Codec V) : Prop :=
  (∀ v s, c.encode v = some s → c.decode s = some v) ∧ (∀ s v, c.decode s = some v → c.unsafeDecode s = some v)

/-- what a line stores for a field: the text as given (not yet parsed), or a decoded value -/
inductive Cell (V : Type) where
  | raw (s : List Char)
  | val (v : V)
  deriving Repr

/-- a value offered to `set`: a string in GFA syntax or a Python value -/
abbrev Input (V : Type) := Cell V

variable {V : Type}

def valid (c : Codec V) : Cell V → Bool
  | .raw s => (c.decode s).isSome
  | .val v => (c.encode v).isSome

/-- field value at construction from text; `delayed`: datatype parsed only on access at level 0 -/
def initF (c : Codec V) (k : Nat) (delayed : Bool) (s : List Char) : Option (Cell V) :=
  if k = 0 ∧ delayed then some (.raw s) else (c.decode s).map .val

/-- `field_to_s` -/
def writeF (c : Codec V) (k : Nat) : Cell V → Option (List Char)
  | .raw s => if k ≥ 2 then (if (c.decode s).isSome then some s else none) else some s
  | .val v => c.encode v

/-- `get`: the (possibly updated) cell, or `none` when an error is raised -/
def getF (c : Codec V) (k : Nat) : Cell V → Option (Cell V)
  | .raw s =>
    if c.stringLike then (if k ≥ 3 ∧ (c.decode s).isNone then none else some (.raw s))
    else ((if k ≥ 1 then c.decode s else c.unsafeDecode s).map .val)
  | .val v => if k ≥ 3 ∧ (c.encode v).isNone then none else some (.val v)

/-- `set` / attribute assignment -/
def setF (c : Codec V) (k : Nat) (x : Input V) : Option (Cell V) :=
  if k ≥ 3 then (if valid c x then some x else none) else some x

/-- `validate_field` -/
def validateF (c : Codec V) (x : Cell V) : Bool := valid c x

/-- canonical spelling of a text -/
def canon (c : Codec V) (s : List Char) : Option (List Char) := (c.decode s).bind c.encode

/-- `i`, `Z`, `H` of the field model as codecs -/
def intCodec : Codec Int where
  decode s := match Field.decode 'i' s with | some (.int i) => some i | _ => none
  encode i := Field.encode (.int i)
def strCodec : Codec (List Char) where
  decode s := match Field.decode 'Z' s with | some (.str t) => some t | _ => none
  encode t := Field.encode (.str t)
  stringLike := true
/-- `binascii.unhexlify` also reads lower-case digits -/
def unhexAny (s : List Char) : Option (List Nat) :=
  Field.unhex (s.map fun c => if 'a' ≤ c && c ≤ 'f' then Char.ofNat (c.toNat - 32) else c)
def bytesCodec : Codec (List Nat) where
  decode s := match Field.decode 'H' s with | some (.bytes b) => some b | _ => none
  encode b := Field.encode (.bytes b)
  unsafeDecode s := if s.isEmpty then none else unhexAny s

end Gfa.Lvl
