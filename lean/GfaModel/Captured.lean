import GfaModel.GraphObs
/-
  Captured path of an ordered group (gfapy/line/group/ordered/captured_path.py).

  A path is a list of elements: oriented segments (by name) and oriented edges (by position among the lines,
  because edges supplied between two listed segments need not have a name).  The functions follow the
  library method by method; recursion through nested groups takes a fuel argument (the library recurses on the
  Python stack).
-/
namespace Gfa.G.Cap

abbrev OS := String × Orient

def osInv (x : OS) : OS := (x.1, x.2.inv)

inductive El where
  | seg (s : OS)
  | edge (i : Nat) (o : Orient)
  deriving DecidableEq, Repr, Inhabited

def El.inverted : El → El
  | .seg s => .seg (osInv s)
  | .edge i o => .edge i o.inv

def El.isEdge : El → Bool
  | .edge _ _ => true
  | .seg _ => false

inductive CErr where
  | runtime | notFound | notUnique | inconsistency | assertion | typeErr | depth
  deriving DecidableEq, Repr, Inhabited

def CErr.str : CErr → String
  | .runtime => "RuntimeError" | .notFound => "NotFoundError" | .notUnique => "NotUniqueError"
  | .inconsistency => "InconsistencyError" | .assertion => "AssertionError" | .typeErr => "TypeError"
  | .depth => "InconsistencyError"

/-- sid1, sid2 of an E record -/
def sids (r : Rec) : OS × OS := (splitOriented (fld r 1), splitOriented (fld r 2))

/-- the two ends of an oriented edge as the walk sees them: `-` inverts both -/
def ends (r : Rec) (o : Orient) : OS × OS :=
  match o with
  | .plus => sids r
  | .minus => (osInv (sids r).1, osInv (sids r).2)

def recAt (st : St) (i : Nat) : Rec := st.lines.getD i default

/-- an oriented edge joins `s` and `t` (in either reading direction) -/
def joins (st : St) (i : Nat) (o : Orient) (s t : OS) : Bool :=
  let e := ends (recAt st i) o
  (e.1 == s && e.2 == t) || (e.1 == t && e.2 == s)

/-- what an item name resolves to -/
inductive Item where
  | seg (n : String)
  | edge (i : Nat)
  | path (i : Nat)
  | unresolved
  | other
  deriving DecidableEq, Repr, Inhabited

def resolve (st : St) (n : String) : Item :=
  match st.lines.findIdx? (fun r => r.name = some n) with
  | none => .unresolved
  | some i =>
    match (recAt st i).rt with
    | .S => .seg n
    | .E => .edge i
    | .O => .path i
    | .unk => .unresolved
    | _ => .other

/-- the oriented items of an O record -/
def items (r : Rec) : List OS := ((splitStr ' ' (fld r 1)).filter (· ≠ "")).map splitOriented

/-- `_find_edge_from_path_to_segment` -/
def fitting (st : St) (last s : OS) : List El :=
  st.lines.zipIdx.filterMap (fun (r, i) =>
    if r.rt = .E then
      let a := (sids r).1; let b := (sids r).2
      if (a == s && b == last) || (a == last && b == s) then some (.edge i .plus)
      else if (a == osInv s && b == osInv last) || (a == osInv last && b == osInv s) then some (.edge i .minus)
      else none
    else none)

def findEdge (st : St) (last s : OS) : Except CErr El :=
  match fitting st last s with
  | [] => .error .notFound
  | [e] => .ok e
  | _ => .error .notUnique

/-- `_push_segment_on_se_path` -/
def pushSeg (st : St) (path : List El) (prevEdge : Bool) (s : OS) : Except CErr (List El) :=
  match path.getLast? with
  | none => .ok [.seg s]
  | some (.seg l) =>
    if prevEdge then (if l = s then .ok path else .error .inconsistency)
    else
      match findEdge st l s with
      | .ok e => .ok (path ++ [e, .seg s])
      | .error e => .error e
  | some (.edge _ _) => .error .assertion

/-- `_push_nonfirst_edge_on_se_path` -/
def pushEdge (st : St) (path : List El) (i : Nat) (o : Orient) : Except CErr (List El) :=
  match path.getLast? with
  | some (.seg prev) =>
    let e := ends (recAt st i) o
    if prev = e.1 then .ok (path ++ [.edge i o, .seg e.2])
    else if prev = e.2 then .ok (path ++ [.edge i o, .seg e.1])
    else .error .notFound
  | _ => .error .assertion

/-- what `_push_first_edge_on_se_path` looks at in the second item -/
inductive Next where
  | none
  | seg (s : OS)
  | ends (a b : OS)
  | stop                 -- nested path without elements: nothing is pushed
  deriving DecidableEq, Repr, Inhabited

/-- `_push_first_edge_on_se_path` -/
def pushFirstEdge (st : St) (i : Nat) (o : Orient) (nx : Next) : List El :=
  let sd := sids (recAt st i)
  let oss : OS × OS := match o with
    | .plus => sd
    | .minus => (osInv sd.2, osInv sd.1)
  let rev : Bool := match nx with
    | .seg s => s == oss.1
    | .ends a b => (oss.1 == a || oss.1 == b) && !(oss.2 == a || oss.2 == b)
    | _ => false
  match nx with
  | .stop => []
  | _ => if rev then [.seg oss.2, .edge i o, .seg oss.1] else [.seg oss.1, .edge i o, .seg oss.2]

/-- push an element taken from the captured path of a nested group -/
def pushEl (st : St) (acc : List El × Bool) (e : El) : Except CErr (List El × Bool) :=
  match e with
  | .seg s => (pushSeg st acc.1 acc.2 s).map (fun p => (p, false))
  | .edge i o =>
    if acc.1.isEmpty then .error .assertion     -- a captured path never starts with an edge
    else (pushEdge st acc.1 i o).map (fun p => (p, true))

def pushEls (st : St) (acc : List El × Bool) (es : List El) : Except CErr (List El × Bool) :=
  es.foldlM (pushEl st) acc

/-- `_is_se_path_end_from_edge` -/
def endFromEdge (st : St) : Nat → Nat → Bool → Bool
  | 0, _, _ => false
  | fuel + 1, gi, last =>
    let its := items (recAt st gi)
    match (if last then its.getLast? else its.head?) with
    | none => false
    | some it =>
      match resolve st it.1 with
      | .path j => endFromEdge st fuel j (last == (it.2 == .plus))
      | .edge _ => true
      | _ => false

mutual
/-- `_compute_captured_path` of the group stored at position `gi` -/
def compute (st : St) : Nat → Nat → Except CErr (List El × Bool)
  | 0, _ => .error .depth
  | fuel + 1, gi =>
    let its := items (recAt st gi)
    pushItems st fuel its its ([], false)
termination_by fuel _ => (fuel, 0, 0)

/-- the loop over the items; `all` are the items of the group (the first edge looks at the second item) -/
def pushItems (st : St) (fuel : Nat) (all : List OS) : List OS → List El × Bool → Except CErr (List El × Bool)
  | [], acc => .ok acc
  | it :: rest, acc =>
    match pushItem st fuel all acc it with
    | .ok acc' => pushItems st fuel all rest acc'
    | .error e => .error e
termination_by l _ => (fuel, 3, l.length)

/-- `_push_item_on_se_path` for an item of the group -/
def pushItem (st : St) (fuel : Nat) (all : List OS) (acc : List El × Bool) (it : OS) : Except CErr (List El × Bool) :=
  match resolve st it.1 with
  | .unresolved => .error .runtime
  | .other => .error .typeErr
  | .seg n => (pushSeg st acc.1 acc.2 (n, it.2)).map (fun p => (p, false))
  | .edge i =>
    if acc.1.isEmpty then
      match lookahead st fuel all with
      | .ok nx => .ok (pushFirstEdge st i it.2 nx, true)
      | .error e => .error e
    else (pushEdge st acc.1 i it.2).map (fun p => (p, true))
  | .path j =>
    match compute st fuel j with
    | .error e => .error e
    | .ok (sub, pe) =>
      if sub.isEmpty then .error .assertion
      else
        match it.2 with
        | .plus => (pushEls st acc sub).map (fun r => (r.1, pe))
        | .minus => (pushEls st acc (sub.reverse.map El.inverted)).map (fun r => (r.1, endFromEdge st fuel j false))
termination_by (fuel, 2, 0)

/-- the second item of the group, as the first edge needs it -/
def lookahead (st : St) (fuel : Nat) (all : List OS) : Except CErr Next :=
  match all with
  | _ :: nxt :: _ =>
    match resolve st nxt.1 with
    | .seg n => .ok (.seg (n, nxt.2))
    | .edge j =>
      let sd := sids (recAt st j)
      (match nxt.2 with
       | .plus => .ok (.ends sd.1 sd.2)
       | .minus => .ok (.ends (osInv sd.1) (osInv sd.2)))
    | .path j =>
      match compute st fuel j with
      | .error e => .error e
      | .ok (sub, _) =>
        match nxt.2 with
        | .plus => (match sub.head? with | some (.seg s) => .ok (.seg s) | some _ => .ok .none | none => .ok .stop)
        | .minus => (match sub.getLast? with | some (.seg s) => .ok (.seg (osInv s)) | some _ => .ok .none | none => .ok .stop)
    | _ => .ok .none
  | _ => .ok .none
termination_by (fuel, 1, 0)
end

/-- `captured_path` of the group named `n` (fuel: one more than the number of lines is enough for any acyclic nesting) -/
def capturedPath (st : St) (n : String) : Except CErr (List El) :=
  match resolve st n with
  | .path i => (compute st (st.lines.length + 1) i).map (·.1)
  | _ => .error .typeErr

def capturedSegments (p : List El) : List El := p.filter (fun e => !e.isEdge)
def capturedEdges (p : List El) : List El := p.filter El.isEdge

def El.show (st : St) : El → String
  | .seg s => s.1 ++ orientStr s.2
  | .edge i o => (recAt st i).text ++ orientStr o

end Gfa.G.Cap
