import GfaModel
open Gfa Gfa.Driver

partial def loop (h : IO.FS.Stream) (out : IO.FS.Stream) (d : DState) : IO Unit := do
  let line ← h.getLine
  if line.isEmpty then return ()
  let l := (line.toList.reverse.dropWhile (· == '\n')).reverse
  let parts := splitOnC US l
  let (d', reply) :=
    match parts with
    | [] => (d, "bad-op")
    | cmd :: args => step d (str cmd) (args.map unesc)
  out.putStrLn (str (esc reply.toList))
  loop h out d'

def main : IO Unit := do
  let stdin ← IO.getStdin
  let stdout ← IO.getStdout
  loop stdin stdout {}
