import GfaModel
open Gfa Gfa.Driver

partial def loop (h : IO.FS.Stream) (out : IO.FS.Stream) : IO Unit := do
  let line ← h.getLine
  if line.isEmpty then return ()
  let l := (line.toList.reverse.dropWhile (· == '\n')).reverse
  let parts := splitOnC US l
  let reply :=
    match parts with
    | [] => "bad-op"
    | cmd :: args =>
      match pure? (str cmd) (args.map unesc) with
      | some r => r
      | none => "bad-op"
  out.putStrLn (str (esc reply.toList))
  loop h out

def main : IO Unit := do
  let stdin ← IO.getStdin
  let stdout ← IO.getStdout
  loop stdin stdout
