import GfaProofs.Lemmas.Regex
import GfaProofs.Lemmas.Digits
import GfaProofs.Lemmas.CigarText
import GfaProofs.Bridge.Cigar
import GfaProofs.C12
