import GfaProofs.C02
/-!
# C05 — mutating a Gfa is equivalent to editing its text: the removal cascade is exact

`rmIdx st seed` removes the lines whose index is in `cascade st seed` — the least set containing the seed
and closed under "depends on a removed line" — drops the mentions of removed gaps from the sets that list
them, and leaves every other line textually unchanged.
-/
namespace Gfa.C05
open G C09 C02

/-- the documented dependants of a removed set of lines, transitively -/
inductive Dep (st : St) (seed : List Nat) : Nat → Prop
  | seed {i} : i ∈ seed → Dep st seed i
  | step {i} (d : List Nat) : (∀ j ∈ d, Dep st seed j) → dependsOn st d i = true → Dep st seed i

theorem dep_mono (st : St) (s s' : List Nat) (h : ∀ i ∈ s', Dep st s i) (i : Nat) (hi : Dep st s' i) : Dep st s i := by
  induction hi with
  | seed hm => exact h _ hm
  | step d _ hdep ih => exact Dep.step d ih hdep

/-- **nothing else is removed**: every removed line is the one asked for or a (transitive) dependant -/
theorem cascade_sound (st : St) (d : List Nat) : ∀ x ∈ cascade st d, Dep st d x := by
  induction d using cascade.induct st with
  | case1 d h => intro x hx; unfold cascade at hx; rw [dif_pos h] at hx; exact Dep.seed hx
  | case2 d h ih =>
    intro x hx
    unfold cascade at hx; rw [dif_neg h] at hx
    apply dep_mono st d (d ++ newDead st d) _ x (ih x hx)
    intro z hz
    rcases List.mem_append.mp hz with hz | hz
    · exact Dep.seed hz
    · have := (List.mem_filter.mp hz).2
      simp only [Bool.and_eq_true] at this
      exact Dep.step d (fun j hj => Dep.seed hj) this.2

/-- **every dependant is removed**: a line that depends on the removed set is in it (the cascade is closed) -/
theorem cascade_complete (st : St) (seed : List Nat) (j : Nat) (hj : j < st.lines.length)
    (hdep : dependsOn st (cascade st seed) j = true) : j ∈ cascade st seed := by
  rcases Decidable.em (j ∈ cascade st seed) with h | h
  · exact h
  · have := live_not_dependent st seed j hj h
    rw [this] at hdep; cases hdep

/-- the lines that remain are exactly the lines whose index was not removed … -/
theorem rmCore_lines (st : St) (seed : List Nat) (q' : Rec) :
    q' ∈ (rmCore st seed).lines ↔ ∃ q j, j < st.lines.length ∧ st.lines[j]? = some q ∧ j ∉ cascade st seed ∧
      q' = dropItems ((cascade st seed).filterMap (fun j => (st.lines[j]?).bind Rec.name)) q := by
  unfold rmCore
  simp only [List.mem_map]
  constructor
  · rintro ⟨q, hq, rfl⟩
    obtain ⟨j, hj, hqj, hl⟩ := (mem_kept st (cascade st seed) q).mp (by simpa [List.mem_map] using hq)
    exact ⟨q, j, hj, hqj, hl, rfl⟩
  · rintro ⟨q, j, hj, hqj, hl, rfl⟩
    refine ⟨q, ?_, rfl⟩
    simpa [List.mem_map] using (mem_kept st (cascade st seed) q).mpr ⟨j, hj, hqj, hl⟩

/-- … up to the overlap a placeholder link gives up when no stored path states it any more: every line after the
    removal is a line that was kept, written as before unless it is a set that mentioned a removed line or such a
    placeholder link -/
theorem rm_lines (st : St) (seed : List Nat) (q' : Rec) :
    q' ∈ (rmIdx st seed).lines ↔ ∃ q i, (rmCore st seed).lines[i]? = some q ∧
      q' = resetPlaceholder (rmCore st seed).lines (q, i) := by
  unfold rmIdx resetAll
  exact C02.mem_zipIdx_recmap _ _ _

/-- where a line that is there after a removal comes from: a line whose index was not removed, with the same record
    type and identifier; the same text unless it is a set (a mention dropped) or a placeholder link (an overlap given up) -/
theorem rm_lines_origin (st : St) (seed : List Nat) (q' : Rec) (h : q' ∈ (rmIdx st seed).lines) :
    ∃ q j, j < st.lines.length ∧ st.lines[j]? = some q ∧ j ∉ cascade st seed ∧ q'.name = q.name ∧ q'.rt = q.rt ∧
      (q' = dropItems ((cascade st seed).filterMap (fun j => (st.lines[j]?).bind Rec.name)) q ∨ (q.virt = true ∧ q.rt = .L)) := by
  obtain ⟨q1, i, hq1, rfl⟩ := (rm_lines st seed q').mp h
  obtain ⟨q, j, hj, hqj, hl, rfl⟩ := (rmCore_lines st seed q1).mp (List.mem_of_getElem? hq1)
  refine ⟨q, j, hj, hqj, hl, ?_, ?_, ?_⟩
  · rw [C09.resetPlaceholder_name, dropItems_name]
  · rw [(C02.resetPlaceholder_refs _ _).1, dropItems_rt]
  · unfold resetPlaceholder
    split
    · rename_i hcond
      right
      simp only [Bool.and_eq_true, beq_iff_eq] at hcond
      have hrt := hcond.1.1.2
      have hv := hcond.1.1.1
      rw [dropItems_rt] at hrt
      refine ⟨?_, hrt⟩
      have : (dropItems ((cascade st seed).filterMap (fun j => (st.lines[j]?).bind Rec.name)) q) = q := by
        unfold dropItems; rw [hrt]
      rw [this] at hv; exact hv
    · left; rfl

/-- … and each of them is **textually unchanged**, unless it is a set that mentioned a removed line -/
theorem rm_kept_unchanged (gone : List String) (q : Rec) (h : q.rt ≠ .U) : dropItems gone q = q := by
  unfold dropItems
  split
  · rename_i hu; exact absurd hu h
  · rfl

/-- a set keeps its identifier, its tags and the order of its remaining items -/
theorem rm_set_rest (gone : List String) (q : Rec) :
    (dropItems gone q).rt = q.rt ∧ (dropItems gone q).name = q.name ∧ (dropItems gone q).fields.drop 2 = q.fields.drop 2 := by
  refine ⟨dropItems_rt gone q, dropItems_name gone q, ?_⟩
  unfold dropItems
  split <;> simp

/-- the removed identifier is not in use any more -/
theorem rm_name_gone (st st' : St) (n : String) (hn : NoDup st) (he : rm st n = .ok st') : hasName st' n = false := by
  unfold rm at he
  split at he
  · cases he
  · rename_i i hfound
    injection he with he; subst he
    obtain ⟨hi, hp⟩ := findIdx_some_lt _ _ _ hfound
    have hp' : (st.lines.getD i default).name = some n := by simpa using hp
    rw [Bool.eq_false_iff]
    intro hcon
    obtain ⟨q', hq', hqn⟩ := (hasName_iff' _ n).mp hcon
    obtain ⟨q, j, hj, hqj, hl, hname, _, _⟩ := rm_lines_origin st [i] q' hq'
    rw [hname] at hqn
    -- q (index j, live) and the removed line (index i) carry the same identifier: impossible
    have hq : q ∈ st.lines := List.mem_of_getElem? hqj
    have h1 := lookup_complete st hn q n hq hqn
    have hi' : st.lines[i]? = some (st.lines.getD i default) := by
      simp [List.getD_eq_getElem?_getD, List.getElem?_eq_getElem hi]
    have h2 := lookup_complete st hn _ n (List.mem_of_getElem? hi') hp'
    rw [h1] at h2
    injection h2 with h2
    -- hence q is the removed record; but then index i and j both hold it: use uniqueness of positions
    have hidead : i ∈ cascade st [i] := cascade_seed st [i] i (by simp)
    -- the live index j holds a record with identifier n, as does i; Nodup of identifiers forces i = j
    have : i = j := by
      rcases Nat.lt_trichotomy i j with hlt | heq | hgt
      · exfalso
        exact nodup_index st.lines i j n hn hi hj hlt (by simpa [List.getD_eq_getElem?_getD, List.getElem?_eq_getElem hi] using hp') (by
          rw [List.getElem?_eq_getElem hj] at hqj; injection hqj with hqj; rw [hqj]; exact hqn)
      · exact heq
      · exfalso
        exact nodup_index st.lines j i n hn hj hi hgt (by
          rw [List.getElem?_eq_getElem hj] at hqj; injection hqj with hqj; rw [hqj]; exact hqn)
          (by simpa [List.getD_eq_getElem?_getD, List.getElem?_eq_getElem hi] using hp')
    subst this
    exact hl hidead
where
  nodup_index (ls : List Rec) (i j : Nat) (n : String) (hn : (namesOf ls).Nodup) (hi : i < ls.length) (hj : j < ls.length)
      (hlt : i < j) (h1 : ls[i].name = some n) (h2 : ls[j].name = some n) : False := by
    induction ls generalizing i j with
    | nil => simp at hi
    | cons x xs ih =>
      cases j with
      | zero => omega
      | succ j' =>
        cases i with
        | zero =>
          simp only [List.getElem_cons_zero] at h1
          simp only [List.getElem_cons_succ] at h2
          simp only [namesOf, List.filterMap_cons, h1, List.nodup_cons] at hn
          apply hn.1
          have hj' : j' < xs.length := by simpa using hj
          exact List.mem_filterMap.mpr ⟨xs[j'], List.getElem_mem hj', h2⟩
        | succ i' =>
          simp only [List.getElem_cons_succ] at h1 h2
          apply ih i' j' _ (by simpa using hi) (by simpa using hj) (by omega) h1 h2
          simp only [namesOf, List.filterMap_cons] at hn
          cases hx : x.name with
          | none => simpa [namesOf, hx] using hn
          | some m => rw [hx] at hn; exact (List.nodup_cons.mp hn).2

end Gfa.C05
