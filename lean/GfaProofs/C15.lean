import GfaModel.Multiply
import GfaModel.Graph
/-!
# C15 — segment multiplication: arithmetic core

All statements are for every factor, every number of links, every set of names in use.
-/
namespace Gfa.C15
open Mul

/-- the automatically selected end has exactly `k` links or at least two; `none` only if neither end qualifies -/
theorem auto_select_sound (k b e : Nat) (eq : Bool) :
    (autoSelect k b e eq = some true → e = k ∨ 2 ≤ e) ∧
    (autoSelect k b e eq = some false → b = k ∨ 2 ≤ b) ∧
    (autoSelect k b e false = none → e < 2 ∧ b < 2 ∧ e ≠ k ∧ b ≠ k) ∧
    (autoSelect k b e true = none ↔ e ≠ k ∧ b ≠ k) := by
  unfold autoSelect
  refine ⟨?_, ?_, ?_, ?_⟩
  · intro h; (repeat' split at h) <;> first | omega | simp_all
  · intro h; (repeat' split at h) <;> first | omega | simp_all
  · intro h; (repeat' split at h) <;> first | omega | simp_all
  · constructor
    · intro h; (repeat' split at h) <;> first | omega | simp_all
    · intro h; repeat' split
      all_goals first | rfl | omega | simp_all

/-- "equal" policy prefers R when both ends have exactly `k` links -/
theorem auto_select_equal_R (k b : Nat) (eq : Bool) : autoSelect k b k eq = some true := by
  simp [autoSelect]

/-- **every former neighbour stays linked to at least one copy**: the windows of the `k` copies cover
    all `n` links of the distributed end -/
theorem distribute_covers (n k j : Nat) (hk : 1 ≤ k) (hj : j < n) : ∃ i, i < k ∧ keeps n k i j = true := by
  by_cases h : j < k
  · exact ⟨j, h, by simp [keeps]; omega⟩
  · exact ⟨k - 1, by omega, by simp [keeps]; omega⟩

/-- **no link is invented**: a copy only keeps links that the end had -/
theorem distribute_subset (n k i j : Nat) (h : keeps n k i j = true) : j < n := by
  simp [keeps] at h; omega

/-- when there are at least as many copies as links, each link stays on exactly one copy -/
theorem distribute_exact (n k i i' j : Nat) (hnk : n ≤ k)
    (h : keeps n k i j = true) (h' : keeps n k i' j = true) : i = i' := by
  simp [keeps] at h h'; omega

/-- when there are more links than copies every copy keeps `n-k+1` of them -/
theorem distribute_window_size (n k i : Nat) (hk : i < k) (hnk : k ≤ n) (j : Nat) :
    keeps n k i j = true ↔ i ≤ j ∧ j ≤ i + (n - k) := by
  simp [keeps]; omega

theorem nextFree_ge (used : List Nat) (fuel n : Nat) : n ≤ nextFree used fuel n := by
  induction fuel generalizing n with
  | zero => simp [nextFree]
  | succ f ih => simp only [nextFree]; split
                 · have := ih (n + 1); omega
                 · omega

/-- number of elements of `used` that are ≥ n -/
def above (used : List Nat) (n : Nat) : Nat := (used.filter (fun x => decide (n ≤ x))).length

theorem above_le (used : List Nat) (n : Nat) : above used n ≤ used.length := by
  simp [above, List.length_filter_le]

theorem above_succ_lt (used : List Nat) (hnd : used.Nodup) (n : Nat) (h : n ∈ used) :
    above used (n + 1) < above used n := by
  unfold above
  induction used with
  | nil => cases h
  | cons x xs ih =>
    have hnd' := (List.nodup_cons.mp hnd)
    simp only [List.filter_cons]
    rcases List.mem_cons.mp h with rfl | hx
    · have : (xs.filter fun y => decide (n + 1 ≤ y)).length ≤ (xs.filter fun y => decide (n ≤ y)).length := by
        apply G.filter_length_le
        intro y _ hy; simp at hy ⊢; omega
      have h1 : ¬ (n + 1 ≤ n) := by omega
      simp [h1]; omega
    · have := ih hnd'.2 hx
      by_cases h1 : n + 1 ≤ x <;> by_cases h2 : n ≤ x <;> simp [h1, h2] <;> omega

/-- the name found by the search loop is not in use (given enough fuel: one unit per used name ≥ start) -/
theorem nextFree_fresh (used : List Nat) (hnd : used.Nodup) (fuel n : Nat) (hf : above used n ≤ fuel) :
    nextFree used fuel n ∉ used := by
  induction fuel generalizing n with
  | zero =>
    simp only [nextFree]
    intro hmem
    have := above_succ_lt used hnd n hmem
    omega
  | succ f ih =>
    simp only [nextFree]
    split
    · rename_i hc
      have hmem : n ∈ used := by simpa using hc
      have := above_succ_lt used hnd n hmem
      exact ih (n + 1) (by omega)
    · rename_i hc; simpa using hc

theorem above_mono (used : List Nat) (a b : Nat) (h : a ≤ b) : above used b ≤ above used a := by
  unfold above
  apply G.filter_length_le
  intro y _ hy; simp at hy ⊢; omega

/-- **the automatic copy names are fresh and pairwise distinct** (strictly increasing suffixes, none in use) -/
theorem copy_names_fresh_distinct (used : List Nat) (hnd : used.Nodup) (count cand : Nat) :
    (∀ m ∈ copyNums used count cand, m ∉ used ∧ cand ≤ m) ∧ (copyNums used count cand).Pairwise (· < ·) ∧
    (copyNums used count cand).length = count := by
  induction count generalizing cand with
  | zero => simp [copyNums]
  | succ c ih =>
    simp only [copyNums]
    have hfresh := nextFree_fresh used hnd used.length cand (above_le used cand)
    have hge := nextFree_ge used used.length cand
    obtain ⟨i1, i2, i3⟩ := ih (nextFree used used.length cand + 1)
    refine ⟨?_, ?_, by simp [i3]⟩
    · intro m hm
      rcases List.mem_cons.mp hm with rfl | hm
      · exact ⟨hfresh, hge⟩
      · have := i1 m hm; exact ⟨this.1, by omega⟩
    · rw [List.pairwise_cons]
      refine ⟨?_, i2⟩
      intro m hm; have := (i1 m hm).2; omega

/-- counts are divided by the factor, rounding down: the copies together never carry more than the original -/
theorem counts_divided (c k : Nat) (hk : 0 < k) : k * divideCount c k ≤ c ∧ c < k * (divideCount c k + 1) := by
  unfold divideCount
  constructor
  · exact Nat.mul_div_le c k
  · have := Nat.div_add_mod c k
    have := Nat.mod_lt c hk
    rw [Nat.mul_add]; omega

-- non-vacuity
example : autoSelect 2 3 1 false = some false ∧ autoSelect 3 3 3 true = some true ∧ autoSelect 2 1 1 false = none := by decide
example : copyNums [2, 3, 5] 3 2 = [4, 6, 7] := by decide
example : (List.range 3).map (fun i => (List.range 5).filter (keeps 5 3 i)) = [[0, 1, 2], [1, 2, 3], [2, 3, 4]] := by decide

end Gfa.C15
