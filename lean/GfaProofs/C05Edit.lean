import GfaModel.Edit
import GfaProofs.C05
import GfaProofs.C02Rename
/-!
# C05 / C02 / C09 — the remaining mutations: a line removed as an object, a tag set or deleted

`rmText` is the removal cascade of C05 started from the line with the given written form; `setTag` rewrites one tag of
one line.  Setting or deleting a tag (other than the ID tag of a link, which is its identifier) changes neither the
record type, the identifier nor any reference of the line, touches no other line, leaves the positional fields as they
were, keeps the place of an existing tag and appends a new one.  With these the invariants of C02 and C09 hold for
every history of *all* the public mutations of C05: add, rm by identifier, rm by object / disconnect, rename,
set / delete of a tag.
-/
namespace Gfa.C05Edit
open G C09 C02 C05

theorem isIdTag_name (t : String) (h : isIdTag t = true) : tagName t = "ID" := by
  unfold isIdTag at h
  unfold tagName
  obtain ⟨rest, hr⟩ := List.isPrefixOf_iff_prefix.mp h
  rw [← hr]
  have : "ID:Z:".toList = ['I', 'D', ':', 'Z', ':'] := by decide
  rw [this]
  rfl

theorem editTags_idTag (tn : String) (new : Option String) (tags : List String) (hid : tn ≠ "ID")
    (hnew : ∀ x, new = some x → tagName x = tn) : idTag (editTags tn new tags) = idTag tags := by
  have hno : ∀ x, isIdTag x = true → (tagName x == tn) = false := by
    intro x hx
    rw [isIdTag_name x hx]
    simp [Ne.symm hid]
  have hfind : (editTags tn new tags).find? isIdTag = tags.find? isIdTag := by
    unfold editTags
    cases new with
    | none =>
      simp only
      rw [List.find?_filter]
      congr 1
      funext a
      cases ha : isIdTag a
      · simp
      · have := hno a ha
        simp [bne, this]
    | some t =>
      have ht : isIdTag t = false := by
        cases h : isIdTag t
        · rfl
        · have := hno t h
          rw [hnew t rfl] at this
          simp at this
      simp only
      split
      · rw [List.find?_map]
        have hfun : (isIdTag ∘ fun x => if (tagName x == tn) = true then t else x) = isIdTag := by
          funext a
          simp only [Function.comp]
          split
          · rename_i hc
            rw [ht]
            cases ha : isIdTag a
            · rfl
            · rw [hno a ha] at hc; cases hc
          · rfl
        rw [hfun]
        cases hf : tags.find? isIdTag with
        | none => rfl
        | some x =>
          have hx : isIdTag x = true := by simpa using List.find?_some hf
          simp only [Option.map_some, hno x hx]
          rfl
      · rw [List.find?_append]
        simp [List.find?_cons, ht]
  unfold idTag
  rw [hfind]

theorem npos_le_tagStart (v : Ver) (rt : RT) : npos rt ≤ tagStart v rt := by
  unfold tagStart
  split
  · rename_i h; rw [h.1]; decide
  · exact Nat.le_refl _

theorem editTag_fld (v : Ver) (r : Rec) (tn : String) (new : Option String) (i : Nat)
    (hlen : tagStart v r.rt ≤ r.fields.length) (hi : i < tagStart v r.rt) : fld (r.editTag v tn new) i = fld r i := by
  unfold fld Rec.editTag
  simp only [List.getD_eq_getElem?_getD]
  rw [List.getElem?_append_left (by simp; omega), List.getElem?_take_of_lt hi]

theorem editTag_drop (v : Ver) (r : Rec) (tn : String) (new : Option String)
    (hlen : tagStart v r.rt ≤ r.fields.length) :
    (r.editTag v tn new).fields.drop (tagStart v r.rt) = editTags tn new (r.fields.drop (tagStart v r.rt)) := by
  unfold Rec.editTag
  rw [List.drop_append_of_le_length (by simp; omega)]
  simp

/-- **the positional fields are untouched** -/
theorem editTag_take (v : Ver) (r : Rec) (tn : String) (new : Option String)
    (hlen : tagStart v r.rt ≤ r.fields.length) :
    (r.editTag v tn new).fields.take (tagStart v r.rt) = r.fields.take (tagStart v r.rt) := by
  unfold Rec.editTag
  rw [List.take_append_of_le_length (by simp; omega)]
  rw [List.take_take]; simp

theorem editTag_rt (v : Ver) (r : Rec) (tn : String) (new : Option String) : (r.editTag v tn new).rt = r.rt := rfl
theorem editTag_virt (v : Ver) (r : Rec) (tn : String) (new : Option String) : (r.editTag v tn new).virt = r.virt := rfl

/-- **the identifier is untouched** -/
theorem editTag_name (v : Ver) (r : Rec) (tn : String) (new : Option String) (hlen : tagStart v r.rt ≤ r.fields.length)
    (hid : tn ≠ "ID") (hnew : ∀ x, new = some x → tagName x = tn) : (r.editTag v tn new).name = r.name := by
  have h0 : ∀ (hp : 0 < tagStart v r.rt), fld (r.editTag v tn new) 0 = fld r 0 := fun hp => editTag_fld v r tn new 0 hlen hp
  have hd := editTag_drop v r tn new hlen
  unfold Rec.name
  rw [editTag_rt]
  have hts : ∀ rt, rt ≠ .S → tagStart v rt = npos rt := by
    intro rt h; unfold tagStart; rw [if_neg (fun hc => h hc.1)]
  cases hrt : r.rt with
  | L =>
    simp only
    have := hts .L (by decide); rw [hrt, this] at hd
    rw [show (5 : Nat) = npos .L from rfl, hd, editTags_idTag tn new _ hid hnew]
  | C =>
    simp only
    have := hts .C (by decide); rw [hrt, this] at hd
    rw [show (6 : Nat) = npos .C from rfl, hd, editTags_idTag tn new _ hid hnew]
  | F => rfl
  | S => simp only; rw [h0 (by rw [hrt]; unfold tagStart; split <;> decide)]
  | P => simp only; rw [h0 (by rw [hrt, hts .P (by decide)]; decide)]
  | E => simp only; rw [h0 (by rw [hrt, hts .E (by decide)]; decide)]
  | G => simp only; rw [h0 (by rw [hrt, hts .G (by decide)]; decide)]
  | O => simp only; rw [h0 (by rw [hrt, hts .O (by decide)]; decide)]
  | U => simp only; rw [h0 (by rw [hrt, hts .U (by decide)]; decide)]
  | unk => simp only; rw [h0 (by rw [hrt, hts .unk (by decide)]; decide)]

/-- **no reference is touched** -/
theorem editTag_refs (v : Ver) (r : Rec) (tn : String) (new : Option String) (hlen : tagStart v r.rt ≤ r.fields.length) :
    (r.editTag v tn new).segRefs = r.segRefs ∧ (r.editTag v tn new).itemRefs = r.itemRefs ∧
    (r.editTag v tn new).pathSteps = r.pathSteps ∧ (r.editTag v tn new).linkOf = r.linkOf := by
  have hf : ∀ i, i < npos r.rt → fld (r.editTag v tn new) i = fld r i :=
    fun i hi => editTag_fld v r tn new i hlen (Nat.lt_of_lt_of_le hi (npos_le_tagStart v r.rt))
  unfold Rec.segRefs Rec.itemRefs Rec.pathSteps Rec.linkOf
  rw [editTag_rt]
  cases hrt : r.rt <;> rw [hrt] at hf <;> simp only [npos] at hf <;> simp (disch := omega) only [hf, and_self]

-- ------------------------------------------------------------------ the state after a tag edit
/-- what a successful tag edit is: one line, found by its text, has its tags rewritten -/
theorem setTag_ok (st st' : St) (t tn : String) (new : Option String) (he : setTag st t tn new = .ok st') :
    ∃ i, findText st t = some i ∧ i < st.lines.length ∧ tn ≠ "ID" ∧ (∀ x, new = some x → tagName x = tn) ∧
      tagStart st.ver (st.lines.getD i default).rt ≤ (st.lines.getD i default).fields.length ∧
      st' = { st with lines := st.lines.set i ((st.lines.getD i default).editTag st.ver tn new) } := by
  unfold setTag at he
  split at he
  · cases he
  · rename_i i hfound
    split at he
    · cases he
    · rename_i hid
      split at he
      · cases he
      · rename_i hlen
        split at he
        · cases he
        · rename_i hnew
          injection he with he
          refine ⟨i, hfound, (findIdx_some_lt _ _ _ hfound).1, hid, ?_, by omega, he.symm⟩
          intro x hx
          subst hx
          simpa [wrongName] using hnew

/-- **every other line is untouched**, the edited line keeps its record type, identifier and positional fields, and its
    tags are the old ones with the one tag replaced in place, appended, or taken out -/
theorem setTag_frame (st st' : St) (t tn : String) (new : Option String) (he : setTag st t tn new = .ok st') :
    ∃ i r, st.lines[i]? = some r ∧ r.virt = false ∧ r.text = t ∧
      st'.lines = st.lines.set i (r.editTag st.ver tn new) ∧ st'.ver = st.ver ∧
      (r.editTag st.ver tn new).rt = r.rt ∧ (r.editTag st.ver tn new).name = r.name ∧
      (r.editTag st.ver tn new).fields.take (tagStart st.ver r.rt) = r.fields.take (tagStart st.ver r.rt) ∧
      (r.editTag st.ver tn new).fields.drop (tagStart st.ver r.rt) = editTags tn new (r.fields.drop (tagStart st.ver r.rt)) := by
  obtain ⟨i, hfound, hi, hid, hnew, hlen, rfl⟩ := setTag_ok st st' t tn new he
  have hp := (findIdx_some_lt _ _ _ hfound).2
  simp only [Bool.and_eq_true, Bool.not_eq_true', beq_iff_eq] at hp
  have hget : st.lines[i]? = some (st.lines.getD i default) := by
    simp [List.getD_eq_getElem?_getD, List.getElem?_eq_getElem hi]
  exact ⟨i, _, hget, hp.1, hp.2, rfl, rfl, rfl, editTag_name _ _ _ _ hlen hid hnew, editTag_take _ _ _ _ hlen,
    editTag_drop _ _ _ _ hlen⟩

theorem setTag_nodup (st st' : St) (t tn : String) (new : Option String) (h : NoDup st)
    (he : setTag st t tn new = .ok st') : NoDup st' := by
  obtain ⟨i, _, hi, hid, hnew, hlen, rfl⟩ := setTag_ok st st' t tn new he
  unfold NoDup names at *
  have := namesOf_set st.lines i ((st.lines.getD i default).editTag st.ver tn new) hi
    (editTag_name _ _ _ _ hlen hid hnew)
  simp only [namesOf] at this
  rw [this]; exact h

theorem setTag_closed (st st' : St) (t tn : String) (new : Option String) (hc : Closed st)
    (he : setTag st t tn new = .ok st') : Closed st' := by
  obtain ⟨i, _, hi, hid, hnew, hlen, rfl⟩ := setTag_ok st st' t tn new he
  have hname := editTag_name st.ver (st.lines.getD i default) tn new hlen hid hnew
  obtain ⟨hseg, hitem, _, _⟩ := editTag_refs st.ver (st.lines.getD i default) tn new hlen
  have hext : Ext st { st with lines := st.lines.set i ((st.lines.getD i default).editTag st.ver tn new) } :=
    ext_set st i _ hi (Or.inr hname.symm) (fun hS => ⟨hS, hname.symm⟩)
  apply closed_of_grow hc
  refine ⟨hext, ?_⟩
  intro x hx
  rcases List.mem_or_eq_of_mem_set hx with h | h
  · exact Or.inl h
  · right
    have hold : RecClosed st (st.lines.getD i default) := by
      apply hc
      simp [List.getD_eq_getElem?_getD, List.getElem?_eq_getElem hi]
    subst h
    refine ⟨fun n hn => hext.1 n (hold.1 n (by rw [← hseg]; exact hn)), fun n hn => hext.2 n (hold.2 n (by rw [← hitem]; exact hn))⟩

theorem rmText_nodup (st st' : St) (t : String) (h : NoDup st) (he : rmText st t = .ok st') : NoDup st' := by
  unfold rmText at he
  split at he
  · cases he
  · injection he with he; subst he; exact rmIdx_nodup st _ h

theorem rmText_closed (st st' : St) (t : String) (h : Closed st) (he : rmText st t = .ok st') : Closed st' := by
  unfold rmText at he
  split at he
  · cases he
  · injection he with he; subst he; exact rmIdx_closed st _ h

/-- the line given is a real line with that text, and what is left is the exact cascade of C05 from it -/
theorem rmText_is_cascade (st st' : St) (t : String) (he : rmText st t = .ok st') :
    ∃ i r, st.lines[i]? = some r ∧ r.virt = false ∧ r.text = t ∧ st' = rmIdx st [i] := by
  unfold rmText at he
  split at he
  · cases he
  · rename_i i hfound
    injection he with he
    obtain ⟨hi, hp⟩ := findIdx_some_lt _ _ _ hfound
    simp only [Bool.and_eq_true, Bool.not_eq_true', beq_iff_eq] at hp
    exact ⟨i, _, by simp [List.getD_eq_getElem?_getD, List.getElem?_eq_getElem hi], hp.1, hp.2, he.symm⟩

-- ------------------------------------------------------------------ every history of all the mutations
/-- all the public mutations of C05 -/
inductive Op where
  | base (o : C09.Op)                                   -- add_line, rm by identifier, rename
  | rmLine (t : String)                                 -- rm(line) / line.disconnect()
  | setTag (t tn : String) (new : Option String)        -- line.set(tag, v) / line.delete(tag)

/-- one call: a failing call leaves the state as it was (C08) -/
def step (st : St) : Op → St
  | .base o => C09.step st o
  | .rmLine t => match rmText st t with | .ok s => s | .error _ => st
  | .setTag t tn new => match setTag st t tn new with | .ok s => s | .error _ => st

def run (v : Ver) (ops : List Op) : St := ops.foldl step (St.empty v)

def okOp : Op → Prop
  | .base o => C02.okOp o
  | _ => True

theorem step_nodup (st : St) (op : Op) (h : NoDup st) : NoDup (step st op) := by
  cases op with
  | base o => exact C09.step_nodup st o h
  | rmLine t => simp only [step]; cases he : rmText st t with
    | ok s => exact rmText_nodup st s t h he
    | error e => exact h
  | setTag t tn new => simp only [step]; cases he : setTag st t tn new with
    | ok s => exact setTag_nodup st s t tn new h he
    | error e => exact h

theorem step_closed (st : St) (op : Op) (hop : okOp op) (h : Closed st) : Closed (step st op) := by
  cases op with
  | base o => exact C02.step_closed_all st o hop h
  | rmLine t => simp only [step]; cases he : rmText st t with
    | ok s => exact rmText_closed st s t h he
    | error e => exact h
  | setTag t tn new => simp only [step]; cases he : setTag st t tn new with
    | ok s => exact setTag_closed st s t tn new h he
    | error e => exact h

/-- **identifiers stay pairwise distinct for every history of all the mutations** (successful or refused) -/
theorem nodup_reachable (v : Ver) (ops : List Op) : NoDup (run v ops) := by
  unfold run
  suffices h : ∀ st, NoDup st → NoDup (ops.foldl step st) from h _ (nodup_empty v)
  induction ops with
  | nil => intro st h; exact h
  | cons op ops ih => intro st h; exact ih _ (step_nodup st op h)

/-- **no reference dangles for every history of all the mutations** -/
theorem closed_reachable (v : Ver) (ops : List Op) (hops : ∀ op ∈ ops, okOp op) : Closed (run v ops) := by
  unfold run
  suffices h : ∀ st, Closed st → Closed (ops.foldl step st) from h _ (closed_empty v)
  induction ops with
  | nil => intro st h; exact h
  | cons op ops ih =>
    intro st h
    exact ih (fun o ho => hops o (by simp [ho])) _ (step_closed st op (hops op (by simp)) h)

end Gfa.C05Edit
