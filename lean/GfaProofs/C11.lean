import GfaModel.Geometry
import GfaModel.GeometrySpec
/-!
# C11 — segment neighbourhoods match the specification's edge semantics

`substringType`, `refkey`, `alignmentType`, `segmentRole`, `isSid1From`, `gapKey`, `linkKey` are
the code's decision functions (tied to /repo by `GfaProofs.Bridge.Geometry`); `Spec.*` is the
geometric meaning.  The theorems hold for **all** segment lengths and interval positions.
-/
namespace Gfa.C11
open Spec

@[simp] theorem mk_value (x n : Nat) : (Pos.mk x n).value = x := by
  unfold Pos.mk; split <;> rfl
@[simp] theorem mk_isFirst (x n : Nat) : (Pos.mk x n).isFirst = (x == 0) := by
  unfold Pos.isFirst; rw [mk_value]
@[simp] theorem mk_isLast (x n : Nat) : (Pos.mk x n).isLast = decide (x = n) := by
  unfold Pos.mk; split <;> simp_all [Pos.isLast]

/-- `_substring_type` computes the geometric kind (and the emptiness flag), for every interval on
    every non-empty segment. -/
theorem substring_type_spec (n b e : Nat) (h : ValidIv n b e) :
    substringType (Pos.mk b n) (Pos.mk e n) = .ok (kindOf n b e, decide (b = e)) := by
  obtain ⟨h1, h2, h3⟩ := h
  unfold substringType kindOf
  simp only [mk_value, mk_isFirst, mk_isLast]
  have hn : ¬ n = 0 := by omega
  have hn' : ¬ 0 = n := by omega
  have hle : ¬ e < b := by omega
  by_cases hb : b = n <;> by_cases he : e = n <;> by_cases hb0 : b = 0 <;> by_cases he0 : e = 0 <;>
    simp [hb, he, hb0, he0, hn, hn', hle] <;> first | omega | rfl | grind

/-- `begin > end` is refused, whatever the `$` markers. -/
theorem substring_type_rejects (b e : Pos) (h : e.value < b.value) : substringType b e = .error .value := by
  unfold substringType; simp [h]

/-- The key under which an E line is filed on each of its segments is the one the geometry dictates. -/
theorem refkey_matches_geometry (first : Bool) (o1 o2 : Orient) (n1 b1 e1 n2 b2 e2 : Nat)
    (h1 : ValidIv n1 b1 e1) (h2 : ValidIv n2 b2 e2) :
    refkey first o1 o2 (kindOf n1 b1 e1) (kindOf n2 b2 e2) = filedUnder first o1 o2 n1 b1 e1 n2 b2 e2 := by
  obtain ⟨h11, h12, h13⟩ := h1
  obtain ⟨h21, h22, h23⟩ := h2
  unfold refkey filedUnder kindOf isDovetail isWhole touchesStart touchesEnd forwardEnd
  cases first <;> cases o1 <;> cases o2 <;>
    by_cases hb1 : b1 = 0 <;> by_cases he1 : e1 = n1 <;> by_cases hb2 : b2 = 0 <;> by_cases he2 : e2 = n2 <;>
    simp [hb1, he1, hb2, he2] <;> omega

/-- dovetail / containment / internal classification -/
theorem alignment_type_matches_geometry (o1 o2 : Orient) (n1 b1 e1 n2 b2 e2 : Nat)
    (h1 : ValidIv n1 b1 e1) (h2 : ValidIv n2 b2 e2) :
    alignmentType o1 o2 (kindOf n1 b1 e1) (kindOf n2 b2 e2) =
      (if isContainment n1 b1 e1 n2 b2 e2 then .C
       else if isDovetail o1 o2 n1 b1 e1 n2 b2 e2 then .L else .I) := by
  obtain ⟨h11, h12, h13⟩ := h1
  obtain ⟨h21, h22, h23⟩ := h2
  unfold alignmentType isContainment kindOf isDovetail isWhole touchesStart touchesEnd
  cases o1 <;> cases o2 <;>
    by_cases hb1 : b1 = 0 <;> by_cases he1 : e1 = n1 <;> by_cases hb2 : b2 = 0 <;> by_cases he2 : e2 = n2 <;>
    simp [hb1, he1, hb2, he2] <;> omega

/-- the classification and the filing agree: an edge is filed under a dovetail key iff it is typed `L`, etc. -/
theorem filing_agrees_with_type (first : Bool) (o1 o2 : Orient) (st1 st2 : SubT) :
    (alignmentType o1 o2 st1 st2 = .L ↔ (refkey first o1 o2 st1 st2 = .dovL ∨ refkey first o1 o2 st1 st2 = .dovR)) ∧
    (alignmentType o1 o2 st1 st2 = .C ↔ (refkey first o1 o2 st1 st2 = .toContained ∨ refkey first o1 o2 st1 st2 = .toContainers)) ∧
    (alignmentType o1 o2 st1 st2 = .I ↔ refkey first o1 o2 st1 st2 = .internals) := by
  cases first <;> cases o1 <;> cases o2 <;> cases st1 <;> cases st2 <;> decide

/-- `_segment_role` in geometric terms -/
theorem segment_role_spec (o : Orient) (n b e : Nat) (h : ValidIv n b e) :
    segmentRole (Pos.mk b n) (Pos.mk e n) o =
      (if isWhole n b e then .contained
       else if touchesStart o n b e && !touchesEnd o n b e then .pfx
       else if touchesEnd o n b e && !touchesStart o n b e then .sfx else .other) := by
  obtain ⟨h1, h2, h3⟩ := h
  unfold segmentRole isWhole touchesStart touchesEnd
  simp only [mk_isFirst, mk_isLast]
  have hn : ¬ n = 0 := by omega
  have hn' : ¬ 0 = n := by omega
  cases o <;> by_cases hb : b = n <;> by_cases he : e = n <;> by_cases hb0 : b = 0 <;> by_cases he0 : e = 0 <;>
    simp [hb, he, hb0, he0, hn, hn'] <;> omega

/-- which side of an E line is the GFA1 `from`: the one whose oriented suffix is aligned
    (the container, for containments) -/
theorem is_sid1_from_spec (o1 o2 : Orient) (n1 b1 e1 n2 b2 e2 : Nat)
    (h1 : ValidIv n1 b1 e1) (h2 : ValidIv n2 b2 e2) :
    (isSid1From (segmentRole (Pos.mk b1 n1) (Pos.mk e1 n1) o1) (segmentRole (Pos.mk b2 n2) (Pos.mk e2 n2) o2)).toOption
      = sid1IsFrom o1 o2 n1 b1 e1 n2 b2 e2 := by
  rw [segment_role_spec o1 n1 b1 e1 h1, segment_role_spec o2 n2 b2 e2 h2]
  obtain ⟨h11, h12, h13⟩ := h1
  obtain ⟨h21, h22, h23⟩ := h2
  unfold isSid1From sid1IsFrom isWhole touchesStart touchesEnd
  cases o1 <;> cases o2 <;>
    by_cases hb1 : b1 = 0 <;> by_cases he1 : e1 = n1 <;> by_cases hb2 : b2 = 0 <;> by_cases he2 : e2 = n2 <;>
    simp [hb1, he1, hb2, he2, Except.toOption] <;> omega

/-- `from` is defined exactly for dovetails and containments (never for internal alignments) -/
theorem from_defined_iff (o1 o2 : Orient) (n1 b1 e1 n2 b2 e2 : Nat)
    (h1 : ValidIv n1 b1 e1) (h2 : ValidIv n2 b2 e2) :
    (sid1IsFrom o1 o2 n1 b1 e1 n2 b2 e2).isSome =
      (isContainment n1 b1 e1 n2 b2 e2 || isDovetail o1 o2 n1 b1 e1 n2 b2 e2) := by
  obtain ⟨h11, h12, h13⟩ := h1
  obtain ⟨h21, h22, h23⟩ := h2
  unfold sid1IsFrom isContainment isDovetail isWhole touchesStart touchesEnd
  cases o1 <;> cases o2 <;>
    by_cases hb1 : b1 = 0 <;> by_cases he1 : e1 = n1 <;> by_cases hb2 : b2 = 0 <;> by_cases he2 : e2 = n2 <;>
    simp [hb1, he1, hb2, he2] <;> omega

/-- An L line leaves its from-segment at the end of the *oriented* segment and enters the
    to-segment at its oriented start: right end for `+`, left for `−` (and mirrored for `to`). -/
theorem link_ends (l : Link) :
    l.fromEnd = (l.frm, endOfOrientedEnd l.fo) ∧ l.toEnd = (l.to, endOfOrientedStart l.too) := by
  cases l with | mk f fo t too o => cases fo <;> cases too <;> simp [Link.fromEnd, Link.toEnd, endOfOrientedEnd, endOfOrientedStart]

theorem link_keys (o : Orient) :
    linkKey true o = (if endOfOrientedEnd o = .R then .dovR else .dovL) ∧
    linkKey false o = (if endOfOrientedStart o = .L then .dovL else .dovR) := by
  cases o <;> decide

/-- a gap `A^o1 → B^o2` sits after the oriented end of A and before the oriented start of B -/
theorem gap_keys (o1 o2 : Orient) :
    gapKey true o1 o2 = (if endOfOrientedEnd o1 = .R then .gapsR else .gapsL) ∧
    gapKey false o1 o2 = (if endOfOrientedStart o2 = .L then .gapsL else .gapsR) := by
  cases o1 <;> cases o2 <;> decide

/-- Coherence between the two views of a dovetail E line: the end of the from/to segment on which
    the references code files the edge is the end the derived GFA1 link attaches to. -/
theorem edge_link_ends_agree (o1 o2 : Orient) (n1 b1 e1 n2 b2 e2 : Nat)
    (h1 : ValidIv n1 b1 e1) (h2 : ValidIv n2 b2 e2)
    (hd : isDovetail o1 o2 n1 b1 e1 n2 b2 e2 = true) :
    match sid1IsFrom o1 o2 n1 b1 e1 n2 b2 e2 with
    | some true =>
        filedUnder true o1 o2 n1 b1 e1 n2 b2 e2 = linkKey true o1 ∧
        filedUnder false o1 o2 n1 b1 e1 n2 b2 e2 = linkKey false o2
    | some false =>
        filedUnder false o1 o2 n1 b1 e1 n2 b2 e2 = linkKey true o2 ∧
        filedUnder true o1 o2 n1 b1 e1 n2 b2 e2 = linkKey false o1
    | none => False := by
  obtain ⟨h11, h12, h13⟩ := h1
  obtain ⟨h21, h22, h23⟩ := h2
  revert hd
  unfold sid1IsFrom filedUnder isDovetail isWhole touchesStart touchesEnd forwardEnd linkKey
  cases o1 <;> cases o2 <;>
    by_cases hb1 : b1 = 0 <;> by_cases he1 : e1 = n1 <;> by_cases hb2 : b2 = 0 <;> by_cases he2 : e2 = n2 <;>
    simp [hb1, he1, hb2, he2] <;> omega

-- non-vacuity: a suffix of A+ (length 10) meeting a prefix of B+ (length 8) is a dovetail filed R / L
example : ValidIv 10 6 10 ∧ ValidIv 8 0 4 := ⟨⟨by omega, by omega, by omega⟩, ⟨by omega, by omega, by omega⟩⟩
example : filedUnder true .plus .plus 10 6 10 8 0 4 = .dovR ∧ filedUnder false .plus .plus 10 6 10 8 0 4 = .dovL := by decide

end Gfa.C11
