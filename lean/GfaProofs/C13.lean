import GfaModel.Version
/-!
# C13 — the version is inferred from content and enforced consistently

`V.build` is the queue-based, order-sensitive state machine of `creators.py` (kinds of line instead of
lines); `V.spec` looks only at *which kinds of line occur*.  `build_eq_spec` shows they agree for every
document, hence the outcome (version or VersionError) is the same for every order of the lines, and
every line — queued or not — is added exactly once.
-/
namespace Gfa.C13
open V
def compat (v : Ver) (ls : List Kind) : Bool := ls.all (okKnown v)
def other : Ver → Ver | .gfa1 => .gfa2 | .gfa2 => .gfa1

theorem drain_eq (v : Ver) (q : List Kind) (n : Nat) :
    drain v q n = if compat v q then some (n + q.length) else none := by
  induction q generalizing n with
  | nil => simp [drain, compat]
  | cons k ks ih =>
    cases h : okKnown v k
    · simp [drain, compat, h]
    · simp only [drain, h, if_true, ih, compat, List.all_cons, Bool.true_and, List.length_cons]
      by_cases hc : ks.all (okKnown v) = true
      · simp only [hc, if_true]; congr 1; omega
      · simp [hc]

theorem compat_eq (v : Ver) (ls : List Kind) :
    compat v ls = (!(hasBad ls) && !(wants (other v) ls)) := by
  induction ls with
  | nil => rfl
  | cons k ks ih =>
    simp only [compat, hasBad, wants, List.all_cons, List.contains_cons, List.any_cons] at ih ⊢
    rw [ih]
    cases h1 : ks.contains .hBad <;> cases h2 : ks.any (fun k => decide (demands k = some (other v))) <;>
      cases v <;> cases k <;> simp [okKnown, demands, other]

theorem verdict_known (v : Ver) (ls : List Kind) (c : Nat) :
    verdict (v = .gfa1) (v = .gfa2) ls c = if compat v ls then some (v, c) else none := by
  rw [compat_eq]
  unfold verdict
  generalize hasBad ls = b0
  generalize h1 : wants .gfa1 ls = b1
  generalize h2 : wants .gfa2 ls = b2
  cases v <;> simp only [other, h1, h2] <;> cases b0 <;> cases b1 <;> cases b2 <;> simp

theorem steps_known (s : Stt) (v : Ver) (hv : s.ver = some v) (ls : List Kind) :
    (steps s ls).bind finish = if compat v ls then some (v, s.count + ls.length) else none := by
  induction ls generalizing s with
  | nil => simp [steps, finish, hv, compat]
  | cons k ks ih =>
    cases h : okKnown v k
    · simp [steps, step, hv, compat, h]
    · have := ih { s with count := s.count + 1 } hv
      simp only [steps, step, hv, h, if_true, Option.bind_some, compat, List.all_cons, Bool.true_and,
        List.length_cons] at this ⊢
      rw [this]
      by_cases hc : ks.all (okKnown v) = true
      · simp only [hc, if_true]; congr 2; omega
      · simp [hc]

theorem hasBad_append (a b : List Kind) : hasBad (a ++ b) = (hasBad a || hasBad b) := by
  simp [hasBad, List.contains_append]
theorem wants_append (v) (a b : List Kind) : wants v (a ++ b) = (wants v a || wants v b) := by
  simp [wants, List.any_append]
theorem compat_append (v) (a b : List Kind) : compat v (a ++ b) = (compat v a && compat v b) := by
  simp [compat, List.all_append]

/-- invariant of the states in which the version is still unknown -/
structure Unk (s : Stt) : Prop where
  ver : s.ver = none
  queue : ∀ k ∈ s.queue, k = .g1 ∨ k = .custom
  guess : s.guess = if wants .gfa1 s.queue then .gfa1 else .gfa2

theorem queue_facts (q : List Kind) (hq : ∀ k ∈ q, k = .g1 ∨ k = .custom) :
    hasBad q = false ∧ compat .gfa1 q = !(wants .gfa2 q) ∧ compat .gfa2 q = !(wants .gfa1 q) := by
  induction q with
  | nil => exact ⟨rfl, rfl, rfl⟩
  | cons k ks ih =>
    obtain ⟨i1, i2, i3⟩ := ih (fun x hx => hq x (by simp [hx]))
    simp only [hasBad, compat, wants, List.contains_cons, List.all_cons, List.any_cons] at i1 i2 i3 ⊢
    rcases hq k (by simp) with rfl | rfl <;> simp [i2, i3, okKnown, demands] <;> simpa using i1

/-- from any state with the version unknown, the outcome only depends on which kinds of line occur
    in the queue and in the rest of the input -/
theorem unknown_run (s : Stt) (rest : List Kind) (h : Unk s) :
    (steps s rest).bind finish = verdict false false (s.queue ++ rest) (s.count + s.queue.length + rest.length) := by
  induction rest generalizing s with
  | nil =>
    obtain ⟨hv, hq, hg⟩ := h
    obtain ⟨f1, f2, f3⟩ := queue_facts s.queue hq
    simp only [steps, Option.bind_some, finish, hv, drain_eq, hg, List.append_nil, verdict, f1,
      Bool.false_or, Nat.add_zero]
    generalize h1 : wants .gfa1 s.queue = b1 at f3 ⊢
    generalize h2 : wants .gfa2 s.queue = b2 at f2 ⊢
    cases b1 <;> cases b2 <;> simp_all
  | cons k ks ih =>
    obtain ⟨hv, hq, hg⟩ := h
    obtain ⟨f1, f2, f3⟩ := queue_facts s.queue hq
    have hb : ∀ k : Kind, hasBad (k :: ks) = (k == .hBad || hasBad ks) := by
      intro k; cases k <;> simp [hasBad]
    have hw : ∀ (v : Ver) (k : Kind), wants v (k :: ks) = (decide (demands k = some v) || wants v ks) := by
      intro v k; simp [wants]
    -- lines that keep the version unknown
    have keep : ∀ s' : Stt, step s k = some s' → Unk s' →
        s'.queue ++ ks = s.queue ++ (if k = .g1 ∨ k = .custom then [k] else []) ++ ks →
        s'.count + s'.queue.length = s.count + s.queue.length + 1 →
        (k = .comment ∨ k = .hNone ∨ k = .g1 ∨ k = .custom) →
        (steps s (k :: ks)).bind finish =
          verdict false false (s.queue ++ k :: ks) (s.count + s.queue.length + (k :: ks).length) := by
      intro s' hstep hu hqq hcc hk
      simp only [steps, hstep, Option.bind_some]
      rw [ih s' hu, hqq]
      have hc : s'.count + s'.queue.length + ks.length = s.count + s.queue.length + (k :: ks).length := by
        simp only [List.length_cons]; omega
      rw [hc]
      unfold verdict
      simp only [hasBad_append, wants_append, hb, hw]
      rcases hk with rfl | rfl | rfl | rfl <;> simp [hasBad, wants, demands]
    cases k with
    | comment =>
      exact keep { s with count := s.count + 1 } (by simp [step, hv]) ⟨hv, hq, hg⟩ (by simp) (by simp; omega) (by simp)
    | hNone =>
      exact keep { s with count := s.count + 1 } (by simp [step, hv]) ⟨hv, hq, hg⟩ (by simp) (by simp; omega) (by simp)
    | g1 =>
      refine keep { s with guess := .gfa1, queue := s.queue ++ [.g1] } (by simp [step, hv]) ⟨hv, ?_, ?_⟩ (by simp) (by simp; omega) (by simp)
      · intro x hx; rcases List.mem_append.mp hx with h | h
        · exact hq x h
        · simp at h; simp [h]
      · simp [wants_append, wants, demands]
    | custom =>
      refine keep { s with queue := s.queue ++ [.custom] } (by simp [step, hv]) ⟨hv, ?_, ?_⟩ (by simp) (by simp; omega) (by simp)
      · intro x hx; rcases List.mem_append.mp hx with h | h
        · exact hq x h
        · simp at h; simp [h]
      · simp [hg, wants_append, wants, demands]
    | hBad =>
      simp [steps, step, hv, verdict, hasBad_append, hb]
    | hVN1 => exact fixv s ks .gfa1 .hVN1 hv f1 f2 f3 (by simp [step, hv]) rfl (by decide)
    | s1 => exact fixv s ks .gfa1 .s1 hv f1 f2 f3 (by simp [step, hv]) rfl (by decide)
    | hVN2 => exact fixv s ks .gfa2 .hVN2 hv f1 f2 f3 (by simp [step, hv]) rfl (by decide)
    | s2 => exact fixv s ks .gfa2 .s2 hv f1 f2 f3 (by simp [step, hv]) rfl (by decide)
    | g2 => exact fixv s ks .gfa2 .g2 hv f1 f2 f3 (by simp [step, hv]) rfl (by decide)
where
  fixv (s : Stt) (ks : List Kind) (v : Ver) (k : Kind) (hv : s.ver = none)
      (f1 : hasBad s.queue = false) (f2 : compat .gfa1 s.queue = !(wants .gfa2 s.queue))
      (f3 : compat .gfa2 s.queue = !(wants .gfa1 s.queue))
      (hstep : step s k = (drain v s.queue (s.count + 1)).map fun n =>
        { ver := some v, guess := s.guess, queue := [], count := n })
      (hd : demands k = some v) (hnb : (k == Kind.hBad) = false) :
      (steps s (k :: ks)).bind finish =
        verdict false false (s.queue ++ k :: ks) (s.count + s.queue.length + (k :: ks).length) := by
    have hcq : compat v s.queue = !(wants (other v) s.queue) := by cases v <;> simp [other, f2, f3]
    simp only [steps, hstep, drain_eq]
    unfold verdict
    have hb : hasBad (s.queue ++ k :: ks) = hasBad ks := by
      simp only [hasBad_append, f1, Bool.false_or]
      simp only [hasBad, List.contains_cons] at hnb ⊢
      cases k <;> simp_all
    have hw : ∀ u : Ver, wants u (s.queue ++ k :: ks) = (wants u s.queue || decide (v = u) || wants u ks) := by
      intro u
      simp only [wants_append]
      simp only [wants, List.any_cons, hd]
      cases v <;> cases u <;> simp [Bool.or_assoc]
    rw [hb, hw, hw]
    by_cases hc : compat v s.queue = true
    · simp only [hc, if_true, Option.map_some, Option.bind_some]
      rw [steps_known _ v rfl, compat_eq]
      rw [hcq] at hc
      generalize hasBad ks = c0
      generalize h1 : wants .gfa1 ks = c1
      generalize h2 : wants .gfa2 ks = c2
      generalize g1 : wants .gfa1 s.queue = b1 at hc
      generalize g2 : wants .gfa2 s.queue = b2 at hc
      have hlen : s.count + 1 + s.queue.length + ks.length = s.count + s.queue.length + (k :: ks).length := by
        simp only [List.length_cons]; omega
      cases v <;> simp only [other, h1, h2, g1, g2] at hc ⊢ <;> cases c0 <;> cases c1 <;> cases c2 <;>
        cases b1 <;> cases b2 <;> simp_all
    · have hc' : compat v s.queue = false := by simpa using hc
      simp only [hc', Bool.false_eq_true, if_false, Option.map_none, Option.bind_none]
      rw [hcq] at hc'
      generalize hasBad ks = c0
      generalize wants .gfa1 ks = c1
      generalize wants .gfa2 ks = c2
      generalize g1 : wants .gfa1 s.queue = b1 at hc'
      generalize g2 : wants .gfa2 s.queue = b2 at hc'
      cases v <;> simp only [other, g1, g2] at hc' ⊢ <;> cases c0 <;> cases c1 <;> cases c2 <;>
        cases b1 <;> cases b2 <;> simp_all

/-- **The queue-based state machine computes the content-only specification**, for every document,
    every explicit `version` parameter. -/
theorem build_eq_spec (explicit : Option Ver) (ls : List Kind) : build explicit ls = spec explicit ls := by
  unfold build spec
  cases explicit with
  | none =>
    have := unknown_run (init none) ls ⟨rfl, by simp [init], by simp [init, wants]⟩
    simpa [init] using this
  | some v =>
    rw [steps_known (init (some v)) v rfl ls]
    have := verdict_known v ls ls.length
    cases v <;> simp_all [init]

theorem hasBad_perm {a b : List Kind} (h : a.Perm b) : hasBad a = hasBad b := by
  simp only [hasBad]; rw [Bool.eq_iff_iff]; simp [h.mem_iff]
theorem wants_perm (v : Ver) {a b : List Kind} (h : a.Perm b) : wants v a = wants v b := by
  simp only [wants]; rw [Bool.eq_iff_iff]; simp [h.mem_iff]

/-- the specification does not look at the order of the lines … -/
theorem spec_perm (explicit : Option Ver) {a b : List Kind} (h : a.Perm b) : spec explicit a = spec explicit b := by
  simp [spec, verdict, hasBad_perm h, wants_perm _ h, h.length_eq]

/-- … hence neither does the state machine: **every permutation of a document is given the same version,
    or is refused with VersionError, and adds the same number of lines.** -/
theorem build_perm (explicit : Option Ver) {a b : List Kind} (h : a.Perm b) :
    build explicit a = build explicit b := by
  rw [build_eq_spec, build_eq_spec, spec_perm explicit h]

/-- every line — queued or not — is added exactly once -/
theorem queued_once (explicit : Option Ver) (ls : List Kind) (v : Ver) (n : Nat)
    (h : build explicit ls = some (v, n)) : n = ls.length := by
  rw [build_eq_spec] at h
  unfold spec verdict at h
  split at h
  · cases h
  · dsimp only at h
    split at h
    · cases h
    · cases h; rfl

/-- a document valid in exactly one version is accepted as that version -/
theorem accepted_version (ls : List Kind) (hb : hasBad ls = false) :
    (wants .gfa1 ls = true → wants .gfa2 ls = false → build none ls = some (.gfa1, ls.length)) ∧
    (wants .gfa1 ls = false → build none ls = some (.gfa2, ls.length)) ∧
    (wants .gfa1 ls = true → wants .gfa2 ls = true → build none ls = none) := by
  rw [build_eq_spec]
  unfold spec verdict
  refine ⟨?_, ?_, ?_⟩ <;> intros <;> simp_all

-- non-vacuity: L lines queued, then a GFA1 segment decides; a GFA2 edge afterwards is refused
example : build none [.g1, .comment, .s1, .g1] = some (.gfa1, 4) := by decide
example : build none [.g1, .s1, .g2] = none := by decide
example : build none [.custom, .hNone] = some (.gfa2, 2) := by decide

/-- a caller that catches the VersionError and carries on: a refused line leaves the state as it was -/
def runSkip (s : Stt) (ks : List Kind) : Stt := ks.foldl (fun s k => (step s k).getD s) s

/-- the lines of such a history that were accepted, in order -/
def acceptedOf (s : Stt) : List Kind → List Kind
  | [] => []
  | k :: ks => match step s k with
    | some s' => k :: acceptedOf s' ks
    | none => acceptedOf s ks

/-- **a refused line is not content**: the state after a history in which refusals are caught is the state the
    accepted lines alone lead to -/
theorem runSkip_accepted (ks : List Kind) : ∀ s, steps s (acceptedOf s ks) = some (runSkip s ks) := by
  induction ks with
  | nil => intro s; rfl
  | cons k ks ih =>
    intro s
    unfold acceptedOf runSkip
    simp only [List.foldl_cons]
    cases h : step s k with
    | none => simpa [h, runSkip] using ih s
    | some s' => simpa [steps, h, runSkip] using ih s'

/-- … hence the version of the finished Gfa is the one the accepted lines determine by their content alone,
    whichever lines were offered and refused in between, and each accepted line is added once -/
theorem runSkip_spec (explicit : Option Ver) (ks : List Kind) :
    finish (runSkip (init explicit) ks) = spec explicit (acceptedOf (init explicit) ks) := by
  rw [← build_eq_spec]
  unfold build
  rw [runSkip_accepted]
  rfl

example : acceptedOf (init none) [.hNone, .g2, .s1, .g1, .hVN1] = [.hNone, .g2] := by decide

end Gfa.C13
