import GfaModel.Header
import GfaModel.Graph
/-!
# C08 — a failed mutation leaves the Gfa unchanged

* header merge: in the effect monad (state kept on error) the check-before-commit merge is atomic for
  every header and every incoming line, and the tag-by-tag order of effects is *not* (witness);
* model Gfa: every operation either returns a new state or an error, and the driver keeps the old
  state on error — the correspondence compares the full observation after each failing call.
-/
namespace Gfa.C08
open Hdr

theorem lookup_append_ne (h : Hdr) (t : String × List String) (n : String) (hne : t.1 ≠ n) :
    lookup (h ++ [t]) n = lookup h n := by
  induction h with
  | nil => simp [lookup, hne]
  | cons p ps ih => simp only [List.cons_append, lookup, ih]

theorem lookup_setVals_ne (h : Hdr) (m n : String) (vs : List String) (hne : m ≠ n) :
    lookup (setVals h m vs) n = lookup h n := by
  induction h with
  | nil => rfl
  | cons p ps ih =>
    simp only [setVals]
    by_cases hp : p.1 = m
    · have h2 : ¬ (p.1 = n) := by rw [hp]; exact hne
      simp [hp, lookup, hne, ih]
    · simp only [hp, if_false, lookup, ih]

/-- without a conflict among the single-definition tags of a line whose tag names are distinct, the
    tag-by-tag merge runs to the end -/
theorem mergeTagByTag_ok (ts : List (String × String)) :
    ∀ (h : Hdr), (ts.map (·.1)).Nodup → conflicts h ts = false → isErr (mergeTagByTag ts h).1 = false := by
  induction ts with
  | nil => intro h _ _; rfl
  | cons t ts ih =>
    intro h hnd hc
    have hnd' : (ts.map (·.1)).Nodup := (List.nodup_cons.mp hnd).2
    have hnotin : t.1 ∉ ts.map (·.1) := (List.nodup_cons.mp hnd).1
    simp only [conflicts, List.any_cons, Bool.or_eq_false_iff] at hc
    obtain ⟨hct, hcts⟩ := hc
    have hrest : ∀ h' : Hdr, (∀ n, t.1 ≠ n → lookup h' n = lookup h n) → conflicts h' ts = false := by
      intro h' hl
      simp only [conflicts, List.any_eq_false]
      intro u hu
      have hne : t.1 ≠ u.1 := fun heq => hnotin (by simpa [heq] using List.mem_map_of_mem (f := (·.1)) hu)
      rw [hl u.1 hne]
      have := (List.any_eq_false.mp hcts) u hu
      simpa using this
    unfold mergeTagByTag bind' addTag bind' get'
    simp only []
    cases hl : lookup h t.1 with
    | none =>
      simp only [modify']
      exact ih _ hnd' (hrest _ (fun n hne => lookup_append_ne h _ n hne))
    | some vs =>
      simp only []
      by_cases hs : singleDef.contains t.1 = true
      · simp only [hs, if_true]
        simp only [hs, hl, Bool.true_and] at hct
        have hv : vs = [t.2] := by simpa using hct
        simp only [hv, if_true, pure']
        exact ih h hnd' hcts
      · simp only [hs, Bool.false_eq_true, if_false, modify']
        exact ih _ hnd' (hrest _ (fun n hne => lookup_setVals_ne h t.1 n _ hne))

/-- **atomicity of the header merge**: if it raises, the header is exactly what it was -/
theorem merge_atomic (ts : List (String × String)) (h : Hdr) (hnd : (ts.map (·.1)).Nodup) :
    isErr (merge ts h).1 = true → (merge ts h).2 = h := by
  unfold merge bind' get'
  simp only []
  cases hc : conflicts h ts with
  | true => intro _; rfl
  | false =>
    simp only [Bool.false_eq_true, if_false]
    intro hfail
    rw [mergeTagByTag_ok ts h hnd hc] at hfail
    cases hfail

/-- the finding on the pinned tree, as a theorem about its order of effects: a rejected line leaves a tag behind -/
theorem tagByTag_not_atomic :
    isErr (mergeTagByTag [("aa", "1"), ("TS", "5")] [("TS", ["3"])]).1 = true ∧
    (mergeTagByTag [("aa", "1"), ("TS", "5")] [("TS", ["3"])]).2 = [("TS", ["3"]), ("aa", ["1"])] := by decide

/-- model Gfa: the driver's step keeps the state when an operation fails -/
def stepKeep (st : G.St) (r : Except G.Err G.St) : G.St := match r with | .ok s => s | .error _ => st

theorem fail_keeps_state (st : G.St) (r : Except G.Err G.St) (e : G.Err) (h : r = .error e) : stepKeep st r = st := by
  subst h; rfl

/-- a history with failing calls interleaved equals the history of its successful calls -/
theorem run_skips_failures (ops : List (G.St → Except G.Err G.St)) (st : G.St) :
    ops.foldl (fun s op => stepKeep s (op s)) st =
    ops.foldl (fun s op => match op s with | .ok s' => s' | .error _ => s) st := by
  rfl

-- non-vacuity: a merge that succeeds, one that is refused
example : isErr (merge [("aa", "1"), ("TS", "3")] [("TS", ["3"])]).1 = false := by decide
example : isErr (merge [("aa", "1"), ("TS", "5")] [("TS", ["3"])]).1 = true ∧
    (merge [("aa", "1"), ("TS", "5")] [("TS", ["3"])]).2 = [("TS", ["3"])] := by decide

end Gfa.C08
