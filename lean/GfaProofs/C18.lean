import GfaModel.Levels
import GfaProofs.C20
/-!
# C18 — validation levels only change *when* errors surface, never the result
(and the C10 clause about reading a lazily parsed field)

Stated for an arbitrary lawful codec (what is written reads back); `i`, `Z`, `A`, `H` are shown lawful
from the C20 round-trip theorems.
-/
namespace Gfa.C18
open Lvl

variable {V : Type}

theorem canon_idem (c : Codec V) (hl : c.Lawful) (s t : List Char) (h : canon c s = some t) : canon c t = some t := by
  unfold canon at *
  cases hd : c.decode s with
  | none => simp [hd] at h
  | some v =>
    simp only [hd, Option.bind_some] at h
    rw [hl.1 v t h]; exact h

/-- **valid input: every level writes the same text up to canonical spelling** (at level 0 a delayed
    datatype is written in its input spelling until it is read: the `lazy-spelling` finding) -/
theorem levels_agree_canon (c : Codec V) (hl : c.Lawful) (delayed : Bool) (s t : List Char)
    (hs : canon c s = some t) (k : Nat) :
    ∃ cell w, initF c k delayed s = some cell ∧ writeF c k cell = some w ∧ canon c w = some t := by
  unfold canon at hs
  cases hd : c.decode s with
  | none => simp [hd] at hs
  | some v =>
    simp only [hd, Option.bind_some] at hs
    by_cases h0 : k = 0 ∧ delayed = true
    · refine ⟨.raw s, s, by simp [initF, h0], ?_, by simp [canon, hd, hs]⟩
      have : ¬ k ≥ 2 := by omega
      simp [writeF, this]
    · refine ⟨.val v, t, ?_, by simp [writeF, hs], canon_idem c hl s t (by simp [canon, hd, hs])⟩
      simp only [initF, hd, Option.map_some]
      rw [if_neg]; simpa using h0

/-- levels 1–3 (and level 0 for eagerly parsed datatypes) write literally the same text -/
theorem levels_agree_literal (c : Codec V) (delayed : Bool) (s : List Char) (k k' : Nat)
    (hk : ¬ (k = 0 ∧ delayed = true)) (hk' : ¬ (k' = 0 ∧ delayed = true)) :
    (initF c k delayed s).bind (writeF c k) = (initF c k' delayed s).bind (writeF c k') := by
  simp only [initF]
  rw [if_neg (by simpa using hk), if_neg (by simpa using hk')]
  cases c.decode s <;> simp [writeF]

/-- **monotonicity**: what a level accepts, every lower level accepts -/
theorem accept_mono (c : Codec V) (delayed : Bool) (s : List Char) (k : Nat)
    (h : (initF c (k + 1) delayed s).isSome = true) : (initF c k delayed s).isSome = true := by
  simp only [initF] at *
  have : ¬ (k + 1 = 0 ∧ delayed = true) := by omega
  rw [if_neg (by simpa using this)] at h
  split
  · rfl
  · exact h

/-- **an invalid value is reported at the assignment at level 3 …** -/
theorem invalid_set_L3 (c : Codec V) (x : Input V) (hx : valid c x = false) (k : Nat) (hk : 3 ≤ k) :
    setF c k x = none := by
  simp [setF, hk, hx]

/-- **… no later than the write at level 2 …** -/
theorem invalid_write_L2 (c : Codec V) (x : Input V) (hx : valid c x = false) (k : Nat) (hk : 2 ≤ k) :
    (setF c k x).bind (writeF c k) = none := by
  unfold setF
  split
  · simp [hx]
  · cases x with
    | raw s => simp only [valid] at hx; simp [writeF, hk, hx]
    | val v => simp only [valid] at hx; simp only [Option.bind_some, writeF]; simpa using hx

/-- **… and by an explicit validation at every level** -/
theorem invalid_validate (c : Codec V) (x : Input V) (hx : valid c x = false) (k : Nat) :
    (setF c k x).map (validateF c) ≠ some true := by
  unfold setF
  split
  · simp [hx]
  · simp [validateF, hx]

/-- **a valid assignment is never rejected**, by set, get, write or validate, at any level -/
theorem valid_never_rejected (c : Codec V) (hl : c.Lawful) (x : Input V) (hx : valid c x = true) (k : Nat) :
    setF c k x = some x ∧ (writeF c k x).isSome = true ∧ (getF c k x).isSome = true ∧ validateF c x = true := by
  refine ⟨by simp [setF, hx], ?_, ?_, hx⟩
  · cases x with
    | raw s => simp only [valid] at hx; simp only [writeF]; split <;> simp [hx]
    | val v => simpa [writeF, valid] using hx
  · cases x with
    | raw s =>
      simp only [valid] at hx
      cases hd : c.decode s with
      | none => simp [hd] at hx
      | some v =>
        have hu := hl.2 s v hd
        simp only [getF]
        split
        · simp [hd]
        · split <;> simp [hd, hu]
    | val v =>
      simp only [valid] at hx
      simp only [getF]
      cases he : c.encode v with
      | none => simp [he] at hx
      | some t => simp

/-- C10: **reading a valid field never changes its canonical written form**, at any level -/
theorem get_preserves_canon (c : Codec V) (hl : c.Lawful) (k : Nat) (x x' : Cell V) (hx : valid c x = true)
    (h : getF c k x = some x') :
    (writeF c k x').bind (canon c) = (writeF c k x).bind (canon c) := by
  cases x with
  | raw s =>
    simp only [valid] at hx
    cases hd : c.decode s with
    | none => simp [hd] at hx
    | some w =>
      have hu := hl.2 s w hd
      have hw : writeF c k (.raw s) = some s := by simp only [writeF]; split <;> simp [hd]
      simp only [getF] at h
      split at h
      · split at h
        · cases h
        · cases h; rfl
      · have hv : x' = .val w := by
          split at h <;> simp_all
        subst hv
        cases he : c.encode w with
        | none => simp [writeF, hw, he, canon, hd]
        | some t =>
          simp only [writeF, he, hw, Option.bind_some, canon, hd]
          rw [hl.1 w t he]; simp [he]
          simp [canon, hd, he]
  | val w =>
    simp only [getF] at h
    split at h
    · cases h
    · cases h; rfl

/-- reading a decoded field changes nothing at all -/
theorem get_val_noop (c : Codec V) (k : Nat) (w : V) (x' : Cell V) (h : getF c k (.val w) = some x') :
    writeF c k x' = writeF c k (.val w) := by
  simp only [getF] at h
  split at h
  · cases h
  · cases h; rfl

-- ---------------------------------------------------------------- lawful instances
theorem intCodec_lawful : intCodec.Lawful := by
  refine ⟨?_, fun s v h => h⟩
  intro i s h
  obtain ⟨t, he, _, hdec⟩ := C20.int_roundtrip i
  simp only [intCodec] at h ⊢
  rw [he] at h; cases h
  simp [hdec]

theorem strCodec_lawful : strCodec.Lawful := by
  refine ⟨?_, fun s v h => h⟩
  intro t s h
  simp only [strCodec, Field.encode] at h ⊢
  split at h
  · rename_i hp
    cases h
    obtain ⟨u, he, _, hdec⟩ := C20.str_roundtrip t (by simpa using hp)
    simp only [Field.encode, hp, if_true, Option.some.injEq] at he
    subst he; simp [hdec]
  · cases h

theorem unhex_upper (s : List Char) (h : ∀ c ∈ s, Field.isHex c = true) :
    (s.map fun c => if 'a' ≤ c && c ≤ 'f' then Char.ofNat (c.toNat - 32) else c) = s := by
  conv => rhs; rw [← List.map_id s]
  apply List.map_congr_left
  intro c hc
  have := h c hc
  have hnot : ('a' ≤ c && c ≤ 'f') = false := by
    simp only [Field.isHex, Bool.or_eq_true, Bool.and_eq_true, decide_eq_true_eq] at this
    rw [Bool.eq_false_iff]; intro hh
    simp only [Bool.and_eq_true, decide_eq_true_eq] at hh
    rcases this with ⟨_, h2⟩ | ⟨_, h2⟩
    · exact absurd (Char.le_trans hh.1 h2) (by decide)
    · exact absurd (Char.le_trans hh.1 h2) (by decide)
  simp [hnot]

theorem unhex_isHex : ∀ (s : List Char) (bs : List Nat), Field.unhex s = some bs → ∀ c ∈ s, Field.isHex c = true
  | [], _, _ => by intro c hc; cases hc
  | [_], _, h => by simp [Field.unhex] at h
  | a :: b :: r, bs, h => by
    simp only [Field.unhex] at h
    split at h
    · rename_i hab
      simp only [Bool.and_eq_true] at hab
      cases hr : Field.unhex r with
      | none => rw [hr] at h; simp at h
      | some t =>
        intro c hc
        simp only [List.mem_cons] at hc
        rcases hc with rfl | rfl | hc
        · exact hab.1
        · exact hab.2
        · exact unhex_isHex r t hr c hc
    · cases h

theorem bytesCodec_lawful : bytesCodec.Lawful := by
  refine ⟨?_, ?_⟩
  rotate_left
  · intro s v h
    simp only [bytesCodec] at h ⊢
    cases hd : Field.decode 'H' s with
    | none => simp [hd] at h
    | some tv =>
      cases tv <;> simp [hd] at h
      subst h
      rename_i bs
      simp only [Field.decode] at hd
      split at hd
      · rename_i hacc
        cases hu : Field.unhex s with
        | none => simp [hu] at hd
        | some b2 =>
          simp [hu] at hd; subst hd
          have hne : s.isEmpty = false := by
            cases s with
            | nil => simp [Field.accept, Grammar.re, Grammar.hexdig, RE.accepts, RE.plus, RE.nullable] at hacc
            | cons _ _ => rfl
          simp only [hne, Bool.false_eq_true, if_false, unhexAny, unhex_upper s (unhex_isHex s _ hu), hu]
      · cases hd
  intro b s h
  simp only [bytesCodec, Field.encode] at h ⊢
  split at h
  · rename_i hp
    cases h
    simp only [Bool.and_eq_true, Bool.not_eq_true', List.all_eq_true, decide_eq_true_eq] at hp
    have hne : b ≠ [] := by intro h0; simp [h0] at hp
    obtain ⟨u, he, _, hdec⟩ := C20.bytes_roundtrip b hne hp.2
    have hall : b.all (· < 256) = true := by simpa using hp.2
    simp only [Field.encode, hp.1, hall, Bool.not_false, Bool.and_self, if_true, Option.some.injEq] at he
    subst he; simp [hdec]
  · cases h

-- non-vacuity: `+05` is a valid `i` text that is not in canonical spelling
example : valid intCodec (.raw ['+', '0', '5']) = true := by decide

end Gfa.C18
