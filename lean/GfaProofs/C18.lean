import GfaModel.Levels
import GfaProofs.C20
/-!
# C18 — validation levels only change *when* errors surface, never the result
(and the C10 clause about reading a lazily parsed field)

Stated for an arbitrary lawful codec (what is written reads back); `i`, `Z`, `A`, `H` are shown lawful
from the C20 round-trip theorems.
-/
namespace Gfa.C18
open Lvl

variable {V : Type}

theorem canon_idem (c : Codec V) (hl : c.Lawful) (s t : List Char) (h : canon c s = some t) : canon c t = some t := by
  unfold canon at *
  cases hd : c.decode s with
  | none => simp [hd] at h
  | some v =>
    simp only [hd, Option.bind_some] at h
    rw [hl v t h]; exact h

/-- **valid input: every level writes the same text up to canonical spelling** (at level 0 a delayed
    datatype is written in its input spelling until it is read: the `lazy-spelling` finding) -/
theorem levels_agree_canon (c : Codec V) (hl : c.Lawful) (delayed : Bool) (s t : List Char)
    (hs : canon c s = some t) (k : Nat) :
    ∃ cell w, initF c k delayed s = some cell ∧ writeF c k cell = some w ∧ canon c w = some t := by
  unfold canon at hs
  cases hd : c.decode s with
  | none => simp [hd] at hs
  | some v =>
    simp only [hd, Option.bind_some] at hs
    by_cases h0 : k = 0 ∧ delayed = true
    · refine ⟨.raw s, s, by simp [initF, h0], ?_, by simp [canon, hd, hs]⟩
      have : ¬ k ≥ 2 := by omega
      simp [writeF, this]
    · refine ⟨.val v, t, ?_, by simp [writeF, hs], canon_idem c hl s t (by simp [canon, hd, hs])⟩
      simp only [initF, hd, Option.map_some]
      rw [if_neg]; simpa using h0

/-- levels 1–3 (and level 0 for eagerly parsed datatypes) write literally the same text -/
theorem levels_agree_literal (c : Codec V) (delayed : Bool) (s : List Char) (k k' : Nat)
    (hk : ¬ (k = 0 ∧ delayed = true)) (hk' : ¬ (k' = 0 ∧ delayed = true)) :
    (initF c k delayed s).bind (writeF c k) = (initF c k' delayed s).bind (writeF c k') := by
  simp only [initF]
  rw [if_neg (by simpa using hk), if_neg (by simpa using hk')]
  cases c.decode s <;> simp [writeF]

/-- **monotonicity**: what a level accepts, every lower level accepts -/
theorem accept_mono (c : Codec V) (delayed : Bool) (s : List Char) (k : Nat)
    (h : (initF c (k + 1) delayed s).isSome = true) : (initF c k delayed s).isSome = true := by
  simp only [initF] at *
  have : ¬ (k + 1 = 0 ∧ delayed = true) := by omega
  rw [if_neg (by simpa using this)] at h
  split
  · rfl
  · exact h

/-- **an invalid value is reported at the assignment at level 3 …** -/
theorem invalid_set_L3 (c : Codec V) (x : Input V) (hx : valid c x = false) (k : Nat) (hk : 3 ≤ k) :
    setF c k x = none := by
  simp [setF, hk, hx]

/-- **… no later than the write at level 2 …** -/
theorem invalid_write_L2 (c : Codec V) (x : Input V) (hx : valid c x = false) (k : Nat) (hk : 2 ≤ k) :
    (setF c k x).bind (writeF c k) = none := by
  unfold setF
  split
  · simp [hx]
  · cases x with
    | raw s => simp only [valid] at hx; simp [writeF, hk, hx]
    | val v => simp only [valid] at hx; simp only [Option.bind_some, writeF]; simpa using hx

/-- **… and by an explicit validation at every level** -/
theorem invalid_validate (c : Codec V) (x : Input V) (hx : valid c x = false) (k : Nat) :
    (setF c k x).map (validateF c) ≠ some true := by
  unfold setF
  split
  · simp [hx]
  · simp [validateF, hx]

/-- **a valid assignment is never rejected**, by set, get, write or validate, at any level -/
theorem valid_never_rejected (c : Codec V) (hl : c.Lawful) (x : Input V) (hx : valid c x = true) (k : Nat) :
    setF c k x = some x ∧ (writeF c k x).isSome = true ∧ (getF c k x).isSome = true ∧ validateF c x = true := by
  refine ⟨by simp [setF, hx], ?_, ?_, hx⟩
  · cases x with
    | raw s => simp only [valid] at hx; simp only [writeF]; split <;> simp [hx]
    | val v => simpa [writeF, valid] using hx
  · cases x with
    | raw s =>
      simp only [valid] at hx
      simp only [getF]
      cases hd : c.decode s with
      | none => simp [hd] at hx
      | some v => simp
    | val v => simp only [valid] at hx; simp only [getF]; split <;> simp [hx]

/-- C10: **reading a field never changes its canonical written form**, and reading twice gives the same -/
theorem get_preserves_canon (c : Codec V) (hl : c.Lawful) (k : Nat) (x : Cell V) (v : V) (x' : Cell V)
    (h : getF c k x = some (v, x')) :
    (writeF c k x').bind (canon c) = (writeF c k x).bind (canon c) ∧ getF c k x' = some (v, x') ∨
    ((writeF c k x').bind (canon c) = (writeF c k x).bind (canon c) ∧ (c.encode v).isSome = false) := by
  cases x with
  | raw s =>
    simp only [getF] at h
    cases hd : c.decode s with
    | none => simp [hd] at h
    | some w =>
      simp only [hd, Option.map_some, Option.some.injEq, Prod.mk.injEq] at h
      obtain ⟨rfl, rfl⟩ := h
      have hw : writeF c k (.raw s) = some s := by
        simp only [writeF]; split <;> simp [hd]
      cases he : c.encode w with
      | none => right; simp [writeF, hw, he, canon, hd]
      | some t =>
        left
        refine ⟨?_, ?_⟩
        · simp only [writeF, he, hw, Option.bind_some, canon, hd]
          rw [hl w t he]; simp [he]
          simp [canon, hd, he]
        · simp only [getF]; split <;> simp [he]
  | val w =>
    simp only [getF] at h
    left
    split at h
    · split at h
      · cases h; refine ⟨rfl, ?_⟩; simp only [getF]; simp_all
      · cases h
    · cases h; refine ⟨rfl, ?_⟩; simp only [getF]; rename_i hk; simp [hk]

-- ---------------------------------------------------------------- lawful instances
theorem intCodec_lawful : intCodec.Lawful := by
  intro i s h
  obtain ⟨t, he, _, hdec⟩ := C20.int_roundtrip i
  simp only [intCodec] at h ⊢
  rw [he] at h; cases h
  simp [hdec]

theorem strCodec_lawful : strCodec.Lawful := by
  intro t s h
  simp only [strCodec, Field.encode] at h ⊢
  split at h
  · rename_i hp
    cases h
    obtain ⟨u, he, _, hdec⟩ := C20.str_roundtrip t (by simpa using hp)
    simp only [Field.encode, hp, if_true, Option.some.injEq] at he
    subst he; simp [hdec]
  · cases h

theorem bytesCodec_lawful : bytesCodec.Lawful := by
  intro b s h
  simp only [bytesCodec, Field.encode] at h ⊢
  split at h
  · rename_i hp
    cases h
    simp only [Bool.and_eq_true, Bool.not_eq_true', List.all_eq_true, decide_eq_true_eq] at hp
    have hne : b ≠ [] := by intro h0; simp [h0] at hp
    obtain ⟨u, he, _, hdec⟩ := C20.bytes_roundtrip b hne hp.2
    have hall : b.all (· < 256) = true := by simpa using hp.2
    simp only [Field.encode, hp.1, hall, Bool.not_false, Bool.and_self, if_true, Option.some.injEq] at he
    subst he; simp [hdec]
  · cases h

-- non-vacuity: `+05` is a valid `i` text that is not in canonical spelling
example : valid intCodec (.raw ['+', '0', '5']) = true := by decide

end Gfa.C18
