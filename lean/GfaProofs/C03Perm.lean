import GfaProofs.C03
/-!
# C03 — order independence, proved for documents of segments and segment-referencing lines

`buildM v ls` adds the lines of a document one after the other to an empty Gfa (every `add_line` must succeed).
For documents made of S lines and of lines that refer to segments only — L, C (GFA1), E, G, F (GFA2), with or
without identifiers; no paths, no groups — that are *valid* (`ValidSimple`: identifiers pairwise distinct, every
identifier used as a segment reference is a segment or undefined, no line mentions itself, links pairwise
incompatible, so that no two of them are one edge) we prove

* `build_simple`: the build succeeds, and the Gfa consists of exactly the lines of the document plus one
  placeholder segment for every identifier that is mentioned and not defined — **no placeholder for a defined one**;
* `build_simple_perm`: **every permutation of the document builds the same Gfa** (the same multiset of lines, hence
  the same identifier namespace, and — back-references being queries over the lines — the same reference targets
  and back-reference collections).

Documents with paths, groups (placeholders of unknown type, merging of same-id lines) and with links given in both
complement forms are outside the proved fragment; for those the equality across orders is decided by the oracle
(library vs itself on all n! orders) and the correspondence.
-/
namespace Gfa.C03
open G C09 C02

/-- S lines and lines whose references are segments only -/
def SimpleRt (rt : RT) : Prop := rt = .S ∨ rt = .L ∨ rt = .C ∨ rt = .E ∨ rt = .G ∨ rt = .F

def defined (ls : List Rec) : List String := ls.filterMap Rec.name
def mentioned (ls : List Rec) : List String := ls.flatMap Rec.segRefs

/-- the stored link of `a` is compatible with the link `b` (they would be taken for one edge) -/
def CompatRec (a b : Rec) : Prop :=
  ∃ la lb, a.linkOf = some la ∧ b.linkOf = some lb ∧ la.compatible lb.frm lb.fo lb.to lb.too lb.ovl = true

structure ValidSimple (v : Ver) (ls : List Rec) : Prop where
  simple : ∀ r ∈ ls, r.virt = false ∧ SimpleRt r.rt ∧ allowed v r.rt = true ∧ (r.rt = .S → segSyntax r = some v) ∧
    selfRef r = false ∧ (r.rt = .L → ∃ l, r.linkOf = some l)
  names : (defined ls).Nodup
  refs : ∀ n ∈ mentioned ls, n ≠ "*" ∧ ∀ r ∈ ls, r.name = some n → r.rt = .S
  links : ls.Pairwise (fun a b => ¬ CompatRec a b ∧ ¬ CompatRec b a)

/-- add the lines one after the other; every `add_line` must succeed -/
def buildFrom (st : St) : List Rec → Except Err St
  | [] => .ok st
  | r :: rest => (add st r).bind (fun st1 => buildFrom st1 rest)

def buildM (v : Ver) (ls : List Rec) : Except Err St := buildFrom (St.empty v) ls

-- ------------------------------------------------------------------ facts about simple records
theorem simple_itemRefs (r : Rec) (h : SimpleRt r.rt) : r.itemRefs = [] := by
  unfold Rec.itemRefs; rcases h with h | h | h | h | h | h <;> simp [h]

theorem simple_pathSteps (r : Rec) (h : SimpleRt r.rt) : r.pathSteps = [] := by
  unfold Rec.pathSteps; rcases h with h | h | h | h | h | h <;> simp [h]

theorem S_segRefs (r : Rec) (h : r.rt = .S) : r.segRefs = [] := by
  unfold Rec.segRefs; simp [h]

theorem virtSeg_rt (v : Ver) (n : String) : (virtSeg v n).rt = .S := by cases v <;> rfl

theorem virtSeg_linkOf (v : Ver) (n : String) : (virtSeg v n).linkOf = none := by
  unfold Rec.linkOf; simp [virtSeg_rt]

theorem virtSeg_virt (v : Ver) (n : String) : (virtSeg v n).virt = true := by cases v <;> rfl

-- ------------------------------------------------------------------ the invariant
/-- the Gfa after the lines `pre`: these lines plus one placeholder segment for every name of `M` -/
structure Mid (v : Ver) (st : St) (pre : List Rec) (M : List String) : Prop where
  ver : st.ver = v
  nodupM : M.Nodup
  disj : ∀ n ∈ M, n ∉ defined pre
  star : ∀ n ∈ M, n ≠ "*"
  namesPre : (defined pre).Nodup
  perm : st.lines.Perm (pre ++ M.map (virtSeg v))

/-- … where `M` is exactly the set of identifiers mentioned and not defined so far -/
structure Inv (v : Ver) (st : St) (pre : List Rec) (M : List String) : Prop extends Mid v st pre M where
  memM : ∀ n, n ∈ M ↔ (n ∈ mentioned pre ∧ n ∉ defined pre)

theorem mem_lines {v : Ver} {st : St} {pre : List Rec} {M : List String} (h : Mid v st pre M) (q : Rec) :
    q ∈ st.lines ↔ q ∈ pre ∨ ∃ n ∈ M, q = virtSeg v n := by
  rw [h.perm.mem_iff, List.mem_append, List.mem_map]
  constructor
  · rintro (h1 | ⟨n, hn, rfl⟩)
    · exact Or.inl h1
    · exact Or.inr ⟨n, hn, rfl⟩
  · rintro (h1 | ⟨n, hn, rfl⟩)
    · exact Or.inl h1
    · exact Or.inr ⟨n, hn, rfl⟩

theorem names_of_mid {v : Ver} {st : St} {pre : List Rec} {M : List String} (h : Mid v st pre M)
    (n : String) : n ∈ names st ↔ n ∈ defined pre ∨ n ∈ M := by
  rw [names_eq, mem_namesOf]
  constructor
  · rintro ⟨q, hq, hqn⟩
    rcases (mem_lines h q).mp hq with h1 | ⟨m, hm, rfl⟩
    · left; exact List.mem_filterMap.mpr ⟨q, h1, hqn⟩
    · right
      rw [virtSeg_name _ _ (h.star m hm)] at hqn
      rw [← Option.some.inj hqn]; exact hm
  · rintro (h1 | h1)
    · obtain ⟨q, hq, hqn⟩ := List.mem_filterMap.mp h1
      exact ⟨q, (mem_lines h q).mpr (Or.inl hq), hqn⟩
    · exact ⟨virtSeg v n, (mem_lines h _).mpr (Or.inr ⟨n, h1, rfl⟩), virtSeg_name _ _ (h.star n h1)⟩

theorem nodup_of_mid {v : Ver} {st : St} {pre : List Rec} {M : List String} (h : Mid v st pre M) : NoDup st := by
  unfold NoDup
  rw [names_eq]
  have hp : (namesOf st.lines).Perm (namesOf (pre ++ M.map (virtSeg v))) := h.perm.filterMap _
  rw [hp.nodup_iff, namesOf_append]
  have hM : namesOf (M.map (virtSeg v)) = M := by
    unfold namesOf
    rw [List.filterMap_map]
    have : ∀ m ∈ M, (Rec.name ∘ virtSeg v) m = some m := fun m hm => virtSeg_name _ _ (h.star m hm)
    rw [filterMap_congr' M _ (fun m => some m) this]
    simp
  rw [hM, List.nodup_append]
  refine ⟨h.namesPre, h.nodupM, ?_⟩
  intro a ha b hb hab
  subst hab
  exact h.disj a hb ha

/-- a segment called `n` exists: a real S line of the document so far, or a placeholder -/
theorem findSeg_mid {v : Ver} {st : St} {pre : List Rec} {M : List String} (h : Mid v st pre M) (n : String) :
    (findSeg st n).isSome = true ↔ (∃ q ∈ pre, q.rt = .S ∧ q.name = some n) ∨ n ∈ M := by
  have := segOK_iff st n
  unfold SegOK at this
  rw [this]
  constructor
  · rintro ⟨q, hq, hrt, hqn⟩
    rcases (mem_lines h q).mp hq with h1 | ⟨m, hm, rfl⟩
    · exact Or.inl ⟨q, h1, hrt, hqn⟩
    · right
      rw [virtSeg_name _ _ (h.star m hm)] at hqn
      rw [← Option.some.inj hqn]; exact hm
  · rintro (⟨q, hq, hrt, hqn⟩ | hm)
    · exact ⟨q, (mem_lines h q).mpr (Or.inl hq), hrt, hqn⟩
    · exact ⟨virtSeg v n, (mem_lines h _).mpr (Or.inr ⟨n, hm, rfl⟩), virtSeg_rt v n, virtSeg_name _ _ (h.star n hm)⟩

theorem findIdx_none_of_not_mem (st : St) (n : String) (h : n ∉ names st) :
    st.lines.findIdx? (fun q => q.name = some n) = none := by
  rw [List.findIdx?_eq_none_iff]
  intro q hq
  simp only [decide_eq_false_iff_not]
  intro hqn
  exact h ((mem_namesOf _ _).mpr ⟨q, hq, hqn⟩)

-- ------------------------------------------------------------------ placeholders for references
/-- `ensureSeg` under the invariant: nothing changes if the name is a segment or already has a placeholder; otherwise
    one placeholder is appended -/
theorem ensureSeg_mid {v : Ver} {st : St} {pre : List Rec} {M : List String} (h : Mid v st pre M) (n : String)
    (hn : n ≠ "*") (hS : ∀ q ∈ pre, q.name = some n → q.rt = .S) :
    ∃ st1 M1, ensureSeg st n = .ok st1 ∧ Mid v st1 pre M1 ∧ (∀ m, m ∈ M1 ↔ m ∈ M ∨ (m = n ∧ n ∉ defined pre)) := by
  unfold ensureSeg
  rw [if_neg hn]
  by_cases hs : (findSeg st n).isSome = true
  · rw [if_pos hs]
    refine ⟨st, M, rfl, h, ?_⟩
    intro m
    constructor
    · exact Or.inl
    · rintro (h1 | ⟨rfl, h2⟩)
      · exact h1
      · rcases (findSeg_mid h m).mp hs with ⟨q, hq, _, hqn⟩ | hm
        · exact absurd (List.mem_filterMap.mpr ⟨q, hq, hqn⟩) h2
        · exact hm
  · rw [if_neg hs]
    have hnot : ¬ ((∃ q ∈ pre, q.rt = .S ∧ q.name = some n) ∨ n ∈ M) := fun hc => hs ((findSeg_mid h n).mpr hc)
    rw [not_or] at hnot
    have hnd : n ∉ defined pre := by
      intro hd
      obtain ⟨q, hq, hqn⟩ := List.mem_filterMap.mp hd
      exact hnot.1 ⟨q, hq, hS q hq hqn, hqn⟩
    have hnn : n ∉ names st := by
      rw [names_of_mid h]; rintro (h1 | h1)
      · exact hnd h1
      · exact hnot.2 h1
    rw [findIdx_none_of_not_mem st n hnn]
    refine ⟨_, M ++ [n], rfl, ⟨h.ver, ?_, ?_, ?_, h.namesPre, ?_⟩, ?_⟩
    · rw [List.nodup_append]
      refine ⟨h.nodupM, by simp, ?_⟩
      intro a ha b hb hab
      simp at hb; subst hb; subst hab; exact hnot.2 ha
    · intro m hm
      rcases List.mem_append.mp hm with h1 | h1
      · exact h.disj m h1
      · simp at h1; subst h1; exact hnd
    · intro m hm
      rcases List.mem_append.mp hm with h1 | h1
      · exact h.star m h1
      · simp at h1; subst h1; exact hn
    · simp only [List.map_append, List.map_cons, List.map_nil]
      rw [h.ver, ← List.append_assoc]
      exact List.Perm.append_right _ h.perm
    · intro m
      simp only [List.mem_append, List.mem_singleton]
      constructor
      · rintro (h1 | rfl)
        · exact Or.inl h1
        · exact Or.inr ⟨rfl, hnd⟩
      · rintro (h1 | ⟨rfl, _⟩)
        · exact Or.inl h1
        · exact Or.inr rfl

theorem ensureSegs_mid {v : Ver} {pre : List Rec} (ns : List String) :
    ∀ {st : St} {M : List String}, Mid v st pre M →
      (∀ n ∈ ns, n ≠ "*" ∧ ∀ q ∈ pre, q.name = some n → q.rt = .S) →
      ∃ st1 M1, ensureSegs st ns = .ok st1 ∧ Mid v st1 pre M1 ∧
        (∀ m, m ∈ M1 ↔ m ∈ M ∨ (m ∈ ns ∧ m ∉ defined pre)) := by
  induction ns with
  | nil =>
    intro st M h _
    exact ⟨st, M, rfl, h, fun m => by simp⟩
  | cons n ns ih =>
    intro st M h hns
    obtain ⟨st1, M1, e1, h1, m1⟩ := ensureSeg_mid h n (hns n (by simp)).1 (hns n (by simp)).2
    obtain ⟨st2, M2, e2, h2, m2⟩ := ih h1 (fun k hk => hns k (by simp [hk]))
    refine ⟨st2, M2, by simp [ensureSegs, e1, Except.bind, e2], h2, ?_⟩
    intro m
    rw [m2, m1]
    simp only [List.mem_cons]
    constructor
    · rintro ((h' | ⟨rfl, h'⟩) | ⟨h', h''⟩)
      · exact Or.inl h'
      · exact Or.inr ⟨Or.inl rfl, h'⟩
      · exact Or.inr ⟨Or.inr h', h''⟩
    · rintro (h' | ⟨rfl | h', h''⟩)
      · exact Or.inl (Or.inl h')
      · exact Or.inl (Or.inr ⟨rfl, h''⟩)
      · exact Or.inr ⟨h', h''⟩

-- ------------------------------------------------------------------ list facts
theorem set_perm_cons_eraseIdx {α} (l : List α) (i : Nat) (x : α) (hi : i < l.length) :
    (l.set i x).Perm (x :: l.eraseIdx i) := by
  rw [List.set_eq_take_append_cons_drop, if_pos hi, List.eraseIdx_eq_take_drop_succ]
  exact List.perm_middle

theorem perm_cons_eraseIdx {α} (l : List α) (i : Nat) (hi : i < l.length) : l.Perm (l[i] :: l.eraseIdx i) := by
  have h1 : l = l.take i ++ l[i] :: l.drop (i + 1) := by
    rw [← List.drop_eq_getElem_cons hi, List.take_append_drop]
  rw [List.eraseIdx_eq_take_drop_succ]
  conv => lhs; rw [h1]
  exact List.perm_middle

theorem snoc_perm {α} (a b : List α) (x : α) : ((a ++ b) ++ [x]).Perm ((a ++ [x]) ++ b) := by
  rw [List.append_assoc, List.append_assoc]
  exact List.Perm.append_left a List.perm_append_comm

theorem defined_append (a b : List Rec) : defined (a ++ b) = defined a ++ defined b := by simp [defined]
theorem mentioned_append (a b : List Rec) : mentioned (a ++ b) = mentioned a ++ mentioned b := by simp [mentioned]

theorem defined_single (r : Rec) (n : String) : n ∈ defined [r] ↔ r.name = some n := by
  simp [defined]

-- ------------------------------------------------------------------ one line
/-- what the document guarantees about the next line `r`, relative to the lines before it -/
structure Next (v : Ver) (pre : List Rec) (r : Rec) : Prop where
  real : r.virt = false
  simple : SimpleRt r.rt
  allowed : allowed v r.rt = true
  syn : r.rt = .S → segSyntax r = some v
  noSelf : selfRef r = false
  link : r.rt = .L → ∃ l, r.linkOf = some l
  fresh : ∀ n, r.name = some n → n ∉ defined pre
  refs : ∀ n ∈ r.segRefs, n ≠ "*" ∧ ∀ q ∈ pre, q.name = some n → q.rt = .S
  nameSeg : ∀ n, r.name = some n → n ∈ mentioned pre → r.rt = .S
  incompat : ∀ q ∈ pre, ¬ CompatRec q r
  namesNext : (defined (pre ++ [r])).Nodup

theorem noSelf_refs {v : Ver} {pre : List Rec} {r : Rec} (nx : Next v pre r) (n : String) (hn : r.name = some n) :
    n ∉ r.segRefs := by
  have := nx.noSelf
  unfold selfRef at this
  rw [hn, simple_itemRefs r nx.simple] at this
  simpa using this

theorem ensureRefs_simple (st : St) (r : Rec) (h : SimpleRt r.rt) : ensureRefs st r = ensureSegs st r.segRefs := by
  unfold ensureRefs
  rw [simple_itemRefs r h]
  cases ensureSegs st r.segRefs with
  | error e => rfl
  | ok st1 =>
    simp only [Except.bind]
    rcases h with h | h | h | h | h | h <;> simp [h, Except.map, ensureItems]

/-- a line whose identifier (if any) is not in use is registered: placeholders for its references, then the line -/
theorem register_step {v : Ver} {st : St} {pre : List Rec} {M : List String} (h : Inv v st pre M) (r : Rec)
    (nx : Next v pre r) (hfree : ∀ n, r.name = some n → n ∉ M) :
    ∃ st' M', register st r = .ok st' ∧ Inv v st' (pre ++ [r]) M' := by
  obtain ⟨st1, M1, e1, h1, m1⟩ := ensureSegs_mid (pre := pre) r.segRefs h.toMid nx.refs
  have hnameM1 : ∀ n, r.name = some n → n ∉ M1 := by
    intro n hn hm
    rcases (m1 n).mp hm with h' | ⟨h', _⟩
    · exact hfree n hn h'
    · exact noSelf_refs nx n hn h'
  have hreg : register st r = .ok { st1 with lines := st1.lines ++ [r] } := by
    unfold register
    rw [ensureRefs_simple st r nx.simple, e1]
    simp only [Except.bind]
    cases hn : r.name with
    | none => rfl
    | some n =>
      have : hasName st1 n = false := by
        cases hh : hasName st1 n with
        | false => rfl
        | true =>
          exfalso
          rcases (names_of_mid h1 n).mp ((hasName_iff st1 n).mp hh) with h' | h'
          · exact nx.fresh n hn h'
          · exact hnameM1 n hn h'
      simp [this]
  refine ⟨_, M1, hreg, ⟨⟨h1.ver, h1.nodupM, ?_, h1.star, nx.namesNext, ?_⟩, ?_⟩⟩
  · intro m hm hd
    rw [defined_append, List.mem_append, defined_single] at hd
    rcases hd with hd | hd
    · exact h1.disj m hm hd
    · exact hnameM1 m hd hm
  · exact (List.Perm.append_right [r] h1.perm).trans (snoc_perm _ _ _)
  · intro m
    rw [m1, h.memM, mentioned_append, defined_append]
    simp only [List.mem_append, mentioned, List.flatMap_cons, List.flatMap_nil, List.append_nil, not_or, defined_single]
    constructor
    · rintro (⟨h', h''⟩ | ⟨h', h''⟩)
      · refine ⟨Or.inl h', h'', ?_⟩
        intro hn
        exact hfree m hn ((h.memM m).mpr ⟨h', h''⟩)
      · exact ⟨Or.inr h', h'', fun hn => noSelf_refs nx m hn h'⟩
    · rintro ⟨h' | h', h'', _⟩
      · exact Or.inl ⟨h', h''⟩
      · exact Or.inr ⟨h', h''⟩

/-- the definition of a segment for which a placeholder exists takes the placeholder's place -/
theorem subst_step {v : Ver} {st : St} {pre : List Rec} {M : List String} (h : Inv v st pre M) (r : Rec)
    (nx : Next v pre r) (hS : r.rt = .S) (n : String) (hn : r.name = some n) (hm : n ∈ M) :
    ∃ i, st.lines.findIdx? (fun q => q.name = some n) = some i ∧
      ∃ st', addOnto st r n i = .ok st' ∧ Inv v st' (pre ++ [r]) (M.erase n) := by
  have hnd := nodup_of_mid h.toMid
  have hvmem : virtSeg v n ∈ st.lines := (mem_lines h.toMid _).mpr (Or.inr ⟨n, hm, rfl⟩)
  have hvname : (virtSeg v n).name = some n := virtSeg_name _ _ (h.star n hm)
  cases hfi : st.lines.findIdx? (fun q => q.name = some n) with
  | none => exact absurd ((mem_namesOf _ _).mpr ⟨_, hvmem, hvname⟩) (findIdx_none_not_mem st.lines n hfi)
  | some i =>
    obtain ⟨hi, hp⟩ := findIdx_some_lt _ _ _ hfi
    have hgetD : st.lines.getD i default = st.lines[i] := by simp [List.getD_eq_getElem?_getD, hi]
    have hpn : st.lines[i].name = some n := by rw [hgetD] at hp; simpa using hp
    have e1 := lookup_unique_aux st.lines n _ hnd hvmem hvname
    have e2 := lookup_unique_aux st.lines n st.lines[i] hnd (List.getElem_mem hi) hpn
    rw [e1] at e2
    have hli : st.lines[i] = virtSeg v n := (Option.some.inj e2).symm
    refine ⟨i, rfl, { st with lines := st.lines.set i r }, ?_, ?_⟩
    · unfold addOnto
      rw [hgetD, hli, virtSeg_virt, if_pos rfl, virtSeg_rt, if_pos (Or.inr hS.symm)]
      unfold substitute replaceAt
      rw [ensureRefs_simple _ r nx.simple, S_segRefs r hS]
      rfl
    · have hX : (st.lines.eraseIdx i).Perm (pre ++ (M.erase n).map (virtSeg v)) := by
        have p1 : (virtSeg v n :: st.lines.eraseIdx i).Perm (pre ++ M.map (virtSeg v)) := by
          rw [← hli]; exact (perm_cons_eraseIdx st.lines i hi).symm.trans h.perm
        have p2 : (pre ++ M.map (virtSeg v)).Perm (virtSeg v n :: (pre ++ (M.erase n).map (virtSeg v))) := by
          have : (M.map (virtSeg v)).Perm (virtSeg v n :: (M.erase n).map (virtSeg v)) :=
            (List.perm_cons_erase hm).map (virtSeg v)
          exact (List.Perm.append_left pre this).trans List.perm_middle
        exact (p1.trans p2).cons_inv
      refine ⟨⟨h.ver, h.nodupM.erase n, ?_, fun m hmm => h.star m (List.mem_of_mem_erase hmm), nx.namesNext, ?_⟩, ?_⟩
      · intro m hmm hd
        have hmm' := (List.Nodup.mem_erase_iff h.nodupM).mp hmm
        rw [defined_append, List.mem_append, defined_single] at hd
        rcases hd with hd | hd
        · exact h.disj m hmm'.2 hd
        · rw [hn] at hd; exact hmm'.1 (Option.some.inj hd).symm
      · show (st.lines.set i r).Perm _
        have p3 := (set_perm_cons_eraseIdx st.lines i r hi).trans (List.Perm.cons r hX)
        have p4 : (r :: (pre ++ (M.erase n).map (virtSeg v))).Perm ((pre ++ [r]) ++ (M.erase n).map (virtSeg v)) := by
          rw [List.append_assoc]
          exact (List.perm_middle (a := r) (l₁ := pre) (l₂ := (M.erase n).map (virtSeg v))).symm
        exact p3.trans p4
      · intro m
        rw [List.Nodup.mem_erase_iff h.nodupM, h.memM, mentioned_append, defined_append]
        simp only [List.mem_append, mentioned, List.flatMap_cons, List.flatMap_nil, List.append_nil, S_segRefs r hS,
          List.not_mem_nil, or_false, not_or, defined_single, hn, Option.some.injEq]
        constructor
        · rintro ⟨h1, h2, h3⟩; exact ⟨h2, h3, fun e => h1 e.symm⟩
        · rintro ⟨h2, h3, h4⟩; exact ⟨fun e => h4 e.symm, h2, h3⟩

/-- no stored line is a link compatible with the next line -/
theorem findCompat_none {v : Ver} {st : St} {pre : List Rec} {M : List String} (h : Inv v st pre M) (r : Rec)
    (nx : Next v pre r) (l : Link) (hl : r.linkOf = some l) : findCompatIdx st l = none := by
  unfold findCompatIdx
  rw [List.findIdx?_eq_none_iff]
  intro q hq
  rcases (mem_lines h.toMid q).mp hq with h1 | ⟨m, _, rfl⟩
  · cases hk : q.linkOf with
    | none => simp
    | some k =>
      simp only
      cases hc : k.compatible l.frm l.fo l.to l.too l.ovl with
      | false => simp
      | true => exact absurd ⟨k, l, hk, hl, hc⟩ (nx.incompat q h1)
  · simp [virtSeg_linkOf]

/-- **one `add_line`**: the next line of a valid document is accepted, and the invariant is kept -/
theorem add_step {v : Ver} {st : St} {pre : List Rec} {M : List String} (h : Inv v st pre M) (r : Rec)
    (nx : Next v pre r) : ∃ st' M', add st r = .ok st' ∧ Inv v st' (pre ++ [r]) M' := by
  -- an identifier carried by a line that is not a segment has no placeholder
  have nonS_free : r.rt ≠ .S → ∀ n, r.name = some n → n ∉ M := by
    intro hne n hn hm
    exact hne (nx.nameSeg n hn ((h.memM n).mp hm).1)
  have nameFree : ∀ n, r.name = some n → n ∉ M → st.lines.findIdx? (fun q => q.name = some n) = none := by
    intro n hn hm
    apply findIdx_none_of_not_mem
    rw [names_of_mid h.toMid]
    rintro (h' | h')
    · exact nx.fresh n hn h'
    · exact hm h'
  unfold add
  rw [h.ver, nx.allowed]
  simp only [Bool.not_true, Bool.false_eq_true, if_false]
  have hsyn : ¬ (r.rt = .S ∧ segSyntax r ≠ some v) := fun hc => hc.2 (nx.syn hc.1)
  rw [if_neg hsyn, nx.noSelf]
  simp only [Bool.false_eq_true, if_false]
  by_cases hL : r.rt = .L
  · rw [if_pos hL]
    obtain ⟨l, hl⟩ := nx.link hL
    simp only [hl, findCompat_none h r nx l hl]
    unfold addLinkFresh
    cases hn : r.name with
    | none => exact register_step h r nx (fun n hn' => by rw [hn] at hn'; cases hn')
    | some n =>
      simp only
      have hnm := nonS_free (by rw [hL]; intro hc; cases hc) n hn
      rw [nameFree n hn hnm]
      exact register_step h r nx (fun k hk => by rw [hn] at hk; cases hk; exact hnm)
  · rw [if_neg hL]
    cases hn : r.name with
    | none => exact register_step h r nx (fun n hn' => by rw [hn] at hn'; cases hn')
    | some n =>
      simp only
      by_cases hm : n ∈ M
      · have hS : r.rt = .S := nx.nameSeg n hn ((h.memM n).mp hm).1
        obtain ⟨i, hfi, st', ho, hinv⟩ := subst_step h r nx hS n hn hm
        rw [hfi]
        exact ⟨st', _, ho, hinv⟩
      · rw [nameFree n hn hm]
        exact register_step h r nx (fun k hk => by rw [hn] at hk; cases hk; exact hm)

-- ------------------------------------------------------------------ the whole document
theorem next_of_valid {v : Ver} (pre : List Rec) (r : Rec) (rest : List Rec) (hv : ValidSimple v (pre ++ r :: rest)) :
    Next v pre r := by
  have hr : r ∈ pre ++ r :: rest := by simp
  obtain ⟨s1, s2, s3, s4, s5, s6⟩ := hv.simple r hr
  have hnames := hv.names
  rw [defined_append] at hnames
  have hna := List.nodup_append.mp hnames
  refine ⟨s1, s2, s3, s4, s5, s6, ?_, ?_, ?_, ?_, ?_⟩
  · intro n hn hd
    exact hna.2.2 n hd n (by simp [defined, hn]) rfl
  · intro n hn
    have hm : n ∈ mentioned (pre ++ r :: rest) := by
      simp only [mentioned, List.flatMap_append, List.flatMap_cons, List.mem_append]
      exact Or.inr (Or.inl hn)
    exact ⟨(hv.refs n hm).1, fun q hq hqn => (hv.refs n hm).2 q (by simp [hq]) hqn⟩
  · intro n hn hm
    have hm' : n ∈ mentioned (pre ++ r :: rest) := by rw [mentioned_append]; exact List.mem_append_left _ hm
    exact (hv.refs n hm').2 r hr hn
  · intro q hq
    have := List.pairwise_append.mp hv.links
    exact (this.2.2 q hq r (by simp)).1
  · rw [defined_append]
    rw [List.nodup_append]
    refine ⟨hna.1, ?_, ?_⟩
    · cases hn : r.name with
      | none => simp [defined, hn]
      | some n => simp [defined, hn]
    · intro a ha b hb hab
      subst hab
      rw [defined_single] at hb
      exact hna.2.2 a ha a (by simp [defined, hb]) rfl

theorem buildFrom_inv {v : Ver} (suf : List Rec) : ∀ (st : St) (pre : List Rec) (M : List String),
    Inv v st pre M → ValidSimple v (pre ++ suf) →
    ∃ st' M', buildFrom st suf = .ok st' ∧ Inv v st' (pre ++ suf) M' := by
  induction suf with
  | nil => intro st pre M h _; exact ⟨st, M, rfl, by simpa using h⟩
  | cons r rest ih =>
    intro st pre M h hv
    obtain ⟨st1, M1, e1, h1⟩ := add_step h r (next_of_valid pre r rest hv)
    obtain ⟨st2, M2, e2, h2⟩ := ih st1 (pre ++ [r]) M1 h1 (by simpa using hv)
    refine ⟨st2, M2, by simp [buildFrom, e1, Except.bind, e2], by simpa using h2⟩

theorem inv_empty (v : Ver) : Inv v (St.empty v) [] [] :=
  ⟨⟨rfl, List.nodup_nil, by simp, by simp, by simp [defined], by simp [St.empty]⟩, by simp [mentioned]⟩

/-- **what a valid document builds, whatever the order of its lines**: its lines, plus exactly one placeholder segment
    for every identifier that is mentioned and not defined -/
theorem build_simple (v : Ver) (ls : List Rec) (hv : ValidSimple v ls) :
    ∃ (st : St) (M : List String), buildM v ls = .ok st ∧ st.ver = v ∧ M.Nodup ∧ (∀ n, n ∈ M ↔ n ∈ mentioned ls ∧ n ∉ defined ls) ∧
      st.lines.Perm (ls ++ M.map (virtSeg v)) := by
  obtain ⟨st, M, e, h⟩ := buildFrom_inv ls (St.empty v) [] [] (inv_empty v) (by simpa using hv)
  exact ⟨st, M, e, h.ver, h.nodupM, by simpa using h.memM, by simpa using h.perm⟩

/-- **no placeholder remains for an identifier the document defines** (and every line of the Gfa that is not a line
    of the document is the placeholder of a mentioned, undefined identifier) -/
theorem build_simple_placeholders (v : Ver) (ls : List Rec) (hv : ValidSimple v ls) (st : St) (he : buildM v ls = .ok st)
    (q : Rec) (hq : q ∈ st.lines) : q ∈ ls ∨ ∃ n, q = virtSeg v n ∧ n ∈ mentioned ls ∧ n ∉ defined ls := by
  obtain ⟨st', M, e, _, _, hm, hp⟩ := build_simple v ls hv
  rw [he] at e; cases e
  rw [hp.mem_iff, List.mem_append, List.mem_map] at hq
  rcases hq with h | ⟨n, hn, rfl⟩
  · exact Or.inl h
  · exact Or.inr ⟨n, rfl, (hm n).mp hn⟩

theorem mem_mentioned (ls : List Rec) (n : String) : n ∈ mentioned ls ↔ ∃ r ∈ ls, n ∈ r.segRefs := by
  simp [mentioned]

theorem mem_defined (ls : List Rec) (n : String) : n ∈ defined ls ↔ ∃ r ∈ ls, r.name = some n := by
  simp [defined]

theorem validSimple_perm {v : Ver} {ls ls' : List Rec} (hp : ls.Perm ls') (hv : ValidSimple v ls) : ValidSimple v ls' := by
  refine ⟨fun r hr => hv.simple r (hp.mem_iff.mpr hr), ?_, ?_, ?_⟩
  · exact ((hp.filterMap Rec.name).nodup_iff).mp hv.names
  · intro n hn
    have hn' : n ∈ mentioned ls := by
      rw [mem_mentioned] at hn ⊢
      obtain ⟨r, hr, h⟩ := hn
      exact ⟨r, hp.mem_iff.mpr hr, h⟩
    exact ⟨(hv.refs n hn').1, fun r hr => (hv.refs n hn').2 r (hp.mem_iff.mpr hr)⟩
  · exact (hp.pairwise_iff (fun {a b} h => ⟨h.2, h.1⟩)).mp hv.links

/-- **C03 for segment/edge documents: every permutation of the lines builds the same Gfa** — the same version and the
    same lines (as a multiset: the same written records, the same identifiers, the same placeholders) -/
theorem build_simple_perm (v : Ver) (ls ls' : List Rec) (hv : ValidSimple v ls) (hp : ls.Perm ls') :
    ∃ st st', buildM v ls = .ok st ∧ buildM v ls' = .ok st' ∧ st.ver = st'.ver ∧ st.lines.Perm st'.lines := by
  obtain ⟨st, M, e, hver, hnd, hm, hperm⟩ := build_simple v ls hv
  obtain ⟨st', M', e', hver', hnd', hm', hperm'⟩ := build_simple v ls' (validSimple_perm hp hv)
  refine ⟨st, st', e, e', by rw [hver, hver'], ?_⟩
  have hMM : M.Perm M' := by
    rw [List.perm_ext_iff_of_nodup hnd hnd']
    intro n
    rw [hm, hm', mem_mentioned, mem_mentioned, mem_defined, mem_defined]
    constructor
    · rintro ⟨⟨r, hr, h1⟩, h2⟩
      exact ⟨⟨r, hp.mem_iff.mp hr, h1⟩, fun ⟨q, hq, h3⟩ => h2 ⟨q, hp.mem_iff.mpr hq, h3⟩⟩
    · rintro ⟨⟨r, hr, h1⟩, h2⟩
      exact ⟨⟨r, hp.mem_iff.mpr hr, h1⟩, fun ⟨q, hq, h3⟩ => h2 ⟨q, hp.mem_iff.mp hq, h3⟩⟩
  exact hperm.trans ((List.Perm.append hp (hMM.map (virtSeg v))).trans hperm'.symm)

-- non-vacuity: a document with forward references, a containment and an undefined segment is valid, and builds
example :
    let ls : List Rec := [⟨.L, ["A", "+", "B", "-", "3M"], false⟩, ⟨.S, ["B", "*"], false⟩,
      ⟨.C, ["A", "+", "C", "+", "0", "*"], false⟩, ⟨.S, ["A", "ACGT"], false⟩]
    (buildM .gfa1 ls).toOption.map (fun s => s.lines.map (fun q => (q.fields, q.virt))) =
      some [(["A", "ACGT"], false), (["B", "*"], false), (["A", "+", "B", "-", "3M"], false), (["C", "*"], true),
        (["A", "+", "C", "+", "0", "*"], false)] := by decide

-- … and that document meets `ValidSimple` (the premises of the theorems are satisfiable by a document with forward
-- references and a placeholder)
example : ValidSimple .gfa1 [⟨.L, ["A", "+", "B", "-", "3M"], false⟩, ⟨.S, ["B", "*"], false⟩,
      ⟨.C, ["A", "+", "C", "+", "0", "*"], false⟩, ⟨.S, ["A", "ACGT"], false⟩] := by
  refine ⟨?_, by decide, by decide, ?_⟩
  · intro r hr
    simp only [List.mem_cons, List.not_mem_nil, or_false] at hr
    rcases hr with rfl | rfl | rfl | rfl <;>
      refine ⟨rfl, by simp [SimpleRt], by decide, by decide, by decide, ?_⟩ <;> first | (intro _; exact Option.isSome_iff_exists.mp (by decide)) | (intro h; cases h)
  · simp [CompatRec, Rec.linkOf]

end Gfa.C03
