import GfaModel.Cigar
/-!
# C12 — a link and its complement are one edge (algebraic part)

All statements quantify over *all* CIGARs / links; the `Involutive` hypothesis is exactly
the property's own exclusion of the `S` and `N` codes.
-/
namespace Gfa
namespace C12
open Cigar

theorem flip_flip (c : Code) (h : c.involutive = true) : c.flip.flip = c := by
  cases c <;> simp_all [Code.flip, Code.involutive]

theorem flipOp_flipOp (o : Op) (h : o.code.involutive = true) : flipOp (flipOp o) = o := by
  cases o; simp_all [flipOp, flip_flip]

theorem flip_involutive (c : Code) (h : c.involutive = true) : c.flip.involutive = true := by
  cases c <;> simp_all [Code.flip, Code.involutive]

/-- The complement of an S/N-free CIGAR is S/N-free. -/
theorem compl_involutive (c : Cigar) (h : c.Involutive) : (compl c).Involutive := by
  intro o ho
  simp only [compl, List.mem_map, List.mem_reverse] at ho
  obtain ⟨o', ho', rfl⟩ := ho
  exact flip_involutive _ (h o' ho')

/-- Taking the complement twice gives back the CIGAR. -/
theorem compl_compl (c : Cigar) (h : c.Involutive) : compl (compl c) = c := by
  simp only [compl, List.map_reverse, List.reverse_reverse, List.map_map]
  conv => rhs; rw [← List.map_id c]
  apply List.map_congr_left
  intro o ho
  exact flipOp_flipOp o (h o ho)

theorem sum_reverse (l : List Nat) : l.reverse.sum = l.sum := by
  induction l with
  | nil => rfl
  | cons x xs ih => simp [List.sum_append, ih]; omega

/-- The complement exchanges reference and query length — for *every* CIGAR, S and N included. -/
theorem refLen_compl (c : Cigar) : refLen (compl c) = queryLen c := by
  simp only [refLen, queryLen, compl, List.map_map, List.map_reverse, sum_reverse]
  congr 1
  apply List.map_congr_left
  intro o _
  cases o with | mk n code => cases code <;> rfl

theorem queryLen_compl (c : Cigar) : queryLen (compl c) = refLen c := by
  simp only [refLen, queryLen, compl, List.map_map, List.map_reverse, sum_reverse]
  congr 1
  apply List.map_congr_left
  intro o _
  cases o with | mk n code => cases code <;> rfl

/-- The complement keeps the number of operations and the multiset of operation lengths in reverse order. -/
theorem compl_length (c : Cigar) : (compl c).length = c.length := by simp [compl]

theorem compl_lens (c : Cigar) : (compl c).map (·.len) = (c.map (·.len)).reverse := by
  simp [compl, List.map_reverse, flipOp, Function.comp_def]

theorem aln_compl_compl (a : Aln) (h : a.Involutive) : a.compl.compl = a := by
  cases a with
  | star => rfl
  | cigar c => simp only [Aln.compl]; rw [compl_compl c h]

theorem aln_compl_involutive (a : Aln) (h : a.Involutive) : a.compl.Involutive := by
  cases a with
  | star => trivial
  | cigar c => exact compl_involutive c h

theorem orient_inv_inv (o : Orient) : o.inv.inv = o := by cases o <;> rfl

/-- `complement(complement(l)) = l` for every link whose overlap is in the claimed class. -/
theorem link_compl_compl (l : Link) (h : l.ovl.Involutive) : l.compl.compl = l := by
  cases l; simp_all [Link.compl, orient_inv_inv, aln_compl_compl]

/-- The complement leaves from the end the link arrives at, and vice versa. -/
theorem compl_fromEnd (l : Link) : l.compl.fromEnd = l.toEnd := by
  cases l with | mk f fo t too o => cases too <;> simp [Link.compl, Link.fromEnd, Link.toEnd, Orient.inv]

theorem compl_toEnd (l : Link) : l.compl.toEnd = l.fromEnd := by
  cases l with | mk f fo t too o => cases fo <;> simp [Link.compl, Link.fromEnd, Link.toEnd, Orient.inv]

/-- A link is the complement of its complement form, in both directions. -/
theorem isComplement_compl (l : Link) : l.compl.isComplement l = true := by
  simp only [Link.isComplement, compl_fromEnd, compl_toEnd]
  simp [Link.compl]

theorem isComplement_compl' (l : Link) (h : l.ovl.Involutive) : l.isComplement l.compl = true := by
  have := isComplement_compl l.compl
  rwa [link_compl_compl l h] at this

/-- `is_complement` is symmetric (on the claimed class of overlaps). -/
theorem isComplement_symm (a b : Link) (ha : a.ovl.Involutive) (hb : b.ovl.Involutive) :
    a.isComplement b = b.isComplement a := by
  have key : ∀ x y : Link, x.ovl.Involutive → y.ovl.Involutive →
      x.isComplement y = true → y.isComplement x = true := by
    intro x y _ hy h
    simp only [Link.isComplement, Bool.and_eq_true, beq_iff_eq] at h ⊢
    obtain ⟨⟨h1, h2⟩, h3⟩ := h
    refine ⟨⟨h2.symm, h1.symm⟩, ?_⟩
    rw [h3, aln_compl_compl _ hy]
  cases hab : a.isComplement b <;> cases hba : b.isComplement a <;> try rfl
  · have := key b a hb ha hba; simp_all
  · have := key a b ha hb hab; simp_all

theorem isSame_symm (a b : Link) : a.isSame b = b.isSame a := by
  simp only [Link.isSame]
  rw [Bool.eq_iff_iff]
  simp only [Bool.and_eq_true, beq_iff_eq]
  constructor <;> (rintro ⟨⟨h1, h2⟩, h3⟩; exact ⟨⟨h1.symm, h2.symm⟩, h3.symm⟩)

/-- `is_eql` is symmetric. -/
theorem isEql_symm (a b : Link) (ha : a.ovl.Involutive) (hb : b.ovl.Involutive) :
    a.isEql b = b.isEql a := by
  simp [Link.isEql, isSame_symm a b, isComplement_symm a b ha hb]

theorem isEql_refl (a : Link) : a.isEql a = true := by simp [Link.isEql, Link.isSame]

/-- Two links are `is_same` iff all five components coincide: a link differing in anything
    (but the complement symmetry) is a different edge. -/
theorem isSame_iff (a b : Link) : a.isSame b = true ↔ a = b := by
  cases a with | mk f fo t too o => cases b with | mk f' fo' t' too' o' =>
  cases fo <;> cases fo' <;> cases too <;> cases too' <;>
    simp [Link.isSame, Link.fromEnd, Link.toEnd] <;> grind

theorem isComplement_iff (a b : Link) (hb : b.ovl.Involutive) : a.isComplement b = true ↔ a = b.compl := by
  rw [← isSame_iff]
  simp only [Link.isComplement, Link.isSame, compl_fromEnd, compl_toEnd]
  simp [Link.compl]

/-- Characterisation of edge identity: `is_eql` holds exactly for the link and its complement. -/
theorem isEql_iff (a b : Link) (hb : b.ovl.Involutive) : a.isEql b = true ↔ (a = b ∨ a = b.compl) := by
  simp [Link.isEql, isSame_iff, isComplement_iff a b hb]

/-- hence `is_eql` is transitive: it is an equivalence on the claimed class. -/
theorem isEql_trans (a b c : Link) (hb : b.ovl.Involutive) (hc : c.ovl.Involutive)
    (h1 : a.isEql b = true) (h2 : b.isEql c = true) : a.isEql c = true := by
  rw [isEql_iff _ _ hb] at h1
  rw [isEql_iff _ _ hc] at h2
  rw [isEql_iff _ _ hc]
  rcases h1 with rfl | rfl <;> rcases h2 with rfl | rfl
  · exact Or.inl rfl
  · exact Or.inr rfl
  · exact Or.inr rfl
  · exact Or.inl (link_compl_compl c hc)

/-- At least one of the two forms is canonical … -/
theorem canonical_or (l : Link) : l.isCanonical = true ∨ l.compl.isCanonical = true := by
  cases l with | mk f fo t too o =>
  simp only [Link.isCanonical, Link.compl]
  by_cases h1 : f < t
  · simp [h1]
  · by_cases h2 : t < f
    · simp [h1, h2]
    · cases fo <;> cases too <;> simp [h1, h2, Orient.inv]

/-- … and for two different segment names exactly one is. -/
theorem canonical_xor (l : Link) (hne : l.frm ≠ l.to) : l.isCanonical = !l.compl.isCanonical := by
  cases l with | mk f fo t too o =>
  simp only [Link.isCanonical, Link.compl]
  simp only at hne
  by_cases h1 : f < t
  · have : ¬ t < f := by
      intro h2; exact absurd (String.lt_trans h1 h2) (String.lt_irrefl f)
    simp [h1, this]
  · by_cases h2 : t < f
    · simp [h1, h2]
    · exfalso
      apply hne
      exact String.le_antisymm (String.not_lt.mp h2) (String.not_lt.mp h1)

/-- The canonical form of a link is canonical and denotes the same edge. -/
theorem canon_canonical (l : Link) : l.canon.isCanonical = true := by
  unfold Link.canon
  split
  · assumption
  · rcases canonical_or l with h | h
    · contradiction
    · exact h

theorem canon_eql (l : Link) (h : l.ovl.Involutive) : l.canon.isEql l = true := by
  unfold Link.canon
  split
  · exact isEql_refl l
  · simp [Link.isEql, isComplement_compl]

/-- Lookup by oriented pair finds the stored link from either form (`is_compatible`). -/
theorem compatible_either_form (l : Link) (h : l.ovl.Involutive) :
    l.compatible l.frm l.fo l.to l.too l.ovl = true ∧
    l.compatible l.compl.frm l.compl.fo l.compl.to l.compl.too l.compl.ovl = true := by
  constructor
  · simp [Link.compatible, Link.compatDirect]
  · simp [Link.compatible, Link.compatCompl, Link.compl, orient_inv_inv, aln_compl_compl _ h]

-- non-vacuity: an asymmetric CIGAR in the claimed class
example : Cigar.Involutive [⟨2, .M⟩, ⟨1, .D⟩, ⟨3, .M⟩, ⟨1, .P⟩] := by decide
example : compl [⟨2, .M⟩, ⟨1, .D⟩, ⟨3, .M⟩] = [⟨3, .M⟩, ⟨1, .I⟩, ⟨2, .M⟩] := by decide
-- the exclusion is necessary: S is folded onto D
example : compl (compl [⟨1, .S⟩]) ≠ [⟨1, .S⟩] := by decide

end C12
end Gfa
