import GfaModel.Seq
/-!
# C14 — linear-path merging: sequence algebra

`rc` and `spell` model `gfapy.sequence.rc` and the sequence of the merged segment.
-/
namespace Gfa.C14
open Seq

theorem wcc_involutive_table : ∀ p ∈ wccTable, p.1 ≠ 'u' → p.1 ≠ 'U' → wcc p.2 = some p.1 := by decide

theorem mapM_length {α β} (f : α → Option β) (l : List α) (r : List β) (h : l.mapM f = some r) : r.length = l.length := by
  induction l generalizing r with
  | nil => simp [List.mapM_nil] at h; subst h; rfl
  | cons x xs ih =>
    rw [List.mapM_cons] at h
    cases hx : f x with
    | none => simp [hx] at h
    | some y =>
      cases hxs : xs.mapM f with
      | none => simp [hx, hxs] at h
      | some ys =>
        simp [hx, hxs] at h; subst h
        simp [ih ys hxs]

/-- the reverse complement has the same length -/
theorem rc_length (s r : List Char) (h : rc s = some r) : r.length = s.length := by
  have := mapM_length wcc s.reverse r h
  simpa using this

theorem mapM_append {α β} (f : α → Option β) (a b : List α) :
    (a ++ b).mapM f = (a.mapM f).bind (fun x => (b.mapM f).map (fun y => x ++ y)) := by
  induction a with
  | nil => simp [List.mapM_nil]
  | cons x xs ih =>
    simp only [List.cons_append, List.mapM_cons, ih]
    cases f x with
    | none => rfl
    | some y =>
      cases xs.mapM f with
      | none => rfl
      | some ys =>
        cases b.mapM f with
        | none => rfl
        | some zs => rfl

/-- the reverse complement of a concatenation is the concatenation of the reverse complements, swapped -/
theorem rc_append (a b ra rb : List Char) (ha : rc a = some ra) (hb : rc b = some rb) :
    rc (a ++ b) = some (rb ++ ra) := by
  unfold rc at *
  rw [List.reverse_append, mapM_append, hb, ha]
  rfl

theorem wcc_wcc (c d : Char) (hinv : involutive c = true) (h : wcc c = some d) : wcc d = some c := by
  unfold involutive at hinv
  rw [h] at hinv
  simpa using hinv

theorem involutive_wcc (c d : Char) (hinv : involutive c = true) (h : wcc c = some d) : involutive d = true := by
  have := wcc_wcc c d hinv h
  unfold involutive
  rw [this]; simp [h]

theorem mapM_wcc_inv (s r : List Char) (hs : ∀ c ∈ s, involutive c = true) (h : s.mapM wcc = some r) :
    r.mapM wcc = some s ∧ ∀ c ∈ r, involutive c = true := by
  induction s generalizing r with
  | nil => simp [List.mapM_nil] at h; subst h; simp [List.mapM_nil]
  | cons x xs ih =>
    rw [List.mapM_cons] at h
    cases hx : wcc x with
    | none => simp [hx] at h
    | some y =>
      cases hxs : xs.mapM wcc with
      | none => simp [hx, hxs] at h
      | some ys =>
        simp [hx, hxs] at h; subst h
        obtain ⟨i1, i2⟩ := ih ys (fun c hc => hs c (by simp [hc])) hxs
        have hxi := hs x (by simp)
        refine ⟨?_, ?_⟩
        · rw [List.mapM_cons, wcc_wcc x y hxi hx, i1]; rfl
        · intro c hc
          rcases List.mem_cons.mp hc with rfl | hc
          · exact involutive_wcc x _ hxi hx
          · exact i2 c hc

theorem mapM_reverse {α β} (f : α → Option β) (l : List α) (r : List β) (h : l.mapM f = some r) :
    l.reverse.mapM f = some r.reverse := by
  induction l generalizing r with
  | nil => simp [List.mapM_nil] at h; subst h; simp [List.mapM_nil]
  | cons x xs ih =>
    rw [List.mapM_cons] at h
    cases hx : f x with
    | none => simp [hx] at h
    | some y =>
      cases hxs : xs.mapM f with
      | none => simp [hx, hxs] at h
      | some ys =>
        simp [hx, hxs] at h; subst h
        rw [List.reverse_cons, mapM_append, ih ys hxs]
        simp [List.mapM_cons, List.mapM_nil, hx]

/-- **reverse-complementing twice gives back the sequence** (on the alphabet where `WCC` is an involution:
    everything but `u`/`U`, which are mapped to `a`/`A`) -/
theorem rc_rc (s r : List Char) (hs : ∀ c ∈ s, involutive c = true) (h : rc s = some r) : rc r = some s := by
  unfold rc at *
  have hs' : ∀ c ∈ s.reverse, involutive c = true := fun c hc => hs c (by simpa using hc)
  obtain ⟨i1, _⟩ := mapM_wcc_inv s.reverse r hs' h
  have := mapM_reverse wcc r s.reverse i1
  simpa using this

theorem oriented_length (m : Member) (s : List Char) (h : oriented m = some s) : s.length = m.seq.length := by
  unfold oriented at h
  split at h
  · exact rc_length _ _ h
  · cases h; rfl

/-- **length of the merged sequence = sum of the member lengths − sum of the overlaps cut** -/
theorem spell_length (ms : List Member) (r : List Char) (h : spell ms = some r)
    (hcut : ∀ m ∈ ms, m.cut ≤ m.seq.length) :
    r.length + (ms.map (·.cut)).sum = (ms.map (·.seq.length)).sum := by
  induction ms generalizing r with
  | nil => simp [spell] at h; subst h; rfl
  | cons m ms ih =>
    simp only [spell] at h
    cases ho : oriented m with
    | none => simp [ho] at h
    | some s =>
      cases hr : spell ms with
      | none => simp [ho, hr] at h
      | some rest =>
        simp [ho, hr] at h; subst h
        have := ih rest hr (fun x hx => hcut x (by simp [hx]))
        have hl := oriented_length m s ho
        have hc := hcut m (by simp)
        simp only [List.length_append, List.length_drop, List.map_cons, List.sum_cons]
        omega

/-- the first member is spelled completely when nothing is cut from it -/
theorem spell_prefix (m : Member) (ms : List Member) (s r : List Char) (hc : m.cut = 0)
    (ho : oriented m = some s) (h : spell (m :: ms) = some r) : s <+: r := by
  simp only [spell, ho] at h
  cases hr : spell ms with
  | none => simp [hr] at h
  | some rest => simp [hr, hc] at h; subst h; exact List.prefix_append _ _

-- non-vacuity: ACG + (CGT reversed = ACG) with overlap 2 …
example : rc "ACGT".toList = some "ACGT".toList ∧ rc "AAC".toList = some "GTT".toList := by decide
example : spell [⟨"ACGA".toList, false, 0⟩, ⟨"CTCG".toList, true, 2⟩] = some "ACGAAG".toList := by decide

end Gfa.C14
