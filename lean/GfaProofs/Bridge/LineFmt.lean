import GfaModel.LineFmt
import GfaGen.LineFmt
/-! Bridge: POSFIELDS/DATATYPE/PREDEFINED_TAGS of every record class of the running code are the model's tables. -/
namespace Gfa.Bridge.LineFmt
open Gfa.LineFmt

/-- gfapy's name of a datatype -/
def dtName : Datatype → String
  | .A => "A" | .i => "i" | .f => "f" | .Z => "Z" | .J => "J" | .H => "H" | .B => "B"
  | .alnGfa1 => "alignment_gfa1" | .alnListGfa1 => "alignment_list_gfa1" | .oidListGfa1 => "oriented_identifier_list_gfa1"
  | .posGfa1 => "position_gfa1" | .segNameGfa1 => "segment_name_gfa1" | .seqGfa1 => "sequence_gfa1"
  | .pathNameGfa1 => "path_name_gfa1" | .alnGfa2 => "alignment_gfa2" | .generic => "generic"
  | .idGfa2 => "identifier_gfa2" | .oidGfa2 => "oriented_identifier_gfa2" | .idListGfa2 => "identifier_list_gfa2"
  | .oidListGfa2 => "oriented_identifier_list_gfa2" | .optIdGfa2 => "optional_identifier_gfa2"
  | .posGfa2 => "position_gfa2" | .customRecordType => "custom_record_type" | .seqGfa2 => "sequence_gfa2"
  | .optInt => "optional_integer" | .comment => "comment" | .orientation => "orientation"

def key : LT → String
  | .S1 => "S1" | .S2 => "S2" | .L => "L" | .C => "C" | .P => "P" | .E => "E" | .G => "G" | .F => "F" | .O => "O"
  | .U => "U" | .H => "H"

def allLT : List LT := [.S1, .S2, .L, .C, .P, .E, .G, .F, .O, .U, .H]

def predefNames (lt : LT) : List (String × String) :=
  (predefined lt).map (fun p => (String.ofList [p.1, p.2.1], String.ofList [p.2.2]))

/-- T1: the positional fields of every record class have the datatypes the model uses, in the same order -/
theorem posfields_table : ∀ lt ∈ allLT, (Gen.lineTables.lookup (key lt)).map (·.1) = some ((posTypes lt).map dtName) := by
  decide

/-- T1: the predefined tags of every record class, with their prescribed datatypes -/
theorem predefined_table : ∀ lt ∈ allLT, (Gen.lineTables.lookup (key lt)).map (·.2) = some (predefNames lt) := by
  decide

/-- no record class beyond the modelled ones has positional fields to validate -/
theorem classes_complete : Gen.lineTables.map (·.1) = ["C", "E", "F", "G", "H", "L", "O", "P", "S1", "S2", "U"] := by decide

end Gfa.Bridge.LineFmt
