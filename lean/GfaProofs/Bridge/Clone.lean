import GfaModel.Heap
import GfaGen.Clone
/-! Bridge for C19: which value classes `clone()` copies, observed on the running code by object identity -/
namespace Gfa.Bridge.Clone

/-- no value class shares a mutable object between a line and its clone
    (i.e. the rule of every mutable class is `Heap.Rule.deep`) -/
theorem no_mutable_shared : ∀ p ∈ Gen.cloneSharesMutable, p.2 = false := by decide

/-- every class the model needs was probed -/
theorem classes_probed : Gen.cloneSharesMutable.map (·.1) =
    ["CIGAR", "OrientedLine", "LastPos", "Trace", "NumericArray", "ByteArray", "JSONdict", "JSONlist", "str", "int",
     "itemsU", "itemsO", "pathSegs", "pathOverlaps", "FieldArray"] := by decide

/-- reference fields of a clone are identifier strings, and the clone belongs to no Gfa (`Heap.Rule.name`) -/
theorem reference_fields_named : Gen.referenceFieldsNamed = true := by decide

end Gfa.Bridge.Clone
