import GfaModel.Multiply
import GfaGen.Multiply
/-! Bridge for C15 -/
namespace Gfa.Bridge.Multiply
open Mul

/-- T3: the AST translation of `_auto_select_distribute_end` is the model function, on all of ℕ³×Bool -/
theorem autoSelect_eq : ∀ k b e eq, Gen.autoSelect k b e eq = autoSelect k b e eq := by
  intro k b e eq
  unfold Gen.autoSelect autoSelect
  simp only [decide_eq_true_eq]
  repeat' split
  all_goals first | rfl | omega | simp_all

/-- cross-check of the translator: the *running* function agrees with the model on [0,5]³×Bool -/
theorem autoSelect_samples : ∀ p ∈ Gen.autoSelectSamples, autoSelect p.1.1 p.1.2.1 p.1.2.2.1 p.1.2.2.2 = p.2 := by
  decide +kernel

/-- the distribution windows observed on the real library (star graphs, n ≤ 4 links, k ≤ 4) are `keeps` -/
theorem window_samples : ∀ p ∈ Gen.windowSamples,
    (List.range p.1.1).filter (keeps p.1.1 p.1.2.1 p.1.2.2) = p.2 := by
  decide +kernel

theorem policies : Gen.linksDistributionPolicy = ["off", "auto", "equal", "L", "R"] := by decide

end Gfa.Bridge.Multiply
