import GfaModel.Grammar
import GfaGen.Regexes
/-!
Bridge for C04/C20/C01/C07: every validation regex literal found in /repo's source, parsed by CPython's
own regex parser and translated, *is* (syntactically, after the translator's normal form) the regular
expression the specification grammar `Grammar.re` gives to that datatype.  A `$` (which in Python also
matches before a final newline) or any other change of a literal breaks the corresponding lemma by name.
-/
namespace Gfa.Bridge.Regex
open Gfa.Grammar

theorem re_A : Gen.re_field_char_validate_encoded_0 = re .A := rfl
theorem re_i : Gen.re_field_integer_validate_encoded_0 = re .i := rfl
theorem re_f : Gen.re_field_float_validate_encoded_0 = re .f := rfl
theorem re_Z : Gen.re_field_string_validate_encoded_0 = re .Z := rfl
theorem re_J : Gen.re_field_json_validate_all_printable_0 = re .J := rfl
theorem re_H : Gen.re_field_byte_array_validate_encoded_0 = re .H := rfl
theorem re_B : Gen.re_field_numeric_array_validate_encoded_0 = re .B := rfl
theorem re_alnGfa1 : Gen.re_field_alignment_gfa1_validate_encoded_0 = re .alnGfa1 := rfl
theorem re_alnListGfa1 : Gen.re_field_alignment_list_gfa1_validate_encoded_0 = re .alnListGfa1 := rfl
theorem re_oidListGfa1 : Gen.re_field_oriented_identifier_list_gfa1_validate_encoded_0 = re .oidListGfa1 := rfl
theorem re_posGfa1 : Gen.re_field_position_gfa1_validate_encoded_0 = re .posGfa1 := rfl
theorem re_segNameGfa1 : Gen.re_field_segment_name_gfa1_validate_encoded_0 = re .segNameGfa1 := rfl
theorem re_seqGfa1 : Gen.re_field_sequence_gfa1_validate_encoded_0 = re .seqGfa1 := rfl
theorem re_pathNameGfa1 : Gen.re_field_path_name_gfa1_validate_encoded_0 = re .pathNameGfa1 := rfl
theorem re_idGfa2 : Gen.re_field_identifier_gfa2_validate_encoded_0 = re .idGfa2 := rfl
theorem re_oidGfa2 : Gen.re_field_oriented_identifier_gfa2_validate_encoded_0 = re .oidGfa2 := rfl
theorem re_idListGfa2 : Gen.re_field_identifier_list_gfa2_validate_encoded_0 = re .idListGfa2 := rfl
theorem re_oidListGfa2 : Gen.re_field_oriented_identifier_list_gfa2_validate_encoded_0 = re .oidListGfa2 := rfl
theorem re_optIdGfa2 : Gen.re_field_optional_identifier_gfa2_validate_encoded_0 = re .optIdGfa2 := rfl
theorem re_posGfa2 : Gen.re_field_position_gfa2_validate_encoded_0 = re .posGfa2 := rfl
theorem re_customRecordType : Gen.re_field_custom_record_type_validate_encoded_0 = re .customRecordType := rfl
theorem re_seqGfa2 : Gen.re_field_sequence_gfa2_validate_encoded_0 = re .seqGfa2 := rfl
theorem re_optInt : Gen.re_field_optional_integer_validate_encoded_0 = re .optInt := rfl
/-- CIGAR strings: GFA1 and GFA2 operation alphabets -/
theorem re_cigar1 : Gen.re_alignment_cigar_from_string_0 = cigar1 := rfl
theorem re_cigar2 : Gen.re_alignment_cigar_from_string_1 = cigar2 := rfl
/-- tag names -/
theorem re_tagName : Gen.re_line_common_validate_is_valid_custom_tagname_0 = tagName := rfl

end Gfa.Bridge.Regex
