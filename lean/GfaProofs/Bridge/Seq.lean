import GfaModel.Seq
import GfaGen.Seq
namespace Gfa.Bridge.Seq
/-- T1: the Watson–Crick table of `gfapy/sequence.py` is the model's -/
theorem wcc_table : Gen.wccTable = Gfa.Seq.wccTable := by decide
/-- blank and newline are the only characters dropped by `rc` -/
theorem wcc_dropped : Gen.wccDropped = [' ', '\n'] := by decide
/-- T2 through a real merge: the successor is trimmed by the sum of the M/= lengths of the overlap, 0 for `*` -/
theorem cut_samples : Gen.cutSamples = [("*", 0), ("2M", 2), ("1M1=", 2), ("3=", 3)] := by decide
end Gfa.Bridge.Seq
