import GfaGen.PathOrient
import GfaModel.Graph
/-! Bridge: `Path._link_orient` (AST translation of the source) is the model's `linkOrient`. -/
namespace Gfa.Bridge.PathOrient
open Gfa.G

/-- T3: the translated decision - "-" exactly when the step is matched by the complement of the link and not by the
    link itself - applied to the model's two compatibility tests, is `linkOrient` -/
theorem linkOrient_eq (k s : Link) :
    Gen.linkOrient (fun _ _ _ => k.compatCompl s.frm s.fo s.to s.too s.ovl) (fun _ _ _ => k.compatDirect s.frm s.fo s.to s.too s.ovl) () () () =
      linkOrient k s := by
  unfold Gen.linkOrient linkOrient
  rfl

end Gfa.Bridge.PathOrient
