import GfaModel.Connect
import GfaModel.GraphObs
import GfaGen.Connect
/-! Bridge: the class tables and the pre-check list of the running code are the model's. -/
namespace Gfa.Bridge.Connect
open G

def key (v : Ver) : RT → String
  | .S => (match v with | .gfa1 => "S1" | .gfa2 => "S2")
  | .unk => "?"
  | rt => rtStr rt

def allRT : List RT := [.S, .L, .C, .P, .E, .G, .F, .O, .U, .unk]

/-- T1: `Connection.SEGMENT_REFERENCING_RECORD_TYPES` lists exactly the model's segment-referencing record types -/
theorem segRefTypes_table : Gen.segmentReferencingRecordTypes = segRefTypes.map rtStr := by decide

/-- every record type the pre-check skips has no segment references at all
    (dropping a type from the list while its lines still name segments breaks this lemma) -/
theorem precheck_covers (r : Rec) (h : ¬ rtStr r.rt ∈ Gen.segmentReferencingRecordTypes) : r.segRefs = [] := by
  unfold Rec.segRefs
  cases hrt : r.rt <;> simp [hrt, rtStr, Gen.segmentReferencingRecordTypes] at h ⊢

/-- T1: `REFERENCE_FIELDS` of every record class -/
theorem referenceFields_table :
    ∀ v ∈ [Ver.gfa1, Ver.gfa2], ∀ rt ∈ allRT, Gen.referenceFields.lookup (key v rt) = some (referenceFields rt) := by decide

/-- T1: `DEPENDENT_LINES` of every record class = what the model's removal cascade takes along -/
theorem dependentLines_table :
    ∀ v ∈ [Ver.gfa1, Ver.gfa2], ∀ rt ∈ allRT, Gen.dependentLines.lookup (key v rt) = some (dependentLines v rt) := by decide

/-- T1: `OTHER_REFERENCES` of every record class = mentions that are dropped while the mentioning line stays -/
theorem otherReferences_table :
    ∀ v ∈ [Ver.gfa1, Ver.gfa2], ∀ rt ∈ allRT, Gen.otherReferences.lookup (key v rt) = some (otherReferences v rt) := by decide

/-- every collection a line can sit in is accounted for on removal: dependent or merely mentioned
    (forgetting `sets` on `Gap`, or `paths` on `Link`, breaks this by name) -/
theorem gap_sets_link_paths :
    "sets" ∈ (Gen.otherReferences.lookup "G").getD [] ∧ "paths" ∈ (Gen.dependentLines.lookup "G").getD [] ∧
    "paths" ∈ (Gen.dependentLines.lookup "L").getD [] ∧ "sets" ∈ (Gen.dependentLines.lookup "E").getD [] ∧
    "paths" ∈ (Gen.dependentLines.lookup "E").getD [] ∧ "sets" ∈ (Gen.dependentLines.lookup "U").getD [] ∧
    "paths" ∈ (Gen.dependentLines.lookup "U").getD [] ∧
    "paths" ∈ (Gen.dependentLines.lookup "O").getD [] ∧ "sets" ∈ (Gen.dependentLines.lookup "O").getD [] := by decide

end Gfa.Bridge.Connect
