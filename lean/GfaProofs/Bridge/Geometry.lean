import GfaModel.Geometry
import GfaGen.Geometry
/-! Bridge for C11/C06: decision functions extracted from the running code = the model's. -/
namespace Gfa.Bridge.Geometry

/-- T3: the AST translation of `AlignmentType._substring_type` is the model function. -/
theorem substringType_eq : ∀ b e : Pos, Gen.substringType b e = Gfa.substringType b e := by
  intro b e
  unfold Gen.substringType Gfa.substringType
  simp only [decide_eq_true_eq, beq_iff_eq]
  repeat' split
  all_goals first | rfl | omega | simp_all

/-- T2: `_refkey_for_s` on its whole domain (2·2·2·4·4 entries). -/
theorem refkey_table : ∀ (f : Bool) (o1 o2 : Orient) (s1 s2 : SubT),
    Gen.refkeyTable.lookup (f, o1, o2, s1, s2) = some (refkey f o1 o2 s1 s2) := by
  intro f o1 o2 s1 s2
  cases f <;> cases o1 <;> cases o2 <;> cases s1 <;> cases s2 <;> decide

theorem alnType_table : ∀ (o1 o2 : Orient) (s1 s2 : SubT),
    Gen.alnTypeTable.lookup (o1, o2, s1, s2) = some (alignmentType o1 o2 s1 s2) := by
  intro o1 o2 s1 s2
  cases o1 <;> cases o2 <;> cases s1 <;> cases s2 <;> decide

def posOfClass : Bool × Bool → Pos
  | (true, false) => .int 0
  | (false, false) => .int 5
  | (false, true) => .last 5
  | (true, true) => .last 0

theorem segmentRole_table : ∀ (cb ce : Bool × Bool) (o : Orient),
    Gen.segmentRoleTable.lookup (cb, ce, o) = some (segmentRole (posOfClass cb) (posOfClass ce) o) := by
  intro ⟨a, b⟩ ⟨c, d⟩ o
  cases a <;> cases b <;> cases c <;> cases d <;> cases o <;> decide

/-- `_segment_role` only looks at (isfirst, islast) of its positions, so the class table is complete. -/
theorem segmentRole_classes (b e : Pos) (o : Orient) :
    segmentRole b e o = segmentRole (posOfClass (b.isFirst, b.isLast)) (posOfClass (e.isFirst, e.isLast)) o := by
  unfold segmentRole
  have hf : ∀ p : Pos, (posOfClass (p.isFirst, p.isLast)).isFirst = p.isFirst := by
    intro p; cases h1 : p.isFirst <;> cases h2 : p.isLast <;> rfl
  have hl : ∀ p : Pos, (posOfClass (p.isFirst, p.isLast)).isLast = p.isLast := by
    intro p; cases h1 : p.isFirst <;> cases h2 : p.isLast <;> rfl
  rw [hf b, hl e]

theorem isSid1From_table : ∀ r1 r2 : Role,
    Gen.isSid1FromTable.lookup (r1, r2) = some (isSid1From r1 r2) := by
  intro r1 r2; cases r1 <;> cases r2 <;> decide

theorem gapKey_table : ∀ (f : Bool) (o1 o2 : Orient),
    Gen.gapKeyTable.lookup (f, o1, o2) = some (gapKey f o1 o2) := by
  intro f o1 o2; cases f <;> cases o1 <;> cases o2 <;> decide

theorem linkKey_table : ∀ (fo too : Orient),
    Gen.linkKeyTable.lookup (fo, too) = some (linkKey true fo, linkKey false too) := by
  intro fo too; cases fo <;> cases too <;> decide

theorem containment_filing : Gen.containmentFiling = true := by decide

/-- `gfapy.invert` on orientations and end types. -/
theorem invert_table :
    Gen.invertTable = [('+', '-'), ('-', '+'), ('L', 'R'), ('R', 'L')] := by decide

def endChar : EndT → Char | .L => 'L' | .R => 'R'

/-- `from_end` / `to_end` of an L line for the four orientation pairs. -/
theorem link_ends : ∀ fo too : Orient,
    (fo.toChar, too.toChar,
      endChar (Link.fromEnd ⟨"A", fo, "B", too, .star⟩).2,
      endChar (Link.toEnd ⟨"A", fo, "B", too, .star⟩).2) ∈ Gen.linkEndTable := by
  intro fo too; cases fo <;> cases too <;> decide

end Gfa.Bridge.Geometry
