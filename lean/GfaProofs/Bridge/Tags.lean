import GfaModel.Field
import GfaGen.Tags
/-! Bridge for C20/C18: numeric array subtype ranges, default datatypes, `integer_type` at every boundary -/
namespace Gfa.Bridge.Tags

/-- T1: `NumericArray.SUBTYPE_RANGE` is the model's table (six subtypes) -/
theorem subtype_range : Gen.subtypeRange.length = 6 ∧
    ∀ p ∈ Gen.subtypeRange, Field.subtypeRange p.1 = some (p.2.1, p.2.2) := by decide

/-- T2: the documented default datatype of a new tag, per Python class of the value -/
theorem default_datatype : Gen.defaultDatatype =
    [("int", 'i'), ("negint", 'i'), ("float", 'f'), ("str", 'Z'), ("dict", 'J'), ("strlist", 'J'), ("intlist", 'B'),
     ("floatlist", 'B'), ("mixedlist", 'J'), ("ByteArray", 'H'), ("NumericArray", 'B')] := by decide

/-- T2: the running `integer_type` agrees with the model on every pair of subtype boundaries (±1) -/
theorem integer_type_samples : ∀ p ∈ Gen.integerTypeSamples, Field.integerType p.1.1 p.1.2 = p.2 := by
  decide +kernel

theorem tag_datatypes : Gen.tagDatatypes = ['A', 'i', 'f', 'Z', 'J', 'H', 'B'] := by decide

/-- datatypes parsed only on access at level 0 (the `delayed` flag of the levels model) -/
theorem delayed_parsing : Gen.delayedParsing =
    ["alignment_gfa1", "alignment_gfa2", "alignment_list_gfa1", "oriented_segments", "H", "J", "B"] := by decide

end Gfa.Bridge.Tags
