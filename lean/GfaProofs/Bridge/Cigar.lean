import GfaModel.Cigar
import GfaGen.Cigar
/-! Bridge: what the translator extracted from the running code = what the model assumes. -/
namespace Gfa.Bridge.Cigar

/-- `CIGAR.complement`'s per-operation map is the model's `Code.flip`. -/
theorem flip_table : ∀ c : Code, Gen.flipTable.lookup c = some c.flip := by
  intro c; cases c <;> decide

/-- `length_on_reference` / `length_on_query` count exactly the model's code sets. -/
theorem len_table : ∀ c : Code, Gen.lenTable.lookup c = some (c.onRef, c.onQuery) := by
  intro c; cases c <;> decide

/-- `complement` reverses the order of the operations. -/
theorem compl_reverses : Gen.complReverses = true := by decide

/-- `complement` leaves its receiver unchanged (no aliasing of operation objects). -/
theorem compl_pure : Gen.complPure = true := by decide

/-- `CIGAR.Operation.CODE` is exactly the model's code alphabet. -/
theorem codes_complete :
    (∀ c : Code, c.toChar ∈ Gen.cigarCodes) ∧ (∀ ch ∈ Gen.cigarCodes, (Code.ofChar? ch).isSome = true) ∧
    (∀ c : Code, (c.toChar ∈ Gen.cigarCodesGfa2) = (c.gfa2 = true)) := by
  refine ⟨?_, ?_, ?_⟩
  · intro c; cases c <;> decide
  · decide
  · intro c; cases c <;> decide

end Gfa.Bridge.Cigar
