import GfaGen.Canonical
import GfaModel.MergeGraph
/-! Bridge: `Link.is_canonical` and `LengthGFA1.length` (AST translations of the source) are the model's
    `Link.isCanonical` and `sLen .gfa1`. -/
namespace Gfa.Bridge.Canonical
open Gfa.G

/-- T3: the translated three-way comparison of the segment names, then "some orientation is +" -/
theorem isCanonical_eq (l : Link) : Gen.isCanonical l.frm l.to l.fo l.too = l.isCanonical := by
  unfold Gen.isCanonical Link.isCanonical
  by_cases h1 : l.frm < l.to
  · simp [h1]
  · by_cases h2 : l.to < l.frm
    · have h2' : l.frm > l.to := h2
      simp [h1, h2, h2']
    · have h2' : ¬ l.frm > l.to := h2
      simp only [h1, h2, h2', decide_false, Bool.false_eq_true, if_false]
      cases l.fo <;> cases l.too <;> decide

/-- T3: `segment.length` of a GFA1 segment - the LN tag when it is there and is not 0, else the length of the sequence,
    nothing for a placeholder - applied to the model's reading of the tag and of the sequence field, is `sLen` -/
theorem segLength_eq (r : Rec) :
    Gen.segLength (intTag? "LN" (sTags .gfa1 r)) (fun s => s == "*") (fun s => (s.length : Int)) (sSeq .gfa1 r) =
      sLen .gfa1 r := by
  unfold Gen.segLength sLen seqLen?
  cases h : intTag? "LN" (sTags .gfa1 r) with
  | none => simp
  | some n =>
    by_cases hn : n = 0
    · subst hn; simp
    · simp [hn]

end Gfa.Bridge.Canonical
