import GfaGen.Rgfa
import GfaModel.Rgfa
/-! Bridge: the rGFA tag table of gfapy/rgfa.py (regenerated) is the one the model checks. -/
namespace Gfa.Bridge.Rgfa
open Gfa.G

def asStrings (l : List (String × Char)) : List (String × String) := l.map (fun p => (p.1, String.singleton p.2))

theorem mandatory_table : Gen.rgfaMandatory = [("L", []), ("S", asStrings mandatoryS)] := by decide
theorem optional_table : Gen.rgfaOptional = [("L", asStrings optionalL), ("S", [])] := by decide

end Gfa.Bridge.Rgfa
