import GfaModel.Validate
import GfaProofs.C02
import GfaProofs.C03Perm
/-!
# C04 / C03 — the structural validation of a whole document (`Validate.lean`)

* `validate_ok_iff`: `Gfa.validate()` accepts exactly when none of its four checks fires;
* `validate_refs_real`: on a closed graph that validates, every segment reference of every line resolves to a
  segment line that is **not** a placeholder;
* `simple_virtual_iff`, `validate_simple`: for a document of segment/edge lines (any order of the lines), validation
  is refused with NotFoundError **exactly** when the document mentions a segment it does not define — no placeholder
  remains for an identifier the document defines, and one remains for every identifier it does not.
-/
namespace Gfa.C04Validate
open Gfa.G Gfa.C02 Gfa.C03

theorem validate_ok_iff (st : St) :
    validateGfa st = none ↔
      virtualSegment st = false ∧ pathLinkMissing st = false ∧ itemMissing st = false ∧ positionsWrong st = false := by
  unfold validateGfa
  cases h1 : virtualSegment st <;> cases h2 : pathLinkMissing st <;> cases h3 : itemMissing st <;>
    cases h4 : positionsWrong st <;> simp

theorem validate_notFound_iff (st : St) :
    validateGfa st = some .notFound ↔
      virtualSegment st = true ∨ pathLinkMissing st = true ∨ itemMissing st = true := by
  unfold validateGfa
  cases h1 : virtualSegment st <;> cases h2 : pathLinkMissing st <;> cases h3 : itemMissing st <;>
    cases h4 : positionsWrong st <;> simp

/-- on a closed graph that validates, every segment reference resolves to a real (not placeholder) segment line -/
theorem validate_refs_real (st : St) (hc : Closed st) (hv : validateGfa st = none) (r : Rec) (hr : r ∈ st.lines)
    (n : String) (hn : n ∈ r.segRefs) : ∃ q ∈ st.lines, q.rt = .S ∧ q.name = some n ∧ q.virt = false := by
  obtain ⟨q, hq, hrt, hname⟩ := (segOK_iff st n).mp ((hc r hr).1 n hn)
  refine ⟨q, hq, hrt, hname, ?_⟩
  have h1 := ((validate_ok_iff st).mp hv).1
  unfold virtualSegment at h1
  rw [List.any_eq_false] at h1
  have := h1 q hq
  simp only [hrt, beq_self_eq_true, Bool.true_and] at this
  simpa using this

/-- a document of segment/edge lines leaves a placeholder segment exactly when it mentions a segment it does not define -/
theorem simple_virtual_iff (v : Ver) (ls : List Rec) (hv : ValidSimple v ls) (st : St) (he : buildM v ls = .ok st) :
    virtualSegment st = false ↔ ∀ n ∈ mentioned ls, n ∈ defined ls := by
  obtain ⟨st', M, e, _, _, hm, hp⟩ := build_simple v ls hv
  rw [he] at e; cases e
  unfold virtualSegment
  rw [List.any_eq_false]
  constructor
  · intro h n hn
    apply Classical.byContradiction
    intro hnd
    have hmem : virtSeg v n ∈ st.lines := by
      rw [hp.mem_iff, List.mem_append]; right; exact List.mem_map.mpr ⟨n, (hm n).mpr ⟨hn, hnd⟩, rfl⟩
    have := h _ hmem
    simp [virtSeg_rt, virtSeg_virt] at this
  · intro h q hq
    rw [hp.mem_iff, List.mem_append, List.mem_map] at hq
    rcases hq with hq | ⟨n, hn, rfl⟩
    · have := (hv.simple q hq).1
      simp [this]
    · exact absurd (h n ((hm n).mp hn).1) ((hm n).mp hn).2

theorem simple_no_paths (v : Ver) (ls : List Rec) (hv : ValidSimple v ls) (st : St) (he : buildM v ls = .ok st) :
    pathLinkMissing st = false ∧ itemMissing st = false := by
  obtain ⟨st', M, e, _, _, hm, hp⟩ := build_simple v ls hv
  rw [he] at e; cases e
  have hrt : ∀ q ∈ st.lines, SimpleRt q.rt := by
    intro q hq
    rw [hp.mem_iff, List.mem_append, List.mem_map] at hq
    rcases hq with hq | ⟨n, _, rfl⟩
    · exact (hv.simple q hq).2.1
    · rw [virtSeg_rt]; exact Or.inl rfl
  constructor
  · unfold pathLinkMissing
    rw [Bool.and_eq_false_iff]; right
    rw [List.any_eq_false]
    intro q hq
    have := hrt q hq
    rcases this with h | h | h | h | h | h <;> simp [h]
  · unfold itemMissing
    rw [Bool.and_eq_false_iff]; right
    rw [List.any_eq_false]
    intro q hq
    have := hrt q hq
    rcases this with h | h | h | h | h | h <;> simp [h]

/-- **validation refuses a segment/edge document with NotFoundError exactly when it mentions an undefined segment**,
    in whatever order its lines arrived -/
theorem validate_simple (v : Ver) (ls : List Rec) (hv : ValidSimple v ls) (st : St) (he : buildM v ls = .ok st) :
    validateGfa st = some .notFound ↔ ∃ n ∈ mentioned ls, n ∉ defined ls := by
  rw [validate_notFound_iff]
  obtain ⟨h2, h3⟩ := simple_no_paths v ls hv st he
  have h1 := simple_virtual_iff v ls hv st he
  constructor
  · rintro (h | h | h)
    · apply Classical.byContradiction
      intro hcon
      have : ∀ n ∈ mentioned ls, n ∈ defined ls := by
        intro n hn
        apply Classical.byContradiction
        intro hd; exact hcon ⟨n, hn, hd⟩
      rw [h1.mpr this] at h; cases h
    · rw [h2] at h; cases h
    · rw [h3] at h; cases h
  · rintro ⟨n, hn, hd⟩
    left
    cases hvs : virtualSegment st with
    | true => rfl
    | false => exact absurd (h1.mp hvs n hn) hd

end Gfa.C04Validate
