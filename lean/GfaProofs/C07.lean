import GfaModel.Partial
import GfaProofs.C20
import GfaProofs.C01
/-!
# C07 — only gfapy.Error exceptions escape (modelled front end)

The parsing front end is written over partial Python primitives that *can* raise foreign exceptions
(`idx0`, `listIdx`, `pyInt`, `unhexlify`).  The theorems show that, with the guards the code has (validate the
text against the datatype's regular expression first; check emptiness and arity before indexing), no
foreign outcome is reachable, for every input string.  Partial by nature: resource exhaustion
(RecursionError) and exceptions inside C extension modules are not expressible in the model.
-/
namespace Gfa.C07
open Py RE

theorem pyInt_ok_of_accept (s : List Char) (h : Field.accept .i s = true) : ∃ v, pyInt s = .ok v := by
  have := (C20.int_accept_iff s).mp h
  cases hi : intOf? s with
  | none => simp [hi] at this
  | some v => exact ⟨v, by simp [pyInt, hi]⟩

theorem pyInt_ok_of_digits (ds : List Char) (h : allDigits ds = true) : ∃ v, pyInt ds = .ok v := by
  apply pyInt_ok_of_accept
  rw [C20.int_accept_iff]
  cases ds with
  | nil => simp [allDigits] at h
  | cons c cs =>
    have hc : isDigit c = true := by
      simp only [allDigits, List.all_cons, Bool.and_eq_true] at h; exact h.2.1
    have h3 : c ≠ '-' ∧ c ≠ '+' := by constructor <;> (rintro rfl; revert hc; decide)
    unfold intOf?
    split
    · simp_all
    · simp_all
    · simp [h]

theorem unhex_some : ∀ (s : List Char), (∀ c ∈ s, Field.isHex c = true) → s.length % 2 = 0 → (Field.unhex s).isSome = true
  | [], _, _ => rfl
  | [_], _, heven => by simp at heven
  | a :: b :: r, hhex, heven => by
    simp only [Field.unhex]
    have ha := hhex a (by simp)
    have hb := hhex b (by simp)
    simp only [ha, hb, Bool.and_self, if_true]
    have := unhex_some r (fun c hc => hhex c (by simp [hc])) (by simp at heven; omega)
    cases hr : Field.unhex r with
    | none => simp [hr] at this
    | some t => simp

theorem accept_H_facts (s : List Char) (h : Field.accept .H s = true) :
    (∀ c ∈ s, Field.isHex c = true) ∧ s.length % 2 = 0 := by
  simp only [Field.accept, Bool.and_eq_true, Grammar.re, Grammar.hexdig, accepts_plus_cls, Field.sideOk,
    beq_iff_eq, Bool.not_eq_true', List.all_eq_true] at h
  refine ⟨?_, h.2⟩
  intro c hc
  have := h.1.2 c hc
  simpa [inRanges, Field.isHex] using this

theorem unhexlify_ok_of_accept (s : List Char) (h : Field.accept .H s = true) : ∃ b, unhexlify s = .ok b := by
  obtain ⟨hhex, heven⟩ := accept_H_facts s h
  unfold unhexlify unhexlify.Lvl.unhexAny'
  have hup : (s.map fun c => if 'a' ≤ c && c ≤ 'f' then Char.ofNat (c.toNat - 32) else c) = s := by
    conv => rhs; rw [← List.map_id s]
    apply List.map_congr_left
    intro c hc
    have := hhex c hc
    have hnot : ('a' ≤ c && c ≤ 'f') = false := by
      simp only [Field.isHex, Bool.or_eq_true, Bool.and_eq_true, decide_eq_true_eq] at this
      rw [Bool.eq_false_iff]; intro hh
      simp only [Bool.and_eq_true, decide_eq_true_eq] at hh
      rcases this with ⟨_, h2⟩ | ⟨_, h2⟩
      · exact absurd (Char.le_trans hh.1 h2) (by decide)
      · exact absurd (Char.le_trans hh.1 h2) (by decide)
    simp [hnot]
  rw [hup]
  have := unhex_some s hhex heven
  cases hu : Field.unhex s with
  | none => simp [hu] at this
  | some b => exact ⟨b, rfl⟩

theorem idx0_ok_of_accept (s : List Char) (h : Field.accept .A s = true) : ∃ c, idx0 s = .ok c := by
  simp only [Field.accept, Bool.and_eq_true, Grammar.re, Grammar.printable] at h
  obtain ⟨c, rfl, _⟩ := (accepts_cls _ _).mp h.1
  exact ⟨c, rfl⟩

/-- **no tag value, of any datatype, makes the safe decoder raise a foreign exception** -/
theorem decodeTag_no_foreign (dt : Char) (s : List Char) : (decodeTag dt s).isForeign = false := by
  unfold decodeTag
  split
  · split
    · rename_i h; obtain ⟨v, hv⟩ := pyInt_ok_of_accept s h; simp [hv, Outcome.bind, Outcome.isForeign]
    · rfl
  · split <;> rfl
  · split
    · rename_i h; obtain ⟨c, hc⟩ := idx0_ok_of_accept s h; simp [hc, Outcome.bind, Outcome.isForeign]
    · rfl
  · split
    · rename_i h; obtain ⟨b, hb⟩ := unhexlify_ok_of_accept s h; simp [hb, Outcome.bind, Outcome.isForeign]
    · rfl
  · split <;> rfl
  · split <;> rfl
  · split <;> rfl
  · rfl

/-- a GFA2 position is `digits` or `digits$` -/
theorem accept_pos_shape (s : List Char) (h : Field.accept .posGfa2 s = true) :
    ∃ ds, allDigits ds = true ∧ (s = ds ∨ s = ds ++ ['$']) := by
  simp only [Field.accept, Bool.and_eq_true, Grammar.re] at h
  have hl := (accepts_iff _ _).mp h.1
  rw [lang_seq] at hl
  obtain ⟨s1, s2, rfl, h1, h2⟩ := hl
  have hd := (C20.lang_digits_iff s1).mp h1
  refine ⟨s1, hd, ?_⟩
  rcases (lang_opt _ _).mp h2 with rfl | h2
  · left; simp
  · obtain ⟨c, rfl, hc⟩ := (lang_cls _ _).mp h2
    right
    have : c = '$' := by
      simp only [RE.chr, inRanges, List.any_cons, List.any_nil, Bool.or_false, Bool.and_eq_true, decide_eq_true_eq] at hc
      exact Char.le_antisymm hc.2 hc.1
    rw [this]

theorem digits_last_not_dollar (ds : List Char) (h : allDigits ds = true) : ∀ r, ds.reverse ≠ '$' :: r := by
  intro r hr
  have hmem : '$' ∈ ds := by
    have : '$' ∈ ds.reverse := by rw [hr]; simp
    simpa using this
  simp only [allDigits, Bool.and_eq_true, List.all_eq_true] at h
  have := h.2 '$' hmem
  revert this; decide

/-- **positions: `int("")` on a bare `$`, or on any other text, cannot be reached** -/
theorem decodePos_no_foreign (s : List Char) : (decodePos s).isForeign = false := by
  unfold decodePos
  split
  · rfl
  · rename_i h
    have h' : Field.accept .posGfa2 s = true := by simpa using h
    obtain ⟨ds, hd, hs | hs⟩ := accept_pos_shape s h'
    · subst hs
      split
      · rename_i r hr; exact absurd hr (digits_last_not_dollar _ hd r)
      · obtain ⟨v, hv⟩ := pyInt_ok_of_digits _ hd
        simp [hv, Outcome.bind, Outcome.isForeign]
    · subst hs
      simp only [List.reverse_append, List.reverse_cons, List.reverse_nil, List.nil_append, List.singleton_append,
        List.reverse_reverse]
      obtain ⟨v, hv⟩ := pyInt_ok_of_digits _ hd
      simp [hv, Outcome.bind, Outcome.isForeign]

theorem listIdx_ok {α} (l : List α) (i : Nat) (h : i < l.length) : ∃ a, listIdx l i = .ok a := by
  unfold listIdx
  rw [List.getElem?_eq_getElem h]
  exact ⟨_, rfl⟩

/-- the empty string is refused with a gfapy error, every other string has a record type -/
theorem recordType_no_foreign (s : List Char) : (recordType s).isForeign = false := by
  unfold recordType
  split
  · rfl
  · have hne := C01.splitOn_ne_nil '\t' s
    have : 0 < (Field.splitOn '\t' s).length := by
      cases h : Field.splitOn '\t' s with
      | nil => exact absurd h hne
      | cons _ _ => simp
    obtain ⟨a, ha⟩ := listIdx_ok _ 0 this
    rw [ha]; rfl

theorem fold_pos_no_foreign (fs : List (List Char)) (idxs : List Nat) (h : ∀ i ∈ idxs, i < fs.length) :
    ∃ l, idxs.foldr (fun i (acc : Outcome (List (List Char))) => acc.bind fun l => (listIdx fs i).bind fun f => Outcome.ok (f :: l))
      (Outcome.ok []) = .ok l := by
  induction idxs with
  | nil => exact ⟨[], rfl⟩
  | cons i is ih =>
    obtain ⟨l, hl⟩ := ih (fun j hj => h j (by simp [hj]))
    obtain ⟨f, hf⟩ := listIdx_ok fs i (h i (by simp))
    refine ⟨f :: l, ?_⟩
    simp only [List.foldr_cons]
    rw [hl]
    simp only [Outcome.bind, hf]

theorem fold_tags_no_foreign (tags : List Line.Tag) :
    (tags.foldr (fun t (acc : Outcome Unit) => acc.bind fun _ => (decodeTag t.dt t.value).bind fun _ => Outcome.ok ())
      (Outcome.ok ())).isForeign = false := by
  induction tags with
  | nil => rfl
  | cons t ts ih =>
    simp only [List.foldr_cons]
    cases hacc : ts.foldr (fun t (acc : Outcome Unit) => acc.bind fun _ => (decodeTag t.dt t.value).bind fun _ => Outcome.ok ()) (Outcome.ok ()) with
    | ok _ =>
      simp only [Outcome.bind]
      have := decodeTag_no_foreign t.dt t.value
      cases hd : decodeTag t.dt t.value with
      | ok _ => rfl
      | gerr _ => rfl
      | foreign _ => simp [hd, Outcome.isForeign] at this
    | gerr _ => rfl
    | foreign _ => simp [hacc, Outcome.isForeign] at ih

@[simp] theorem bind_ok {α β} (a : α) (f : α → Outcome β) : (Outcome.ok a).bind f = f a := rfl
@[simp] theorem bind_gerr {α β} (c : String) (f : α → Outcome β) : (Outcome.gerr c : Outcome α).bind f = .gerr c := rfl
@[simp] theorem bind_foreign {α β} (e : String) (f : α → Outcome β) : (Outcome.foreign e : Outcome α).bind f = .foreign e := rfl

/-- **whatever text is offered as a line, parsing it succeeds or raises a gfapy error** -/
theorem parseLine_no_foreign (dts : List Datatype) (s : List Char) : (Py.parseLine dts s).isForeign = false := by
  unfold Py.parseLine
  have hr := recordType_no_foreign s
  cases hrt : recordType s with
  | foreign e => simp [hrt, Outcome.isForeign] at hr
  | gerr c => rfl
  | ok rt =>
    rw [bind_ok]
    simp only []
    split
    · rfl
    · rename_i hlen
      obtain ⟨l, hl⟩ := fold_pos_no_foreign ((Field.splitOn '\t' s).drop 1) (List.range dts.length)
        (fun i hi => by have := List.mem_range.mp hi; omega)
      rw [hl, bind_ok]
      split
      · rfl
      split
      · rfl
      · rename_i tags _
        have ht := fold_tags_no_foreign tags
        cases hf : tags.foldr (fun t (acc : Outcome Unit) => acc.bind fun _ => (decodeTag t.dt t.value).bind fun _ => Outcome.ok ()) (Outcome.ok ()) with
        | ok _ => rfl
        | gerr _ => rfl
        | foreign _ => simp [hf, Outcome.isForeign] at ht

-- the guards are necessary: without them the primitives do fail
example : (idx0 []).isForeign = true ∧ (pyInt []).isForeign = true ∧ (unhexlify ['A']).isForeign = true ∧
    (pyInt ['1', '.', '5']).isForeign = true := by decide

end Gfa.C07
