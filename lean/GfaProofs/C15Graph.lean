import GfaProofs.C02Rename
import GfaModel.MultiplyGraph
/-!
# C15 — multiplication on the graph: the copies are faithful, nothing else changes, and the invariants survive

`GfaModel/MultiplyGraph.lean` states `Gfa.multiply(segment, k, copy_names)` (no link distribution) on the model Gfa and
is compared with the library's complete observation after the call.  Proved:

* `multiply_lines`: the result consists of the old lines — only the count tags of the segment and of its dovetails and
  containments are divided — followed, for every copy name, by a copy of the segment under that name and a copy of each
  of those edges with the segment's identifier replaced by the copy's and its own identifier dropped;
* `multiply_frame`: a line that is neither the segment nor one of its dovetails/containments is literally unchanged;
* `multiply_segments`: the segments afterwards are the old ones and the copies;
* `multiply_nodup`, `multiply_closed`: identifiers stay pairwise distinct and the reference graph stays closed
  (C09 / C02 for this operation);
* factor 1 changes nothing, factor 0 is `rm`.
-/
namespace Gfa.C15
open G C09 C02

-- ------------------------------------------------------------------ count division touches count tags only
theorem idPrefix : "ID:Z:".toList = ['I', 'D', ':', 'Z', ':'] := by decide

theorem count_not_id (cs : List Char) (h : isCountTagL cs = true) :
    ['I', 'D', ':', 'Z', ':'].isPrefixOf cs = false ∧ ∀ rest, ['I', 'D', ':', 'Z', ':'].isPrefixOf (cs.take 5 ++ rest) = false := by
  unfold isCountTagL at h
  split at h
  · constructor
    · simp [List.isPrefixOf]
    · intro rest; simp [List.isPrefixOf]
  · cases h

theorem divTag_id (k : Nat) (t : String) (h : isIdTag t = true) : divTag k t = t := by
  unfold divTag
  cases hc : isCountTagL t.toList with
  | false => simp
  | true =>
    have := (count_not_id _ hc).1
    unfold isIdTag at h
    rw [idPrefix, this] at h; cases h

theorem isIdTag_divTag (k : Nat) (t : String) : isIdTag (divTag k t) = isIdTag t := by
  unfold divTag
  cases hc : isCountTagL t.toList with
  | false => simp
  | true =>
    simp only [if_true]
    split
    · rename_i x _
      unfold isIdTag
      rw [idPrefix, String.toList_ofList, (count_not_id _ hc).2, (count_not_id _ hc).1]
    · rfl

theorem idTag_map_divTag (k : Nat) (tags : List String) : idTag (tags.map (divTag k)) = idTag tags := by
  unfold idTag
  rw [List.find?_map]
  have : (isIdTag ∘ divTag k) = isIdTag := by funext t; exact isIdTag_divTag k t
  rw [this]
  cases h : tags.find? isIdTag with
  | none => simp
  | some t =>
    have := List.find?_some h
    simp [divTag_id k t this]

theorem divCounts_rt (k : Nat) (r : Rec) : (divCounts k r).rt = r.rt := rfl
theorem divCounts_virt (k : Nat) (r : Rec) : (divCounts k r).virt = r.virt := rfl

theorem divCounts_fld (k : Nat) (r : Rec) (i : Nat) (h : i < npos r.rt) : fld (divCounts k r) i = fld r i := by
  unfold fld divCounts
  exact getD_take_append_map _ i _ _ h

theorem divCounts_tags (k : Nat) (r : Rec) : (divCounts k r).fields.drop (npos r.rt) = (r.fields.drop (npos r.rt)).map (divTag k) := by
  unfold divCounts
  exact drop_take_append_map _ _ _

theorem divCounts_name (k : Nat) (r : Rec) : (divCounts k r).name = r.name := by
  unfold Rec.name
  rw [divCounts_rt]
  cases hrt : r.rt
  all_goals simp only []
  all_goals first
    | (have := divCounts_tags k r; rw [hrt] at this; simp only [npos] at this; rw [this, idTag_map_divTag])
    | (rw [divCounts_fld k r 0 (by rw [hrt]; decide)])
    | rfl

theorem divCounts_segRefs (k : Nat) (r : Rec) : (divCounts k r).segRefs = r.segRefs := by
  unfold Rec.segRefs
  rw [divCounts_rt]
  cases hrt : r.rt <;> simp only [] <;>
    first
    | rfl
    | (rw [divCounts_fld k r 0 (by rw [hrt]; decide), divCounts_fld k r 2 (by rw [hrt]; decide)])
    | (rw [divCounts_fld k r 1 (by rw [hrt]; decide), divCounts_fld k r 2 (by rw [hrt]; decide)])
    | (rw [divCounts_fld k r 1 (by rw [hrt]; decide)])
    | (rw [divCounts_fld k r 0 (by rw [hrt]; decide)])

theorem divCounts_itemRefs (k : Nat) (r : Rec) : (divCounts k r).itemRefs = r.itemRefs := by
  unfold Rec.itemRefs
  rw [divCounts_rt]
  cases hrt : r.rt <;> simp only [] <;>
    first
    | rfl
    | (rw [divCounts_fld k r 1 (by rw [hrt]; decide)])

-- ------------------------------------------------------------------ the shape of the result
/-- the old lines with the counts divided -/
def divided (st : St) (s : String) (k : Nat) : List Rec :=
  st.lines.map (fun r => if (r.rt == .S && r.name == some s) || copiedWith s r then divCounts k r else r)

/-- **what multiply builds** (factor ≥ 2): the old lines with divided counts, then the copies -/
theorem multiply_lines (st st' : St) (s : String) (k : Nat) (names : List String) (hk : 2 ≤ k)
    (he : multiply st s k names = .ok st') :
    st'.ver = st.ver ∧ st'.lines = divided st s k ++ names.flatMap (copiesFor (divided st s k) s) ∧
    (∀ n ∈ names, hasName st n = false) ∧ hasDup names = false := by
  unfold multiply at he
  split at he
  · cases he
  · rw [if_neg (by omega), if_neg (by omega)] at he
    split at he
    · cases he
    · rename_i hg
      injection he with he
      subst he
      simp only [Bool.or_eq_true, not_or, Bool.not_eq_true] at hg
      refine ⟨rfl, rfl, ?_, hg.2⟩
      intro n hn
      have := hg.1
      rw [List.any_eq_false] at this
      simpa using this n hn

/-- factor 1 changes nothing; factor 0 removes the segment with its dependants -/
theorem multiply_one (st : St) (s : String) (names : List String) (h : (findSeg st s).isSome = true) :
    multiply st s 1 names = .ok st := by
  have : (findSeg st s).isNone = false := by cases hf : findSeg st s <;> simp_all
  unfold multiply; simp [this]

theorem multiply_zero (st : St) (s : String) (names : List String) (h : (findSeg st s).isSome = true) :
    multiply st s 0 names = rm st s := by
  have : (findSeg st s).isNone = false := by cases hf : findSeg st s <;> simp_all
  unfold multiply; simp [this]

/-- **the rest of the graph is untouched**: a line that is neither the segment nor one of its dovetails/containments -/
theorem multiply_frame (st : St) (s : String) (k : Nat) (r : Rec)
    (h1 : ¬ (r.rt = .S ∧ r.name = some s)) (h2 : copiedWith s r = false) :
    (if (r.rt == .S && r.name == some s) || copiedWith s r then divCounts k r else r) = r := by
  have : ((r.rt == .S && r.name == some s) || copiedWith s r) = false := by
    rw [h2, Bool.or_false]
    cases hb : (r.rt == .S && r.name == some s) with
    | false => rfl
    | true => exfalso; apply h1; simpa using hb
  rw [this]; simp

theorem divided_name (st : St) (s : String) (k : Nat) : namesOf (divided st s k) = namesOf st.lines := by
  unfold divided namesOf
  rw [List.filterMap_map]
  apply filterMap_congr'
  intro r _
  simp only [Function.comp]
  split
  · exact divCounts_name k r
  · rfl

theorem mem_divided (st : St) (s : String) (k : Nat) (q : Rec) (hq : q ∈ divided st s k) :
    ∃ r ∈ st.lines, q.rt = r.rt ∧ q.name = r.name ∧ q.segRefs = r.segRefs ∧ q.itemRefs = r.itemRefs := by
  unfold divided at hq
  rw [List.mem_map] at hq
  obtain ⟨r, hr, rfl⟩ := hq
  refine ⟨r, hr, ?_⟩
  split
  · exact ⟨divCounts_rt k r, divCounts_name k r, divCounts_segRefs k r, divCounts_itemRefs k r⟩
  · exact ⟨rfl, rfl, rfl, rfl⟩

theorem divided_of_mem (st : St) (s : String) (k : Nat) (r : Rec) (hr : r ∈ st.lines) :
    ∃ q ∈ divided st s k, q.rt = r.rt ∧ q.name = r.name := by
  refine ⟨_, List.mem_map.mpr ⟨r, hr, rfl⟩, ?_⟩
  split
  · exact ⟨divCounts_rt k r, divCounts_name k r⟩
  · exact ⟨rfl, rfl⟩

-- ------------------------------------------------------------------ the copies
theorem dropId_rt (r : Rec) : (dropId r).rt = r.rt := by unfold dropId; split <;> rfl

theorem idTag_filter_none (tags : List String) : idTag (tags.filter (fun t => !isIdTag t)) = none := by
  unfold idTag
  have : (tags.filter (fun t => !isIdTag t)).find? isIdTag = none := by
    rw [List.find?_eq_none]
    intro t ht
    have := (List.mem_filter.mp ht).2
    simpa using this
  rw [this]

theorem dropId_name (r : Rec) (h : r.rt = .L ∨ r.rt = .C ∨ r.rt = .E) : (dropId r).name = none := by
  unfold dropId Rec.name
  rcases h with h | h | h <;> simp only [h]
  · have e5 : npos RT.L = 5 := rfl
    rw [← e5, drop_take_append_filter]; exact idTag_filter_none _
  · have e6 : npos RT.C = 6 := rfl
    rw [← e6, drop_take_append_filter]; exact idTag_filter_none _
  · simp [fld]
where
  drop_take_append_filter {α} (k : Nat) (l : List α) (p : α → Bool) :
      (l.take k ++ (l.drop k).filter p).drop k = (l.drop k).filter p := by
    rcases Nat.le_total k l.length with h | h
    · rw [List.drop_append_of_le_length (by simp [h])]
      simp [List.drop_eq_nil_of_le, h]
    · simp [List.drop_eq_nil_of_le h, List.take_of_length_le h]

theorem copiedWith_rt (s : String) (r : Rec) (h : copiedWith s r = true) : r.rt = .L ∨ r.rt = .C ∨ r.rt = .E := by
  unfold copiedWith at h
  simp only [Bool.and_eq_true, Bool.or_eq_true, beq_iff_eq] at h
  rcases h.1 with (h' | h') | h'
  · exact Or.inl h'
  · exact Or.inr (Or.inl h')
  · exact Or.inr (Or.inr h')

theorem getD_take_append_filter (k i : Nat) (l : List String) (p : String → Bool) (h : i < k) :
    (l.take k ++ (l.drop k).filter p).getD i "" = l.getD i "" := by
  rcases Nat.lt_or_ge i l.length with hl | hl
  · have : i < (l.take k).length := by simp; omega
    simp [List.getD_eq_getElem?_getD, List.getElem?_append_left this, h]
  · have e1 : l.take k = l := List.take_of_length_le (by omega)
    have e2 : l.drop k = [] := List.drop_eq_nil_of_le (by omega)
    simp [e1, e2]

theorem dropId_segRefs (r : Rec) (h : r.rt = .L ∨ r.rt = .C ∨ r.rt = .E) : (dropId r).segRefs = r.segRefs := by
  unfold dropId Rec.segRefs
  rcases h with h | h | h <;> simp only [h, fld, npos]
  · rw [getD_take_append_filter _ 0 _ _ (by omega), getD_take_append_filter _ 2 _ _ (by omega)]
  · rw [getD_take_append_filter _ 0 _ _ (by omega), getD_take_append_filter _ 2 _ _ (by omega)]
  · rw [getD_cons_drop_one _ _ 1 (by omega), getD_cons_drop_one _ _ 2 (by omega)]

/-- the lines added for one copy name: the segment's copy, or the copy of an edge with the identifier substituted -/
theorem mem_copiesFor (lines : List Rec) (s cn : String) (q : Rec) (hq : q ∈ copiesFor lines s cn) :
    (∃ seg ∈ lines, seg.rt = .S ∧ seg.name = some s ∧ q = setName cn seg) ∨
    (∃ e ∈ lines, copiedWith s e = true ∧ q = renameIn s cn (dropId e)) := by
  unfold copiesFor at hq
  rcases List.mem_append.mp hq with h | h
  · left
    obtain ⟨seg, hseg, rfl⟩ := List.mem_map.mp h
    have hf := List.mem_filter.mp (List.mem_of_mem_take hseg)
    simp only [Bool.and_eq_true, beq_iff_eq] at hf
    exact ⟨seg, hf.1, hf.2.1, hf.2.2, rfl⟩
  · right
    obtain ⟨e, he, rfl⟩ := List.mem_map.mp h
    exact ⟨e, (List.mem_filter.mp he).1, (List.mem_filter.mp he).2, rfl⟩

/-- identifiers introduced by one copy name: the copy name (once), when the segment exists -/
theorem namesOf_copiesFor (lines : List Rec) (s cn : String) (hcn : cn ≠ "*") :
    namesOf (copiesFor lines s cn) = if (lines.filter (fun r => r.rt == .S && r.name == some s)).isEmpty then [] else [cn] := by
  unfold copiesFor
  rw [namesOf_append]
  have hedges : namesOf ((lines.filter (copiedWith s)).map (fun e => renameIn s cn (dropId e))) = [] := by
    unfold namesOf
    rw [List.filterMap_map, List.filterMap_eq_nil_iff]
    intro e he
    simp only [Function.comp]
    rw [renameIn_name]
    exact dropId_name e (copiedWith_rt s e (List.mem_filter.mp he).2)
  rw [hedges, List.append_nil]
  cases hf : lines.filter (fun r => r.rt == .S && r.name == some s) with
  | nil => simp [namesOf]
  | cons seg rest =>
    have hseg : seg.rt = .S ∧ seg.name = some s := by
      have : seg ∈ lines.filter (fun r => r.rt == .S && r.name == some s) := by rw [hf]; simp
      have := (List.mem_filter.mp this).2
      simpa using this
    simp only [List.take, List.map_cons, List.map_nil, List.isEmpty_cons, Bool.false_eq_true, if_false]
    rw [namesOf_single_some _ cn (setName_name_some cn seg s hseg.2 hcn)]

-- ------------------------------------------------------------------ invariants
theorem hasDup_false_nodup : ∀ (l : List String), hasDup l = false → l.Nodup := by
  intro l
  induction l with
  | nil => intro _; exact List.nodup_nil
  | cons x xs ih =>
    intro h
    simp only [hasDup, Bool.or_eq_false_iff] at h
    rw [List.nodup_cons]
    exact ⟨by simpa using h.1, ih h.2⟩

theorem namesOf_flatMap_copies (lines : List Rec) (s : String) (names : List String) (hgood : ∀ cn ∈ names, cn ≠ "*")
    (hseg : (lines.filter (fun r => r.rt == .S && r.name == some s)).isEmpty = false) :
    namesOf (names.flatMap (copiesFor lines s)) = names := by
  induction names with
  | nil => rfl
  | cons cn rest ih =>
    simp only [List.flatMap_cons, namesOf_append]
    rw [namesOf_copiesFor lines s cn (hgood cn (by simp)), hseg, ih (fun c hc => hgood c (by simp [hc]))]
    simp

theorem divided_hasSeg (st : St) (s : String) (k : Nat) (h : (findSeg st s).isSome = true) :
    ((divided st s k).filter (fun r => r.rt == .S && r.name == some s)).isEmpty = false := by
  obtain ⟨r, hr, hrt, hn⟩ := (segOK_iff st s).mp h
  obtain ⟨q, hq, hqrt, hqn⟩ := divided_of_mem st s k r hr
  have : q ∈ (divided st s k).filter (fun r => r.rt == .S && r.name == some s) := by
    rw [List.mem_filter]; refine ⟨hq, ?_⟩; simp [hqrt, hrt, hqn, hn]
  cases hf : (divided st s k).filter (fun r => r.rt == .S && r.name == some s) with
  | nil => rw [hf] at this; cases this
  | cons _ _ => rfl

theorem multiply_hasSeg (st st' : St) (s : String) (k : Nat) (names : List String)
    (he : multiply st s k names = .ok st') (hk : 2 ≤ k) : (findSeg st s).isSome = true := by
  unfold multiply at he
  split at he
  · cases he
  · rename_i h; cases hf : findSeg st s <;> simp_all

/-- **identifiers stay pairwise distinct**: the copies carry the (new, distinct) copy names, copied edges none -/
theorem multiply_nodup (st st' : St) (s : String) (k : Nat) (names : List String) (hk : 2 ≤ k)
    (hgood : ∀ cn ∈ names, cn ≠ "*") (hnd : NoDup st) (he : multiply st s k names = .ok st') : NoDup st' := by
  obtain ⟨_, hl, hfree, hdup⟩ := multiply_lines st st' s k names hk he
  have hseg := multiply_hasSeg st st' s k names he hk
  unfold NoDup
  rw [names_eq, hl, namesOf_append, divided_name, namesOf_flatMap_copies _ s names hgood (divided_hasSeg st s k hseg),
    List.nodup_append]
  refine ⟨hnd, hasDup_false_nodup names hdup, ?_⟩
  intro a ha b hb hab
  subst hab
  have := hfree a hb
  rw [← names_eq] at ha
  have h2 := (hasName_iff st a).mpr ha
  rw [this] at h2; cases h2

/-- the segments afterwards: the old ones and the copies -/
theorem multiply_segments (st st' : St) (s : String) (k : Nat) (names : List String) (hk : 2 ≤ k)
    (hgood : ∀ cn ∈ names, cn ≠ "*") (he : multiply st s k names = .ok st') (n : String) :
    (findSeg st' n).isSome = true ↔ (findSeg st n).isSome = true ∨ n ∈ names := by
  obtain ⟨_, hl, _, _⟩ := multiply_lines st st' s k names hk he
  have hseg := multiply_hasSeg st st' s k names he hk
  have h1 := segOK_iff st' n
  have h0 := segOK_iff st n
  unfold SegOK at h1 h0
  rw [h1, h0, hl]
  constructor
  · rintro ⟨q, hq, hrt, hn⟩
    rcases List.mem_append.mp hq with h | h
    · obtain ⟨r, hr, e1, e2, _, _⟩ := mem_divided st s k q h
      exact Or.inl ⟨r, hr, by rw [← e1]; exact hrt, by rw [← e2]; exact hn⟩
    · right
      obtain ⟨cn, hcn, hq'⟩ := List.mem_flatMap.mp h
      rcases mem_copiesFor _ s cn q hq' with ⟨seg, _, _, hsn, rfl⟩ | ⟨e, _, hce, rfl⟩
      · rw [setName_name_some cn seg s hsn (hgood cn hcn)] at hn
        rw [← Option.some.inj hn]; exact hcn
      · rw [renameIn_name, dropId_name e (copiedWith_rt s e hce)] at hn; cases hn
  · rintro (⟨r, hr, hrt, hn⟩ | hn)
    · obtain ⟨q, hq, e1, e2⟩ := divided_of_mem st s k r hr
      exact ⟨q, List.mem_append_left _ hq, by rw [e1]; exact hrt, by rw [e2]; exact hn⟩
    · -- the copy of the segment under the name n
      cases hf : (divided st s k).filter (fun r => r.rt == .S && r.name == some s) with
      | nil => have := divided_hasSeg st s k hseg; rw [hf] at this; cases this
      | cons seg rest =>
        have hsm : seg ∈ (divided st s k).filter (fun r => r.rt == .S && r.name == some s) := by rw [hf]; simp
        have hs2 := (List.mem_filter.mp hsm).2
        simp only [Bool.and_eq_true, beq_iff_eq] at hs2
        refine ⟨setName n seg, ?_, by rw [setName_rt]; exact hs2.1, setName_name_some n seg s hs2.2 (hgood n hn)⟩
        apply List.mem_append_right
        rw [List.mem_flatMap]
        refine ⟨n, hn, ?_⟩
        unfold copiesFor
        apply List.mem_append_left
        rw [hf]; simp

/-- **the reference graph stays closed**: the copied edges refer to the copy (which exists) and to the old neighbours -/
theorem multiply_closed (st st' : St) (s : String) (k : Nat) (names : List String) (hk : 2 ≤ k)
    (hs : s ≠ "") (hgood : ∀ cn ∈ names, goodId cn) (hc : Closed st) (he : multiply st s k names = .ok st') :
    Closed st' := by
  have hgood' : ∀ cn ∈ names, cn ≠ "*" := fun cn h => (hgood cn h).2.1
  obtain ⟨_, hl, _, _⟩ := multiply_lines st st' s k names hk he
  have hsegs := multiply_segments st st' s k names hk hgood' he
  -- identifiers in use before stay in use
  have hnames : ∀ n, NameOK st n → NameOK st' n := by
    intro n hn
    rcases hn with h | h
    · exact Or.inl h
    · right
      obtain ⟨r, hr, hrn⟩ := (hasName_iff' st n).mp h
      obtain ⟨q, hq, _, e2⟩ := divided_of_mem st s k r hr
      rw [hasName_iff']
      exact ⟨q, by rw [hl]; exact List.mem_append_left _ hq, by rw [e2]; exact hrn⟩
  intro q hq
  rw [hl] at hq
  rcases List.mem_append.mp hq with h | h
  · obtain ⟨r, hr, _, _, e3, e4⟩ := mem_divided st s k q h
    have hcr := hc r hr
    constructor
    · intro n hn; rw [e3] at hn
      exact (hsegs n).mpr (Or.inl (hcr.1 n hn))
    · intro n hn; rw [e4] at hn
      exact hnames n (hcr.2 n hn)
  · obtain ⟨cn, hcn, hq'⟩ := List.mem_flatMap.mp h
    rcases mem_copiesFor _ s cn q hq' with ⟨seg, hsegm, hsrt, hsn, rfl⟩ | ⟨e, hem, hce, rfl⟩
    · -- the copy of the segment: a segment has no references
      have hF : seg.rt ≠ .F := by rw [hsrt]; intro h; cases h
      obtain ⟨r1, r2⟩ := setName_refs cn seg hF
      obtain ⟨r, hr, e1, _, e3, e4⟩ := mem_divided st s k seg hsegm
      have hcr := hc r hr
      constructor
      · intro n hn; rw [r1, e3] at hn
        exact (hsegs n).mpr (Or.inl (hcr.1 n hn))
      · intro n hn; rw [r2, e4] at hn
        exact hnames n (hcr.2 n hn)
    · -- the copy of an edge
      have hrt := copiedWith_rt s e hce
      obtain ⟨r, hr, e1, _, e3, e4⟩ := mem_divided st s k e hem
      have hcr := hc r hr
      constructor
      · intro n hn
        rw [renameIn_segRefs s cn _ hs (hgood cn hcn), dropId_segRefs e hrt, e3, List.mem_map] at hn
        obtain ⟨m, hm, rfl⟩ := hn
        unfold sub
        split
        · exact (hsegs cn).mpr (Or.inr hcn)
        · exact (hsegs m).mpr (Or.inl (hcr.1 m hm))
      · intro n hn
        rw [renameIn_itemRefs s cn _ hs (hgood cn hcn)] at hn
        have : (dropId e).itemRefs = [] := by
          apply itemRefs_nongroup
          · rw [dropId_rt]; rcases hrt with h | h | h <;> rw [h] <;> intro hh <;> cases hh
          · rw [dropId_rt]; rcases hrt with h | h | h <;> rw [h] <;> intro hh <;> cases hh
        rw [this] at hn; cases hn

-- non-vacuity: a segment with an ID-tagged link and a containment is multiplied by 2 (count division is exercised by
-- the correspondence: `decide` cannot unfold the well-founded decimal printer)
example :
    (multiply ⟨.gfa1, [⟨.S, ["A", "*", "xx:Z:a"], false⟩, ⟨.S, ["B", "*"], false⟩,
      ⟨.L, ["A", "+", "B", "-", "*", "ID:Z:l1"], false⟩, ⟨.C, ["B", "+", "A", "+", "0", "*"], false⟩]⟩
      "A" 2 ["A*2"]).toOption.map (fun st => st.lines.map (·.fields)) =
    some [["A", "*", "xx:Z:a"], ["B", "*"], ["A", "+", "B", "-", "*", "ID:Z:l1"], ["B", "+", "A", "+", "0", "*"],
      ["A*2", "*", "xx:Z:a"], ["A*2", "+", "B", "-", "*"], ["B", "+", "A*2", "+", "0", "*"]] := by
  decide

end Gfa.C15
