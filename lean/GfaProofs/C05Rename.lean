import GfaProofs.C02Rename
import GfaProofs.C05
/-!
# C05, the rename clause: "renaming rewrites the identifier wherever it is mentioned and nothing else"

* `rename_mentions`: after `line.name = b` every record mentions `sub a b n` exactly where it mentioned `n`
  (segment references of every record when a segment is renamed, group items always);
* `rename_frame`: a record that does not mention `a` (and is not the renamed line) is literally unchanged;
* `rename_carrier`: the renamed line carries `b`, every other line keeps its identifier and record type;
* the number and order of the lines are unchanged.
-/
namespace Gfa.C05
open G C09 C02

theorem modAt_id (l : List String) (i : Nat) (g : String → String) (h : g (l.getD i "") = l.getD i "") :
    modAt l i g = l := by
  induction l generalizing i with
  | nil => rfl
  | cons x xs ih =>
    cases i with
    | zero => simp only [modAt]; simp at h; rw [h]
    | succ j => simp only [modAt]; rw [ih j (by simpa using h)]

theorem joinStr_splitStr (sep : Char) (s : String) : joinStr sep (splitStr sep s) = s := by
  unfold joinStr splitStr
  rw [List.map_map]
  have : (String.toList ∘ String.ofList) = id := by funext x; simp
  rw [this, List.map_id, C01.intercalate_splitOn]
  simp

theorem renameOriented_id (a b s : String) (h : (splitOriented s).1 ≠ a) : renameOriented a b s = s := by
  rw [renameOriented_def, if_neg h]

theorem map_id_of {α} (l : List α) (f : α → α) (h : ∀ x ∈ l, f x = x) : l.map f = l := by
  induction l with
  | nil => rfl
  | cons x xs ih => simp [h x (by simp), ih (fun y hy => h y (by simp [hy]))]

/-- **a record that does not mention the identifier is left exactly as it is** -/
theorem renameIn_frame (a b : String) (r : Rec) (ha : a ≠ "") (h1 : a ∉ r.segRefs) (h2 : a ∉ r.itemRefs) :
    renameIn a b r = r := by
  have hs : ∀ x : String, x ≠ a → (fun s => if s = a then b else s) x = x := fun x hx => by simp [hx]
  have hro0 : renameOriented a b "" = "" := renameOriented_empty a b ha
  unfold renameIn
  cases hrt : r.rt <;> simp only [Rec.segRefs, Rec.itemRefs, fld, hrt, List.mem_cons, List.mem_map, List.mem_filter,
    not_or, List.not_mem_nil, not_false_eq_true, List.mem_singleton] at h1 h2 ⊢
  · -- L
    have e0 := modAt_id r.fields 0 (fun s => if s = a then b else s) (hs _ (Ne.symm h1.1))
    have e2 := modAt_id r.fields 2 (fun s => if s = a then b else s) (hs _ (Ne.symm h1.2.1))
    rw [e0, e2]; cases r; simp_all
  · -- C
    have e0 := modAt_id r.fields 0 (fun s => if s = a then b else s) (hs _ (Ne.symm h1.1))
    have e2 := modAt_id r.fields 2 (fun s => if s = a then b else s) (hs _ (Ne.symm h1.2.1))
    rw [e0, e2]; cases r; simp_all
  · -- P
    have e1 := modAt_id r.fields 1 (fun s => joinStr ',' ((splitStr ',' s).map (renameOriented a b))) (by
      show joinStr ',' ((splitStr ',' (r.fields.getD 1 "")).map (renameOriented a b)) = _
      rw [map_id_of, joinStr_splitStr]
      intro x hx
      apply renameOriented_id
      intro h
      exact h1 ⟨x, hx, h⟩)
    rw [e1]; cases r; simp_all
  · -- E
    have e1 := modAt_id r.fields 1 (renameOriented a b) (renameOriented_id a b _ (Ne.symm h1.1))
    have e2 := modAt_id r.fields 2 (renameOriented a b) (renameOriented_id a b _ (Ne.symm h1.2.1))
    rw [e1, e2]; cases r; simp_all
  · -- G
    have e1 := modAt_id r.fields 1 (renameOriented a b) (renameOriented_id a b _ (Ne.symm h1.1))
    have e2 := modAt_id r.fields 2 (renameOriented a b) (renameOriented_id a b _ (Ne.symm h1.2.1))
    rw [e1, e2]; cases r; simp_all
  · -- F
    have e0 := modAt_id r.fields 0 (fun s => if s = a then b else s) (hs _ (Ne.symm h1.1))
    rw [e0]; cases r; simp_all
  · -- O
    have e1 := modAt_id r.fields 1 (fun s => joinStr ' ' ((splitStr ' ' s).map (renameOriented a b))) (by
      show joinStr ' ' ((splitStr ' ' (r.fields.getD 1 "")).map (renameOriented a b)) = _
      rw [map_id_of, joinStr_splitStr]
      intro x hx
      by_cases hx0 : x = ""
      · subst hx0; exact hro0
      · apply renameOriented_id
        intro h
        exact h2 ⟨x, ⟨hx, by simpa using hx0⟩, h⟩)
    rw [e1]; cases r; simp_all
  · -- U
    have e1 := modAt_id r.fields 1 (fun s => joinStr ' ' ((splitStr ' ' s).map (fun s => if s = a then b else s))) (by
      show joinStr ' ' ((splitStr ' ' (r.fields.getD 1 "")).map (fun s => if s = a then b else s)) = _
      rw [map_id_of, joinStr_splitStr]
      intro x hx
      by_cases hx0 : x = ""
      · subst hx0; simp [Ne.symm ha]
      · apply hs
        intro h
        subst h
        exact h2 ⟨hx, by simpa using hx0⟩)
    rw [e1]; cases r; simp_all

theorem renameOther_frame (s : Bool) (a b : String) (r : Rec) (ha : a ≠ "") (h1 : a ∉ r.segRefs) (h2 : a ∉ r.itemRefs) :
    renameOther s a b r = r := by
  unfold renameOther
  split
  · exact renameIn_frame a b r ha h1 h2
  · split <;> first | exact renameIn_frame a b r ha h1 h2 | rfl

/-- the lines of the Gfa after a successful rename of the line at index `i` -/
theorem rename_lines (st st' : St) (a b : String) (hab : a ≠ b) (he : rename st a b = .ok st') :
    ∃ i, st.lines.findIdx? (fun q => q.name = some a) = some i ∧ i < st.lines.length ∧
      st'.ver = st.ver ∧
      st'.lines = st.lines.zipIdx.map (fun p =>
        if p.2 = i then setName b (renameOther (decide ((st.lines.getD i default).rt = .S)) a b p.1)
        else renameOther (decide ((st.lines.getD i default).rt = .S)) a b p.1) := by
  unfold rename at he
  split at he
  · cases he
  · rename_i i hfound
    obtain ⟨hi, _⟩ := findIdx_some_lt _ _ _ hfound
    rw [if_neg hab] at he
    split at he
    · cases he
    · split at he
      · cases he
      · injection he with he
        subst he
        exact ⟨i, hfound, hi, rfl, rfl⟩

/-- **renaming changes nothing else**: same number of lines in the same order, and every line other than the renamed
    one that does not mention the old identifier is literally unchanged -/
theorem rename_frame (st st' : St) (a b : String) (ha : a ≠ "") (hab : a ≠ b) (he : rename st a b = .ok st') :
    st'.lines.length = st.lines.length ∧
    ∃ i, st.lines.findIdx? (fun q => q.name = some a) = some i ∧
      ∀ j (hj : j < st.lines.length) (hj' : j < st'.lines.length), j ≠ i →
        a ∉ st.lines[j].segRefs → a ∉ st.lines[j].itemRefs → st'.lines[j] = st.lines[j] := by
  obtain ⟨i, hfound, hi, _, hl⟩ := rename_lines st st' a b hab he
  refine ⟨by rw [hl]; simp, i, hfound, ?_⟩
  intro j hj hj' hne h1 h2
  simp only [hl, List.getElem_map, List.getElem_zipIdx, Nat.zero_add, hne, if_false]
  exact renameOther_frame _ a b _ ha h1 h2

/-- **renaming rewrites the identifier wherever it is mentioned**: in every line the group items are the old ones
    with `a` replaced by `b`; so are the segment references when the renamed line is a segment (and they are
    untouched otherwise: only segments are referred to there) -/
theorem rename_mentions (st st' : St) (a b : String) (ha : a ≠ "") (hab : a ≠ b) (hb : goodId b)
    (he : rename st a b = .ok st') :
    ∃ i, ∃ hi : i < st.lines.length, st.lines.findIdx? (fun q => q.name = some a) = some i ∧
      ∀ j (hj : j < st.lines.length) (hj' : j < st'.lines.length),
        st'.lines[j].itemRefs = st.lines[j].itemRefs.map (sub a b) ∧
        st'.lines[j].segRefs = (if st.lines[i].rt = .S then st.lines[j].segRefs.map (sub a b) else st.lines[j].segRefs) := by
  obtain ⟨i, hfound, hi, _, hl⟩ := rename_lines st st' a b hab he
  obtain ⟨_, hname⟩ := findIdx_some_lt _ _ _ hfound
  have hgetD : st.lines.getD i default = st.lines[i] := by simp [List.getD_eq_getElem?_getD, hi]
  have hname : st.lines[i].name = some a := by rw [hgetD] at hname; simpa using hname
  refine ⟨i, hi, hfound, ?_⟩
  intro j hj hj'
  have hS : decide ((st.lines.getD i default).rt = RT.S) = decide (st.lines[i].rt = RT.S) := by rw [hgetD]
  simp only [hl, List.getElem_map, List.getElem_zipIdx, Nat.zero_add, hS]
  by_cases hji : j = i
  · subst hji
    simp only [if_true]
    have hF := name_not_F _ a hname
    obtain ⟨r1, r2⟩ := setName_refs b (renameOther (decide (st.lines[j].rt = .S)) a b st.lines[j])
      (by rw [renameOther_rt]; exact hF)
    rw [r1, r2, renameOther_itemRefs _ a b _ ha hb, renameOther_segRefs _ a b _ ha hb]
    simp
  · simp only [hji, if_false]
    rw [renameOther_itemRefs _ a b _ ha hb, renameOther_segRefs _ a b _ ha hb]
    simp

/-- the renamed line carries the new identifier; every other line keeps identifier and record type -/
theorem rename_carrier (st st' : St) (a b : String) (hab : a ≠ b) (hb : b ≠ "*") (he : rename st a b = .ok st') :
    ∃ i, ∃ hi : i < st.lines.length, st.lines[i].name = some a ∧
      ∀ j (hj : j < st.lines.length) (hj' : j < st'.lines.length),
        st'.lines[j].rt = st.lines[j].rt ∧
        st'.lines[j].name = (if j = i then some b else st.lines[j].name) := by
  obtain ⟨i, hfound, hi, _, hl⟩ := rename_lines st st' a b hab he
  obtain ⟨_, hname⟩ := findIdx_some_lt _ _ _ hfound
  have hgetD : st.lines.getD i default = st.lines[i] := by simp [List.getD_eq_getElem?_getD, hi]
  have hname : st.lines[i].name = some a := by rw [hgetD] at hname; simpa using hname
  refine ⟨i, hi, hname, ?_⟩
  intro j hj hj'
  simp only [hl, List.getElem_map, List.getElem_zipIdx, Nat.zero_add]
  by_cases hji : j = i
  · subst hji
    simp only [if_true]
    exact ⟨by rw [setName_rt, renameOther_rt], setName_name_some b _ a (by rw [renameOther_name]; exact hname) hb⟩
  · simp only [hji, if_false]
    exact ⟨renameOther_rt _ a b _, renameOther_name _ a b _⟩

-- non-vacuity: a segment mentioned by a link and a path is renamed; the containment between other segments is untouched
example :
    (rename ⟨.gfa1, [⟨.S, ["A", "*"], false⟩, ⟨.S, ["B", "*"], false⟩, ⟨.S, ["C", "*"], false⟩,
      ⟨.L, ["A", "+", "B", "-", "*"], false⟩, ⟨.C, ["B", "+", "C", "+", "0", "*"], false⟩,
      ⟨.P, ["p", "A+,B-", "*"], false⟩]⟩ "A" "X").toOption.map (fun s => s.lines.map (·.fields)) =
    some [["X", "*"], ["B", "*"], ["C", "*"], ["X", "+", "B", "-", "*"], ["B", "+", "C", "+", "0", "*"],
      ["p", "X+,B-", "*"]] := by decide

end Gfa.C05
