import GfaProofs.C02
import GfaProofs.Bridge.Connect
/-!
# C08 — why a refused `add_line` can leave nothing behind: every failure happens before the first effect

`Connection.connect` runs `_check_self_reference`, the duplicate search and `_check_segment_references` before it
changes anything; afterwards it creates the placeholders for the identifiers the line mentions.  The theorem
`precheck_sufficient` says that the pre-check is *enough*: once it has passed, creating the placeholders for the
line's segment references, the virtual links of a path and the placeholders of group items cannot fail any more.
Together with `Bridge.Connect.precheck_covers` (the record types the pre-check skips name no segments) this is the
reason the check-then-commit order is atomic; it is the order the correspondence and the C08 oracle observe on the
library (a refused line leaves the observation unchanged).
-/
namespace Gfa.C08
open G C02 C09

theorem refFree_of_segOK (st : St) (n : String) (h : SegOK st n) : refFree st n = true := by
  unfold refFree; unfold SegOK at h; simp [h]

theorem segOK_ne_star (st : St) (n : String) (h : SegOK st n) : n ≠ "*" := by
  obtain ⟨q, _, hrt, hn⟩ := (segOK_iff st n).mp h
  intro hs; subst hs
  simp [Rec.name, hrt] at hn

/-- a segment reference that passed the pre-check can always be satisfied, and the other references stay satisfiable -/
theorem ensureSeg_ok (st : St) (n : String) (hn : n ≠ "*") (hf : refFree st n = true) :
    ∃ st', ensureSeg st n = .ok st' ∧ ∀ m, refFree st m = true → refFree st' m = true := by
  unfold ensureSeg
  rw [if_neg hn]
  by_cases hs : (findSeg st n).isSome = true
  · rw [if_pos hs]; exact ⟨st, rfl, fun _ h => h⟩
  · rw [if_neg hs]
    -- a line of the new state: the new virtual segment or an old line
    have keepFree : ∀ (st' : St), Ext st st' →
        (∀ q ∈ st'.lines, q ∈ st.lines ∨ q = virtSeg st.ver n) → SegOK st' n →
        ∀ m, refFree st m = true → refFree st' m = true := by
      intro st' hext hlines hok m hm
      by_cases hmn : m = n
      · subst hmn; exact refFree_of_segOK _ _ hok
      · unfold refFree at hm ⊢
        rw [Bool.or_eq_true] at hm ⊢
        rcases hm with h | h
        · exact Or.inl (hext.1 m h)
        · right
          rw [List.all_eq_true] at h ⊢
          intro q hq
          rcases hlines q hq with h1 | h1
          · exact h q h1
          · subst h1
            have : (virtSeg st.ver n).name ≠ some m := by
              rw [virtSeg_name _ _ hn]; intro e; exact hmn (Option.some.inj e).symm
            simp [this]
    split
    · -- no line carries the name: a virtual segment is appended
      refine ⟨_, rfl, keepFree _ (ext_append st _) ?_ ?_⟩
      · intro q hq
        simp only [List.mem_append, List.mem_singleton] at hq
        exact hq
      · rw [segOK_iff]
        exact ⟨virtSeg st.ver n, by simp, by cases st.ver <;> rfl, virtSeg_name _ _ hn⟩
    · rename_i i hsome
      obtain ⟨hi, hp⟩ := findIdx_some_lt _ _ _ hsome
      have hp' : (st.lines.getD i default).name = some n := by simpa using hp
      have hunk : (st.lines.getD i default).rt = .unk := by
        unfold refFree at hf
        rw [Bool.or_eq_true] at hf
        rcases hf with h | h
        · exact absurd h hs
        · rw [List.all_eq_true] at h
          have hmem : st.lines.getD i default ∈ st.lines := by
            simp [List.getD_eq_getElem?_getD, hi]
          have := h _ hmem
          rw [hp'] at this
          simpa using this
      rw [if_pos hunk]
      refine ⟨_, rfl, keepFree _ ?_ ?_ ?_⟩
      · exact ext_set st i _ hi (Or.inr (by rw [hp', virtSeg_name _ _ hn])) (by rw [hunk]; intro h; cases h)
      · intro q hq
        rcases List.mem_or_eq_of_mem_set hq with h | h
        · exact Or.inl h
        · exact Or.inr h
      · rw [segOK_iff]
        exact ⟨virtSeg st.ver n, mem_set_self' _ _ _ hi, by cases st.ver <;> rfl, virtSeg_name _ _ hn⟩

theorem ensureSegs_ok (ns : List String) : ∀ (st : St), (∀ n ∈ ns, n ≠ "*" ∧ refFree st n = true) →
    ∃ st', ensureSegs st ns = .ok st' ∧ (∀ m, refFree st m = true → refFree st' m = true) := by
  induction ns with
  | nil => intro st _; exact ⟨st, rfl, fun _ h => h⟩
  | cons n ns ih =>
    intro st h
    obtain ⟨st1, h1, k1⟩ := ensureSeg_ok st n (h n (by simp)).1 (h n (by simp)).2
    obtain ⟨st2, h2, k2⟩ := ih st1 (fun m hm => ⟨(h m (by simp [hm])).1, k1 m (h m (by simp [hm])).2⟩)
    exact ⟨st2, by simp [ensureSegs, h1, Except.bind, h2], fun m hm => k2 m (k1 m hm)⟩

theorem ensureSeg_of_segOK (st : St) (n : String) (h : SegOK st n) : ensureSeg st n = .ok st := by
  unfold ensureSeg
  unfold SegOK at h
  rw [if_neg (segOK_ne_star st n h), if_pos h]

/-- the virtual links of a path whose segments exist can always be created -/
theorem ensureLinks_ok (ls : List Link) : ∀ (st : St), (∀ l ∈ ls, SegOK st l.frm ∧ SegOK st l.to) →
    ∃ st', ensureLinks st ls = .ok st' := by
  induction ls with
  | nil => intro st _; exact ⟨st, rfl⟩
  | cons l ls ih =>
    intro st h
    obtain ⟨hf, ht⟩ := h l (by simp)
    have e : ensureSegs st [l.frm, l.to] = .ok st := by
      simp [ensureSegs, ensureSeg_of_segOK st _ hf, ensureSeg_of_segOK st _ ht, Except.bind]
    simp only [ensureLinks, e, Except.bind]
    split
    · rename_i i hfound
      apply ih
      intro k hk
      have := h k (by simp [hk])
      have hg := (C02.grow_adopt st l i hfound (by
        intro n hn
        simp only [List.mem_cons, List.not_mem_nil, or_false] at hn
        rcases hn with rfl | rfl
        · exact hf
        · exact ht)).1
      exact ⟨hg.1 _ this.1, hg.1 _ this.2⟩
    · apply ih
      intro k hk
      have := h k (by simp [hk])
      exact ⟨(ext_append st _).1 _ this.1, (ext_append st _).1 _ this.2⟩

/-- the links a path requires join segments the path lists -/
theorem pathSteps_in_segRefs (r : Rec) (s : Link) (hs : s ∈ r.pathSteps) : s.frm ∈ r.segRefs ∧ s.to ∈ r.segRefs := by
  unfold Rec.pathSteps at hs
  split at hs
  · rename_i hP
    simp only at hs
    split at hs
    · cases hs
    · simp only [List.mem_filterMap] at hs
      obtain ⟨i, _, hi⟩ := hs
      split at hi
      · rename_i a b ha hb
        simp only [Option.some.injEq] at hi
        subst hi
        simp only [Rec.segRefs, hP, List.mem_map]
        obtain ⟨x, hx, hxa⟩ := List.mem_map.mp (List.mem_of_getElem? ha)
        obtain ⟨y, hy, hyb⟩ := List.mem_map.mp (List.mem_of_getElem? hb)
        exact ⟨⟨x, hx, by rw [hxa]⟩, ⟨y, hy, by rw [hyb]⟩⟩
      · cases hi
  · cases hs

/-- **once the pre-check has passed, nothing the line needs can fail**: the placeholders for its segment references,
    the virtual links of a path and the placeholders for group items are all created -/
theorem precheck_sufficient (st : St) (r : Rec) (hpre : precheck st r = true) (hstar : ∀ n ∈ r.segRefs, n ≠ "*") :
    ∃ st', ensureRefs st r = .ok st' := by
  have hfree : ∀ n ∈ r.segRefs, refFree st n = true := by
    unfold precheck at hpre
    rw [Bool.or_eq_true] at hpre
    rcases hpre with h | h
    · -- a record type outside the list names no segments
      have : r.segRefs = [] := by
        unfold Rec.segRefs
        cases hrt : r.rt <;> simp [hrt, segRefTypes] at h ⊢
      rw [this]; intro n hn; cases hn
    · rw [List.all_eq_true] at h; exact h
  obtain ⟨st1, h1, _⟩ := ensureSegs_ok r.segRefs st (fun n hn => ⟨hstar n hn, hfree n hn⟩)
  have hok := (ensureSegs_grow r.segRefs st st1 h1).2
  unfold ensureRefs
  simp only [h1, Except.bind]
  split
  · obtain ⟨st2, h2⟩ := ensureLinks_ok r.pathSteps st1 (fun l hl =>
      ⟨hok _ (pathSteps_in_segRefs r l hl).1, hok _ (pathSteps_in_segRefs r l hl).2⟩)
    exact ⟨ensureItems st2 r.itemRefs, by simp [h2, Except.map]⟩
  · exact ⟨ensureItems st1 r.itemRefs, by simp [Except.map]⟩

/-- conversely the pre-check refuses only what could not be connected: in a Gfa with unique identifiers a reference
    that is not free is the name of a real line of another type, for which no placeholder segment can be made -/
theorem precheck_necessary (st : St) (hnd : NoDup st) (n : String) (hn : n ≠ "*") (hf : refFree st n = false) :
    ensureSeg st n = .error .notUnique := by
  unfold refFree at hf
  rw [Bool.or_eq_false_iff] at hf
  obtain ⟨hs, hall⟩ := hf
  unfold ensureSeg
  rw [if_neg hn, if_neg (by simp [hs])]
  rw [List.all_eq_false] at hall
  obtain ⟨q, hq, hqq⟩ := hall
  have hqn : q.name = some n := by
    cases hd : decide (q.name = some n) with
    | true => simpa using hd
    | false =>
      exfalso; apply hqq
      have : q.name ≠ some n := by simpa using hd
      simp [this]
  have hqr : q.rt ≠ .unk := by
    intro h; apply hqq; simp [h]
  split
  · rename_i hnone
    exact absurd ((mem_namesOf _ _).mpr ⟨q, hq, hqn⟩) (findIdx_none_not_mem st.lines n hnone)
  · rename_i i hsome
    obtain ⟨hi, hp⟩ := findIdx_some_lt _ _ _ hsome
    have hgetD : st.lines.getD i default = st.lines[i] := by simp [List.getD_eq_getElem?_getD, hi]
    have hpn : st.lines[i].name = some n := by rw [hgetD] at hp; simpa using hp
    have e1 := lookup_unique_aux st.lines n q hnd hq hqn
    have e2 := lookup_unique_aux st.lines n st.lines[i] hnd (List.getElem_mem hi) hpn
    rw [e1] at e2
    have : q = st.lines[i] := Option.some.inj e2
    rw [hgetD, ← this, if_neg hqr]

-- non-vacuity: a path over two segments of which one is undefined passes the pre-check and is connected;
-- a link that names a path where a segment is expected is refused by the pre-check
example :
    let st : St := ⟨.gfa1, [⟨.S, ["A", "*"], false⟩, ⟨.P, ["p", "A+", "*"], false⟩]⟩
    precheck st ⟨.P, ["q", "A+,B-", "*"], false⟩ = true ∧ precheck st ⟨.L, ["A", "+", "p", "+", "*"], false⟩ = false := by
  decide

end Gfa.C08
