import GfaProofs.C02
import GfaProofs.C13
/-!
# C03 — the graph does not depend on the order of the lines (proved parts)

* the version (or VersionError) and the number of lines added are invariant under every permutation
  of the document: `C13.build_perm` (the queue-based state machine equals a content-only specification);
* **no placeholder remains for an identifier the document defines**: when the definition of an identifier
  arrives, the placeholder standing for it is replaced (`defined_not_virtual`), whatever arrived before;
* the placeholders created for forward references keep the graph closed in every arrival order
  (`C02.closed_reachable_partial`) and identifiers unique (`C09.nodup_reachable`).

Full statement (`∀ ls ls', ls ~ ls' → obs (build ls) = obs (build ls')`): not proved in Lean; the model is run
on every sampled arrival order next to the library (correspondence) and the library is compared with itself
across all n! orders (oracle).
-/
namespace Gfa.C03
open G C09 C02

/-- real lines of the Gfa stay lines of the Gfa -/
def Keeps (st st' : St) : Prop := ∀ q ∈ st.lines, q.rt ≠ .unk → q.virt = false → q ∈ st'.lines

theorem Keeps.refl (st : St) : Keeps st st := fun _ h _ _ => h
theorem Keeps.trans {a b c : St} (h1 : Keeps a b) (h2 : Keeps b c) : Keeps a c :=
  fun q hq hr hv => h2 q (h1 q hq hr hv) hr hv

theorem keeps_append (st : St) (r : Rec) : Keeps st { st with lines := st.lines ++ [r] } :=
  fun q hq _ _ => by simp [hq]

theorem mem_set_of_ne (l : List Rec) (i : Nat) (r q : Rec) (hq : q ∈ l) (hne : q ≠ l.getD i default) : q ∈ l.set i r := by
  obtain ⟨j, hj, rfl⟩ := List.getElem_of_mem hq
  have hji : j ≠ i := by
    intro h; subst h
    apply hne
    simp [List.getD_eq_getElem?_getD, List.getElem?_eq_getElem hj]
  have : (l.set i r)[j]'(by simpa using hj) = l[j] := by rw [List.getElem_set_ne (Ne.symm hji)]
  rw [← this]; exact List.getElem_mem _

theorem ensureSeg_keeps (st st' : St) (n : String) (he : ensureSeg st n = .ok st') : Keeps st st' := by
  unfold ensureSeg at he
  split at he
  · cases he
  split at he
  · injection he with he; subst he; exact Keeps.refl _
  · split at he
    · injection he with he; subst he; exact keeps_append _ _
    · split at he
      · rename_i hunk
        injection he with he; subst he
        intro q hq hr _
        apply mem_set_of_ne _ _ _ _ hq
        intro h; rw [h] at hr; exact hr hunk
      · cases he

theorem ensureSegs_keeps (ns : List String) : ∀ (st st' : St), ensureSegs st ns = .ok st' → Keeps st st' := by
  induction ns with
  | nil => intro st st' he; simp [ensureSegs] at he; subst he; exact Keeps.refl _
  | cons n ns ih =>
    intro st st' he
    simp only [ensureSegs] at he
    cases h1 : ensureSeg st n with
    | error e => simp [h1, Except.bind] at he
    | ok st1 =>
      simp only [h1, Except.bind] at he
      exact (ensureSeg_keeps st st1 n h1).trans (ih st1 st' he)

theorem ensureItems_keeps (ns : List String) : ∀ (st : St), Keeps st (ensureItems st ns) := by
  induction ns with
  | nil => intro st; exact Keeps.refl _
  | cons n ns ih =>
    intro st
    simp only [ensureItems]
    split
    · exact ih st
    · exact (keeps_append st _).trans (ih _)

theorem ensureLinks_keeps (ls : List Link) : ∀ (st st' : St), ensureLinks st ls = .ok st' → Keeps st st' := by
  induction ls with
  | nil => intro st st' he; simp [ensureLinks] at he; subst he; exact Keeps.refl _
  | cons l ls ih =>
    intro st st' he
    simp only [ensureLinks] at he
    cases h1 : ensureSegs st [l.frm, l.to] with
    | error e => simp [h1, Except.bind] at he
    | ok st1 =>
      simp only [h1, Except.bind] at he
      have k1 := ensureSegs_keeps _ st st1 h1
      split at he
      · rename_i i hfound
        refine k1.trans (Keeps.trans ?_ (ih _ st' he))
        -- only a placeholder link is rewritten
        intro q hq _ hv
        obtain ⟨hi, _⟩ := findIdx_some_lt _ _ _ hfound
        by_cases hqi : q = st1.lines.getD i default
        · have : adoptOverlap l (st1.lines.getD i default) = q := by
            rw [← hqi]; unfold adoptOverlap; split
            · simp [hv]
            · rfl
          rw [this]; exact mem_set_self' _ _ _ hi
        · exact mem_set_of_ne _ _ _ _ hq hqi
      · exact k1.trans ((keeps_append st1 _).trans (ih _ st' he))

theorem ensureRefs_keeps (st st' : St) (r : Rec) (he : ensureRefs st r = .ok st') : Keeps st st' := by
  unfold ensureRefs at he
  cases h1 : ensureSegs st r.segRefs with
  | error e => simp [h1, Except.bind] at he
  | ok st1 =>
    simp only [h1, Except.bind] at he
    have k1 := ensureSegs_keeps _ st st1 h1
    split at he
    · cases h2 : ensureLinks st1 r.pathSteps with
      | error e => simp [h2, Except.map] at he
      | ok st2 =>
        simp only [h2, Except.map] at he
        injection he with he; subst he
        exact k1.trans ((ensureLinks_keeps _ st1 st2 h2).trans (ensureItems_keeps _ st2))
    · simp only [Except.map] at he
      injection he with he; subst he
      exact k1.trans (ensureItems_keeps _ st1)

theorem add_cases (st st' : St) (r : Rec) (n : String) (hL : r.rt ≠ .L) (hn : r.name = some n) (he : add st r = .ok st') :
    (st.lines.findIdx? (fun q => q.name = some n) = none ∧ register st r = .ok st') ∨
    (∃ i, st.lines.findIdx? (fun q => q.name = some n) = some i ∧ addOnto st r n i = .ok st') := by
  unfold add at he
  split at he
  · cases he
  split at he
  · split at he <;> cases he
  split at he
  · cases he
  rw [hn] at he
  simp only at he
  split at he
  · rename_i h; exact Or.inl ⟨h, he⟩
  · rename_i i h; exact Or.inr ⟨i, h, he⟩

/-- after a successful `add_line` of a line with identifier `n` (not a link), a real line carries `n` -/
theorem add_defines (st st' : St) (r : Rec) (n : String) (hv : r.virt = false) (hrt : r.rt ≠ .unk) (hL : r.rt ≠ .L)
    (hn : r.name = some n) (he : add st r = .ok st') : ∃ q ∈ st'.lines, q.name = some n ∧ q.virt = false := by
  rcases add_cases st st' r n hL hn he with ⟨_, hr'⟩ | ⟨i, hfound, ho⟩
  · unfold register at hr'
    cases h1 : ensureRefs st r with
    | error e => simp [h1, Except.bind] at hr'
    | ok st1 =>
      simp only [h1, Except.bind, hn] at hr'
      split at hr'
      · cases hr'
      · injection hr' with hr'; subst hr'
        exact ⟨r, by simp, hn, hv⟩
  · obtain ⟨hi, hp⟩ := findIdx_some_lt _ _ _ hfound
    unfold addOnto at ho
    split at ho
    · split at ho
      · unfold substitute at ho
        have k := ensureRefs_keeps _ st' r ho
        exact ⟨r, k r (by simpa [replaceAt] using mem_set_self' st.lines i r hi) hrt hv, hn, hv⟩
      · cases ho
    · split at ho
      · rename_i hgrp
        unfold mergeGroup at ho
        split at ho
        · cases ho
        · rename_i tg _
          have k := ensureRefs_keeps _ st' r ho
          obtain ⟨_, hne⟩ := name_group r n hgrp.1 hn
          refine ⟨_, k _ (by simpa [replaceAt] using mem_set_self' st.lines i _ hi) (by rcases hgrp.1 with h | h <;> simp [h]) rfl, ?_, rfl⟩
          rcases hgrp.1 with h | h <;> simp [Rec.name, h, fld, hne]
      · cases ho

/-- **no placeholder remains for an identifier the document defines**: once the definition of `n` has been
    added, every line carrying `n` is real — whatever the lines that arrived before it created -/
theorem defined_not_virtual (st st' : St) (r : Rec) (n : String) (hnd : NoDup st) (hv : r.virt = false)
    (hrt : r.rt ≠ .unk) (hL : r.rt ≠ .L) (hn : r.name = some n) (he : add st r = .ok st') :
    ∀ q ∈ st'.lines, q.name = some n → q.virt = false := by
  obtain ⟨q0, hq0, hn0, hv0⟩ := add_defines st st' r n hv hrt hL hn he
  have hnd' := add_nodup st st' r hnd he
  intro q hq hqn
  have h1 := lookup_complete st' hnd' q n hq hqn
  have h2 := lookup_complete st' hnd' q0 n hq0 hn0
  rw [h1] at h2
  injection h2 with h2
  rw [h2]; exact hv0

end Gfa.C03
