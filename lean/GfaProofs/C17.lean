import GfaModel.Groups
import GfaProofs.Lemmas.Closure
import GfaProofs.C02
/-!
# C17 — groups: multi-line definitions and induced sets

* several U (or O) lines with one identifier: the items are the concatenation in arrival order, the tags the
  union, a contradictory tag is an error that changes nothing;
* the induced set of an unordered group is the least set closed under "item of a listed group" and
  "segment of a listed edge", plus every edge both of whose segments are in it.
The captured path of ordered groups is decided by the oracle (independent walk search on the written text).
-/
namespace Gfa.C17
open G Closure

/-- **induced set = everything reachable through items of groups and segments of edges** -/
theorem induced_iff_reach (st : St) (u x : String) :
    x ∈ inducedAll st u ↔ Reach (names st) (reaches st) [u] x := lfp_iff _ _ _ x

theorem induced_contains_group (st : St) (u : String) : u ∈ inducedAll st u := lfp_seed _ _ _ u (by simp)

/-- a direct item of a listed group, or a segment of a listed edge, is in the induced set -/
theorem induced_closed (st : St) (u y x : String) (hy : y ∈ inducedAll st u) (hx : x ∈ expand st y) (hn : x ∈ names st) :
    x ∈ inducedAll st u := by
  rw [induced_iff_reach] at hy ⊢
  exact Reach.step hy (by simpa [reaches] using hx) hn

/-- the induced segments are exactly the induced members that are segments -/
theorem induced_segments_iff (st : St) (u x : String) :
    x ∈ inducedSegments st u ↔ x ∈ inducedAll st u ∧ isSegName st x = true := by
  simp [inducedSegments, List.mem_filter]

/-- **an edge is induced iff both of its segments are induced** -/
theorem induced_edges_iff (st : St) (u : String) (e : Rec) :
    e ∈ inducedEdges st u ↔ e ∈ st.lines ∧ e.rt = .E ∧ ∀ s ∈ e.segRefs, s ∈ inducedSegments st u := by
  simp [inducedEdges, List.mem_filter, List.all_eq_true, and_assoc]

/-- the induced set is the *least* such set: anything closed under the two rules and containing the group contains it -/
theorem induced_least (st : St) (u : String) (S : String → Prop) (hu : S u)
    (hcl : ∀ y x, S y → x ∈ expand st y → x ∈ names st → S x) : ∀ x ∈ inducedAll st u, S x := by
  intro x hx
  rw [induced_iff_reach] at hx
  induction hx with
  | seed hm => simp at hm; subst hm; exact hu
  | step _ ha hn ih => exact hcl _ _ ih (by simpa [reaches] using ha) hn

-- ---------------------------------------------------------------- several lines with one identifier
/-- the merged tags: every tag of the new line, and the tags of the earlier line it does not redefine -/
theorem mergeTags_spec (prev cur tg : List String) (h : mergeTags prev cur = some tg) :
    (∀ t ∈ cur, t ∈ tg) ∧ (∀ t ∈ tg, t ∈ cur ∨ t ∈ prev) ∧
    (∀ p ∈ prev, (∀ c ∈ cur, tagName c ≠ tagName p) → p ∈ tg) := by
  unfold mergeTags at h
  split at h
  · cases h
  · injection h with h; subst h
    refine ⟨fun t ht => by simp [ht], ?_, ?_⟩
    · intro t ht
      rcases List.mem_append.mp ht with h1 | h1
      · exact Or.inl h1
      · exact Or.inr (List.mem_filter.mp h1).1
    · intro p hp hno
      apply List.mem_append_right
      rw [List.mem_filter]
      refine ⟨hp, ?_⟩
      simp only [Bool.not_eq_true', List.any_eq_false, beq_iff_eq]
      intro c hc; exact hno c hc

/-- **a contradictory tag is an error** (and, the merge being computed before anything is stored, changes nothing) -/
theorem mergeTags_conflict (prev cur : List String) (p c : String) (hp : p ∈ prev) (hc : c ∈ cur)
    (hname : tagName c = tagName p) (hne : c ≠ p) : mergeTags prev cur = none := by
  unfold mergeTags
  have : (prev.any fun p => cur.any fun c => tagName c == tagName p && c != p) = true := by
    rw [List.any_eq_true]
    refine ⟨p, hp, ?_⟩
    rw [List.any_eq_true]
    exact ⟨c, hc, by simp [hname, hne]⟩
  simp [this]

theorem mergeGroup_conflict_atomic (st : St) (r : Rec) (n : String) (i : Nat)
    (h : mergeTags (st.lines.getD i default).tags r.tags = none) : mergeGroup st r n i = .error .notUnique := by
  unfold mergeGroup; rw [h]

/-- **items of a multi-line group = items of the earlier lines followed by those of the new line** -/
theorem merged_items_concat (p r : Rec) (n : String) (tg : List String) (hp : p.rt = .U) (hr : r.rt = .U) :
    (⟨.U, [n, catItems (fld p 1) (fld r 1)] ++ tg, false⟩ : Rec).itemRefs = p.itemRefs ++ r.itemRefs := by
  simp only [Rec.itemRefs, hp, hr, fld, List.cons_append, List.getD_cons_succ, List.getD_cons_zero]
  rw [C02.filter_split_catItems]

theorem merged_items_concat_O (p r : Rec) (n : String) (tg : List String) (hp : p.rt = .O) (hr : r.rt = .O) :
    (⟨.O, [n, catItems (fld p 1) (fld r 1)] ++ tg, false⟩ : Rec).itemRefs = p.itemRefs ++ r.itemRefs := by
  simp only [Rec.itemRefs, hp, hr, fld, List.cons_append, List.getD_cons_succ, List.getD_cons_zero]
  rw [C02.filter_split_catItems, List.map_append]

-- non-vacuity
example : mergeTags ["xx:i:1", "yy:Z:a"] ["zz:i:3", "xx:i:1"] = some ["zz:i:3", "xx:i:1", "yy:Z:a"] := by decide
example : mergeTags ["xx:i:1"] ["xx:i:2"] = none := by decide

end Gfa.C17
