import GfaModel.Convert
import GfaProofs.C11
import GfaProofs.C12
/-!
# C06 — GFA1 ⇄ GFA2 edge conversion preserves the edge

For every orientation pair, every CIGAR and all segment lengths (with the overlap shorter than both
segments: a longer one is a containment in GFA2, see DESIGN §7).
-/
namespace Gfa.C06
open Conv Spec C11

/-- the aligned intervals have the CIGAR's reference / query length and lie inside the segments -/
theorem link_intervals (fo too : Orient) (nf nt : Nat) (c : Cigar) (h1 : c.refLen ≤ nf) (h2 : c.queryLen ≤ nt) :
    let a := fromCoords fo nf c; let b := toCoords too nt c
    a.2 - a.1 = c.refLen ∧ b.2 - b.1 = c.queryLen ∧ a.1 ≤ a.2 ∧ a.2 ≤ nf ∧ b.1 ≤ b.2 ∧ b.2 ≤ nt := by
  cases fo <;> cases too <;> simp [fromCoords, toCoords] <;> omega

/-- the interval on `from` is an oriented suffix, the one on `to` an oriented prefix: `$` (position =
    length) appears exactly where the specification puts it -/
theorem link_touches (fo too : Orient) (nf nt : Nat) (c : Cigar) (h1 : c.refLen ≤ nf) (h2 : c.queryLen ≤ nt) :
    let a := fromCoords fo nf c; let b := toCoords too nt c
    touchesEnd fo nf a.1 a.2 = true ∧ touchesStart too nt b.1 b.2 = true := by
  cases fo <;> cases too <;> simp [fromCoords, toCoords, touchesEnd, touchesStart]

/-- a link becomes a *dovetail* E line whose `from` side is sid1 -/
theorem link_to_edge_is_dovetail (fo too : Orient) (nf nt : Nat) (c : Cigar)
    (h1 : c.refLen < nf) (h2 : c.queryLen < nt) :
    let a := fromCoords fo nf c; let b := toCoords too nt c
    isDovetail fo too nf a.1 a.2 nt b.1 b.2 = true ∧ sid1IsFrom fo too nf a.1 a.2 nt b.1 b.2 = some true := by
  have a1 : ¬ nf - c.refLen = 0 := by omega
  have a2 : ¬ nt - c.queryLen = 0 := by omega
  have a3 : ¬ c.refLen = nf := by omega
  have a4 : ¬ c.queryLen = nt := by omega
  cases fo <;> cases too <;>
    simp [fromCoords, toCoords, isDovetail, sid1IsFrom, isWhole, touchesEnd, touchesStart, a1, a2, a3, a4]

/-- **L → E → L is the identity** (same oriented pair, same overlap, not complemented) -/
theorem l_e_l (f t : String) (fo too : Orient) (nf nt : Nat) (c : Cigar)
    (h1 : c.refLen < nf) (h2 : c.queryLen < nt) :
    (gfa1OfEdge (edgeOfLink f fo t too c nf nt) nf nt).map (fun r => (r.1, r.2.1)) =
      some (.L, ⟨f, fo, t, too, .cigar c⟩) := by
  have hv1 : ValidIv nf (fromCoords fo nf c).1 (fromCoords fo nf c).2 := by
    cases fo <;> exact ⟨by simp [fromCoords], by simp [fromCoords] <;> omega, by omega⟩
  have hv2 : ValidIv nt (toCoords too nt c).1 (toCoords too nt c).2 := by
    cases too <;> exact ⟨by simp [toCoords], by simp [toCoords] <;> omega, by omega⟩
  have hd := link_to_edge_is_dovetail fo too nf nt c h1 h2
  simp only [gfa1OfEdge, edgeOfLink]
  rw [substring_type_spec _ _ _ hv1, substring_type_spec _ _ _ hv2]
  simp only
  have hat := alignment_type_matches_geometry fo too nf _ _ nt _ _ hv1 hv2
  have hnc : isContainment nf (fromCoords fo nf c).1 (fromCoords fo nf c).2 nt (toCoords too nt c).1 (toCoords too nt c).2 = false := by
    cases fo <;> cases too <;> simp [fromCoords, toCoords, isContainment, isWhole] <;> omega
  rw [hnc, hd.1] at hat
  simp only [Bool.false_eq_true, if_false, if_true] at hat
  rw [hat]
  have hfrom := is_sid1_from_spec fo too nf _ _ nt _ _ hv1 hv2
  rw [hd.2] at hfrom
  cases hr : isSid1From (segmentRole (Pos.mk (fromCoords fo nf c).1 nf) (Pos.mk (fromCoords fo nf c).2 nf) fo)
      (segmentRole (Pos.mk (toCoords too nt c).1 nt) (Pos.mk (toCoords too nt c).2 nt) too) with
  | error e => rw [hr] at hfrom; simp [Except.toOption] at hfrom
  | ok b =>
    rw [hr] at hfrom
    simp only [Except.toOption, Option.some.injEq] at hfrom
    subst hfrom
    simp

theorem swapRoles_swapRoles (c : Cigar) (h : c.Involutive) : c.swapRoles.swapRoles = c := by
  simp only [Cigar.swapRoles, List.map_map]
  conv => rhs; rw [← List.map_id c]
  apply List.map_congr_left
  intro o ho
  exact C12.flipOp_flipOp o (h o ho)

/-- exchanging the roles exchanges reference and query length and keeps the order of the operations -/
theorem swapRoles_lens (c : Cigar) : c.swapRoles.refLen = c.queryLen ∧ c.swapRoles.queryLen = c.refLen ∧
    c.swapRoles.map (·.len) = c.map (·.len) := by
  refine ⟨?_, ?_, ?_⟩
  · simp only [Cigar.refLen, Cigar.queryLen, Cigar.swapRoles, List.map_map]
    congr 1; apply List.map_congr_left; intro o _
    cases o with | mk n code => cases code <;> rfl
  · simp only [Cigar.refLen, Cigar.queryLen, Cigar.swapRoles, List.map_map]
    congr 1; apply List.map_congr_left; intro o _
    cases o with | mk n code => cases code <;> rfl
  · simp [Cigar.swapRoles, Cigar.flipOp, Function.comp_def]

/-- **the E line written from the other side is the same link**: with sid1 the to-side and the alignment read
    with the roles exchanged (I ↔ D, order kept — *not* the reverse complement), E → L gives the link back -/
theorem swapped_edge_same_link (f t : String) (fo too : Orient) (nf nt : Nat) (c : Cigar)
    (h1 : c.refLen < nf) (h2 : c.queryLen < nt) (hinv : c.Involutive) :
    (gfa1OfEdge (swapEdge (edgeOfLink f fo t too c nf nt)) nt nf).map (fun r => (r.1, r.2.1)) =
      some (.L, ⟨f, fo, t, too, .cigar c⟩) := by
  have hv1 : ValidIv nf (fromCoords fo nf c).1 (fromCoords fo nf c).2 := by
    cases fo <;> exact ⟨by simp [fromCoords], by simp [fromCoords] <;> omega, by omega⟩
  have hv2 : ValidIv nt (toCoords too nt c).1 (toCoords too nt c).2 := by
    cases too <;> exact ⟨by simp [toCoords], by simp [toCoords] <;> omega, by omega⟩
  have a1 : ¬ nf - c.refLen = 0 := by omega
  have a2 : ¬ nt - c.queryLen = 0 := by omega
  have a3 : ¬ c.refLen = nf := by omega
  have a4 : ¬ c.queryLen = nt := by omega
  have hd : isDovetail too fo nt (toCoords too nt c).1 (toCoords too nt c).2 nf (fromCoords fo nf c).1 (fromCoords fo nf c).2 = true ∧
      sid1IsFrom too fo nt (toCoords too nt c).1 (toCoords too nt c).2 nf (fromCoords fo nf c).1 (fromCoords fo nf c).2 = some false := by
    cases fo <;> cases too <;>
      simp [fromCoords, toCoords, isDovetail, sid1IsFrom, isWhole, touchesEnd, touchesStart, a1, a2, a3, a4] <;> omega
  simp only [gfa1OfEdge, edgeOfLink, swapEdge]
  rw [substring_type_spec _ _ _ hv1, substring_type_spec _ _ _ hv2]
  simp only
  have hat := alignment_type_matches_geometry too fo nt _ _ nf _ _ hv2 hv1
  have hnc : isContainment nt (toCoords too nt c).1 (toCoords too nt c).2 nf (fromCoords fo nf c).1 (fromCoords fo nf c).2 = false := by
    cases fo <;> cases too <;> simp [fromCoords, toCoords, isContainment, isWhole] <;> omega
  rw [hnc, hd.1] at hat
  simp only [Bool.false_eq_true, if_false, if_true] at hat
  rw [hat]
  have hfrom := is_sid1_from_spec too fo nt _ _ nf _ _ hv2 hv1
  rw [hd.2] at hfrom
  cases hr : isSid1From (segmentRole (Pos.mk (toCoords too nt c).1 nt) (Pos.mk (toCoords too nt c).2 nt) too)
      (segmentRole (Pos.mk (fromCoords fo nf c).1 nf) (Pos.mk (fromCoords fo nf c).2 nf) fo) with
  | error e => rw [hr] at hfrom; simp [Except.toOption] at hfrom
  | ok b =>
    rw [hr] at hfrom
    simp only [Except.toOption, Option.some.injEq] at hfrom
    subst hfrom
    simp [swapRoles_swapRoles c hinv]

/-- the complement form converts to the *same* geometric edge with the sides exchanged: E lines do not
    care which form of the link was stored -/
theorem compl_same_geometry (fo too : Orient) (nf nt : Nat) (c : Cigar) :
    fromCoords too.inv nt c.compl = (let b := toCoords too nt c; (b.1, b.2)) ∧
    toCoords fo.inv nf c.compl = (let a := fromCoords fo nf c; (a.1, a.2)) := by
  cases fo <;> cases too <;> simp [fromCoords, toCoords, Orient.inv, C12.refLen_compl, C12.queryLen_compl]

/-- a containment becomes an E line whose contained side is the whole segment and whose container
    interval starts at `pos` and has the reference length -/
theorem containment_to_edge (f t : String) (fo too : Orient) (pos nt : Nat) (c : Cigar) (hnt : 0 < nt) :
    let e := edgeOfContainment f fo t too pos c nt
    isWhole nt e.b2 e.e2 = true ∧ e.b1 = pos ∧ e.e1 - e.b1 = c.refLen := by
  simp [edgeOfContainment, isWhole]

/-- **C → E → C is the identity**: a containment (container `f`, contained `t`, offset `pos`) converted to an E line and
    back is the same containment — same oriented pair, same overlap (not complemented), same offset -/
theorem c_e_c (f t : String) (fo too : Orient) (pos nf nt : Nat) (c : Cigar)
    (h1 : pos + c.refLen ≤ nf) (h2 : 0 < nt) (h3 : 0 < nf) :
    gfa1OfEdge (edgeOfContainment f fo t too pos c nt) nf nt = some (.C, ⟨f, fo, t, too, .cigar c⟩, pos) := by
  have hv1 : ValidIv nf pos (pos + c.refLen) := ⟨by omega, h1, h3⟩
  have hv2 : ValidIv nt 0 nt := ⟨by omega, by omega, h2⟩
  simp only [gfa1OfEdge, edgeOfContainment]
  rw [substring_type_spec _ _ _ hv1, substring_type_spec _ _ _ hv2]
  simp only
  have hat := alignment_type_matches_geometry fo too nf pos (pos + c.refLen) nt 0 nt hv1 hv2
  have hc : isContainment nf pos (pos + c.refLen) nt 0 nt = true := by simp [isContainment, isWhole]
  rw [hc] at hat
  simp only [if_true] at hat
  rw [hat]
  have hfrom := is_sid1_from_spec fo too nf pos (pos + c.refLen) nt 0 nt hv1 hv2
  have hsf : sid1IsFrom fo too nf pos (pos + c.refLen) nt 0 nt = some true := by simp [sid1IsFrom, isWhole]
  rw [hsf] at hfrom
  cases hr : isSid1From (segmentRole (Pos.mk pos nf) (Pos.mk (pos + c.refLen) nf) fo)
      (segmentRole (Pos.mk 0 nt) (Pos.mk nt nt) too) with
  | error e => rw [hr] at hfrom; simp [Except.toOption] at hfrom
  | ok b =>
    rw [hr] at hfrom
    simp only [Except.toOption, Option.some.injEq] at hfrom
    subst hfrom
    simp only [mk_isFirst, mk_isLast]
    by_cases hp : pos = 0
    · simp [hp]
    · simp [hp]

/-- **E → L → E is the identity** for a dovetail E line written from-side first whose intervals have the lengths its
    alignment implies: the link it converts to converts back to the same E line (same sides, same intervals, same
    alignment) -/
theorem e_l_e (e : Edge) (n1 n2 : Nat) (hv1 : ValidIv n1 e.b1 e.e1) (hv2 : ValidIv n2 e.b2 e.e2)
    (hnw1 : isWhole n1 e.b1 e.e1 = false) (hnw2 : isWhole n2 e.b2 e.e2 = false)
    (hend : touchesEnd e.o1 n1 e.b1 e.e1 = true) (hstart : touchesStart e.o2 n2 e.b2 e.e2 = true)
    (hl1 : e.e1 - e.b1 = e.aln.refLen) (hl2 : e.e2 - e.b2 = e.aln.queryLen) :
    edgeOfLink e.s1 e.o1 e.s2 e.o2 e.aln n1 n2 = e := by
  obtain ⟨h11, h12, h13⟩ := hv1
  obtain ⟨h21, h22, h23⟩ := hv2
  cases e with
  | mk s1 o1 s2 o2 b1 e1 b2 e2 aln =>
    simp only at *
    simp only [edgeOfLink, fromCoords, toCoords, Edge.mk.injEq, true_and]
    cases o1 <;> cases o2 <;> simp only [touchesEnd, touchesStart, beq_iff_eq] at hend hstart <;>
      simp <;> omega

/-- … and such an E line converts to the link `s1 o1 → s2 o2` with its own alignment (read from sid1 to sid2), so that
    **E → L → E is the identity** -/
theorem e_to_l (e : Edge) (n1 n2 : Nat) (hv1 : ValidIv n1 e.b1 e.e1) (hv2 : ValidIv n2 e.b2 e.e2)
    (hnw1 : isWhole n1 e.b1 e.e1 = false) (hnw2 : isWhole n2 e.b2 e.e2 = false)
    (hend : touchesEnd e.o1 n1 e.b1 e.e1 = true) (hstart : touchesStart e.o2 n2 e.b2 e.e2 = true) :
    (gfa1OfEdge e n1 n2).map (fun r => (r.1, r.2.1)) = some (.L, ⟨e.s1, e.o1, e.s2, e.o2, .cigar e.aln⟩) := by
  simp only [gfa1OfEdge]
  rw [substring_type_spec _ _ _ hv1, substring_type_spec _ _ _ hv2]
  simp only
  have hat := alignment_type_matches_geometry e.o1 e.o2 n1 e.b1 e.e1 n2 e.b2 e.e2 hv1 hv2
  have hnc : isContainment n1 e.b1 e.e1 n2 e.b2 e.e2 = false := by simp [isContainment, hnw1, hnw2]
  have hd : isDovetail e.o1 e.o2 n1 e.b1 e.e1 n2 e.b2 e.e2 = true := by simp [isDovetail, hnw1, hnw2, hend, hstart]
  rw [hnc, hd] at hat
  simp only [Bool.false_eq_true, if_false, if_true] at hat
  rw [hat]
  have hfrom := is_sid1_from_spec e.o1 e.o2 n1 e.b1 e.e1 n2 e.b2 e.e2 hv1 hv2
  have hns1 : touchesStart e.o1 n1 e.b1 e.e1 = false := by
    cases ho : e.o1 <;> simp only [ho, touchesEnd, touchesStart, isWhole, beq_iff_eq, Bool.and_eq_false_iff] at hend hnw1 ⊢ <;>
      rcases hnw1 with h | h <;> simp_all
  have hne2 : touchesEnd e.o2 n2 e.b2 e.e2 = false := by
    cases ho : e.o2 <;> simp only [ho, touchesEnd, touchesStart, isWhole, beq_iff_eq, Bool.and_eq_false_iff] at hstart hnw2 ⊢ <;>
      rcases hnw2 with h | h <;> simp_all
  have hsf : sid1IsFrom e.o1 e.o2 n1 e.b1 e.e1 n2 e.b2 e.e2 = some true := by
    simp [sid1IsFrom, hnw1, hnw2, hend, hstart, hns1, hne2]
  rw [hsf] at hfrom
  cases hr : isSid1From (segmentRole (Pos.mk e.b1 n1) (Pos.mk e.e1 n1) e.o1)
      (segmentRole (Pos.mk e.b2 n2) (Pos.mk e.e2 n2) e.o2) with
  | error err => rw [hr] at hfrom; simp [Except.toOption] at hfrom
  | ok b =>
    rw [hr] at hfrom
    simp only [Except.toOption, Option.some.injEq] at hfrom
    subst hfrom
    simp

-- non-vacuity
example : (gfa1OfEdge (edgeOfLink "A" .minus "B" .plus [⟨2, .M⟩, ⟨1, .D⟩, ⟨3, .M⟩] 10 8) 10 8).map (·.2.1) =
    some ⟨"A", .minus, "B", .plus, .cigar [⟨2, .M⟩, ⟨1, .D⟩, ⟨3, .M⟩]⟩ := by decide

example : (gfa1OfEdge (swapEdge (edgeOfLink "A" .plus "B" .plus [⟨2, .M⟩, ⟨1, .D⟩, ⟨1, .M⟩] 10 8)) 8 10).map (·.2.1) =
    some ⟨"A", .plus, "B", .plus, .cigar [⟨2, .M⟩, ⟨1, .D⟩, ⟨1, .M⟩]⟩ := by decide

end Gfa.C06
