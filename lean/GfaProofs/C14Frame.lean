import GfaProofs.C14Merge
import GfaProofs.C03
import GfaProofs.C05
/-!
# C05 / C14 — the frame of a removal and of a merge

"leaves everything else textually unchanged" (C05) and "every line not touching a chain is unchanged" (C14), for the
lines that refer to segments only (segments, links, containments, edges, gaps, fragments): such a line disappears
in a removal only if it is the line asked for or mentions a removed *segment*; the lines added by a merge never
displace a real line; so a real line of these types that mentions no member of the merged path is, after the merge,
a line of the Gfa with the same text.  (Paths and groups depend on other lines transitively — a path on a link on a
member — and are outside this statement: their frame is what the correspondence compares.)
-/
namespace Gfa.C14Frame
open G C09 C02 C03 C05

/-- the records that refer to segments only -/
def Plain (r : Rec) : Prop := r.rt = .S ∨ r.rt = .L ∨ r.rt = .C ∨ r.rt = .E ∨ r.rt = .G ∨ r.rt = .F

theorem plain_refs (r : Rec) (h : Plain r) : r.itemRefs = [] ∧ r.pathSteps = [] := by
  unfold Plain at h
  unfold Rec.itemRefs Rec.pathSteps
  rcases h with h | h | h | h | h | h <;> simp [h]

theorem plain_notU (r : Rec) (h : Plain r) : r.rt ≠ .U ∧ r.rt ≠ .unk := by
  unfold Plain at h
  rcases h with h | h | h | h | h | h <;> simp [h]

theorem seg_refs (r : Rec) (h : r.rt = .S) : r.segRefs = [] := by
  unfold Rec.segRefs; simp [h]

/-- a dependant that refers to segments only: asked for, or mentions a removed segment -/
theorem dep_plain (st : St) (seed : List Nat) (i : Nat) (r : Rec) (hd : Dep st seed i) (hr : st.lines[i]? = some r)
    (hp : Plain r) :
    i ∈ seed ∨ ∃ n ∈ r.segRefs, ∃ j d, Dep st seed j ∧ st.lines[j]? = some d ∧ d.rt = .S ∧ d.name = some n := by
  cases hd with
  | seed hm => exact Or.inl hm
  | step d hall hdep =>
    right
    obtain ⟨hi, hps⟩ := plain_refs r hp
    unfold dependsOn at hdep
    rw [hr] at hdep
    simp only [hi, hps, List.any_nil, Bool.or_false] at hdep
    obtain ⟨n, hn, hc⟩ := List.any_eq_true.mp hdep
    have hc' : n ∈ (d.filterMap (fun j => st.lines[j]?)).filterMap (fun d => if d.rt = .S then d.name else none) := by
      simpa using hc
    obtain ⟨q, hq, hqn⟩ := List.mem_filterMap.mp hc'
    obtain ⟨j, hj, hjq⟩ := List.mem_filterMap.mp hq
    by_cases hs : q.rt = .S
    · rw [if_pos hs] at hqn
      exact ⟨n, hn, j, q, hall j hj, hjq, hs, hqn⟩
    · rw [if_neg hs] at hqn; cases hqn

/-- a segment is removed only when it is asked for -/
theorem dep_seg (st : St) (seed : List Nat) (j : Nat) (d : Rec) (hd : Dep st seed j) (hr : st.lines[j]? = some d)
    (hs : d.rt = .S) : j ∈ seed := by
  rcases dep_plain st seed j d hd hr (Or.inl hs) with h | ⟨n, hn, _⟩
  · exact h
  · rw [seg_refs d hs] at hn; cases hn

/-- **what a removal takes, among the lines that refer to segments only** -/
theorem cascade_plain (st : St) (seed : List Nat) (i : Nat) (r : Rec) (hi : i ∈ cascade st seed)
    (hr : st.lines[i]? = some r) (hp : Plain r) :
    i ∈ seed ∨ ∃ n ∈ r.segRefs, ∃ j ∈ seed, ∃ d, st.lines[j]? = some d ∧ d.rt = .S ∧ d.name = some n := by
  rcases dep_plain st seed i r (cascade_sound st seed i hi) hr hp with h | ⟨n, hn, j, d, hd, hjd, hs, hdn⟩
  · exact Or.inl h
  · exact Or.inr ⟨n, hn, j, dep_seg st seed j d hd hjd hs, d, hjd, hs, hdn⟩

/-- a real line that is not a set and whose index is not taken stays, with the same text -/
theorem rmIdx_keeps (st : St) (seed : List Nat) (j : Nat) (q : Rec) (hq : st.lines[j]? = some q)
    (hj : j ∉ cascade st seed) (hv : q.virt = false) (hu : q.rt ≠ .U) : q ∈ (rmIdx st seed).lines := by
  have hlt : j < st.lines.length := by
    rcases Nat.lt_or_ge j st.lines.length with h | h
    · exact h
    · rw [List.getElem?_eq_none h] at hq; cases hq
  have h1 : q ∈ (rmCore st seed).lines :=
    (rmCore_lines st seed q).mpr ⟨q, j, hlt, hq, hj, (rm_kept_unchanged _ q hu).symm⟩
  obtain ⟨i, hi, hqi⟩ := List.getElem_of_mem h1
  refine (rm_lines st seed q).mpr ⟨q, i, ?_, ?_⟩
  · rw [List.getElem?_eq_getElem hi, hqi]
  · unfold resetPlaceholder; simp [hv]

/-- **frame of `rm`**: a real line referring to segments only, which is not the line removed and does not mention it,
    is still there, with the same text -/
theorem rm_frame (st st' : St) (n : String) (q : Rec) (he : rm st n = .ok st') (hq : q ∈ st.lines)
    (hv : q.virt = false) (hp : Plain q) (hname : q.name ≠ some n) (hm : n ∉ q.segRefs) : q ∈ st'.lines := by
  unfold rm at he
  split at he
  · cases he
  · rename_i i hfound
    injection he with he; subst he
    obtain ⟨hi, hpi⟩ := findIdx_some_lt _ _ _ hfound
    obtain ⟨j, hj, hjq⟩ := List.getElem_of_mem hq
    have hjq' : st.lines[j]? = some q := by rw [List.getElem?_eq_getElem hj, hjq]
    apply rmIdx_keeps st [i] j q hjq' _ hv (plain_notU q hp).1
    intro hc
    have hin : st.lines[i]? = some (st.lines.getD i default) := by
      simp [List.getD_eq_getElem?_getD, List.getElem?_eq_getElem hi]
    have hni : (st.lines.getD i default).name = some n := by simpa using hpi
    rcases cascade_plain st [i] j q hc hjq' hp with h | ⟨m, hmm, k, hk, d, hkd, _, hdn⟩
    · have : j = i := by simpa using h
      subst this
      rw [hin] at hjq'
      injection hjq' with hjq'
      rw [← hjq'] at hname; exact hname hni
    · have : k = i := by simpa using hk
      subst this
      rw [hin] at hkd
      injection hkd with hkd
      rw [← hkd, hni] at hdn
      injection hdn with hdn
      rw [← hdn] at hmm; exact hm hmm

theorem rmAll_frame : ∀ (ns : List String) (st st' : St) (q : Rec), rmAll st ns = .ok st' → q ∈ st.lines →
    q.virt = false → Plain q → (∀ n ∈ ns, q.name ≠ some n) → (∀ n ∈ ns, n ∉ q.segRefs) → q ∈ st'.lines := by
  intro ns
  induction ns with
  | nil => intro st st' q he hq _ _ _ _; simp [rmAll] at he; subst he; exact hq
  | cons n ns ih =>
    intro st st' q he hq hv hp hname hm
    simp only [rmAll] at he
    cases h1 : rm st n with
    | error e => simp [h1] at he
    | ok st1 =>
      simp only [h1] at he
      exact ih st1 st' q he (rm_frame st st1 n q h1 hq hv hp (hname n (by simp)) (hm n (by simp))) hv hp
        (fun m hmem => hname m (by simp [hmem])) (fun m hmem => hm m (by simp [hmem]))

-- ------------------------------------------------------------------ additions displace no real line
theorem substitute_keeps (st st' : St) (i : Nat) (r : Rec) (hvi : (st.lines.getD i default).virt = true)
    (he : substitute st i r = .ok st') : Keeps st st' := by
  unfold substitute at he
  have k := ensureRefs_keeps _ st' r he
  intro q hq hr hv
  apply k q _ hr hv
  simp only [replaceAt]
  apply mem_set_of_ne _ _ _ _ hq
  intro h; rw [h, hvi] at hv; cases hv

theorem register_keeps (st st' : St) (r : Rec) (he : register st r = .ok st') : Keeps st st' := by
  unfold register at he
  cases h1 : ensureRefs st r with
  | error e => simp [h1, Except.bind] at he
  | ok st1 =>
    simp only [h1, Except.bind] at he
    have k1 := ensureRefs_keeps st st1 r h1
    split at he
    · split at he
      · cases he
      · injection he with he; subst he; exact k1.trans (keeps_append _ _)
    · injection he with he; subst he; exact k1.trans (keeps_append _ _)

/-- **adding a line that is not a group line displaces no real line** (a group line is merged into the stored line
    of its identifier, which changes that line) -/
theorem add_keeps (st st' : St) (r : Rec) (hO : r.rt ≠ .O) (hU : r.rt ≠ .U) (he : add st r = .ok st') : Keeps st st' := by
  unfold add at he
  split at he
  · cases he
  split at he
  · split at he <;> cases he
  split at he
  · cases he
  split at he
  · -- a link
    split at he
    · cases he
    · rename_i l _
      split at he
      · rename_i i _
        split at he
        · cases he
        unfold addLinkOnto at he
        split at he
        · rename_i hvirt
          split at he
          · exact substitute_keeps st st' i r hvirt.1 he
          · cases he
        · split at he
          · injection he with he; subst he; exact Keeps.refl _
          · cases he
      · unfold addLinkFresh at he
        split at he
        · exact register_keeps st st' r he
        · split at he
          · exact register_keeps st st' r he
          · rename_i j _
            split at he
            · rename_i hvirt; exact substitute_keeps st st' j r hvirt.1 he
            · cases he
  · split at he
    · exact register_keeps st st' r he
    · split at he
      · exact register_keeps st st' r he
      · rename_i n _ i _
        unfold addOnto at he
        split at he
        · rename_i hvirt
          split at he
          · exact substitute_keeps st st' i r hvirt he
          · cases he
        · split at he
          · rename_i hg; rcases hg.1 with h | h
            · exact absurd h hO
            · exact absurd h hU
          · cases he

theorem addAll_keeps : ∀ (rs : List Rec) (st st' : St), (∀ r ∈ rs, r.rt ≠ .O ∧ r.rt ≠ .U) → addAll st rs = .ok st' →
    Keeps st st' := by
  intro rs
  induction rs with
  | nil => intro st st' _ he; simp [addAll] at he; subst he; exact Keeps.refl _
  | cons r rs ih =>
    intro st st' hr he
    simp only [addAll] at he
    cases h1 : add st r with
    | error e => simp [h1] at he
    | ok st1 =>
      simp only [h1] at he
      exact (add_keeps st st1 r (hr r (by simp)).1 (hr r (by simp)).2 h1).trans
        (ih st1 st' (fun x hx => hr x (by simp [hx])) he)

end Gfa.C14Frame

namespace Gfa.C14Frame
open G C09 C02 C03 C05

-- ------------------------------------------------------------------ the frame of a merge
theorem filing_mentions (r : Rec) : ∀ p ∈ r.filing, p.1 ∈ r.segRefs := by
  intro p hp
  unfold Rec.filing at hp
  unfold Rec.segRefs
  split at hp
  · rename_i h; simp only [h]; rcases List.mem_cons.mp hp with rfl | hp
    · simp
    · rcases List.mem_cons.mp hp with rfl | hp
      · simp
      · cases hp
  · rename_i h; simp only [h]; rcases List.mem_cons.mp hp with rfl | hp
    · simp
    · rcases List.mem_cons.mp hp with rfl | hp
      · simp
      · cases hp
  · rename_i h; simp only [h]
    split at hp
    · rcases List.mem_cons.mp hp with rfl | hp
      · simp
      · rcases List.mem_cons.mp hp with rfl | hp
        · simp
        · cases hp
    · cases hp
  · rename_i h; simp only [h]
    rcases List.mem_cons.mp hp with rfl | hp
    · simp [splitOriented]
    · rcases List.mem_cons.mp hp with rfl | hp
      · simp [splitOriented]
      · cases hp
  · cases hp

theorem filing_rt (r : Rec) (h : r.filing ≠ []) : r.rt = .L ∨ r.rt = .C ∨ r.rt = .E ∨ r.rt = .G := by
  unfold Rec.filing at h
  split at h <;> simp_all

/-- a dovetail mentions the two segments whose ends it joins, and is an edge line -/
theorem dovEnds_mentions (r : Rec) (a b : SegEnd) (h : dovEnds r = some (a, b)) :
    a.name ∈ r.segRefs ∧ b.name ∈ r.segRefs ∧ (r.rt = .L ∨ r.rt = .C ∨ r.rt = .E ∨ r.rt = .G) := by
  unfold dovEnds at h
  split at h
  · rename_i x k1 y k2 hf
    split at h
    · injection h with h
      injection h with h1 h2
      subst h1; subst h2
      refine ⟨filing_mentions r (x, k1) (by rw [hf]; simp), filing_mentions r (y, k2) (by rw [hf]; simp), ?_⟩
      exact filing_rt r (by rw [hf]; simp)
    · cases h
  · cases h

theorem moveESide_rt (r : Rec) (s : Nat) (m : String) (rev mr : Bool) (ml : Int) : (moveESide r s m rev mr ml).rt = r.rt := rfl

theorem moveTo_rt (r : Rec) (x : SegEnd) (m : String) (rev mr : Bool) (ml : Int) : (moveTo r x m rev mr ml).rt = r.rt := by
  unfold moveTo
  split
  · rfl
  · split
    · dsimp only; split <;> split <;> rfl
    · dsimp only; split <;> split <;> simp [moveESide_rt]
    · rfl

theorem mem_dovIdxOn (st : St) (x : SegEnd) (i : Nat) (h : i ∈ dovIdxOn st x) :
    ∃ r a b, st.lines[i]? = some r ∧ dovEnds r = some (a, b) ∧ (a = x ∨ b = x) := by
  unfold dovIdxOn at h
  obtain ⟨_, hp⟩ := List.mem_filter.mp h
  split at hp
  · rename_i r hr
    split at hp
    · rename_i a b hd
      exact ⟨r, a, b, hr, hd, by simpa using hp⟩
    · cases hp
  · cases hp

/-- **frame of the re-attachment**: a real line referring to segments only that does not mention the segment whose
    end is being emptied stays, with the same text -/
theorem relink_frame (st st' : St) (x : SegEnd) (m : String) (rev mr : Bool) (ml : Int) (q : Rec)
    (he : relink st x m rev mr ml = .ok st') (hq : q ∈ st.lines) (hv : q.virt = false) (hp : Plain q)
    (hm : x.name ∉ q.segRefs) : q ∈ st'.lines := by
  unfold relink at he
  obtain ⟨j, hj, hjq⟩ := List.getElem_of_mem hq
  have hjq' : st.lines[j]? = some q := by rw [List.getElem?_eq_getElem hj, hjq]
  have h1 : q ∈ (rmIdx st (dovIdxOn st x)).lines := by
    apply rmIdx_keeps st _ j q hjq' _ hv (plain_notU q hp).1
    intro hc
    rcases cascade_plain st _ j q hc hjq' hp with h | ⟨n, _, k, hk, d, hkd, hs, _⟩
    · obtain ⟨r, a, b, hr, hd, hab⟩ := mem_dovIdxOn st x j h
      rw [hjq'] at hr; injection hr with hr; subst hr
      obtain ⟨ha, hb, _⟩ := dovEnds_mentions q a b hd
      rcases hab with rfl | rfl
      · exact hm ha
      · exact hm hb
    · obtain ⟨r, a, b, hr, hd, _⟩ := mem_dovIdxOn st x k hk
      rw [hkd] at hr; injection hr with hr; subst hr
      obtain ⟨_, _, hrt⟩ := dovEnds_mentions d a b hd
      rw [hs] at hrt; simp at hrt
  refine addAll_keeps _ _ st' ?_ he q h1 (plain_notU q hp).2 hv
  intro r hr
  obtain ⟨i, hi, hir⟩ := List.mem_filterMap.mp hr
  cases hl : st.lines[i]? with
  | none => rw [hl] at hir; cases hir
  | some r0 =>
    rw [hl] at hir
    simp only [Option.map_some, Option.some.injEq] at hir
    obtain ⟨r1, a, b, hr1, hd, _⟩ := mem_dovIdxOn st x i hi
    rw [hl] at hr1; injection hr1 with hr1; subst hr1
    obtain ⟨_, _, hrt⟩ := dovEnds_mentions r0 a b hd
    rw [← hir, moveTo_rt]
    rcases hrt with h | h | h | h <;> simp [h]

theorem ite_ok {c : Prop} [Decidable c] {e : Err} {a : Rec} {b : Option Int} {x : Rec × Option Int}
    (h : (if c then (Except.error e : Except Err (Rec × Option Int)) else Except.ok (a, b)) = Except.ok x) : x.1 = a := by
  split at h
  · cases h
  · injection h with h; rw [← h]

/-- what a merge adds is a segment line -/
theorem mergedSegment_rt (st : St) (path : List SegEnd) (vl : Nat) (m : Rec) (mlen : Option Int)
    (hm : mergedSegment st path vl = .ok (m, mlen)) : m.rt = .S := by
  unfold mergedSegment at hm
  split at hm
  · cases hm
  · split at hm
    · extract_lets v name ln1 at hm
      clear_value v name ln1
      split at hm
      · split at hm <;> (injection hm with hm; injection hm with hm _; rw [← hm])
      · split at hm
        · cases hm
        · cases v with
          | gfa1 =>
            dsimp only at hm
            have h := ite_ok hm
            dsimp only at h
            rw [h]
          | gfa2 => dsimp only at hm; injection hm with hm; injection hm with hm _; rw [← hm]
    · cases hm

/-- the steps of a merge, with the two ends named -/
theorem mergePath_steps' (st st' : St) (path : List SegEnd) (vl : Nat) (hlen : 2 ≤ path.length)
    (he : mergePath st path vl = .ok st') :
    ∃ (m : Rec) (mlen : Option Int) (st1 st2 st3 : St) (a z : SegEnd), path.head? = some a ∧ path.getLast? = some z ∧
      add st m = .ok st1 ∧ m.rt = .S ∧
      relink st1 (SegEnd.inv a) (fld m 0) (!a.right) false (mlen.getD 0) = .ok st2 ∧
      relink st2 z (fld m 0) (!z.right) true (mlen.getD 0) = .ok st3 ∧
      rmAll st3 (path.map (·.name)) = .ok st' := by
  unfold mergePath at he
  rw [if_neg (by omega)] at he
  split at he
  · cases he
  · rename_i m mlen hm
    have hms : m.rt = .S := mergedSegment_rt st path vl m mlen hm
    split at he
    · rename_i st1 a z ha hh hl
      dsimp only at he
      split at he
      · rename_i st2 h2
        split at he
        · rename_i st3 h3
          exact ⟨m, mlen, st1, st2, st3, a, z, hh, hl, ha, hms, h2, h3, he⟩
        · cases he
      · cases he
    · cases he
    · cases he

/-- **every line not touching the chain is unchanged** (lines referring to segments only): a real segment, link,
    containment, edge, gap or fragment that is not a member of the merged path and mentions none of its members is,
    after the merge, a line of the Gfa with the same text -/
theorem mergePath_frame (st st' : St) (path : List SegEnd) (vl : Nat) (q : Rec)
    (he : mergePath st path vl = .ok st') (hq : q ∈ st.lines) (hv : q.virt = false) (hp : Plain q)
    (hname : ∀ e ∈ path, q.name ≠ some e.name) (hm : ∀ e ∈ path, e.name ∉ q.segRefs) : q ∈ st'.lines := by
  by_cases hlen : 2 ≤ path.length
  · obtain ⟨m, mlen, st1, st2, st3, a, z, hh, hl, ha, hms, h2, h3, h4⟩ := mergePath_steps' st st' path vl hlen he
    have ha' : a ∈ path := List.mem_of_mem_head? hh
    have hz' : z ∈ path := List.mem_of_getLast? hl
    have q1 : q ∈ st1.lines := add_keeps st st1 m (by simp [hms]) (by simp [hms]) ha q hq (plain_notU q hp).2 hv
    have q2 : q ∈ st2.lines := relink_frame st1 st2 _ _ _ _ _ q h2 q1 hv hp (by simpa [SegEnd.inv] using hm a ha')
    have q3 : q ∈ st3.lines := relink_frame st2 st3 _ _ _ _ _ q h3 q2 hv hp (hm z hz')
    apply rmAll_frame _ st3 st' q h4 q3 hv hp
    · intro n hn
      obtain ⟨e, he', rfl⟩ := List.mem_map.mp hn
      exact hname e he'
    · intro n hn
      obtain ⟨e, he', rfl⟩ := List.mem_map.mp hn
      exact hm e he'
  · unfold mergePath at he
    rw [if_pos (by omega)] at he
    injection he with he; subst he; exact hq

def mergeStep (vl : Nat) (acc : Except Err St) (p : List SegEnd) : Except Err St :=
  match acc with
  | .ok s => mergePath s p vl
  | .error e => .error e

/-- … and through `merge_linear_paths`, for a line that mentions no member of any of the merged paths -/
theorem mergeAll_frame_of (vl : Nat) (q : Rec) (hv : q.virt = false) (hp : Plain q) :
    ∀ (ps : List (List SegEnd)) (acc : Except Err St) (st' : St),
      (∀ p ∈ ps, ∀ e ∈ p, q.name ≠ some e.name) → (∀ p ∈ ps, ∀ e ∈ p, e.name ∉ q.segRefs) →
      (∀ s, acc = .ok s → q ∈ s.lines) → ps.foldl (mergeStep vl) acc = .ok st' → q ∈ st'.lines := by
  intro ps
  induction ps with
  | nil => intro acc st' _ _ h he; exact h st' he
  | cons p ps ih =>
    intro acc st' hname hm h he
    simp only [List.foldl_cons] at he
    apply ih _ st' (fun p' hp' => hname p' (by simp [hp'])) (fun p' hp' => hm p' (by simp [hp'])) _ he
    intro s hs
    cases acc with
    | error e => cases hs
    | ok s0 => exact mergePath_frame s0 s p vl q hs (h s0 rfl) hv hp (hname p (by simp)) (hm p (by simp))

theorem mergeAll_frame (st st' : St) (vl : Nat) (q : Rec) (he : mergeAll st vl = .ok st') (hq : q ∈ st.lines)
    (hv : q.virt = false) (hp : Plain q)
    (hname : ∀ p ∈ linearPaths st, ∀ e ∈ p, q.name ≠ some e.name)
    (hm : ∀ p ∈ linearPaths st, ∀ e ∈ p, e.name ∉ q.segRefs) : q ∈ st'.lines :=
  mergeAll_frame_of vl q hv hp (linearPaths st) (.ok st) st' hname hm
    (fun s hs => by injection hs with hs; subst hs; exact hq) he

end Gfa.C14Frame

namespace Gfa.C14Frame
open G

/- The premises are satisfiable (an executable test of the model, evaluated by the compiler, not a proof): merging A→B
   in a graph that also holds X→Y succeeds, and the link X→Y, which mentions no member, is a line afterwards. -/
def demo : St := ⟨.gfa1, [⟨.S, ["A", "ACGT"], false⟩, ⟨.S, ["B", "GTAA"], false⟩, ⟨.S, ["X", "CC"], false⟩, ⟨.S, ["Y", "CG"], false⟩,
  ⟨.L, ["A", "+", "B", "+", "2M"], false⟩, ⟨.L, ["X", "+", "Y", "+", "1M"], false⟩]⟩
#guard (mergePath demo [⟨"A", true⟩, ⟨"B", true⟩] 1).toOption.map (·.lines) ==
  some [⟨.S, ["X", "CC"], false⟩, ⟨.S, ["Y", "CG"], false⟩, ⟨.L, ["X", "+", "Y", "+", "1M"], false⟩, ⟨.S, ["A_B", "ACGTAA", "LN:i:6"], false⟩]

end Gfa.C14Frame

namespace Gfa.C14Frame
open G C09 C02 C03 C05

/-- **frame of a removal, every record type**: a real line that is not a (transitive) dependant of the lines asked for
    is still there - with the same text unless it is a set, which loses exactly the mentions of removed lines -/
theorem rmIdx_frame (st : St) (seed : List Nat) (j : Nat) (q : Rec) (hq : st.lines[j]? = some q)
    (hnd : ¬ Dep st seed j) (hv : q.virt = false) :
    dropItems ((cascade st seed).filterMap (fun j => (st.lines[j]?).bind Rec.name)) q ∈ (rmIdx st seed).lines ∧
    (q.rt ≠ .U → q ∈ (rmIdx st seed).lines) := by
  have hj : j ∉ cascade st seed := fun hc => hnd (cascade_sound st seed j hc)
  refine ⟨?_, fun hu => rmIdx_keeps st seed j q hq hj hv hu⟩
  have hlt : j < st.lines.length := by
    rcases Nat.lt_or_ge j st.lines.length with h | h
    · exact h
    · rw [List.getElem?_eq_none h] at hq; cases hq
  have h1 := (rmCore_lines st seed _).mpr ⟨q, j, hlt, hq, hj, rfl⟩
  obtain ⟨i, hi, hqi⟩ := List.getElem_of_mem h1
  refine (rm_lines st seed _).mpr ⟨_, i, by rw [List.getElem?_eq_getElem hi, hqi], ?_⟩
  unfold resetPlaceholder
  have : (dropItems ((cascade st seed).filterMap (fun j => (st.lines[j]?).bind Rec.name)) q).virt = false := by
    unfold dropItems; split <;> exact hv
  simp [this]

end Gfa.C14Frame
