import GfaModel.Line
/-!
# C01 — parse → write round trip (text level)

Splitting on the separator and joining are mutually inverse; a tag is written and parsed back
unchanged; hence a line is, and writing is a fixed point.  Per-datatype value round trips are C20's.
-/
namespace Gfa.C01
open Field Line

theorem splitOn_ne_nil (sep : Char) (s : List Char) : splitOn sep s ≠ [] := by
  induction s with
  | nil => simp [splitOn]
  | cons c cs ih =>
    simp only [splitOn]
    cases h : splitOn sep cs with
    | nil => exact absurd h ih
    | cons f fs => by_cases hc : c = sep <;> simp [hc]

/-- **join ∘ split = id** -/
theorem intercalate_splitOn (sep : Char) (s : List Char) : intercalate sep (splitOn sep s) = s := by
  induction s with
  | nil => rfl
  | cons c cs ih =>
    simp only [splitOn]
    cases h : splitOn sep cs with
    | nil => exact absurd h (splitOn_ne_nil sep cs)
    | cons f fs =>
      rw [h] at ih
      by_cases hc : c = sep
      · subst hc
        simp only [if_true, intercalate]
        rw [ih]; rfl
      · simp only [hc, if_false]
        cases fs with
        | nil => simp only [intercalate] at ih ⊢; rw [ih]
        | cons g gs => simp only [intercalate] at ih ⊢; rw [← ih]; rfl

theorem splitOn_no_sep (sep : Char) (f : List Char) (h : sep ∉ f) : splitOn sep f = [f] := by
  induction f with
  | nil => rfl
  | cons c cs ih =>
    simp only [List.mem_cons, not_or] at h
    have hc : ¬ c = sep := fun e => h.1 e.symm
    simp only [splitOn, ih h.2, hc, if_false]

theorem splitOn_append_sep (sep : Char) (f rest : List Char) (h : sep ∉ f) :
    splitOn sep (f ++ sep :: rest) = f :: splitOn sep rest := by
  induction f with
  | nil =>
    simp only [List.nil_append, splitOn]
    cases hr : splitOn sep rest with
    | nil => exact absurd hr (splitOn_ne_nil sep rest)
    | cons g gs => rfl
  | cons c cs ih =>
    simp only [List.mem_cons, not_or] at h
    have hc : ¬ c = sep := fun e => h.1 e.symm
    simp only [List.cons_append, splitOn, ih h.2, hc, if_false]

/-- **split ∘ join = id** on separator-free fields -/
theorem splitOn_intercalate (sep : Char) (fs : List (List Char)) (hne : fs ≠ []) (h : ∀ f ∈ fs, sep ∉ f) :
    splitOn sep (intercalate sep fs) = fs := by
  induction fs with
  | nil => exact absurd rfl hne
  | cons f fs ih =>
    cases fs with
    | nil => simp only [intercalate]; exact splitOn_no_sep sep f (h f (by simp))
    | cons g gs =>
      simp only [intercalate]
      rw [splitOn_append_sep sep f _ (h f (by simp))]
      have := ih (by simp) (fun x hx => h x (by simp [hx]))
      rw [this]

/-- **a tag is written and read back unchanged** -/
theorem tag_parse_print (t : Tag) (h : t.WF) : parseTag (printTag t) = some t := by
  obtain ⟨h1, h2, h3, h4, h5⟩ := h
  have h3' : tagTypes.contains t.dt = true := by simpa using h3
  have h4' : t.value.isEmpty = false := by cases hv : t.value <;> simp_all
  have h5' : t.value.contains '\n' = false := by simpa using h5
  simp only [printTag, parseTag, h1, h2, h3', h4', h5', Bool.and_self, Bool.not_false, if_true]

theorem mapM_parse_print (ts : List Tag) (h : ∀ t ∈ ts, t.WF) : (ts.map printTag).mapM parseTag = some ts := by
  induction ts with
  | nil => simp [List.mapM_nil]
  | cons t ts ih =>
    simp only [List.map_cons, List.mapM_cons, tag_parse_print t (h t (by simp)),
      ih (fun x hx => h x (by simp [hx]))]
    rfl

theorem printTag_no_tab (t : Tag) (h : t.WF) (hv : '\t' ∉ t.value) : '\t' ∉ printTag t := by
  obtain ⟨h1, h2, h3, _, _⟩ := h
  simp only [printTag, List.mem_cons, not_or]
  refine ⟨?_, ?_, by decide, ?_, by decide, hv⟩
  · intro e; rw [← e] at h1; revert h1; decide
  · intro e; rw [← e] at h2; revert h2; decide
  · intro e; rw [← e] at h3; revert h3; decide

/-- **a line is written and read back unchanged**: same record type, same positional fields, same tags -/
theorem line_parse_print (l : PLine) (h : l.WF) : parseLine l.pos.length (writeLine l) = some l := by
  obtain ⟨hrt, hpos, htags⟩ := h
  unfold parseLine writeLine
  rw [splitOn_intercalate '\t' _ (by simp)]
  · have hlen : ¬ ((l.pos ++ l.tags.map printTag).length < l.pos.length) := by
      simp only [List.length_append, List.length_map]; omega
    have hd : (l.pos ++ l.tags.map printTag).drop l.pos.length = l.tags.map printTag := by simp
    have ht : (l.pos ++ l.tags.map printTag).take l.pos.length = l.pos := by simp
    simp only [hlen, if_false, hd, ht]
    rw [mapM_parse_print l.tags (fun t ht => (htags t ht).1)]
  · intro f hf
    rcases List.mem_cons.mp hf with rfl | hf
    · exact hrt
    · rcases List.mem_append.mp hf with hf | hf
      · exact hpos f hf
      · rw [List.mem_map] at hf
        obtain ⟨t, ht, rfl⟩ := hf
        exact printTag_no_tab t (htags t ht).1 (htags t ht).2

/-- **writing is a fixed point**: whatever parses, writes back to the same text -/
theorem write_fixed_point (n : Nat) (s : List Char) (l : PLine) (h : parseLine n s = some l) : writeLine l = s := by
  unfold parseLine at h
  cases hs : splitOn '\t' s with
  | nil => exact absurd hs (splitOn_ne_nil _ _)
  | cons rt fs =>
    simp only [hs] at h
    split at h
    · cases h
    · cases hm : (fs.drop n).mapM parseTag with
      | none => simp [hm] at h
      | some tags =>
        simp only [hm, Option.some.injEq] at h
        subst h
        have hprint : tags.map printTag = fs.drop n := by
          clear hs
          generalize fs.drop n = ds at hm
          induction ds generalizing tags with
          | nil => simp [List.mapM_nil] at hm; subst hm; rfl
          | cons d ds ih =>
            rw [List.mapM_cons] at hm
            cases hd : parseTag d with
            | none => simp [hd] at hm
            | some t =>
              cases hds : ds.mapM parseTag with
              | none => simp [hd, hds] at hm
              | some ts =>
                simp [hd, hds] at hm; subst hm
                simp only [List.map_cons, ih ts hds]
                congr 1
                -- parseTag d = some t → printTag t = d
                unfold parseTag at hd
                split at hd
                · split at hd
                  · cases hd; rfl
                  · cases hd
                · cases hd
        unfold writeLine
        rw [hprint, List.take_append_drop]
        have := intercalate_splitOn '\t' s
        rw [hs] at this
        exact this

-- non-vacuity
example : parseLine 2 "S\tA\t*\tLN:i:5".toList = some ⟨['S'], [['A'], ['*']], [⟨'L', 'N', 'i', ['5']⟩]⟩ := by decide

end Gfa.C01
