import GfaModel.DocOrder
/-!
# C01 at document level: "records grouped by type" is a permutation, stable inside a group, and a fixed point

`writeOrder key n ls` lists the records group after group (`Gfa.lines`).  For any grouping function:
* `writeOrder_perm`: nothing is added or dropped — the written records are a permutation of the stored ones;
* `writeOrder_group`: inside a group the arrival order is kept;
* `writeOrder_idem`: writing what was written changes nothing (the grouping part of "writing is a fixed point").
-/
namespace Gfa.C01Doc
open Gfa.Doc

theorem filter_flatMap_range {α} (key : α → Nat) (ls : List α) (g : Nat) : ∀ n,
    ((List.range n).flatMap (fun h => ls.filter (fun x => key x == h))).filter (fun x => key x == g) =
      if g < n then ls.filter (fun x => key x == g) else [] := by
  intro n
  induction n with
  | zero => simp
  | succ k ih =>
    rw [List.range_succ, List.flatMap_append, List.filter_append, ih]
    simp only [List.flatMap_cons, List.flatMap_nil, List.append_nil, List.filter_filter]
    by_cases hgk : g < k
    · have hne : ¬ k = g := by omega
      have : ls.filter (fun x => (key x == g) && (key x == k)) = [] := by
        rw [List.filter_eq_nil_iff]; intro x _; simp only [Bool.and_eq_true, beq_iff_eq, not_and]
        intro h1 h2; omega
      rw [if_pos hgk, if_pos (by omega), this, List.append_nil]
    · by_cases hge : g = k
      · subst hge
        have : ls.filter (fun x => (key x == g) && (key x == g)) = ls.filter (fun x => key x == g) := by
          congr 1; funext x; simp
        rw [if_neg hgk, if_pos (by omega), this, List.nil_append]
      · have : ls.filter (fun x => (key x == g) && (key x == k)) = [] := by
          rw [List.filter_eq_nil_iff]; intro x _; simp only [Bool.and_eq_true, beq_iff_eq, not_and]
          intro h1 h2; omega
        rw [if_neg hgk, if_neg (by omega), this, List.append_nil]

/-- **inside a group the arrival order is kept** (and a group outside the range is dropped) -/
theorem writeOrder_group {α} (key : α → Nat) (n : Nat) (ls : List α) (g : Nat) :
    (writeOrder key n ls).filter (fun x => key x == g) = if g < n then ls.filter (fun x => key x == g) else [] :=
  filter_flatMap_range key ls g n

/-- **writing what was written changes nothing** -/
theorem writeOrder_idem {α} (key : α → Nat) (n : Nat) (ls : List α) :
    writeOrder key n (writeOrder key n ls) = writeOrder key n ls := by
  unfold writeOrder
  have : ∀ (l : List Nat), (∀ g ∈ l, g < n) →
      l.flatMap (fun g => ((List.range n).flatMap (fun h => ls.filter (fun x => key x == h))).filter (fun x => key x == g)) =
      l.flatMap (fun g => ls.filter (fun x => key x == g)) := by
    intro l
    induction l with
    | nil => intro _; rfl
    | cons g t ih =>
      intro hl
      rw [List.flatMap_cons, List.flatMap_cons, ih (fun g hg => hl g (List.mem_cons_of_mem _ hg)),
        filter_flatMap_range key ls g n, if_pos (hl g List.mem_cons_self)]
  exact this (List.range n) (fun g hg => by simpa using hg)

theorem count_flatMap_range {α} [BEq α] [LawfulBEq α] (key : α → Nat) (ls : List α) (a : α) : ∀ n,
    ((List.range n).flatMap (fun h => ls.filter (fun x => key x == h))).count a = if key a < n then ls.count a else 0 := by
  intro n
  induction n with
  | zero => simp
  | succ k ih =>
    rw [List.range_succ, List.flatMap_append, List.count_append, ih]
    simp only [List.flatMap_cons, List.flatMap_nil, List.append_nil]
    rw [show List.count a (List.filter (fun x => key x == k) ls) = if (key a == k) then ls.count a else 0 from by
      by_cases hk : (key a == k) = true
      · rw [if_pos hk, List.count_filter]; exact hk
      · rw [if_neg hk]; apply List.count_eq_zero_of_not_mem; intro hm; exact hk (List.mem_filter.mp hm).2]
    by_cases h1 : key a < k
    · have e : (key a == k) = false := by simp; omega
      have h3 : key a < k + 1 := by omega
      simp only [if_pos h1, if_pos h3, e]; simp
    · by_cases h2 : key a = k
      · have e : (key a == k) = true := by simp [h2]
        have h3 : key a < k + 1 := by omega
        simp only [if_neg h1, if_pos h3, e]; simp
      · have e : (key a == k) = false := by simpa using h2
        have h3 : ¬ key a < k + 1 := by omega
        simp only [if_neg h1, if_neg h3, e]; simp

/-- **nothing is added or dropped**: the written records are a permutation of the stored ones -/
theorem writeOrder_perm {α} [BEq α] [LawfulBEq α] (key : α → Nat) (n : Nat) (ls : List α) (h : ∀ x ∈ ls, key x < n) :
    (writeOrder key n ls).Perm ls := by
  rw [List.perm_iff_count]
  intro a
  unfold writeOrder
  rw [count_flatMap_range]
  by_cases ha : a ∈ ls
  · rw [if_pos (h a ha)]
  · split
    · rfl
    · exact (List.count_eq_zero_of_not_mem ha).symm

theorem groupOf_lt (rt : String) : groupOf rt < nGroups := by
  unfold groupOf nGroups; split <;> omega

/-- the document order of gfapy: a permutation of the records, for any document -/
theorem doc_order_perm (rts : List String) : (writeOrder groupOf nGroups rts).Perm rts :=
  writeOrder_perm groupOf nGroups rts (fun x _ => groupOf_lt x)

theorem groupIn_lt (rts : List String) (rt : String) : groupIn rts rt < nGroupsIn rts := by
  unfold groupIn nGroupsIn
  split
  · have := groupOf_lt rt; unfold nGroups at this; omega
  · have : (customKeys rts).idxOf rt ≤ (customKeys rts).length := List.idxOf_le_length; omega

/-- **the written records are a permutation of the stored ones**, custom record types included -/
theorem docOrder_perm (rts : List String) : (docOrder rts).Perm rts :=
  writeOrder_perm _ _ rts (fun x _ => groupIn_lt rts x)

/-- the grouping is a fixed point: the document order of a written document is itself, provided the custom
    record types keep their order of first appearance (they do: `customKeys` only looks at first appearances
    and each group is written whole) -/
theorem docOrder_idem_keys (rts : List String) :
    writeOrder (groupIn rts) (nGroupsIn rts) (docOrder rts) = docOrder rts :=
  writeOrder_idem _ _ rts

example : docOrder ["zz", "Y", "S", "X", "Y", "zz", "#"] = ["#", "S", "zz", "zz", "Y", "Y", "X"] := by decide

example : writeOrder groupOf nGroups ["L", "S", "#", "X", "H", "S", "P", "C"] = ["#", "H", "S", "S", "L", "C", "P", "X"] := by decide

theorem flatMap_range_sorted {α} (key : α → Nat) (ls : List α) : ∀ n,
    (((List.range n).flatMap (fun h => ls.filter (fun x => key x == h))).map key).Pairwise (· ≤ ·) ∧
    ∀ x ∈ (List.range n).flatMap (fun h => ls.filter (fun x => key x == h)), key x < n := by
  intro n
  induction n with
  | zero => simp
  | succ k ih =>
    rw [List.range_succ, List.flatMap_append]
    simp only [List.flatMap_cons, List.flatMap_nil, List.append_nil, List.map_append]
    constructor
    · rw [List.pairwise_append]
      refine ⟨ih.1, ?_, ?_⟩
      · rw [List.pairwise_map]
        apply List.Pairwise.imp_of_mem (R := fun _ _ => True)
        · intro a b ha hb _
          have h1 := (List.mem_filter.mp ha).2
          have h2 := (List.mem_filter.mp hb).2
          simp only [beq_iff_eq] at h1 h2
          omega
        · exact List.pairwise_of_forall (fun _ _ => trivial)
      · intro a ha b hb
        obtain ⟨x, hx, rfl⟩ := List.mem_map.mp ha
        obtain ⟨y, hy, rfl⟩ := List.mem_map.mp hb
        have h1 := ih.2 x hx
        have h2 := (List.mem_filter.mp hy).2
        simp only [beq_iff_eq] at h2
        omega
    · intro x hx
      rcases List.mem_append.mp hx with h | h
      · have := ih.2 x h; omega
      · have h2 := (List.mem_filter.mp h).2
        simp only [beq_iff_eq] at h2
        omega

/-- **the groups are written in ascending order**: in the written document no record of a later group precedes a
    record of an earlier one (comments, headers, segments, edges, paths, sets, gaps, fragments, custom records) -/
theorem writeOrder_sorted {α} (key : α → Nat) (n : Nat) (ls : List α) :
    ((writeOrder key n ls).map key).Pairwise (· ≤ ·) :=
  (flatMap_range_sorted key ls n).1

end Gfa.C01Doc
