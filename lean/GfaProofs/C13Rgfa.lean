import GfaModel.Rgfa
/-!
# C13 / C04 — the rGFA dialect (`Rgfa.lean`)

`rgfa_ok_iff`: `validate_rgfa()` accepts exactly the GFA1 graphs without header, containment and path lines whose
segments carry SN:Z, SO:i, SR:i, whose links carry SR/L1/L2 only with type `i`, and whose overlaps are all `0M`.
`rgfa_gfa2_refused`: GFA2 content is refused with VersionError, whatever else holds.
-/
namespace Gfa.C13Rgfa
open Gfa.G

theorem firstSome_none {α β} (l : List α) (f : α → Option β) : firstSome l f = none ↔ ∀ x ∈ l, f x = none := by
  induction l with
  | nil => simp [firstSome]
  | cons x xs ih =>
    simp only [firstSome]
    cases h : f x with
    | some e => simp [h]
    | none => simp [h, ih]

/-- what a line's tags must look like: every mandatory tag present, every listed tag of the listed type -/
theorem tagsComplaint_none (must may : List (String × Char)) (tags : List String) :
    tagsComplaint must may tags = none ↔
      (∀ p ∈ must, (tagOf? p.1 tags).isSome = true) ∧
      (∀ p ∈ must ++ may, ∀ t, tagOf? p.1 tags = some t → tagType t = p.2) := by
  unfold tagsComplaint
  constructor
  · intro h
    split at h
    · cases h
    · rename_i h1
      split at h
      · cases h
      · rename_i h2
        simp only [List.any_eq_true, not_exists, not_and, Bool.not_eq_true, Option.isNone_eq_false_iff] at h1
        refine ⟨fun p hp => ?_, fun p hp t ht => ?_⟩
        · simpa [Option.isSome_iff_ne_none, Option.isNone_iff_eq_none] using h1 p hp
        · simp only [List.any_eq_true, not_exists, not_and, Bool.not_eq_true] at h2
          have := h2 p hp
          rw [ht] at this
          simpa using this
  · rintro ⟨h1, h2⟩
    rw [if_neg, if_neg]
    · simp only [List.any_eq_true, not_exists, not_and, Bool.not_eq_true]
      intro p hp
      cases ht : tagOf? p.1 tags with
      | none => rfl
      | some t => simp [h2 p hp t ht]
    · simp only [List.any_eq_true, not_exists, not_and, Bool.not_eq_true]
      intro p hp
      have := h1 p hp
      cases ht : tagOf? p.1 tags with
      | none => rw [ht] at this; cases this
      | some t => rfl

/-- **`validate_rgfa()` accepts exactly the rGFA graphs** -/
theorem rgfa_ok_iff (st : St) (hasHeader : Bool) :
    validateRgfa st hasHeader = none ↔
      st.ver = .gfa1 ∧ hasHeader = false ∧ (∀ r ∈ st.lines, r.rt ≠ .C ∧ r.rt ≠ .P) ∧
      (∀ r ∈ st.lines, r.rt = .S → tagsComplaint mandatoryS [] (sTags .gfa1 r) = none) ∧
      (∀ r ∈ st.lines, r.rt = .L → tagsComplaint [] optionalL (r.fields.drop 5) = none ∧ isZeroM (fld r 4) = true) := by
  unfold validateRgfa
  constructor
  · intro h
    split at h
    · cases h
    rename_i hv
    split at h
    · cases h
    rename_i hh
    split at h
    · cases h
    rename_i hc
    split at h
    · cases h
    rename_i hp
    split at h
    · cases h
    rename_i hs
    split at h
    · cases h
    rename_i hl
    split at h
    · cases h
    rename_i ho
    simp only [List.any_eq_true, not_exists, not_and, Bool.not_eq_true, beq_eq_false_iff_ne, ne_eq] at hc hp
    refine ⟨by simpa using hv, by simpa using hh, fun r hr => ⟨hc r hr, hp r hr⟩, ?_, ?_⟩
    · intro r hr hrt
      exact (firstSome_none _ _).mp hs r (List.mem_filter.mpr ⟨hr, by simp [hrt]⟩)
    · intro r hr hrt
      refine ⟨(firstSome_none _ _).mp hl r (List.mem_filter.mpr ⟨hr, by simp [hrt]⟩), ?_⟩
      simp only [List.any_eq_true, not_exists, not_and, Bool.not_eq_true] at ho
      have := ho r hr
      simpa [hrt] using this
  · rintro ⟨hv, hh, hcp, hs, hl⟩
    have e1 : firstSome (st.lines.filter (fun r => r.rt == .S)) (fun r => tagsComplaint mandatoryS [] (sTags .gfa1 r)) = none := by
      rw [firstSome_none]; intro r hr
      obtain ⟨hr1, hr2⟩ := List.mem_filter.mp hr
      exact hs r hr1 (by simpa using hr2)
    have e2 : firstSome (st.lines.filter (fun r => r.rt == .L)) (fun r => tagsComplaint [] optionalL (r.fields.drop 5)) = none := by
      rw [firstSome_none]; intro r hr
      obtain ⟨hr1, hr2⟩ := List.mem_filter.mp hr
      exact (hl r hr1 (by simpa using hr2)).1
    rw [if_neg (by simp [hv]), if_neg (by simp [hh]), if_neg, if_neg, e1, e2]
    · simp only []
      rw [if_neg]
      simp only [List.any_eq_true, not_exists, not_and, Bool.not_eq_true]
      intro r hr
      cases hrt : decide (r.rt = .L) with
      | false => simp at hrt; simp [hrt]
      | true => simp at hrt; simp [hrt, (hl r hr hrt).2]
    · simp only [List.any_eq_true, not_exists, not_and, Bool.not_eq_true, beq_eq_false_iff_ne, ne_eq]
      exact fun r hr => (hcp r hr).2
    · simp only [List.any_eq_true, not_exists, not_and, Bool.not_eq_true, beq_eq_false_iff_ne, ne_eq]
      exact fun r hr => (hcp r hr).1

/-- GFA2 content under the rGFA dialect is a version conflict, whatever else holds -/
theorem rgfa_gfa2_refused (st : St) (hasHeader : Bool) (h : st.ver = .gfa2) : validateRgfa st hasHeader = some .version := by
  unfold validateRgfa; simp [h]

example : validateRgfa ⟨.gfa1, [⟨.S, ["a", "ACG", "SN:Z:chr1", "SO:i:0", "SR:i:0"], false⟩,
    ⟨.S, ["b", "ACG", "SN:Z:chr1", "SO:i:3", "SR:i:0"], false⟩, ⟨.L, ["a", "+", "b", "+", "0M", "L1:i:3"], false⟩]⟩ false = none := by decide
example : validateRgfa ⟨.gfa1, [⟨.S, ["a", "ACG", "SN:Z:chr1", "SO:i:0"], false⟩]⟩ false = some .notFound := by decide

end Gfa.C13Rgfa
