import GfaModel.GraphObs
import GfaProofs.C12
/-!
# C12 / C03 — the orientation of a link in a path step (`Path._link_orient`, `GraphObs.linkOrient`)

The flag is a function of the step and the link alone (no arrival order enters: `linkOrient` has no other argument),
and it behaves as "a link and its complement are one edge" demands:

* `compl_direct_eq`, `compl_compl_eq`: the complement form of a link matches a step directly exactly when the link
  matches it as complement, and vice versa (overlaps on which complementing is an involution);
* `orient_flips`: storing the link in its other form flips the flag of a step that is matched one way only;
* `orient_both_ways`: a step matched both ways (hairpin link, overlap left open or self-complementary) is walked
  forwards in either form — the case in which the flag used to depend on the arrival order.
-/
namespace Gfa.C12
open Gfa.G

theorem beq_congr {α β} [BEq α] [LawfulBEq α] [BEq β] [LawfulBEq β] {a b : α} {c d : β} (h : a = b ↔ c = d) :
    (a == b) = (c == d) := by
  by_cases hab : a = b
  · have := h.mp hab; simp [hab, this]
  · have hcd : ¬ c = d := fun hcd => hab (h.mpr hcd)
    rw [beq_eq_false_iff_ne.mpr hab, beq_eq_false_iff_ne.mpr hcd]

theorem compl_truthy (a : Aln) : a.compl.truthy = a.truthy := by
  cases a with
  | star => rfl
  | cigar c => simp [Aln.compl, Aln.truthy, Cigar.compl]

theorem compl_eq_iff (a b : Aln) (ha : a.Involutive) (hb : b.Involutive) : a.compl = b ↔ a = b.compl := by
  constructor
  · intro h; rw [← h, aln_compl_compl _ ha]
  · intro h; rw [h, aln_compl_compl _ hb]

theorem compl_inj_iff (a b : Aln) (ha : a.Involutive) (hb : b.Involutive) : a.compl = b.compl ↔ a = b := by
  constructor
  · intro h
    have := congrArg Aln.compl h
    rwa [aln_compl_compl _ ha, aln_compl_compl _ hb] at this
  · intro h; rw [h]

theorem compl_direct_eq (k : Link) (h : k.ovl.Involutive) (f : String) (fo : Orient) (t : String) (too : Orient) (o : Aln)
    (ho : o.Involutive) :
    k.compl.compatDirect f fo t too o = k.compatCompl f fo t too o := by
  unfold Link.compatDirect Link.compatCompl Link.compl
  simp only []
  have e1 : (k.too.inv == fo) = (k.too == fo.inv) := by cases k.too <;> cases fo <;> rfl
  have e2 : (k.fo.inv == too) = (k.fo == too.inv) := by cases k.fo <;> cases too <;> rfl
  have e3 : (k.ovl.compl == o) = (k.ovl == o.compl) := beq_congr (compl_eq_iff _ _ h ho)
  rw [e1, e2, e3, compl_truthy]

theorem compl_compl_eq (k : Link) (h : k.ovl.Involutive) (f : String) (fo : Orient) (t : String) (too : Orient) (o : Aln)
    (ho : o.Involutive) :
    k.compl.compatCompl f fo t too o = k.compatDirect f fo t too o := by
  unfold Link.compatDirect Link.compatCompl Link.compl
  simp only []
  have e1 : (k.fo.inv == fo.inv) = (k.fo == fo) := by cases k.fo <;> cases fo <;> rfl
  have e2 : (k.too.inv.inv == too.inv) = (k.too.inv == too) ∨ True := Or.inr trivial
  have e2' : (k.too.inv == too.inv) = (k.too == too) := by cases k.too <;> cases too <;> rfl
  have e3 : (k.ovl.compl == o.compl) = (k.ovl == o) := beq_congr (compl_inj_iff _ _ h ho)
  rw [e1, e2', e3, compl_truthy]

/-- storing the link in its other form flips the flag of a step that is matched one way only -/
theorem orient_flips (k s : Link) (h : k.ovl.Involutive) (hs : s.ovl.Involutive)
    (hone : k.compatDirect s.frm s.fo s.to s.too s.ovl ≠ k.compatCompl s.frm s.fo s.to s.too s.ovl) :
    (linkOrient k s = "+" ∧ linkOrient k.compl s = "-") ∨ (linkOrient k s = "-" ∧ linkOrient k.compl s = "+") := by
  unfold linkOrient
  rw [compl_direct_eq k h _ _ _ _ _ hs, compl_compl_eq k h _ _ _ _ _ hs]
  cases hd : k.compatDirect s.frm s.fo s.to s.too s.ovl <;> cases hc : k.compatCompl s.frm s.fo s.to s.too s.ovl
  · rw [hd, hc] at hone; exact absurd rfl hone
  · right; simp
  · left; simp
  · rw [hd, hc] at hone; exact absurd rfl hone

/-- a step matched both ways is walked forwards, in whichever form the link is stored -/
theorem orient_both_ways (k s : Link) (h : k.ovl.Involutive) (hs : s.ovl.Involutive)
    (hd : k.compatDirect s.frm s.fo s.to s.too s.ovl = true) (hc : k.compatCompl s.frm s.fo s.to s.too s.ovl = true) :
    linkOrient k s = "+" ∧ linkOrient k.compl s = "+" := by
  unfold linkOrient
  rw [compl_direct_eq k h _ _ _ _ _ hs, compl_compl_eq k h _ _ _ _ _ hs, hd, hc]
  simp

-- the situation of the repaired defect: a hairpin link with an asymmetric overlap and a step that leaves the overlap open
example : linkOrient ⟨"a", .minus, "a", .plus, .cigar [⟨1, .M⟩, ⟨1, .I⟩, ⟨2, .M⟩]⟩ ⟨"a", .minus, "a", .plus, .star⟩ = "+" := by decide
example : linkOrient (Link.compl ⟨"a", .minus, "a", .plus, .cigar [⟨1, .M⟩, ⟨1, .I⟩, ⟨2, .M⟩]⟩) ⟨"a", .minus, "a", .plus, .star⟩ = "+" := by decide
-- an ordinary link walked backwards
example : linkOrient ⟨"a", .plus, "b", .plus, .star⟩ ⟨"b", .minus, "a", .minus, .star⟩ = "-" := by decide

end Gfa.C12

namespace Gfa.C03
open Gfa.G

/-- a search that at most one element can satisfy does not depend on the order of the list -/
theorem find?_perm_unique {α} (p : α → Bool) (l l' : List α) (hp : l.Perm l')
    (huniq : ∀ a ∈ l, ∀ b ∈ l, p a = true → p b = true → a = b) : l.find? p = l'.find? p := by
  cases h : l.find? p with
  | none =>
    rw [List.find?_eq_none] at h
    symm; rw [List.find?_eq_none]
    intro x hx; exact h x (hp.mem_iff.mpr hx)
  | some a =>
    have ha := List.mem_of_find?_eq_some h
    have hpa := List.find?_some h
    cases h' : l'.find? p with
    | none =>
      rw [List.find?_eq_none] at h'
      exact absurd hpa (by simpa using h' a (hp.mem_iff.mp ha))
    | some b =>
      have hb := hp.mem_iff.mpr (List.mem_of_find?_eq_some h')
      have hpb := List.find?_some h'
      rw [huniq a ha b hb hpa hpb]

/-- a step of a path that at most one stored link can satisfy -/
def ResolvesUniquely (st : St) (s : Link) : Prop :=
  ∀ a ∈ st.lines, ∀ b ∈ st.lines, fits s a = true → fits s b = true → a = b

/-- **`path.links` — the link every step is bound to and its orientation flag — does not depend on the order in which
    the lines are stored**, for every path whose steps resolve uniquely (no two stored links fit one step) -/
theorem pathLinks_perm (st st' : St) (p : Rec) (hp : st.lines.Perm st'.lines)
    (hu : ∀ s ∈ p.pathSteps, ResolvesUniquely st s) : pathLinks st p = pathLinks st' p := by
  unfold pathLinks
  apply List.map_congr_left
  intro s hs
  rw [find?_perm_unique _ st.lines st'.lines hp (hu s hs)]

end Gfa.C03
