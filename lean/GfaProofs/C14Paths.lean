import GfaModel.LinearPaths
/-!
# C14 — `linear_paths` returns chains joined by dovetails that are the only dovetail on both joined ends

The model (`GfaModel/LinearPaths.lean`) follows `linear_paths.py` statement by statement and is compared with
`Gfa.linear_paths()` / `Gfa.linear_path(s)` of the library on whole graphs (exact order and orientation).

Proved here, for every end graph `nb` that is symmetric (the end graph of a model Gfa is: `otherEnds_sym`):
every path returned by `linearPath` / `linearPaths` is a chain — each consecutive pair of segment ends `x, y`
satisfies `Joined nb x y`: the only dovetail on the end `x` leads to the end `y.inv`, and the only dovetail on
`y.inv` leads back to `x` — and every path returned by `linearPaths` has at least two members.

Not proved: maximality / completeness (that no chain is missed and none can be extended); decided by the text-level
oracle on the library.
-/
namespace Gfa.C14
open G

-- ------------------------------------------------------------------ chains of a relation
def Chain {α} (R : α → α → Prop) : List α → Prop
  | [] => True
  | [_] => True
  | x :: y :: rest => R x y ∧ Chain R (y :: rest)

theorem chain_tail {α} {R : α → α → Prop} {x : α} {l : List α} (h : Chain R (x :: l)) : Chain R l := by
  cases l with
  | nil => trivial
  | cons y r => exact h.2

theorem chain_snoc {α} {R : α → α → Prop} (l : List α) (x : α) (h : Chain R l)
    (hl : ∀ z, l.getLast? = some z → R z x) : Chain R (l ++ [x]) := by
  induction l with
  | nil => trivial
  | cons a r ih =>
    cases r with
    | nil => exact ⟨hl a rfl, trivial⟩
    | cons b r' =>
      refine ⟨h.1, ?_⟩
      apply ih h.2
      intro z hz
      apply hl z
      simpa [List.getLast?_cons_cons] using hz

theorem chain_append {α} {R : α → α → Prop} (a b : List α) (x : α) (h1 : Chain R (a ++ [x]))
    (h2 : Chain R (x :: b)) : Chain R (a ++ x :: b) := by
  induction a with
  | nil => exact h2
  | cons y r ih =>
    cases r with
    | nil => exact ⟨h1.1, h2⟩
    | cons z r' => exact ⟨h1.1, ih h1.2⟩

theorem chain_prefix {α} {R : α → α → Prop} (a b : List α) (h : Chain R (a ++ b)) : Chain R a := by
  induction a with
  | nil => trivial
  | cons y r ih =>
    cases r with
    | nil => trivial
    | cons z r' => exact ⟨h.1, ih h.2⟩

theorem chain_dropLast {α} {R : α → α → Prop} (l : List α) (h : Chain R l) : Chain R l.dropLast := by
  have : l = l.dropLast ++ (l.drop (l.length - 1)) := by
    rw [List.dropLast_eq_take]; exact (List.take_append_drop _ _).symm
  rw [this] at h
  exact chain_prefix _ _ h

theorem chain_rev {α} {R : α → α → Prop} (f : α → α) (hf : ∀ x y, R x y → R (f y) (f x)) (l : List α)
    (h : Chain R l) : Chain R (l.map f).reverse := by
  induction l with
  | nil => trivial
  | cons x r ih =>
    simp only [List.map_cons, List.reverse_cons]
    apply chain_snoc _ _ (ih (chain_tail h))
    intro z hz
    cases r with
    | nil => simp at hz
    | cons y r' =>
      simp only [List.map_cons, List.reverse_cons, List.getLast?_append, List.getLast?_singleton,
        Option.some_or] at hz
      cases hz
      exact hf x y h.1

-- ------------------------------------------------------------------ the end graph
def Sym (nb : SegEnd → List SegEnd) : Prop := ∀ x y, y ∈ nb x → x ∈ nb y

/-- `x` then `y` are consecutive members of a chain: the dovetail leaving `x` enters `y` (at its other end), and it
    is the only dovetail on both joined ends -/
def Joined (nb : SegEnd → List SegEnd) (x y : SegEnd) : Prop := nb x = [y.inv] ∧ nb y.inv = [x]

theorem inv_inv (x : SegEnd) : x.inv.inv = x := by
  cases x; simp [SegEnd.inv]

theorem joined_rev (nb : SegEnd → List SegEnd) (x y : SegEnd) (h : Joined nb x y) : Joined nb y.inv x.inv := by
  unfold Joined at *
  simp only [inv_inv]
  exact ⟨h.2, h.1⟩

theorem otherEndsOf_sym (ps : List (SegEnd × SegEnd)) : Sym (otherEndsOf ps) := by
  intro x y hy
  unfold otherEndsOf at *
  simp only [List.mem_flatMap, List.mem_append] at *
  obtain ⟨p, hp, h⟩ := hy
  refine ⟨p, hp, ?_⟩
  rcases h with h | h
  · split at h
    · rename_i h1; simp at h; subst h; right; simp [h1]
    · cases h
  · split at h
    · rename_i h1; simp at h; subst h; left; simp [h1]
    · cases h

theorem otherEnds_sym (st : St) : Sym (otherEnds st) := otherEndsOf_sym _

theorem singleton_of_len_mem {α} (l : List α) (x : α) (h1 : l.length = 1) (h2 : x ∈ l) : l = [x] := by
  match l, h1 with
  | [a], _ => simp at h2; rw [h2]

-- ------------------------------------------------------------------ traversal
/-- the traversal extends the list it is given, and what it adds starts with the current end -/
theorem traverse_prefix (nb : SegEnd → List SegEnd) (fuel : Nat) : ∀ (cur : SegEnd) (lst : List SegEnd) (ex : List String),
    ∃ t, (traverse nb fuel cur lst ex).1 = lst ++ t ∧ (t ≠ [] → t.head? = some cur) := by
  induction fuel with
  | zero => intro cur lst ex; exact ⟨[], by simp [traverse], fun h => absurd rfl h⟩
  | succ n ih =>
    intro cur lst ex
    simp only [traverse]
    split
    · split
      · exact ⟨[], by simp, fun h => absurd rfl h⟩
      · rename_i o rest _
        split
        · exact ⟨[cur], rfl, fun _ => rfl⟩
        · obtain ⟨t, ht, _⟩ := ih o.inv (lst ++ [cur]) (cur.name :: ex)
          exact ⟨cur :: t, by rw [ht]; simp, fun _ => rfl⟩
    · split
      · exact ⟨[cur], rfl, fun _ => rfl⟩
      · exact ⟨[], by simp, fun h => absurd rfl h⟩

/-- **the traversal builds a chain** -/
theorem traverse_chain (nb : SegEnd → List SegEnd) (hs : Sym nb) (fuel : Nat) :
    ∀ (cur : SegEnd) (lst : List SegEnd) (ex : List String), Chain (Joined nb) lst →
      (∀ l, lst.getLast? = some l → nb l = [cur.inv]) → (lst = [] → (nb cur).length = 1) →
      Chain (Joined nb) (traverse nb fuel cur lst ex).1 := by
  induction fuel with
  | zero => intro cur lst ex hc _ _; simpa [traverse] using hc
  | succ n ih =>
    intro cur lst ex hc hlast hfirst
    -- appending the current end keeps the chain, provided its incoming end carries one dovetail
    have snoc : (lst = [] ∨ (nb cur.inv).length = 1) → Chain (Joined nb) (lst ++ [cur]) := by
      intro hb
      apply chain_snoc _ _ hc
      intro l hl
      have hne : lst ≠ [] := by intro h; subst h; simp at hl
      have hb1 : (nb cur.inv).length = 1 := by rcases hb with h | h; exact absurd h hne; exact h
      have h1 := hlast l hl
      have hmem : l ∈ nb cur.inv := hs l cur.inv (by rw [h1]; simp)
      exact ⟨h1, singleton_of_len_mem _ _ hb1 hmem⟩
    simp only [traverse]
    split
    · rename_i hcond
      have hafter : (nb cur).length = 1 := by
        rcases hcond with h | h
        · exact h.2
        · exact hfirst h
      have hsn := snoc (by rcases hcond with h | h; exact Or.inr h.1; exact Or.inl h)
      split
      · exact hc
      · rename_i o rest hnb
        have hrest : rest = [] := by rw [hnb] at hafter; simpa using hafter
        subst hrest
        split
        · exact hsn
        · apply ih o.inv (lst ++ [cur]) (cur.name :: ex) hsn
          · intro l hl
            simp only [List.getLast?_append, List.getLast?_singleton, Option.some_or, Option.some.injEq] at hl
            subst hl
            rw [hnb, inv_inv]
          · intro h; simp at h
    · rename_i hcond
      split
      · rename_i hb
        exact snoc (Or.inr hb)
      · exact hc

theorem traverseFrom_chain (nb : SegEnd → List SegEnd) (hs : Sym nb) (fuel : Nat) (start : SegEnd) (ex : List String)
    (h1 : (nb start).length = 1) : Chain (Joined nb) (traverseFrom nb fuel start ex).1 := by
  have hc := traverse_chain nb hs fuel start [] ex trivial (by intro l hl; simp at hl) (fun _ => h1)
  unfold traverseFrom
  simp only
  split
  · exact hc
  · exact chain_rev SegEnd.inv (joined_rev nb) _ hc

/-- the forward traversal, when it returns something, starts with its start end -/
theorem traverseFrom_right_head (nb : SegEnd → List SegEnd) (fuel : Nat) (s : String) (ex : List String) :
    (traverseFrom nb fuel ⟨s, true⟩ ex).1 = [] ∨
      ∃ t, (traverseFrom nb fuel ⟨s, true⟩ ex).1 = ⟨s, true⟩ :: t := by
  obtain ⟨t, ht, hh⟩ := traverse_prefix nb fuel ⟨s, true⟩ [] ex
  unfold traverseFrom
  simp only [if_true]
  rw [ht]
  cases t with
  | nil => left; rfl
  | cons a r =>
    right
    have := hh (by simp)
    simp at this
    exact ⟨r, by simp [this]⟩

/-- the backward traversal, read forwards, ends with the other end of its start segment -/
theorem traverseFrom_left_last (nb : SegEnd → List SegEnd) (fuel : Nat) (s : String) (ex : List String) :
    (traverseFrom nb fuel ⟨s, false⟩ ex).1 = [] ∨
      ∃ t, (traverseFrom nb fuel ⟨s, false⟩ ex).1 = t ++ [⟨s, true⟩] := by
  obtain ⟨t, ht, hh⟩ := traverse_prefix nb fuel ⟨s, false⟩ [] ex
  unfold traverseFrom
  simp only [Bool.false_eq_true, if_false]
  rw [ht]
  cases t with
  | nil => left; rfl
  | cons a r =>
    right
    have := hh (by simp)
    simp at this
    refine ⟨revPath r, ?_⟩
    simp [revPath, this, SegEnd.inv]

/-- **every path returned by `linear_path` is a chain** -/
theorem linearPath_chain (nb : SegEnd → List SegEnd) (hs : Sym nb) (fuel : Nat) (s : String) (ex : List String) :
    Chain (Joined nb) (linearPath nb fuel s ex).1 := by
  unfold linearPath
  simp only
  have c1 : Chain (Joined nb)
      (if (nb ⟨s, false⟩).length = 1 then traverseFrom nb fuel ⟨s, false⟩ (s :: ex) else ([], ex)).1 := by
    split
    · rename_i h; exact traverseFrom_chain nb hs fuel _ _ h
    · trivial
  split
  · rename_i hR
    generalize hr1 : (if (nb ⟨s, false⟩).length = 1 then traverseFrom nb fuel ⟨s, false⟩ (s :: ex) else ([], ex)) = r1 at *
    have c2 := traverseFrom_chain nb hs fuel ⟨s, true⟩ (s :: r1.2) hR
    -- shape of the first half
    have hshape : r1.1 = [] ∨ ∃ t, r1.1 = t ++ [⟨s, true⟩] := by
      rw [← hr1]
      split
      · exact traverseFrom_left_last nb fuel s (s :: ex)
      · left; rfl
    rcases traverseFrom_right_head nb fuel s (s :: r1.2) with h2 | ⟨t2, h2⟩
    · rw [h2, List.append_nil]; exact chain_dropLast _ c1
    · rw [h2]
      rcases hshape with h1 | ⟨t1, h1⟩
      · rw [h1]; simpa [h2] using c2
      · rw [h1, List.dropLast_concat]
        apply chain_append
        · rw [← h1]; exact c1
        · rw [← h2]; exact c2
  · exact c1

theorem linearPathsAux_spec (nb : SegEnd → List SegEnd) (hs : Sym nb) (fuel : Nat) :
    ∀ (names ex : List String), ∀ p ∈ linearPathsAux nb fuel names ex, Chain (Joined nb) p ∧ 2 ≤ p.length := by
  intro names
  induction names with
  | nil => intro ex p hp; simp [linearPathsAux] at hp
  | cons s rest ih =>
    intro ex p hp
    simp only [linearPathsAux] at hp
    split at hp
    · exact ih _ p hp
    · split at hp
      · rename_i hlen
        rcases List.mem_cons.mp hp with rfl | hp
        · exact ⟨linearPath_chain nb hs fuel s ex, by omega⟩
        · exact ih _ p hp
      · exact ih _ p hp

/-- **`linear_paths` of a Gfa returns chains of at least two segments**, each consecutive pair joined by a dovetail
    that is the only dovetail on both joined ends -/
theorem linearPaths_chains (st : St) : ∀ p ∈ linearPaths st, Chain (Joined (otherEnds st)) p ∧ 2 ≤ p.length :=
  linearPathsAux_spec _ (otherEnds_sym st) _ _ _


-- ------------------------------------------------------------------ no segment twice
def pnames (p : List SegEnd) : List String := p.map (·.name)

theorem pnames_append (a b : List SegEnd) : pnames (a ++ b) = pnames a ++ pnames b := by simp [pnames]

theorem nodup_reverse' {α} (l : List α) (h : l.Nodup) : l.reverse.Nodup := by
  unfold List.Nodup at *
  rw [List.pairwise_reverse]
  exact h.imp (fun h => Ne.symm h)

theorem pnames_revPath (p : List SegEnd) : pnames (revPath p) = (pnames p).reverse := by
  simp [pnames, revPath, List.map_reverse, SegEnd.inv, Function.comp_def]

/-- names collected by a traversal: pairwise distinct, all excluded afterwards, and new with respect to the
    exclusion set it started from (except the start) -/
theorem traverse_names (nb : SegEnd → List SegEnd) (fuel : Nat) :
    ∀ (cur : SegEnd) (lst : List SegEnd) (ex : List String), (pnames lst).Nodup → (∀ n ∈ pnames lst, n ∈ ex) →
      cur.name ∉ pnames lst →
      (pnames (traverse nb fuel cur lst ex).1).Nodup ∧
      (∀ n ∈ pnames (traverse nb fuel cur lst ex).1, n ∈ (traverse nb fuel cur lst ex).2) ∧
      (∀ n ∈ ex, n ∈ (traverse nb fuel cur lst ex).2) ∧
      (∀ n ∈ pnames (traverse nb fuel cur lst ex).1, n ∈ pnames lst ∨ n = cur.name ∨ n ∉ ex) := by
  induction fuel with
  | zero =>
    intro cur lst ex hnd hsub _
    simp only [traverse]
    exact ⟨hnd, hsub, fun n h => h, fun n h => Or.inl h⟩
  | succ k ih =>
    intro cur lst ex hnd hsub hcur
    -- the list with the current end appended
    have snoc : (pnames (lst ++ [cur])).Nodup ∧ (∀ n ∈ pnames (lst ++ [cur]), n ∈ cur.name :: ex) ∧
        (∀ n ∈ pnames (lst ++ [cur]), n ∈ pnames lst ∨ n = cur.name ∨ n ∉ ex) := by
      rw [pnames_append]
      refine ⟨?_, ?_, ?_⟩
      · rw [List.nodup_append]
        refine ⟨hnd, by simp [pnames], ?_⟩
        intro a ha b hb
        simp [pnames] at hb
        subst hb
        intro h; subst h; exact hcur ha
      · intro n hn
        rcases List.mem_append.mp hn with h | h
        · exact List.mem_cons_of_mem _ (hsub n h)
        · simp [pnames] at h; subst h; simp
      · intro n hn
        rcases List.mem_append.mp hn with h | h
        · exact Or.inl h
        · simp [pnames] at h; exact Or.inr (Or.inl h)
    have stop : (pnames (lst ++ [cur])).Nodup ∧ (∀ n ∈ pnames (lst ++ [cur]), n ∈ cur.name :: ex) ∧
        (∀ n ∈ ex, n ∈ cur.name :: ex) ∧ (∀ n ∈ pnames (lst ++ [cur]), n ∈ pnames lst ∨ n = cur.name ∨ n ∉ ex) :=
      ⟨snoc.1, snoc.2.1, fun n h => List.mem_cons_of_mem _ h, snoc.2.2⟩
    have keep : (pnames lst).Nodup ∧ (∀ n ∈ pnames lst, n ∈ ex) ∧ (∀ n ∈ ex, n ∈ ex) ∧
        (∀ n ∈ pnames lst, n ∈ pnames lst ∨ n = cur.name ∨ n ∉ ex) :=
      ⟨hnd, hsub, fun n h => h, fun n h => Or.inl h⟩
    simp only [traverse]
    split
    · split
      · exact keep
      · rename_i o rest _
        split
        · exact stop
        · rename_i hnot
          have hnot' : o.inv.name ∉ cur.name :: ex := by simpa using hnot
          have hfresh : o.inv.name ∉ pnames (lst ++ [cur]) := fun h => hnot' (snoc.2.1 _ h)
          obtain ⟨i1, i2, i3, i4⟩ := ih o.inv (lst ++ [cur]) (cur.name :: ex) snoc.1 snoc.2.1 hfresh
          refine ⟨i1, i2, fun n h => i3 n (List.mem_cons_of_mem _ h), ?_⟩
          intro n hn
          rcases i4 n hn with h | h | h
          · exact snoc.2.2 n h
          · right; right; subst h; exact fun hx => hnot' (List.mem_cons_of_mem _ hx)
          · right; right; exact fun hx => h (List.mem_cons_of_mem _ hx)
    · split
      · exact stop
      · exact keep

theorem traverseFrom_names (nb : SegEnd → List SegEnd) (fuel : Nat) (start : SegEnd) (ex : List String) :
    (pnames (traverseFrom nb fuel start ex).1).Nodup ∧
    (∀ n ∈ pnames (traverseFrom nb fuel start ex).1, n ∈ (traverseFrom nb fuel start ex).2) ∧
    (∀ n ∈ ex, n ∈ (traverseFrom nb fuel start ex).2) ∧
    (∀ n ∈ pnames (traverseFrom nb fuel start ex).1, n = start.name ∨ n ∉ ex) := by
  obtain ⟨h1, h2, h3, h4⟩ := traverse_names nb fuel start [] ex (by simp [pnames]) (by simp [pnames]) (by simp [pnames])
  have h4' : ∀ n ∈ pnames (traverse nb fuel start [] ex).1, n = start.name ∨ n ∉ ex := by
    intro n hn
    rcases h4 n hn with h | h | h
    · simp [pnames] at h
    · exact Or.inl h
    · exact Or.inr h
  unfold traverseFrom
  simp only
  split
  · exact ⟨h1, h2, h3, h4'⟩
  · rw [pnames_revPath]
    exact ⟨nodup_reverse' _ h1, fun n hn => h2 n (List.mem_reverse.mp hn), h3,
      fun n hn => h4' n (List.mem_reverse.mp hn)⟩

/-- the members of a linear path are pairwise distinct segments, none of which was excluded before -/
theorem linearPath_names (nb : SegEnd → List SegEnd) (fuel : Nat) (s : String) (ex : List String) (hs : s ∉ ex) :
    (pnames (linearPath nb fuel s ex).1).Nodup ∧
    (∀ n ∈ pnames (linearPath nb fuel s ex).1, n ∈ (linearPath nb fuel s ex).2) ∧
    (∀ n ∈ ex, n ∈ (linearPath nb fuel s ex).2) ∧
    (∀ n ∈ pnames (linearPath nb fuel s ex).1, n ∉ ex) := by
  unfold linearPath
  simp only
  -- first half
  have f1 : let r1 := (if (nb ⟨s, false⟩).length = 1 then traverseFrom nb fuel ⟨s, false⟩ (s :: ex) else ([], ex))
      (pnames r1.1).Nodup ∧ (∀ n ∈ pnames r1.1, n ∈ r1.2) ∧ (∀ n ∈ ex, n ∈ r1.2) ∧
      (∀ n ∈ pnames r1.1, n = s ∨ n ∉ s :: ex) ∧ (r1.1 = [] ∨ ∃ t, r1.1 = t ++ [⟨s, true⟩]) := by
    simp only
    split
    · obtain ⟨a1, a2, a3, a4⟩ := traverseFrom_names nb fuel ⟨s, false⟩ (s :: ex)
      exact ⟨a1, a2, fun n h => a3 n (List.mem_cons_of_mem _ h), a4, traverseFrom_left_last nb fuel s (s :: ex)⟩
    · exact ⟨by simp [pnames], by simp [pnames], fun n h => h, by simp [pnames], Or.inl rfl⟩
  generalize (if (nb ⟨s, false⟩).length = 1 then traverseFrom nb fuel ⟨s, false⟩ (s :: ex) else ([], ex)) = r1 at *
  simp only at f1
  obtain ⟨a1, a2, a3, a4, ashape⟩ := f1
  have notin : ∀ n, (n = s ∨ n ∉ s :: ex) → n ∉ ex := by
    intro n h
    rcases h with h | h
    · subst h; exact hs
    · exact fun hx => h (List.mem_cons_of_mem _ hx)
  split
  · obtain ⟨b1, b2, b3, b4⟩ := traverseFrom_names nb fuel ⟨s, true⟩ (s :: r1.2)
    -- the first half without its last member does not contain s
    have hdrop : (pnames r1.1.dropLast).Nodup ∧ (∀ n ∈ pnames r1.1.dropLast, n ∈ pnames r1.1 ∧ n ≠ s) := by
      rcases ashape with h | ⟨t, h⟩
      · rw [h]; simp [pnames]
      · rw [h, List.dropLast_concat]
        rw [h, pnames_append] at a1
        have hnd := List.nodup_append.mp a1
        refine ⟨hnd.1, ?_⟩
        intro n hn
        refine ⟨by rw [pnames_append]; exact List.mem_append_left _ hn, ?_⟩
        intro hns
        exact hnd.2.2 n hn s (by simp [pnames]) hns
    rw [pnames_append]
    refine ⟨?_, ?_, ?_, ?_⟩
    · rw [List.nodup_append]
      refine ⟨hdrop.1, b1, ?_⟩
      intro a ha b hb hab
      subst hab
      obtain ⟨hin, hne⟩ := hdrop.2 a ha
      rcases b4 a hb with h | h
      · exact hne h
      · exact h (List.mem_cons_of_mem _ (a2 a hin))
    · intro n hn
      rcases List.mem_append.mp hn with h | h
      · exact b3 n (List.mem_cons_of_mem _ (a2 n (hdrop.2 n h).1))
      · exact b2 n h
    · intro n hn
      exact b3 n (List.mem_cons_of_mem _ (a3 n hn))
    · intro n hn
      rcases List.mem_append.mp hn with h | h
      · exact notin n (a4 n (hdrop.2 n h).1)
      · rcases b4 n h with h' | h'
        · subst h'; exact hs
        · exact fun hx => h' (List.mem_cons_of_mem _ (a3 n hx))
  · exact ⟨a1, a2, a3, fun n hn => notin n (a4 n hn)⟩

theorem linearPathsAux_names (nb : SegEnd → List SegEnd) (fuel : Nat) :
    ∀ (names ex : List String),
      ((linearPathsAux nb fuel names ex).flatMap pnames).Nodup ∧
      (∀ n ∈ (linearPathsAux nb fuel names ex).flatMap pnames, n ∉ ex) := by
  intro names
  induction names with
  | nil => intro ex; simp [linearPathsAux]
  | cons s rest ih =>
    intro ex
    simp only [linearPathsAux]
    split
    · exact ih ex
    · rename_i hs
      have hs' : s ∉ ex := by simpa using hs
      obtain ⟨c1, c2, c3, c4⟩ := linearPath_names nb fuel s ex hs'
      obtain ⟨d1, d2⟩ := ih (linearPath nb fuel s ex).2
      split
      · simp only [List.flatMap_cons]
        refine ⟨?_, ?_⟩
        · rw [List.nodup_append]
          refine ⟨c1, d1, ?_⟩
          intro a ha b hb hab
          subst hab
          exact d2 a hb (c2 a ha)
        · intro n hn
          rcases List.mem_append.mp hn with h | h
          · exact c4 n h
          · exact fun hx => d2 n h (c3 n hx)
      · exact ⟨d1, fun n hn hx => d2 n hn (c3 n hx)⟩

/-- **no segment is a member of two linear paths, or twice of one** -/
theorem linearPaths_disjoint (st : St) : ((linearPaths st).flatMap pnames).Nodup :=
  (linearPathsAux_names _ _ _ []).1

/-- what `Joined` says about the records of the Gfa: the end `x` carries exactly one dovetail, its other end is `y.inv`,
    and that end carries exactly one dovetail too -/
theorem joined_unique (st : St) (x y : SegEnd) (h : Joined (otherEnds st) x y) :
    (otherEnds st x).length = 1 ∧ (otherEnds st y.inv).length = 1 ∧ y.inv ∈ otherEnds st x := by
  rw [h.1, h.2]; simp

-- non-vacuity: A+ -> B+ -> C- is found as one chain, from whichever segment the scan starts
example :
    let st : St := ⟨.gfa1, [⟨.S, ["B", "*"], false⟩, ⟨.S, ["A", "*"], false⟩, ⟨.S, ["C", "*"], false⟩,
      ⟨.L, ["A", "+", "B", "+", "*"], false⟩, ⟨.L, ["B", "+", "C", "-", "*"], false⟩]⟩
    (linearPaths st).map showPath = ["A:R,B:R,C:L"] := by decide

end Gfa.C14
