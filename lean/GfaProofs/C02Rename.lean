import GfaProofs.C02
/-
  C02, the rename step: `line.name = b` substitutes the identifier in every field that mentions it, so the
  reference graph stays closed.  With this the closure invariant holds for *every* history of additions,
  removals and renames (`closed_reachable`).
-/
namespace Gfa.C02
open G C09

/-- substitution of the identifier `a` by `b` -/
def sub (a b s : String) : String := if s = a then b else s

/-- identifiers a rename may introduce: not empty, not the placeholder, free of the two list separators -/
def goodId (b : String) : Prop := b ≠ "" ∧ b ≠ "*" ∧ ',' ∉ b.toList ∧ ' ' ∉ b.toList

-- ------------------------------------------------------------------ strings
theorem splitStr_joinStr' (sep : Char) (xs : List String) (hne : xs ≠ []) (h : ∀ x ∈ xs, sep ∉ x.toList) :
    splitStr sep (joinStr sep xs) = xs := by
  unfold splitStr joinStr
  simp only [String.toList_ofList]
  rw [C01.splitOn_intercalate sep _ (by simpa using hne)]
  · simp [List.map_map, Function.comp]
  · intro f hf
    rw [List.mem_map] at hf
    obtain ⟨x, hx, rfl⟩ := hf
    exact h x hx

theorem splitStr_pieces' (sep : Char) (s : String) : ∀ x ∈ splitStr sep s, sep ∉ x.toList := by
  intro x hx
  unfold splitStr at hx
  rw [List.mem_map] at hx
  obtain ⟨f, hf, rfl⟩ := hx
  simpa using splitOn_no_sep sep s.toList f hf

theorem splitStr_ne_nil (sep : Char) (s : String) : splitStr sep s ≠ [] := by
  unfold splitStr
  intro h
  exact C01.splitOn_ne_nil sep s.toList (by simpa using h)

theorem splitOriented_mk (b : String) (o : Orient) : splitOriented (b ++ orientStr o) = (b, o) := by
  cases o <;> simp [splitOriented, orientStr, String.toList_append]

theorem splitOriented_empty : splitOriented "" = ("", Orient.plus) := by decide

theorem renameOriented_def (a b s : String) :
    renameOriented a b s = if (splitOriented s).1 = a then b ++ orientStr (splitOriented s).2 else s := by
  unfold renameOriented
  cases splitOriented s
  rfl

theorem renameOriented_empty (a b : String) (ha : a ≠ "") : renameOriented a b "" = "" := by
  rw [renameOriented_def, splitOriented_empty]
  simp [Ne.symm ha]

theorem renameOriented_fst (a b s : String) :
    (splitOriented (renameOriented a b s)).1 = sub a b (splitOriented s).1 := by
  rw [renameOriented_def]
  unfold sub
  by_cases h : (splitOriented s).1 = a
  · rw [if_pos h, if_pos h, splitOriented_mk]
  · rw [if_neg h, if_neg h]

theorem orientStr_chars (o : Orient) (c : Char) (hc : c ∈ (orientStr o).toList) : c = '+' ∨ c = '-' := by
  cases o <;> simp [orientStr] at hc <;> simp [hc]

theorem renameOriented_nosep (a b s : String) (c : Char) (hp : c ≠ '+') (hm : c ≠ '-')
    (hs : c ∉ s.toList) (hb : c ∉ b.toList) : c ∉ (renameOriented a b s).toList := by
  rw [renameOriented_def]
  split
  · simp only [String.toList_append, List.mem_append, not_or]
    refine ⟨hb, fun h => ?_⟩
    rcases orientStr_chars _ c h with rfl | rfl
    · exact hp rfl
    · exact hm rfl
  · exact hs

theorem renameOriented_eq_empty (a b s : String) (ha : a ≠ "") : renameOriented a b s = "" ↔ s = "" := by
  constructor
  · intro h
    rw [renameOriented_def] at h
    split at h
    · exfalso
      have : (b ++ orientStr (splitOriented s).2).toList = [] := by rw [h]; rfl
      cases ho : (splitOriented s).2 <;> simp [String.toList_append, orientStr, ho] at this
    · exact h
  · intro h; subst h; exact renameOriented_empty a b ha

theorem sub_eq_empty (a b s : String) (ha : a ≠ "") (hb : b ≠ "") : sub a b s = "" ↔ s = "" := by
  unfold sub
  constructor
  · intro h
    split at h
    · exact absurd h hb
    · exact h
  · intro h; subst h; simp [Ne.symm ha]

-- ------------------------------------------------------------------ fields
theorem modAt_getD (l : List String) (i : Nat) (g : String → String) (hg : g "" = "") :
    (modAt l i g).getD i "" = g (l.getD i "") := by
  induction l generalizing i with
  | nil => simp [modAt, hg]
  | cons x xs ih =>
    cases i with
    | zero => simp [modAt]
    | succ j => simp only [modAt, List.getD_cons_succ]; exact ih j

theorem getD_take_append_map (k i : Nat) (l : List String) (f : String → String) (h : i < k) :
    (l.take k ++ (l.drop k).map f).getD i "" = l.getD i "" := by
  rcases Nat.lt_or_ge i l.length with hl | hl
  · have : i < (l.take k).length := by simp; omega
    simp [List.getD_eq_getElem?_getD, List.getElem?_append_left this, List.getElem?_take, h]
  · have e1 : l.take k = l := List.take_of_length_le (by omega)
    have e2 : l.drop k = [] := List.drop_eq_nil_of_le (by omega)
    simp [e1, e2]

theorem setName_rt (b : String) (r : Rec) : (setName b r).rt = r.rt := by
  unfold setName; split <;> rfl

theorem renameIn_rt (a b : String) (r : Rec) : (renameIn a b r).rt = r.rt := by
  unfold renameIn; split <;> rfl

theorem renameOther_rt (s : Bool) (a b : String) (r : Rec) : (renameOther s a b r).rt = r.rt := by
  unfold renameOther
  split
  · exact renameIn_rt a b r
  · split <;> first | exact renameIn_rt a b r | rfl

theorem getD_cons_drop_one (b : String) (l : List String) (i : Nat) (h : 0 < i) :
    (b :: l.drop 1).getD i "" = l.getD i "" := by
  cases i with
  | zero => omega
  | succ j =>
    cases l with
    | nil => simp
    | cons x xs => simp

/-- setting the identifier of a line leaves the references it holds alone -/
theorem setName_refs (b : String) (r : Rec) (hF : r.rt ≠ .F) :
    (setName b r).segRefs = r.segRefs ∧ (setName b r).itemRefs = r.itemRefs := by
  have g1 := getD_cons_drop_one b r.fields 1 (by omega)
  have g2 := getD_cons_drop_one b r.fields 2 (by omega)
  have t0 := fun k (h : 0 < k) f => getD_take_append_map k 0 r.fields f h
  have t2 := fun k (h : 2 < k) f => getD_take_append_map k 2 r.fields f h
  unfold setName
  cases hrt : r.rt <;> simp only [hrt] at hF ⊢
  all_goals first
    | exact absurd rfl hF
    | (simp only [Rec.segRefs, Rec.itemRefs, fld, hrt, npos, g1, g2, and_self]; done)
    | (simp only [Rec.segRefs, Rec.itemRefs, fld, hrt, npos]; rw [t0 _ (by omega), t2 _ (by omega)]; simp)

theorem sub_empty (a b : String) (ha : a ≠ "") : sub a b "" = "" := by
  simp [sub, Ne.symm ha]

theorem joinmap_empty (sep : Char) (g : String → String) (hg : g "" = "") :
    joinStr sep ((splitStr sep "").map g) = "" := by
  have : splitStr sep "" = [""] := by
    unfold splitStr; simp [Field.splitOn]
  rw [this]
  simp [joinStr, hg, Field.intercalate]

/-- **a rename substitutes the identifier in every segment reference** -/
theorem renameIn_segRefs (a b : String) (r : Rec) (ha : a ≠ "") (hb : goodId b) :
    (renameIn a b r).segRefs = r.segRefs.map (sub a b) := by
  have hs : sub a b "" = "" := sub_empty a b ha
  have hro : renameOriented a b "" = "" := renameOriented_empty a b ha
  have e : (fun s => if s = a then b else s) = sub a b := rfl
  unfold renameIn
  cases hrt : r.rt <;> simp only [Rec.segRefs, fld, hrt, List.map_nil, List.map_cons, e]
  · -- L
    rw [modAt_getD _ 2 _ hs, modAt_getD_ne _ 0 2 _ "" (by omega), modAt_getD_ne _ 2 0 _ "" (by omega),
      modAt_getD _ 0 _ hs]
  · -- C
    rw [modAt_getD _ 2 _ hs, modAt_getD_ne _ 0 2 _ "" (by omega), modAt_getD_ne _ 2 0 _ "" (by omega),
      modAt_getD _ 0 _ hs]
  · -- P
    rw [modAt_getD _ 1 _ (joinmap_empty ',' _ hro)]
    rw [splitStr_joinStr' ',' _ (by simpa using splitStr_ne_nil ',' _)]
    · simp only [List.map_map]
      apply List.map_congr_left
      intro s _
      exact renameOriented_fst a b s
    · intro x hx
      rw [List.mem_map] at hx
      obtain ⟨y, hy, rfl⟩ := hx
      exact renameOriented_nosep a b y ',' (by decide) (by decide) (splitStr_pieces' ',' _ y hy) hb.2.2.1
  · -- E
    rw [modAt_getD _ 2 _ hro, modAt_getD_ne _ 1 2 _ "" (by omega), modAt_getD_ne _ 2 1 _ "" (by omega),
      modAt_getD _ 1 _ hro, renameOriented_fst, renameOriented_fst]
  · -- G
    rw [modAt_getD _ 2 _ hro, modAt_getD_ne _ 1 2 _ "" (by omega), modAt_getD_ne _ 2 1 _ "" (by omega),
      modAt_getD _ 1 _ hro, renameOriented_fst, renameOriented_fst]
  · -- F
    rw [modAt_getD _ 0 _ hs]

/-- **a rename substitutes the identifier in every group item** -/
theorem renameIn_itemRefs (a b : String) (r : Rec) (ha : a ≠ "") (hb : goodId b) :
    (renameIn a b r).itemRefs = r.itemRefs.map (sub a b) := by
  have hs : sub a b "" = "" := sub_empty a b ha
  have hro : renameOriented a b "" = "" := renameOriented_empty a b ha
  unfold renameIn
  cases hrt : r.rt <;> simp only [Rec.itemRefs, fld, hrt, List.map_nil]
  · -- O
    rw [modAt_getD _ 1 _ (joinmap_empty ' ' _ hro)]
    rw [splitStr_joinStr' ' ' _ (by simpa using splitStr_ne_nil ' ' _)]
    · rw [List.filter_map, List.map_map, List.map_map]
      have : (fun x : String => decide (x ≠ "")) ∘ renameOriented a b = fun x => decide (x ≠ "") := by
        funext x
        simp only [Function.comp, ne_eq, renameOriented_eq_empty a b x ha]
      rw [this]
      apply List.map_congr_left
      intro s _
      exact renameOriented_fst a b s
    · intro x hx
      rw [List.mem_map] at hx
      obtain ⟨y, hy, rfl⟩ := hx
      exact renameOriented_nosep a b y ' ' (by decide) (by decide) (splitStr_pieces' ' ' _ y hy) hb.2.2.2
  · -- U
    rw [modAt_getD _ 1 _ (joinmap_empty ' ' _ hs)]
    rw [splitStr_joinStr' ' ' _ (by simpa using splitStr_ne_nil ' ' _)]
    · rw [List.filter_map]
      have : (fun x : String => decide (x ≠ "")) ∘ (fun s => if s = a then b else s) = fun x => decide (x ≠ "") := by
        funext x
        have := sub_eq_empty a b x ha hb.1
        simp only [sub] at this
        simp only [Function.comp, ne_eq, this]
      rw [this]
      rfl
    · intro x hx
      rw [List.mem_map] at hx
      obtain ⟨y, hy, rfl⟩ := hx
      split
      · exact hb.2.2.2
      · exact splitStr_pieces' ' ' _ y hy

theorem itemRefs_nongroup (r : Rec) (h1 : r.rt ≠ .O) (h2 : r.rt ≠ .U) : r.itemRefs = [] := by
  unfold Rec.itemRefs; split <;> simp_all

theorem renameOther_itemRefs (s : Bool) (a b : String) (r : Rec) (ha : a ≠ "") (hb : goodId b) :
    (renameOther s a b r).itemRefs = r.itemRefs.map (sub a b) := by
  unfold renameOther
  split
  · exact renameIn_itemRefs a b r ha hb
  · split
    · exact renameIn_itemRefs a b r ha hb
    · exact renameIn_itemRefs a b r ha hb
    · rename_i h1 h2
      rw [itemRefs_nongroup r (by simpa using h1) (by simpa using h2)]; rfl

theorem renameOther_segRefs (s : Bool) (a b : String) (r : Rec) (ha : a ≠ "") (hb : goodId b) :
    (renameOther s a b r).segRefs = if s then r.segRefs.map (sub a b) else r.segRefs := by
  cases s
  · simp only [renameOther, Bool.false_eq_true, if_false]
    split
    · rw [group_segRefs _ (Or.inl (by rw [renameIn_rt]; assumption)), group_segRefs _ (Or.inl (by assumption))]
    · rw [group_segRefs _ (Or.inr (by rw [renameIn_rt]; assumption)), group_segRefs _ (Or.inr (by assumption))]
    · rfl
  · simp only [renameOther, if_true]
    exact renameIn_segRefs a b r ha hb

-- ------------------------------------------------------------------ the renamed line
theorem idTag_map_some (b : String) (xs : List String) (a : String) (h : idTag xs = some a) :
    idTag (xs.map (fun t => if isIdTag t then "ID:Z:" ++ b else t)) = some b := by
  induction xs with
  | nil => simp [idTag] at h
  | cons x xs ih =>
    unfold idTag at h ⊢
    simp only [List.map_cons, List.find?_cons] at h ⊢
    by_cases hx : isIdTag x = true
    · have : isIdTag ("ID:Z:" ++ b) = true := by
        simp [isIdTag, String.toList_append]
      simp [hx, this, String.toList_append]
    · simp only [hx, Bool.false_eq_true, if_false] at h ⊢
      simp only [Bool.not_eq_true] at hx
      try simp only [hx]
      have := ih (by unfold idTag; exact h)
      unfold idTag at this
      exact this

theorem setName_name_some (b : String) (r : Rec) (a : String) (h : r.name = some a) (hb : b ≠ "*") :
    (setName b r).name = some b := by
  unfold setName
  cases hrt : r.rt <;> simp only [Rec.name, hrt, fld, List.getD_cons_zero] at h ⊢
  all_goals first
    | (have e5 : npos RT.L = 5 := rfl
       have e6 : npos RT.C = 6 := rfl
       first
         | (rw [← e5, drop_take_append_map]; exact idTag_map_some b _ a h)
         | (rw [← e6, drop_take_append_map]; exact idTag_map_some b _ a h))
    | cases h
    | simp [hb]

theorem name_not_F (r : Rec) (a : String) (h : r.name = some a) : r.rt ≠ .F := by
  intro hF; simp [Rec.name, hF] at h

-- ------------------------------------------------------------------ closure
theorem mem_zipIdx_map {β} (ls : List Rec) (f : Rec × Nat → β) (x : β) :
    x ∈ ls.zipIdx.map f ↔ ∃ j, ∃ h : j < ls.length, x = f (ls[j], j) := by
  rw [List.mem_map]
  constructor
  · rintro ⟨⟨q, j⟩, hp, rfl⟩
    rw [List.mem_zipIdx_iff_getElem?] at hp
    simp only [Nat.zero_add] at hp
    obtain ⟨hj, hq⟩ : ∃ hj : j < ls.length, ls[j] = q := by
      rcases Nat.lt_or_ge j ls.length with hl | hl
      · refine ⟨hl, ?_⟩
        rw [List.getElem?_eq_getElem hl] at hp
        simpa using hp
      · simp [List.getElem?_eq_none hl] at hp
    exact ⟨j, hj, by rw [hq]⟩
  · rintro ⟨j, hj, rfl⟩
    refine ⟨(ls[j], j), ?_, rfl⟩
    rw [List.mem_zipIdx_iff_getElem?]
    simp [hj]

/-- **renaming keeps the reference graph closed**: the new identifier is written wherever the old one was
    mentioned, and the renamed line is found under it -/
theorem rename_closed (st st' : St) (a b : String) (ha : a ≠ "") (ha' : a ≠ "*") (hb : goodId b)
    (hc : Closed st) (he : rename st a b = .ok st') : Closed st' := by
  unfold rename at he
  split at he
  · cases he
  · rename_i i hfound
    obtain ⟨hi, hname⟩ := findIdx_some_lt _ _ _ hfound
    have hname : st.lines[i].name = some a := by
      have : (st.lines.getD i default) = st.lines[i] := by simp [List.getD_eq_getElem?_getD, hi]
      rw [this] at hname
      simpa using hname
    have hgetD : st.lines.getD i default = st.lines[i] := by simp [List.getD_eq_getElem?_getD, hi]
    split at he
    · injection he with he; rw [← he]; exact hc
    · split at he
      · cases he
      · split at he
        · cases he
        · injection he with he
          subst he
          -- abbreviations
          generalize hS : decide ((st.lines.getD i default).rt = RT.S) = isSeg at *
          let φ : Rec × Nat → Rec := fun p =>
            if p.2 = i then setName b (renameOther isSeg a b p.1) else renameOther isSeg a b p.1
          have hmem : ∀ j (hj : j < st.lines.length), φ (st.lines[j], j) ∈
              (st.lines.zipIdx.map φ) := fun j hj => (mem_zipIdx_map st.lines φ _).mpr ⟨j, hj, rfl⟩
          -- the renamed line
          have hline_i_name : (φ (st.lines[i], i)).name = some b := by
            simp only [φ, if_true]
            exact setName_name_some b _ a (by rw [renameOther_name]; exact hname) hb.2.1
          have hline_i_rt : (φ (st.lines[i], i)).rt = st.lines[i].rt := by
            simp only [φ, if_true]
            rw [setName_rt, renameOther_rt]
          have hother : ∀ j (hj : j < st.lines.length), j ≠ i →
              (φ (st.lines[j], j)).name = st.lines[j].name ∧ (φ (st.lines[j], j)).rt = st.lines[j].rt := by
            intro j hj hne
            simp only [φ, hne, if_false]
            exact ⟨renameOther_name _ a b _, renameOther_rt _ a b _⟩
          -- transport of "a segment called n exists"
          have segT : ∀ n, SegOK st n →
              SegOK { st with lines := st.lines.zipIdx.map φ } (if isSeg then sub a b n else n) := by
            intro n hn
            obtain ⟨q, hq, hqrt, hqn⟩ := (segOK_iff st n).mp hn
            obtain ⟨j, hj, rfl⟩ := List.getElem_of_mem hq
            rw [segOK_iff]
            by_cases hji : j = i
            · subst hji
              have hna : n = a := by rw [hname] at hqn; exact (Option.some.inj hqn).symm
              have hseg : isSeg = true := by rw [← hS, hgetD]; simpa using hqrt
              refine ⟨_, hmem j hj, by rw [hline_i_rt]; exact hqrt, ?_⟩
              rw [hline_i_name, hseg, hna]; simp [sub]
            · by_cases hcase : isSeg = true ∧ n = a
              · obtain ⟨hseg, hna⟩ := hcase
                refine ⟨_, hmem i hi, ?_, ?_⟩
                · rw [hline_i_rt]; rw [← hS, hgetD] at hseg; simpa using hseg
                · rw [hline_i_name, hseg, hna]; simp [sub]
              · refine ⟨_, hmem j hj, by rw [(hother j hj hji).2]; exact hqrt, ?_⟩
                rw [(hother j hj hji).1, hqn]
                congr 1
                by_cases hseg : isSeg = true
                · have : n ≠ a := fun h => hcase ⟨hseg, h⟩
                  simp [hseg, sub, this]
                · simp [hseg]
          -- transport of "the identifier n is in use"
          have nameT : ∀ n, NameOK st n → NameOK { st with lines := st.lines.zipIdx.map φ } (sub a b n) := by
            intro n hn
            rcases hn with hstar | hn
            · left; subst hstar; simp [sub, Ne.symm ha']
            · right
              obtain ⟨q, hq, hqn⟩ := (hasName_iff' st n).mp hn
              obtain ⟨j, hj, rfl⟩ := List.getElem_of_mem hq
              rw [hasName_iff']
              by_cases hna : n = a
              · exact ⟨_, hmem i hi, by rw [hline_i_name, hna]; simp [sub]⟩
              · have hji : j ≠ i := by
                  intro h; subst h; rw [hname] at hqn; exact hna (Option.some.inj hqn).symm
                exact ⟨_, hmem j hj, by rw [(hother j hj hji).1, hqn]; simp [sub, hna]⟩
          -- every line of the new state is closed
          show Closed { st with lines := st.lines.zipIdx.map φ }
          intro q' hq'
          obtain ⟨j, hj, rfl⟩ := (mem_zipIdx_map st.lines φ q').mp hq'
          have hcl := hc st.lines[j] (List.getElem_mem hj)
          have hrefs : (φ (st.lines[j], j)).segRefs = (renameOther isSeg a b st.lines[j]).segRefs ∧
              (φ (st.lines[j], j)).itemRefs = (renameOther isSeg a b st.lines[j]).itemRefs := by
            by_cases hji : j = i
            · subst hji
              simp only [φ, if_true]
              exact setName_refs b _ (by rw [renameOther_rt]; exact name_not_F _ a hname)
            · simp only [φ, hji, if_false, and_self]
          constructor
          · intro n hn
            rw [hrefs.1, renameOther_segRefs _ a b _ ha hb] at hn
            by_cases hseg : isSeg = true
            · simp only [hseg, if_true, List.mem_map] at hn
              obtain ⟨m, hm, rfl⟩ := hn
              have := segT m (hcl.1 m hm)
              simp only [hseg, if_true] at this
              exact this
            · simp only [hseg, Bool.false_eq_true, if_false] at hn
              have := segT n (hcl.1 n hn)
              simp only [hseg, Bool.false_eq_true, if_false] at this
              exact this
          · intro n hn
            rw [hrefs.2, renameOther_itemRefs _ a b _ ha hb, List.mem_map] at hn
            obtain ⟨m, hm, rfl⟩ := hn
            exact nameT m (hcl.2 m hm)

-- ------------------------------------------------------------------ all histories
/-- what a caller may pass to `rename`: an identifier in use and a well-formed new identifier -/
def okOp : C09.Op → Prop
  | .rename a b => a ≠ "" ∧ a ≠ "*" ∧ goodId b
  | _ => True

theorem step_closed_all (st : St) (op : C09.Op) (hop : okOp op) (h : Closed st) : Closed (step st op) := by
  cases op with
  | add r => exact step_closed st (.add r) rfl h
  | rm n => exact step_closed st (.rm n) rfl h
  | rename a b =>
    simp only [step]
    cases he : rename st a b with
    | ok s => exact rename_closed st s a b hop.1 hop.2.1 hop.2.2 h he
    | error e => exact h

/-- **Closure for every history of additions, removals and renames** — successful or refused, lines
    arriving before the lines they mention, any fan-out of dependants, nested groups, identifiers renamed
    while they are mentioned by links, edges, paths and groups. -/
theorem closed_reachable (v : Ver) (ops : List C09.Op) (hops : ∀ op ∈ ops, okOp op) : Closed (run v ops) := by
  unfold run
  suffices h : ∀ st, Closed st → Closed (ops.foldl step st) from h _ (closed_empty v)
  induction ops with
  | nil => intro st h; exact h
  | cons op ops ih =>
    intro st h
    exact ih (fun o ho => hops o (by simp [ho])) _ (step_closed_all st op (hops op (by simp)) h)

-- non-vacuity: a segment mentioned by a link, a path and a group is renamed; the history meets `okOp`
example : (run .gfa1 [.add ⟨.L, ["A", "+", "B", "-", "*"], false⟩, .add ⟨.P, ["p", "A+,B-", "*"], false⟩,
    .rename "A" "X"]).lines.map (·.fields) =
    [["X", "*"], ["B", "*"], ["X", "+", "B", "-", "*"], ["p", "X+,B-", "*"]] := by decide

end Gfa.C02
