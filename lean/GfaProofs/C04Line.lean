import GfaProofs.C01
import GfaProofs.Bridge.LineFmt
/-!
# C04 at line level — what `acceptLine` accepts, in the property's words

`GfaModel/LineFmt.lean` states when `gfapy.Line(text, version, vlevel ≥ 1)` succeeds; its tables are the class tables
of the running code (`Bridge.LineFmt`) and it agrees with the library on valid lines and their mutations (correspondence).

* `acceptFields_iff`: a line is accepted **iff** it has at least the positional fields of its record type, every
  positional field matches the grammar of its datatype, every further field is a well-formed tag
  `[A-Za-z][A-Za-z0-9]:[AifZJHB]:value`, tag names are pairwise distinct, every tag value matches its datatype, predefined
  tags carry their prescribed datatype, and the cross-field rule of the record type holds;
* `accept_rewrite`: an accepted line is the tab-join of its positional fields and its printed tags (parsing loses nothing:
  C01 at line level for everything that is accepted);
* `accept_too_few`, `accept_dup_tag`, `accept_predefined_type`: the three refusals the property names.
-/
namespace Gfa.C04
open Gfa.LineFmt Field Line

theorem namesDistinct_iff (l : List (Char × Char)) : namesDistinct l = true ↔ l.Nodup := by
  induction l with
  | nil => simp [namesDistinct]
  | cons x xs ih =>
    simp only [namesDistinct, Bool.and_eq_true, Bool.not_eq_true', List.nodup_cons, ih]
    constructor
    · rintro ⟨h1, h2⟩; exact ⟨by simpa using h1, h2⟩
    · rintro ⟨h1, h2⟩; exact ⟨by simpa using h1, h2⟩

theorem zipWith_all_iff (ds : List Datatype) (fs : List (List Char)) (h : ds.length ≤ fs.length) :
    (List.zipWith Field.accept ds (fs.take ds.length)).all id = true ↔
      ∀ i (hi : i < ds.length), Field.accept ds[i] (fs[i]'(by omega)) = true := by
  induction ds generalizing fs with
  | nil => simp
  | cons d ds ih =>
    cases fs with
    | nil => simp at h
    | cons f fs =>
      simp only [List.length_cons, List.take_succ_cons, List.zipWith_cons_cons, List.all_cons, id, Bool.and_eq_true]
      rw [ih fs (by simpa using h)]
      constructor
      · rintro ⟨h0, hr⟩ i hi
        cases i with
        | zero => simpa using h0
        | succ j => simpa using hr j (by simpa using hi)
      · intro hall
        refine ⟨by simpa using hall 0 (by simp), fun i hi => ?_⟩
        have := hall (i + 1) (by simpa using hi)
        simpa using this

/-- **acceptance, clause by clause** -/
theorem acceptFields_iff (lt : LT) (fs : List (List Char)) :
    acceptFields lt fs = true ↔
      ∃ (hn : (posTypes lt).length ≤ fs.length),
        (∀ i (hi : i < (posTypes lt).length), Field.accept (posTypes lt)[i] (fs[i]'(by omega)) = true) ∧
        ∃ tags, (fs.drop (posTypes lt).length).mapM parseTag = some tags ∧
          (tagNames tags).Nodup ∧ (∀ t ∈ tags, tagOk lt t = true) ∧
          crossOk lt (fs.take (posTypes lt).length) tags = true := by
  unfold acceptFields
  simp only [Bool.and_eq_true, decide_eq_true_eq]
  constructor
  · rintro ⟨⟨hn, hz⟩, hm⟩
    refine ⟨hn, (zipWith_all_iff _ _ hn).mp hz, ?_⟩
    cases hmm : (fs.drop (posTypes lt).length).mapM parseTag with
    | none => simp [hmm] at hm
    | some tags =>
      simp only [hmm, Bool.and_eq_true] at hm
      exact ⟨tags, rfl, (namesDistinct_iff _).mp hm.1.1, by simpa [List.all_eq_true] using hm.1.2, hm.2⟩
  · rintro ⟨hn, hz, tags, hmm, hnd, hok, hc⟩
    refine ⟨⟨hn, (zipWith_all_iff _ _ hn).mpr hz⟩, ?_⟩
    simp only [hmm, Bool.and_eq_true]
    exact ⟨⟨(namesDistinct_iff _).mpr hnd, by simpa [List.all_eq_true] using hok⟩, hc⟩

/-- what parses as a tag prints back to the same text -/
theorem printTag_of_parseTag (d : List Char) (t : Tag) (h : parseTag d = some t) : printTag t = d := by
  unfold parseTag at h
  split at h
  · split at h
    · simp only [Option.some.injEq] at h; subst h; rfl
    · cases h
  · cases h

theorem print_of_mapM (ds : List (List Char)) : ∀ tags, ds.mapM parseTag = some tags → tags.map printTag = ds := by
  induction ds with
  | nil => intro tags h; simp [List.mapM_nil] at h; subst h; rfl
  | cons d ds ih =>
    intro tags h
    rw [List.mapM_cons] at h
    cases hd : parseTag d with
    | none => simp [hd] at h
    | some t =>
      cases hds : ds.mapM parseTag with
      | none => simp [hd, hds] at h
      | some ts =>
        simp [hd, hds] at h; subst h
        simp only [List.map_cons, ih ts hds, printTag_of_parseTag d t hd]

/-- **an accepted line is exactly its positional fields followed by its printed tags**: parsing loses nothing -/
theorem accept_rewrite (lt : LT) (fs : List (List Char)) (h : acceptFields lt fs = true) :
    ∃ tags, (fs.drop (posTypes lt).length).mapM parseTag = some tags ∧
      fs = fs.take (posTypes lt).length ++ tags.map printTag := by
  obtain ⟨_, _, tags, hm, _⟩ := (acceptFields_iff lt fs).mp h
  refine ⟨tags, hm, ?_⟩
  rw [print_of_mapM _ tags hm, List.take_append_drop]

/-- too few positional fields: refused -/
theorem accept_too_few (lt : LT) (fs : List (List Char)) (h : fs.length < (posTypes lt).length) :
    acceptFields lt fs = false := by
  cases hacc : acceptFields lt fs with
  | false => rfl
  | true => obtain ⟨hn, _⟩ := (acceptFields_iff lt fs).mp hacc; omega

/-- the same tag name twice: refused -/
theorem accept_dup_tag (lt : LT) (fs : List (List Char)) (tags : List Tag)
    (hm : (fs.drop (posTypes lt).length).mapM parseTag = some tags) (hd : ¬ (tagNames tags).Nodup) :
    acceptFields lt fs = false := by
  cases hacc : acceptFields lt fs with
  | false => rfl
  | true =>
    obtain ⟨_, _, tags', hm', hnd, _⟩ := (acceptFields_iff lt fs).mp hacc
    rw [hm] at hm'; cases hm'; exact absurd hnd hd

/-- a predefined tag with another datatype than the prescribed one: refused -/
theorem accept_predefined_type (lt : LT) (fs : List (List Char)) (tags : List Tag) (t : Tag) (dt : Char)
    (hm : (fs.drop (posTypes lt).length).mapM parseTag = some tags) (ht : t ∈ tags)
    (hp : (t.n1, t.n2, dt) ∈ predefined lt) (hne : dt ≠ t.dt) : acceptFields lt fs = false := by
  cases hacc : acceptFields lt fs with
  | false => rfl
  | true =>
    obtain ⟨_, _, tags', hm', _, hok, _⟩ := (acceptFields_iff lt fs).mp hacc
    rw [hm] at hm'; cases hm'
    have := hok t ht
    unfold tagOk at this
    simp only [Bool.and_eq_true, List.all_eq_true] at this
    have h2 := this.2 _ hp
    simp at h2
    exact absurd h2 hne

-- non-vacuity: a GFA1 segment with LN agreeing with its sequence is accepted; with LN = 0, with LN typed Z, with LN twice it is not
example : acceptFields .S1 [['A'], ['A', 'C', 'G', 'T'], ['x', 'x', ':', 'Z', ':', 'a']] = true ∧
    acceptFields .S1 [['A'], ['*'], ['L', 'N', ':', 'Z', ':', '4']] = false ∧
    acceptFields .S1 [['A'], ['*'], ['x', 'x', ':', 'Z', ':', 'a'], ['x', 'x', ':', 'Z', ':', 'b']] = false ∧
    acceptFields .S1 [['A']] = false := by decide

end Gfa.C04

namespace Gfa.C04
open Gfa.LineFmt Field Line

/-- where an identifier is required the placeholder is not one -/
theorem idGfa2_not_placeholder (s : List Char) (h : Field.accept .idGfa2 s = true) : s ≠ ['*'] := by
  simp only [Field.accept, Field.sideOk, Bool.and_eq_true, bne_iff_ne, ne_eq] at h
  exact h.2

/-- an accepted GFA2 segment line, and an accepted fragment line, name a segment: never the placeholder
    (`Rec.name` of the graph model reads `*` as "no name", and `ensureSeg` refuses a reference to it) -/
theorem accepted_S2_named (fs : List (List Char)) (h : acceptFields .S2 fs = true) :
    ∃ n rest, fs = n :: rest ∧ n ≠ ['*'] := by
  obtain ⟨hn, hall, _⟩ := (acceptFields_iff .S2 fs).mp h
  match fs, hn, hall with
  | n :: rest, _, hall =>
    exact ⟨n, rest, rfl, idGfa2_not_placeholder n (by simpa [posTypes] using hall 0 (by simp [posTypes]))⟩

theorem accepted_F_named (fs : List (List Char)) (h : acceptFields .F fs = true) :
    ∃ n rest, fs = n :: rest ∧ n ≠ ['*'] := by
  obtain ⟨hn, hall, _⟩ := (acceptFields_iff .F fs).mp h
  match fs, hn, hall with
  | n :: rest, _, hall =>
    exact ⟨n, rest, rfl, idGfa2_not_placeholder n (by simpa [posTypes] using hall 0 (by simp [posTypes]))⟩

/-- the optional identifiers do take it -/
example : Field.accept .optIdGfa2 ['*'] = true ∧ Field.accept .idGfa2 ['*'] = false ∧ Field.accept .idGfa2 ['*', '*'] = true := by
  decide

/-- an accepted `f` field is a numeral Python reads as a finite double (below 2^1024 - 2^970) -/
theorem f_accept_finite (s : List Char) (h : Field.accept .f s = true) : Field.floatFinite s = true := by
  simp only [Field.accept, Field.sideOk, Bool.and_eq_true] at h
  exact h.2

/-- the boundary: the largest double, the last decimal numeral that still rounds to it, the first that does not -/
example : Field.accept .f "1.7976931348623157e308".toList = true ∧ Field.accept .f "1.797693134862315807e308".toList = true ∧
    Field.accept .f "1.797693134862315808e308".toList = false ∧ Field.accept .f "1e400".toList = false ∧
    Field.accept .f "0e999".toList = true ∧ Field.accept .f "1e-400".toList = true := by
  decide +kernel

end Gfa.C04
