import GfaModel.Heap
/-!
# C19 — a clone is an equal, detached and fully independent line (object-identity model)
-/
namespace Gfa.C19
open Heap

mutual
theorem written_copy (n : Nat) (o : Obj) : written (copy n o).1 = written o := by
  cases o with
  | atom s => rfl
  | node i l ks => simp only [copy, written]; rw [writtenL_copy]
theorem writtenL_copy (n : Nat) (os : List Obj) : writtenL (copyL n os).1 = writtenL os := by
  cases os with
  | nil => rfl
  | cons o os => simp only [copyL, writtenL]; rw [written_copy, writtenL_copy]
end

mutual
/-- all identities in a copy are fresh: they lie in `[n, n')` -/
theorem ids_copy (n : Nat) (o : Obj) : n ≤ (copy n o).2 ∧ ∀ i ∈ ids (copy n o).1, n ≤ i ∧ i < (copy n o).2 := by
  cases o with
  | atom s => simp [copy, ids]
  | node j l ks =>
    have h := idsL_copy (n + 1) ks
    simp only [copy, ids]
    refine ⟨by omega, ?_⟩
    intro i hi
    rcases List.mem_cons.mp hi with rfl | hi
    · omega
    · have := h.2 i hi; omega
theorem idsL_copy (n : Nat) (os : List Obj) : n ≤ (copyL n os).2 ∧ ∀ i ∈ idsL (copyL n os).1, n ≤ i ∧ i < (copyL n os).2 := by
  cases os with
  | nil => simp [copyL, idsL]
  | cons o os =>
    have h1 := ids_copy n o
    have h2 := idsL_copy (copy n o).2 os
    simp only [copyL, idsL]
    refine ⟨by omega, ?_⟩
    intro i hi
    rcases List.mem_append.mp hi with hi | hi
    · have := h1.2 i hi; omega
    · have := h2.2 i hi; omega
end

mutual
/-- frame rule: an edit of an object that is not part of a value leaves the value untouched -/
theorem edit_frame (a : Nat) (l : String) (ks : List Obj) (o : Obj) (h : a ∉ ids o) : edit a l ks o = o := by
  cases o with
  | atom s => rfl
  | node i l' ks' =>
    simp only [ids, List.mem_cons, not_or] at h
    have hne : ¬ i = a := fun e => h.1 e.symm
    simp only [edit, hne, if_false]
    rw [editL_frame a l ks ks' h.2]
theorem editL_frame (a : Nat) (l : String) (ks : List Obj) (os : List Obj) (h : a ∉ idsL os) : editL a l ks os = os := by
  cases os with
  | nil => rfl
  | cons o os =>
    simp only [idsL, List.mem_append, not_or] at h
    simp only [editL]
    rw [edit_frame a l ks o h.1, editL_frame a l ks os h.2]
end

/-- **clone equal**: a deep-copied field has the same written form -/
theorem clone_equal (n : Nat) (o : Obj) : written (cloneField .deep n o).1 = written o := written_copy n o

/-- a reference field of the clone is the identifier string: no object of the Gfa is reachable from it -/
theorem clone_detached (n : Nat) (o : Obj) : ids (cloneField .name n o).1 = [] := rfl

/-- **clone separate**: a deep-copied value shares no mutable object with the original
    (`n` is larger than every identity in use, as for freshly allocated Python objects) -/
theorem clone_separate (n : Nat) (o : Obj) (hfresh : ∀ i ∈ ids o, i < n) :
    ∀ i, i ∈ ids (cloneField .deep n o).1 → i ∉ ids o := by
  intro i hi hio
  have := (ids_copy n o).2 i hi
  have := hfresh i hio
  omega

/-- **edits independent**: any sequence of in-place edits of objects of the clone leaves the original's
    written form unchanged … -/
theorem edits_independent (n : Nat) (o : Obj) (hfresh : ∀ i ∈ ids o, i < n)
    (es : List (Nat × String × List Obj)) (hes : ∀ e ∈ es, n ≤ e.1) :
    written (es.foldl (fun x e => edit e.1 e.2.1 e.2.2 x) o) = written o := by
  induction es with
  | nil => rfl
  | cons e es ih =>
    simp only [List.foldl_cons]
    have he : e.1 ∉ ids o := by
      intro hin
      have := hfresh _ hin
      have := hes e (by simp)
      omega
    rw [edit_frame e.1 e.2.1 e.2.2 o he]
    exact ih (fun x hx => hes x (by simp [hx]))

/-- … and vice versa: edits of the original's objects never reach the clone -/
theorem edits_independent_rev (n : Nat) (o : Obj) (hfresh : ∀ i ∈ ids o, i < n)
    (es : List (Nat × String × List Obj)) (hes : ∀ e ∈ es, e.1 < n) :
    (es.foldl (fun x e => edit e.1 e.2.1 e.2.2 x) (copy n o).1) = (copy n o).1 := by
  induction es with
  | nil => rfl
  | cons e es ih =>
    simp only [List.foldl_cons]
    have he : e.1 ∉ ids (copy n o).1 := by
      intro hin
      have := (ids_copy n o).2 _ hin
      have := hes e (by simp)
      omega
    rw [edit_frame e.1 e.2.1 e.2.2 _ he]
    exact ih (fun x hx => hes x (by simp [hx]))

/-- the converse, which is what made the pinned tree fail: a *shared* mutable object is seen changed
    through the original when it is edited through the clone -/
theorem shared_is_not_independent :
    let o := Obj.node 0 "OrientedLine" [.atom "read1", .atom "+"]
    let c := (cloneField .share 1 o).1
    written (edit 0 "OrientedLine" [.atom "read1", .atom "-"] o) ≠ written o ∧ ids c = ids o := by
  decide

-- non-vacuity: a CIGAR (list of operations) is copied node by node
example : (copy 10 (.node 3 "CIGAR" [.node 4 "Op" [.atom "2", .atom "M"], .node 5 "Op" [.atom "1", .atom "D"]])).1 =
    .node 10 "CIGAR" [.node 11 "Op" [.atom "2", .atom "M"], .node 12 "Op" [.atom "1", .atom "D"]] := by rfl

end Gfa.C19
