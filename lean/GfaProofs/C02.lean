import GfaProofs.C09
import GfaProofs.C01
/-!
# C02 — the reference graph stays closed under every mutation history

`Closed st`: every identifier a line of the model Gfa refers to — the segments of L, C, E, G, F and P
lines, the items of O and U groups — is carried by a line of the Gfa (a segment, for segment references):
nothing dangles.  It holds of the empty Gfa and is preserved by `add_line` (forward references create
placeholders) and by removal (the cascade removes every dependant), for successful and refused calls alike.

Symmetry of reference / back-reference holds in the model by construction: back-reference collections are
*queries* over the forward references (`GfaModel/GraphObs.lean`); for the code that clause rests on the
correspondence (every collection of every line compared after every step) and on the oracle.
-/
namespace Gfa.C02
open G C09

def SegOK (st : St) (n : String) : Prop := (findSeg st n).isSome = true
def NameOK (st : St) (n : String) : Prop := n = "*" ∨ hasName st n = true
def RecClosed (st : St) (r : Rec) : Prop := (∀ n ∈ r.segRefs, SegOK st n) ∧ (∀ n ∈ r.itemRefs, NameOK st n)
/-- no reference of any line dangles -/
def Closed (st : St) : Prop := ∀ r ∈ st.lines, RecClosed st r

/-- `st'` still provides every segment and identifier `st` provided -/
def Ext (st st' : St) : Prop := (∀ n, SegOK st n → SegOK st' n) ∧ (∀ n, NameOK st n → NameOK st' n)

theorem Ext.refl (st : St) : Ext st st := ⟨fun _ h => h, fun _ h => h⟩
theorem Ext.trans {a b c : St} (h1 : Ext a b) (h2 : Ext b c) : Ext a c :=
  ⟨fun n h => h2.1 n (h1.1 n h), fun n h => h2.2 n (h1.2 n h)⟩

theorem RecClosed.mono {st st' : St} {r : Rec} (h : RecClosed st r) (he : Ext st st') : RecClosed st' r :=
  ⟨fun n hn => he.1 n (h.1 n hn), fun n hn => he.2 n (h.2 n hn)⟩

theorem mem_set_self' (l : List Rec) (i : Nat) (r : Rec) (hi : i < l.length) : r ∈ l.set i r :=
  List.mem_of_getElem? (List.getElem?_set_self hi)

theorem segOK_iff (st : St) (n : String) : SegOK st n ↔ ∃ q ∈ st.lines, q.rt = .S ∧ q.name = some n := by
  unfold SegOK findSeg
  rw [List.find?_isSome]
  simp

theorem hasName_iff' (st : St) (n : String) : hasName st n = true ↔ ∃ q ∈ st.lines, q.name = some n := by
  rw [hasName_iff, names_eq, mem_namesOf]

theorem ext_append (st : St) (r : Rec) : Ext st { st with lines := st.lines ++ [r] } := by
  constructor
  · intro n h
    rw [segOK_iff] at h ⊢
    obtain ⟨q, hq, hp⟩ := h
    exact ⟨q, by simp [hq], hp⟩
  · intro n h
    rcases h with h | h
    · exact Or.inl h
    · right
      rw [hasName_iff'] at h ⊢
      obtain ⟨q, hq, hp⟩ := h
      exact ⟨q, by simp [hq], hp⟩

/-- an element satisfying `P` survives `set i r` if `r` inherits `P` from the replaced element -/
theorem exists_mem_set (l : List Rec) (i : Nat) (r : Rec) (P : Rec → Prop) (hi : i < l.length)
    (hP : ∃ q ∈ l, P q) (hr : P (l.getD i default) → P r) : ∃ q ∈ l.set i r, P q := by
  obtain ⟨q, hq, hpq⟩ := hP
  obtain ⟨j, hj, rfl⟩ := List.getElem_of_mem hq
  by_cases hji : j = i
  · subst hji
    refine ⟨r, mem_set_self' _ _ _ hi, hr ?_⟩  -- placeholder, fixed below
    simpa [List.getD_eq_getElem?_getD, hj] using hpq
  · refine ⟨l[j], ?_, hpq⟩
    have : (l.set i r)[j]'(by simpa using hj) = l[j] := by
      rw [List.getElem_set_ne (Ne.symm hji)]
    rw [← this]
    exact List.getElem_mem _

/-- replacing a record keeps everything available, provided the new record carries the same identifier
    (or the old one had none) and a segment is only replaced by a segment -/
theorem ext_set (st : St) (i : Nat) (r : Rec) (hi : i < st.lines.length)
    (hname : (st.lines.getD i default).name = none ∨ (st.lines.getD i default).name = r.name)
    (hseg : (st.lines.getD i default).rt = .S → r.rt = .S ∧ (st.lines.getD i default).name = r.name) :
    Ext st { st with lines := st.lines.set i r } := by
  constructor
  · intro n h
    rw [segOK_iff] at h ⊢
    apply exists_mem_set st.lines i r (fun q => q.rt = .S ∧ q.name = some n) hi h
    intro ⟨h1, h2⟩
    obtain ⟨h3, h4⟩ := hseg h1
    exact ⟨h3, by rw [← h4]; exact h2⟩
  · intro n h
    rcases h with h | h
    · exact Or.inl h
    · right
      rw [hasName_iff'] at h ⊢
      apply exists_mem_set st.lines i r (fun q => q.name = some n) hi h
      intro h2
      rcases hname with h3 | h3
      · rw [h3] at h2; cases h2
      · rw [← h3]; exact h2

/-- `st'` extends `st` and every line of `st'` that is not a line of `st` is closed -/
def Grow (st st' : St) : Prop := Ext st st' ∧ ∀ q ∈ st'.lines, q ∈ st.lines ∨ RecClosed st' q

theorem Grow.refl (st : St) : Grow st st := ⟨Ext.refl st, fun _ h => Or.inl h⟩
theorem Grow.trans {a b c : St} (h1 : Grow a b) (h2 : Grow b c) : Grow a c := by
  refine ⟨h1.1.trans h2.1, ?_⟩
  intro q hq
  rcases h2.2 q hq with h | h
  · rcases h1.2 q h with h' | h'
    · exact Or.inl h'
    · exact Or.inr (h'.mono h2.1)
  · exact Or.inr h

theorem closed_of_grow {st st' : St} (hc : Closed st) (hg : Grow st st') : Closed st' := by
  intro q hq
  rcases hg.2 q hq with h | h
  · exact (hc q h).mono hg.1
  · exact h

theorem virtSeg_refs (v : Ver) (n : String) : (virtSeg v n).segRefs = [] ∧ (virtSeg v n).itemRefs = [] := by
  cases v <;> simp [virtSeg, Rec.segRefs, Rec.itemRefs]

theorem virtUnk_refs (n : String) : (virtUnk n).segRefs = [] ∧ (virtUnk n).itemRefs = [] := by
  simp [virtUnk, Rec.segRefs, Rec.itemRefs]

theorem recClosed_norefs (st : St) (r : Rec) (h1 : r.segRefs = []) (h2 : r.itemRefs = []) : RecClosed st r := by
  unfold RecClosed; rw [h1, h2]; simp

theorem grow_append (st : St) (r : Rec) (hr : RecClosed { st with lines := st.lines ++ [r] } r) :
    Grow st { st with lines := st.lines ++ [r] } := by
  refine ⟨ext_append st r, ?_⟩
  intro q hq
  simp only [List.mem_append, List.mem_singleton] at hq
  rcases hq with h | rfl
  · exact Or.inl h
  · exact Or.inr hr

theorem ensureSeg_grow (st st' : St) (n : String) (he : ensureSeg st n = .ok st') : Grow st st' ∧ SegOK st' n := by
  unfold ensureSeg at he
  split at he
  · cases he
  split at he
  · rename_i hs
    injection he with he; subst he
    exact ⟨Grow.refl st, hs⟩
  · rename_i hstar _
    split at he
    · injection he with he; subst he
      refine ⟨grow_append st _ (recClosed_norefs _ _ (virtSeg_refs _ _).1 (virtSeg_refs _ _).2), ?_⟩
      rw [segOK_iff]
      exact ⟨virtSeg st.ver n, by simp, by cases st.ver <;> rfl, virtSeg_name _ _ hstar⟩
    · rename_i i hsome
      split at he
      · rename_i hunk
        injection he with he; subst he
        obtain ⟨hi, hp⟩ := findIdx_some_lt _ _ _ hsome
        have hp' : (st.lines.getD i default).name = some n := by simpa using hp
        refine ⟨⟨ext_set st i _ hi (Or.inr (by rw [hp', virtSeg_name _ _ hstar])) (by rw [hunk]; intro h; cases h), ?_⟩, ?_⟩
        · intro q hq
          rcases List.mem_or_eq_of_mem_set hq with h | rfl
          · exact Or.inl h
          · exact Or.inr (recClosed_norefs _ _ (virtSeg_refs _ _).1 (virtSeg_refs _ _).2)
        · rw [segOK_iff]
          exact ⟨virtSeg st.ver n, mem_set_self' _ _ _ hi, by cases st.ver <;> rfl, virtSeg_name _ _ hstar⟩
      · cases he

theorem ensureSegs_grow (ns : List String) : ∀ (st st' : St), ensureSegs st ns = .ok st' →
    Grow st st' ∧ ∀ n ∈ ns, SegOK st' n := by
  induction ns with
  | nil => intro st st' he; simp [ensureSegs] at he; subst he; exact ⟨Grow.refl _, by simp⟩
  | cons n ns ih =>
    intro st st' he
    simp only [ensureSegs] at he
    cases h1 : ensureSeg st n with
    | error e => simp [h1, Except.bind] at he
    | ok st1 =>
      simp only [h1, Except.bind] at he
      obtain ⟨g1, s1⟩ := ensureSeg_grow st st1 n h1
      obtain ⟨g2, s2⟩ := ih st1 st' he
      refine ⟨g1.trans g2, ?_⟩
      intro m hm
      rcases List.mem_cons.mp hm with rfl | hm
      · exact g2.1.1 _ s1
      · exact s2 m hm

theorem ensureItems_grow (ns : List String) : ∀ (st : St), Grow st (ensureItems st ns) ∧ ∀ n ∈ ns, NameOK (ensureItems st ns) n := by
  induction ns with
  | nil => intro st; exact ⟨Grow.refl _, by simp⟩
  | cons n ns ih =>
    intro st
    simp only [ensureItems]
    split
    · rename_i hn
      obtain ⟨g, s⟩ := ih st
      refine ⟨g, ?_⟩
      intro m hm
      rcases List.mem_cons.mp hm with rfl | hm
      · exact g.1.2 _ (Or.inr hn)
      · exact s m hm
    · obtain ⟨g, s⟩ := ih { st with lines := st.lines ++ [virtUnk n] }
      have g0 := grow_append st (virtUnk n) (recClosed_norefs _ _ (virtUnk_refs n).1 (virtUnk_refs n).2)
      refine ⟨g0.trans g, ?_⟩
      intro m hm
      rcases List.mem_cons.mp hm with rfl | hm
      · apply g.1.2
        by_cases hs : m = "*"
        · exact Or.inl hs
        · right
          rw [hasName_iff']
          exact ⟨virtUnk m, by simp, by rw [virtUnk_name]; simp [hs]⟩
      · exact s m hm

theorem virtLink_refs (l : Link) : (virtLink l).segRefs = [l.frm, l.to] ∧ (virtLink l).itemRefs = [] := by
  simp [virtLink, Rec.segRefs, Rec.itemRefs, fld]

theorem linkOf_fields (q : Rec) (k : Link) (h : q.linkOf = some k) : q.rt = .L ∧ k.frm = fld q 0 ∧ k.to = fld q 2 := by
  unfold Rec.linkOf at h
  split at h
  · rename_i hrt
    split at h
    · injection h with h; subst h; exact ⟨hrt, rfl, rfl⟩
    · cases h
  · cases h

theorem fld_set4 (q : Rec) (v : String) (i : Nat) (hi : i < 4) : fld ({ q with fields := q.fields.set 4 v } : Rec) i = fld q i := by
  unfold fld
  simp only [List.getD_eq_getElem?_getD]
  rw [List.getElem?_set_ne (by omega)]

theorem adoptOverlap_refs (s : Link) (q : Rec) :
    (adoptOverlap s q).rt = q.rt ∧ (adoptOverlap s q).segRefs = q.segRefs ∧ (adoptOverlap s q).itemRefs = q.itemRefs := by
  unfold adoptOverlap
  split
  · rename_i k hk
    obtain ⟨hrt, _, _⟩ := linkOf_fields q k hk
    split
    · refine ⟨rfl, ?_, ?_⟩
      · unfold Rec.segRefs
        simp only [hrt]
        rw [show ∀ v, fld ({ rt := RT.L, fields := q.fields.set 4 v, virt := q.virt } : Rec) 0 = fld q 0 from
              fun v => by have := fld_set4 q v 0 (by decide); rw [hrt] at this; simpa [hrt] using this,
            show ∀ v, fld ({ rt := RT.L, fields := q.fields.set 4 v, virt := q.virt } : Rec) 2 = fld q 2 from
              fun v => by have := fld_set4 q v 2 (by decide); rw [hrt] at this; simpa [hrt] using this]
      · unfold Rec.itemRefs
        simp only [hrt]
    · exact ⟨rfl, rfl, rfl⟩
  · exact ⟨rfl, rfl, rfl⟩

/-- a stored link that satisfies a step joins the two segments of the step -/
theorem fits_segRefs (l : Link) (q : Rec) (h : fits l q = true) : q.rt = .L ∧ ∀ n ∈ q.segRefs, n = l.frm ∨ n = l.to := by
  unfold fits at h
  split at h
  · rename_i k hk
    obtain ⟨hrt, hf, ht⟩ := linkOf_fields q k hk
    refine ⟨hrt, ?_⟩
    intro n hn
    unfold Rec.segRefs at hn
    simp only [hrt, List.mem_cons, List.not_mem_nil, or_false] at hn
    unfold Link.compatible Link.compatDirect Link.compatCompl at h
    simp only [Bool.or_eq_true, Bool.and_eq_true, beq_iff_eq] at h
    rcases h with ⟨⟨⟨⟨h1, _⟩, h3⟩, _⟩, _⟩ | ⟨⟨⟨⟨h1, _⟩, h3⟩, _⟩, _⟩
    · rcases hn with rfl | rfl
      · left; rw [← hf, h1]
      · right; rw [← ht, h3]
    · rcases hn with rfl | rfl
      · right; rw [← hf, h3]
      · left; rw [← ht, h1]
  · cases h

/-- a placeholder link adopting the overlap a step states: everything stays available and the record stays closed -/
theorem grow_adopt (st : St) (l : Link) (i : Nat) (hfound : st.lines.findIdx? (fits l) = some i)
    (hs : ∀ n ∈ [l.frm, l.to], SegOK st n) :
    Grow st { st with lines := st.lines.set i (adoptOverlap l (st.lines.getD i default)) } := by
  obtain ⟨hi, hp⟩ := findIdx_some_lt _ _ _ hfound
  have hfit : fits l (st.lines.getD i default) = true := by simpa using hp
  obtain ⟨hrt, hrefs⟩ := fits_segRefs l _ hfit
  obtain ⟨art, aseg, aitem⟩ := adoptOverlap_refs l (st.lines.getD i default)
  have hext : Ext st { st with lines := st.lines.set i (adoptOverlap l (st.lines.getD i default)) } := by
    apply ext_set st i _ hi (Or.inr (C09.adoptOverlap_name l _).symm)
    intro hS; rw [hrt] at hS; cases hS
  refine ⟨hext, ?_⟩
  intro x hx
  rcases List.mem_or_eq_of_mem_set hx with h | h
  · exact Or.inl h
  · right
    subst h
    refine ⟨?_, ?_⟩
    · intro n hn
      rw [aseg] at hn
      apply hext.1 n
      rcases hrefs n hn with rfl | rfl
      · exact hs _ (by simp)
      · exact hs _ (by simp)
    · intro n hn
      rw [aitem] at hn
      have : (st.lines.getD i default).itemRefs = [] := by unfold Rec.itemRefs; rw [hrt]
      rw [this] at hn; cases hn

theorem ensureLinks_grow (ls : List Link) : ∀ (st st' : St), ensureLinks st ls = .ok st' → Grow st st' := by
  induction ls with
  | nil => intro st st' he; simp [ensureLinks] at he; subst he; exact Grow.refl _
  | cons l ls ih =>
    intro st st' he
    simp only [ensureLinks] at he
    cases h1 : ensureSegs st [l.frm, l.to] with
    | error e => simp [h1, Except.bind] at he
    | ok st1 =>
      simp only [h1, Except.bind] at he
      obtain ⟨g1, s1⟩ := ensureSegs_grow _ st st1 h1
      split at he
      · rename_i i hfound
        exact g1.trans ((grow_adopt st1 l i hfound s1).trans (ih _ st' he))
      · have hc : RecClosed { st1 with lines := st1.lines ++ [virtLink l] } (virtLink l) := by
          refine ⟨?_, by rw [(virtLink_refs l).2]; simp⟩
          intro n hn
          rw [(virtLink_refs l).1] at hn
          exact (ext_append st1 _).1 n (s1 n hn)
        exact g1.trans ((grow_append st1 _ hc).trans (ih _ st' he))

theorem ensureRefs_grow (st st' : St) (r : Rec) (he : ensureRefs st r = .ok st') : Grow st st' ∧ RecClosed st' r := by
  unfold ensureRefs at he
  cases h1 : ensureSegs st r.segRefs with
  | error e => simp [h1, Except.bind] at he
  | ok st1 =>
    simp only [h1, Except.bind] at he
    obtain ⟨g1, s1⟩ := ensureSegs_grow _ st st1 h1
    have key : ∀ st2, Grow st1 st2 → st' = ensureItems st2 r.itemRefs → Grow st st' ∧ RecClosed st' r := by
      intro st2 g2 hst'
      obtain ⟨g3, s3⟩ := ensureItems_grow r.itemRefs st2
      rw [hst']
      refine ⟨g1.trans (g2.trans g3), ?_, s3⟩
      intro n hn
      exact g3.1.1 n (g2.1.1 n (s1 n hn))
    split at he
    · cases h2 : ensureLinks st1 r.pathSteps with
      | error e => simp [h2, Except.map] at he
      | ok st2 =>
        simp only [h2, Except.map] at he
        injection he with he
        exact key st2 (ensureLinks_grow _ st1 st2 h2) he.symm
    · simp only [Except.map] at he
      injection he with he
      exact key st1 (Grow.refl _) he.symm

end Gfa.C02

namespace Gfa.C02
open G C09

theorem register_closed (st st' : St) (r : Rec) (hc : Closed st) (he : register st r = .ok st') : Closed st' := by
  unfold register at he
  cases h1 : ensureRefs st r with
  | error e => simp [h1, Except.bind] at he
  | ok st1 =>
    simp only [h1, Except.bind] at he
    obtain ⟨g1, c1⟩ := ensureRefs_grow st st1 r h1
    have fin : Closed { st1 with lines := st1.lines ++ [r] } :=
      closed_of_grow hc (g1.trans (grow_append st1 r (c1.mono (ext_append st1 r))))
    split at he
    · split at he
      · cases he
      · injection he with he; subst he; exact fin
    · injection he with he; subst he; exact fin

theorem substitute_closed (st st' : St) (i : Nat) (r : Rec) (hc : Closed st) (hi : i < st.lines.length)
    (hname : (st.lines.getD i default).name = none ∨ (st.lines.getD i default).name = r.name)
    (hseg : (st.lines.getD i default).rt = .S → r.rt = .S ∧ (st.lines.getD i default).name = r.name)
    (he : substitute st i r = .ok st') : Closed st' := by
  unfold substitute at he
  obtain ⟨g, cr⟩ := ensureRefs_grow _ st' r he
  have e0 := ext_set st i r hi hname hseg
  intro q hq
  rcases g.2 q hq with h | h
  · rcases List.mem_or_eq_of_mem_set h with h' | rfl
    · exact ((hc q h').mono e0).mono g.1
    · exact cr
  · exact h

theorem linkOf_some_rt (r : Rec) (k : Link) (h : r.linkOf = some k) : r.rt = .L := by
  unfold Rec.linkOf at h
  split at h
  · assumption
  · cases h

theorem addLinkOnto_closed (st st' : St) (r : Rec) (l : Link) (i : Nat) (hc : Closed st) (hi : i < st.lines.length)
    (hL : (st.lines.getD i default).rt = .L) (he : addLinkOnto st r l i = .ok st') : Closed st' := by
  unfold addLinkOnto at he
  split at he
  · rename_i hv
    split at he
    · exact substitute_closed st st' i r hc hi (Or.inl hv.2) (by rw [hL]; intro h; cases h) he
    · cases he
  · split at he
    · injection he with he; subst he; exact hc
    · cases he

theorem addLinkFresh_closed (st st' : St) (r : Rec) (hc : Closed st) (he : addLinkFresh st r = .ok st') : Closed st' := by
  unfold addLinkFresh at he
  split at he
  · exact register_closed st st' r hc he
  · rename_i n hn
    split at he
    · exact register_closed st st' r hc he
    · rename_i j hj
      obtain ⟨hjl, hjp⟩ := findIdx_some_lt _ _ _ hj
      split at he
      · rename_i hv
        exact substitute_closed st st' j r hc hjl (Or.inr (by rw [hn]; simpa using hjp))
          (by rw [hv.2]; intro h; cases h) he
      · cases he

/-- splitting a text made of two parts joined by the separator gives the pieces of both -/
theorem splitOn_append (sep : Char) (xs ys : List Char) :
    Field.splitOn sep (xs ++ sep :: ys) = Field.splitOn sep xs ++ Field.splitOn sep ys := by
  induction xs with
  | nil =>
    simp only [List.nil_append, Field.splitOn]
    cases h : Field.splitOn sep ys with
    | nil => exact absurd h (C01.splitOn_ne_nil sep ys)
    | cons f fs => simp
  | cons c cs ih =>
    simp only [List.cons_append, Field.splitOn, ih]
    cases h : Field.splitOn sep cs with
    | nil => exact absurd h (C01.splitOn_ne_nil sep cs)
    | cons f fs => by_cases hc : c = sep <;> simp [hc]

theorem splitStr_append (a b : String) : splitStr ' ' (a ++ " " ++ b) = splitStr ' ' a ++ splitStr ' ' b := by
  unfold splitStr
  have : (a ++ " " ++ b).toList = a.toList ++ ' ' :: b.toList := by simp
  rw [this, splitOn_append, List.map_append]

theorem filter_split_catItems (a b : String) :
    (splitStr ' ' (catItems a b)).filter (· ≠ "") =
      (splitStr ' ' a).filter (· ≠ "") ++ (splitStr ' ' b).filter (· ≠ "") := by
  unfold catItems
  split
  · rename_i h; subst h
    have : splitStr ' ' "" = [""] := by decide
    rw [this]; simp
  · rw [splitStr_append, List.filter_append]

theorem merged_itemRefs (rt : RT) (hg : rt = .O ∨ rt = .U) (n : String) (p r : Rec) (tg : List String)
    (hp : p.rt = rt) (hr : r.rt = rt) (m : String)
    (hm : m ∈ (⟨rt, [n, catItems (fld p 1) (fld r 1)] ++ tg, false⟩ : Rec).itemRefs) :
    m ∈ p.itemRefs ∨ m ∈ r.itemRefs := by
  rcases hg with rfl | rfl
  · simp only [Rec.itemRefs, hp, hr, fld, List.cons_append, List.getD_cons_succ, List.getD_cons_zero] at hm ⊢
    rw [filter_split_catItems, List.map_append, List.mem_append] at hm
    exact hm
  · simp only [Rec.itemRefs, hp, hr, fld, List.cons_append, List.getD_cons_succ, List.getD_cons_zero] at hm ⊢
    rw [filter_split_catItems, List.mem_append] at hm
    exact hm

theorem group_segRefs (r : Rec) (hg : r.rt = .O ∨ r.rt = .U) : r.segRefs = [] := by
  rcases hg with h | h <;> simp [Rec.segRefs, h]

theorem mergeGroup_closed (st st' : St) (r : Rec) (n : String) (i : Nat) (hc : Closed st) (hi : i < st.lines.length)
    (hp : (st.lines.getD i default).name = some n) (hg : r.rt = .O ∨ r.rt = .U)
    (hrt : (st.lines.getD i default).rt = r.rt) (hn : r.name = some n)
    (he : mergeGroup st r n i = .ok st') : Closed st' := by
  unfold mergeGroup at he
  split at he
  · cases he
  · rename_i tg _
    obtain ⟨g, cr⟩ := ensureRefs_grow _ st' r he
    obtain ⟨_, hne⟩ := name_group r n hg hn
    have hmn : (⟨r.rt, [n, catItems (fld (st.lines.getD i default) 1) (fld r 1)] ++ tg, false⟩ : Rec).name = some n := by
      rcases hg with h | h <;> simp [Rec.name, h, fld, hne]
    have e0 := ext_set st i ⟨r.rt, [n, catItems (fld (st.lines.getD i default) 1) (fld r 1)] ++ tg, false⟩ hi
      (Or.inr (hp.trans hmn.symm))
      (by rw [hrt]; intro h; rcases hg with h' | h' <;> rw [h'] at h <;> cases h)
    have hprev : st.lines.getD i default ∈ st.lines := by
      simp only [List.getD_eq_getElem?_getD, List.getElem?_eq_getElem hi, Option.getD_some]
      exact List.getElem_mem hi
    intro q hq
    rcases g.2 q hq with h | h
    · rcases List.mem_or_eq_of_mem_set h with h' | rfl
      · exact ((hc q h').mono e0).mono g.1
      · refine ⟨by rw [group_segRefs _ (by simpa using hg)]; simp, ?_⟩
        intro m hm
        rcases merged_itemRefs r.rt hg n _ r tg hrt rfl m hm with h1 | h1
        · exact g.1.2 m (e0.2 m ((hc _ hprev).2 m h1))
        · exact cr.2 m h1
    · exact h

theorem addOnto_closed (st st' : St) (r : Rec) (n : String) (i : Nat) (hc : Closed st) (hi : i < st.lines.length)
    (hp : (st.lines.getD i default).name = some n) (hn : r.name = some n)
    (he : addOnto st r n i = .ok st') : Closed st' := by
  unfold addOnto at he
  split at he
  · split at he
    · rename_i hk
      apply substitute_closed st st' i r hc hi (Or.inr (by rw [hp, hn])) _ he
      intro hS
      rcases hk with h | h
      · rw [h] at hS; cases hS
      · exact ⟨by rw [← h]; exact hS, by rw [hp, hn]⟩
    · cases he
  · split at he
    · rename_i hgrp
      exact mergeGroup_closed st st' r n i hc hi hp hgrp.1 hgrp.2 hn he
    · cases he

/-- **`add_line` keeps the reference graph closed**: forward references are given placeholders -/
theorem add_closed (st st' : St) (r : Rec) (hc : Closed st) (he : add st r = .ok st') : Closed st' := by
  unfold add at he
  split at he
  · cases he
  split at he
  · split at he <;> cases he
  split at he
  · cases he
  split at he
  · split at he
    · cases he
    · rename_i l _
      split at he
      · rename_i i hfound
        unfold findCompatIdx at hfound
        obtain ⟨hi, hp⟩ := findIdx_some_lt _ _ _ hfound
        have hL : (st.lines.getD i default).rt = .L := by
          split at hp
          · rename_i k hk; exact linkOf_some_rt _ k hk
          · cases hp
        split at he
        · cases he
        · exact addLinkOnto_closed st st' r l i hc hi hL he
      · exact addLinkFresh_closed st st' r hc he
  · split at he
    · exact register_closed st st' r hc he
    · rename_i n hn
      split at he
      · exact register_closed st st' r hc he
      · rename_i i hfound
        obtain ⟨hi, hp⟩ := findIdx_some_lt _ _ _ hfound
        exact addOnto_closed st st' r n i hc hi (by simpa using hp) hn he

end Gfa.C02

namespace Gfa.C02
open G C09

theorem cascade_closed (st : St) (d : List Nat) : newDead st (cascade st d) = [] := by
  induction d using cascade.induct st with
  | case1 d h => unfold cascade; rw [dif_pos h]; exact h
  | case2 d h ih => unfold cascade; rw [dif_neg h]; exact ih

theorem cascade_seed (st : St) (d : List Nat) : ∀ x ∈ d, x ∈ cascade st d := by
  induction d using cascade.induct st with
  | case1 d h => intro x hx; unfold cascade; rw [dif_pos h]; exact hx
  | case2 d h ih => intro x hx; unfold cascade; rw [dif_neg h]; exact ih x (List.mem_append_left _ hx)

/-- a live line (index not removed) does not depend on the removed set once the cascade has closed -/
theorem live_not_dependent (st : St) (seed : List Nat) (j : Nat) (hj : j < st.lines.length)
    (hlive : j ∉ cascade st seed) : dependsOn st (cascade st seed) j = false := by
  have hc := cascade_closed st seed
  unfold newDead at hc
  rw [List.filter_eq_nil_iff] at hc
  have := hc j (List.mem_range.mpr hj)
  simp only [Bool.and_eq_true, Bool.not_eq_true', not_and] at this
  have hnc : (cascade st seed).contains j = false := by simpa using hlive
  cases hd : dependsOn st (cascade st seed) j with
  | false => rfl
  | true => exact absurd hd (by simpa using this hnc)

theorem dropItems_segRefs (gone : List String) (r : Rec) : (dropItems gone r).segRefs = r.segRefs := by
  unfold dropItems
  split
  · rename_i hu; simp [Rec.segRefs, hu]
  · rfl

theorem dropItems_rt (gone : List String) (r : Rec) : (dropItems gone r).rt = r.rt := by
  unfold dropItems; split <;> rfl

theorem splitOn_no_sep (sep : Char) (s : List Char) : ∀ f ∈ Field.splitOn sep s, sep ∉ f := by
  induction s with
  | nil => intro f hf; simp [Field.splitOn] at hf; subst hf; simp
  | cons c cs ih =>
    intro f hf
    simp only [Field.splitOn] at hf
    cases h : Field.splitOn sep cs with
    | nil => exact absurd h (C01.splitOn_ne_nil sep cs)
    | cons g gs =>
      rw [h] at hf ih
      by_cases hc : c = sep
      · simp only [hc, if_true, List.mem_cons] at hf
        rcases hf with rfl | rfl | hf
        · simp
        · exact ih _ (by simp)
        · exact ih _ (by simp [hf])
      · simp only [hc, if_false, List.mem_cons] at hf
        rcases hf with rfl | hf
        · simp only [List.mem_cons, not_or]
          exact ⟨fun e => hc e.symm, ih g (by simp)⟩
        · exact ih _ (by simp [hf])

/-- splitting what was joined gives back the pieces (separator-free, at least one) -/
theorem splitStr_joinStr (xs : List String) (hne : xs ≠ []) (h : ∀ x ∈ xs, ' ' ∉ x.toList) :
    splitStr ' ' (joinStr ' ' xs) = xs := by
  unfold splitStr joinStr
  simp only [String.toList_ofList]
  rw [C01.splitOn_intercalate ' ' _ (by simpa using hne)]
  · simp [List.map_map, Function.comp]
  · intro f hf
    rw [List.mem_map] at hf
    obtain ⟨x, hx, rfl⟩ := hf
    exact h x hx

theorem splitStr_pieces (s : String) : ∀ x ∈ splitStr ' ' s, ' ' ∉ x.toList := by
  intro x hx
  unfold splitStr at hx
  rw [List.mem_map] at hx
  obtain ⟨f, hf, rfl⟩ := hx
  simpa using splitOn_no_sep ' ' s.toList f hf

/-- the items left in a set after the removed identifiers were dropped are items it had, none of them removed -/
theorem dropItems_itemRefs (gone : List String) (r : Rec) (m : String) (hm : m ∈ (dropItems gone r).itemRefs) :
    m ∈ r.itemRefs ∧ (r.rt = .U → m ∉ gone) := by
  unfold dropItems at hm
  split at hm
  · rename_i hu
    simp only [Rec.itemRefs, fld, List.cons_append, List.getD_cons_succ, List.getD_cons_zero, hu] at hm
    by_cases hne : (splitStr ' ' (r.fields.getD 1 "")).filter (fun n => !gone.contains n) = []
    · rw [hne] at hm
      have he : splitStr ' ' (joinStr ' ' []) = [""] := by rfl
      rw [he] at hm
      simp at hm
    · rw [splitStr_joinStr _ hne (fun x hx => splitStr_pieces _ x (List.mem_filter.mp hx).1)] at hm
      simp only [List.mem_filter, Bool.not_eq_true', decide_eq_true_eq] at hm
      refine ⟨?_, fun _ => by simpa using hm.1.2⟩
      simp only [Rec.itemRefs, hu, fld, List.mem_filter, decide_eq_true_eq]
      exact ⟨hm.1.1, hm.2⟩
  · rename_i hnu
    exact ⟨hm, fun h => absurd h (by simpa using hnu)⟩

theorem mem_kept (st : St) (dead : List Nat) (q : Rec) :
    q ∈ (st.lines.zipIdx.filter (fun p => !dead.contains p.2)).map (·.1) ↔
      ∃ j, j < st.lines.length ∧ st.lines[j]? = some q ∧ j ∉ dead := by
  simp only [List.mem_map, List.mem_filter, Bool.not_eq_true']
  constructor
  · rintro ⟨⟨q', j⟩, ⟨hmem, hnd⟩, rfl⟩
    have := List.mem_zipIdx hmem
    simp only [Nat.zero_add, Nat.sub_zero, Nat.le_refl, true_and] at this
    obtain ⟨h1, h2⟩ := this
    refine ⟨j, by omega, ?_, by simpa using hnd⟩
    rw [List.getElem?_eq_getElem (by omega)]; simp [h2]
  · rintro ⟨j, hj, hq, hnd⟩
    refine ⟨(q, j), ⟨?_, by simpa using hnd⟩, rfl⟩
    rw [List.getElem?_eq_getElem hj] at hq
    simp only [Option.some.injEq] at hq
    rw [List.mem_zipIdx_iff_getElem?]
    simp [hq.symm, hj]

/-- **removal keeps the reference graph closed**: whatever refers to a removed line is removed with it
    (or, for a gap listed in a set, the mention is dropped) -/
theorem rmCore_closed (st : St) (seed : List Nat) (hc : Closed st) : Closed (rmCore st seed) := by
  intro q' hq'
  unfold rmCore at hq'
  simp only [List.mem_map] at hq'
  obtain ⟨q, hq, rfl⟩ := hq'
  have hq2 := (mem_kept st (cascade st seed) q).mp (by simpa [List.mem_map] using hq)
  obtain ⟨j, hj, hqj, hlive⟩ := hq2
  have hqm : q ∈ st.lines := List.mem_of_getElem? hqj
  have hdep := live_not_dependent st seed j hj hlive
  unfold dependsOn at hdep
  simp only [hqj, Bool.or_eq_false_iff] at hdep
  obtain ⟨⟨hseg, hitem⟩, _⟩ := hdep
  -- a kept line whose index is live
  have keep : ∀ (t : Rec) (k : Nat), st.lines[k]? = some t → k ∉ cascade st seed →
      dropItems ((cascade st seed).filterMap (fun j => (st.lines[j]?).bind Rec.name)) t ∈ (rmCore st seed).lines := by
    intro t k hk hlk
    unfold rmCore
    simp only [List.mem_map]
    refine ⟨t, ?_, rfl⟩
    have hkl : k < st.lines.length := by
      rcases Nat.lt_or_ge k st.lines.length with h | h
      · exact h
      · rw [List.getElem?_eq_none h] at hk; cases hk
    have := (mem_kept st (cascade st seed) t).mpr ⟨k, hkl, hk, hlk⟩
    simpa [List.mem_map] using this
  constructor
  · -- segment references
    intro n hn
    rw [dropItems_segRefs] at hn
    obtain ⟨s, hs, hsrt, hsn⟩ := (segOK_iff st n).mp ((hc q hqm).1 n hn)
    obtain ⟨k, hk, rfl⟩ := List.getElem_of_mem hs
    have hks : st.lines[k]? = some st.lines[k] := List.getElem?_eq_getElem hk
    have hlk : k ∉ cascade st seed := by
      intro hdead
      rw [List.any_eq_false] at hseg
      have := hseg n hn
      apply this
      simp only [List.contains_iff_mem, List.mem_filterMap, decide_eq_true_eq]
      refine ⟨st.lines[k], ⟨k, hdead, hks⟩, ?_⟩
      simp [hsrt, hsn]
    rw [segOK_iff]
    refine ⟨_, keep _ k hks hlk, ?_, ?_⟩
    · rw [dropItems_rt]; exact hsrt
    · rw [dropItems_name]; exact hsn
  · -- group items
    intro m hm
    obtain ⟨hm1, hm2⟩ := dropItems_itemRefs _ q m hm
    rcases (hc q hqm).2 m hm1 with hstar | hnm
    · exact Or.inl hstar
    · right
      obtain ⟨t, ht, htn⟩ := (hasName_iff' st m).mp hnm
      obtain ⟨k, hk, rfl⟩ := List.getElem_of_mem ht
      have hks : st.lines[k]? = some st.lines[k] := List.getElem?_eq_getElem hk
      have hlk : k ∉ cascade st seed := by
        intro hdead
        by_cases hu : q.rt = .U ∧ st.lines[k].rt = .G
        · -- a gap mentioned by a set: the mention was dropped
          apply hm2 hu.1
          simp only [List.mem_filterMap]
          exact ⟨k, hdead, by simp [hks, htn]⟩
        · rw [List.any_eq_false] at hitem
          have := hitem m hm1
          apply this
          simp only [List.contains_iff_mem, List.mem_filterMap, decide_eq_true_eq]
          refine ⟨st.lines[k], ⟨k, hdead, hks⟩, ?_⟩
          have : ¬ (st.lines[k].rt = .G ∧ q.rt = .U) := fun h => hu ⟨h.2, h.1⟩
          simp [this, htn]
      rw [hasName_iff']
      exact ⟨_, keep _ k hks hlk, by rw [dropItems_name]; exact htn⟩

theorem resetPlaceholder_refs (lines : List Rec) (p : Rec × Nat) :
    (resetPlaceholder lines p).rt = p.1.rt ∧ (resetPlaceholder lines p).segRefs = p.1.segRefs ∧
    (resetPlaceholder lines p).itemRefs = p.1.itemRefs := by
  unfold resetPlaceholder
  split
  · rename_i h
    simp only [Bool.and_eq_true, beq_iff_eq] at h
    have hrt : p.1.rt = .L := h.1.1.2
    refine ⟨rfl, ?_, ?_⟩
    · unfold Rec.segRefs
      simp only [hrt]
      rw [show ∀ v, fld ({ rt := RT.L, fields := p.1.fields.set 4 v, virt := p.1.virt } : Rec) 0 = fld p.1 0 from
            fun v => by have := fld_set4 p.1 v 0 (by decide); rw [hrt] at this; simpa [hrt] using this,
          show ∀ v, fld ({ rt := RT.L, fields := p.1.fields.set 4 v, virt := p.1.virt } : Rec) 2 = fld p.1 2 from
            fun v => by have := fld_set4 p.1 v 2 (by decide); rw [hrt] at this; simpa [hrt] using this]
    · unfold Rec.itemRefs
      simp only [hrt]
  · exact ⟨rfl, rfl, rfl⟩

theorem mem_zipIdx_recmap (ls : List Rec) (f : Rec × Nat → Rec) (q' : Rec) :
    q' ∈ ls.zipIdx.map f ↔ ∃ q i, ls[i]? = some q ∧ q' = f (q, i) := by
  simp only [List.mem_map]
  constructor
  · rintro ⟨⟨q, i⟩, hm, rfl⟩
    exact ⟨q, i, (List.mem_zipIdx_iff_getElem?.mp hm), rfl⟩
  · rintro ⟨q, i, hq, rfl⟩
    exact ⟨(q, i), List.mem_zipIdx_iff_getElem?.mpr hq, rfl⟩

/-- rewriting records without touching record type, identifier and references keeps the reference graph closed -/
theorem closed_zipIdx_map (st : St) (f : Rec × Nat → Rec)
    (hf : ∀ p, (f p).rt = p.1.rt ∧ (f p).name = p.1.name ∧ (f p).segRefs = p.1.segRefs ∧ (f p).itemRefs = p.1.itemRefs)
    (hc : Closed st) : Closed { st with lines := st.lines.zipIdx.map f } := by
  have hext : Ext st { st with lines := st.lines.zipIdx.map f } := by
    constructor
    · intro n h
      rw [segOK_iff] at h ⊢
      obtain ⟨q, hq, hrt, hn⟩ := h
      obtain ⟨i, hi, rfl⟩ := List.getElem_of_mem hq
      refine ⟨f (st.lines[i], i), (mem_zipIdx_recmap _ _ _).mpr ⟨_, i, List.getElem?_eq_getElem hi, rfl⟩, ?_, ?_⟩
      · rw [(hf _).1]; exact hrt
      · rw [(hf _).2.1]; exact hn
    · intro n h
      rcases h with h | h
      · exact Or.inl h
      · right
        rw [hasName_iff'] at h ⊢
        obtain ⟨q, hq, hn⟩ := h
        obtain ⟨i, hi, rfl⟩ := List.getElem_of_mem hq
        exact ⟨f (st.lines[i], i), (mem_zipIdx_recmap _ _ _).mpr ⟨_, i, List.getElem?_eq_getElem hi, rfl⟩, by rw [(hf _).2.1]; exact hn⟩
  intro q' hq'
  obtain ⟨q, i, hq, rfl⟩ := (mem_zipIdx_recmap _ _ _).mp hq'
  have hqm : q ∈ st.lines := List.mem_of_getElem? hq
  have := (hc q hqm).mono hext
  refine ⟨?_, ?_⟩
  · intro n hn; rw [(hf _).2.2.1] at hn; exact this.1 n hn
  · intro n hn; rw [(hf _).2.2.2] at hn; exact this.2 n hn

theorem resetAll_closed (st : St) (hc : Closed st) : Closed (resetAll st) := by
  unfold resetAll
  apply closed_zipIdx_map st _ _ hc
  intro p
  obtain ⟨h1, h2, h3⟩ := resetPlaceholder_refs st.lines p
  exact ⟨h1, C09.resetPlaceholder_name st.lines p, h2, h3⟩

/-- **removal keeps the reference graph closed**: whatever refers to a removed line is removed with it
    (or, for a gap listed in a set, the mention is dropped) -/
theorem rmIdx_closed (st : St) (seed : List Nat) (hc : Closed st) : Closed (rmIdx st seed) :=
  resetAll_closed _ (rmCore_closed st seed hc)

theorem rm_closed (st st' : St) (n : String) (hc : Closed st) (he : rm st n = .ok st') : Closed st' := by
  unfold rm at he
  split at he
  · cases he
  · injection he with he; rw [← he]; exact rmIdx_closed st _ hc

end Gfa.C02

namespace Gfa.C02
open G C09

theorem closed_empty (v : Ver) : Closed (St.empty v) := by intro r hr; simp [St.empty] at hr

def noRename : C09.Op → Bool
  | .rename _ _ => false
  | _ => true

theorem step_closed (st : St) (op : C09.Op) (hop : noRename op = true) (h : Closed st) : Closed (step st op) := by
  cases op with
  | add r => simp only [step]; cases he : add st r with
    | ok s => exact add_closed st s r h he
    | error e => exact h
  | rm n => simp only [step]; cases he : rm st n with
    | ok s => exact rm_closed st s n h he
    | error e => exact h
  | rename a b => simp [noRename] at hop

/-- **Closure for every history of additions and removals** (successful or refused, lines arriving
    before the lines they mention, any fan-out of dependants, nested groups).

    Full statement (also with renames): `∀ ops, Closed (run v ops)`.  What is missing in the proved one:
    that a rename substitutes the identifier in *every* field that mentions it (the executable model does,
    and the correspondence compares the complete observation after every rename; the Lean proof of the
    substitution lemmas over the text of P/O/U item lists is not done). -/
theorem closed_reachable_partial (v : Ver) (ops : List C09.Op) (hops : ∀ op ∈ ops, noRename op = true) :
    Closed (run v ops) := by
  unfold run
  suffices h : ∀ st, Closed st → Closed (ops.foldl step st) from h _ (closed_empty v)
  induction ops with
  | nil => intro st h; exact h
  | cons op ops ih =>
    intro st h
    exact ih (fun o ho => hops o (by simp [ho])) _ (step_closed st op (hops op (by simp)) h)

/-- every line of the Gfa that is referred to is found under its identifier, and only there: with the
    uniqueness of identifiers (C09) a reference designates exactly one line -/
theorem reference_resolves (st : St) (hc : Closed st) (hn : NoDup st) (r : Rec) (hr : r ∈ st.lines) (n : String)
    (hin : n ∈ r.itemRefs) (hne : n ≠ "*") : ∃ t, findNamed st n = some t ∧ t ∈ st.lines ∧ t.name = some n := by
  rcases (hc r hr).2 n hin with h | h
  · exact absurd h hne
  · obtain ⟨t, ht, htn⟩ := (hasName_iff' st n).mp h
    exact ⟨t, lookup_complete st hn t n ht htn, ht, htn⟩

/-- no removed line is reachable: after `rm`, no remaining line refers to a removed identifier -/
theorem rm_no_zombie (st : St) (seed : List Nat) (hc : Closed st) (q : Rec) (hq : q ∈ (rmIdx st seed).lines)
    (n : String) (hn : n ∈ q.segRefs) : ∃ s ∈ (rmIdx st seed).lines, s.rt = .S ∧ s.name = some n :=
  (segOK_iff _ n).mp ((rmIdx_closed st seed hc q hq).1 n hn)

-- non-vacuity: a state with a forward reference (placeholder segment B) and a path over a link is closed
example : ∃ st, add (St.empty .gfa1) ⟨.L, ["A", "+", "B", "-", "*"], false⟩ = .ok st ∧ st.lines.length = 3 := by
  exact ⟨_, rfl, by decide⟩

end Gfa.C02
