import GfaModel.MergeGraph
import GfaProofs.C02
import GfaProofs.C05
import GfaProofs.C09
import GfaProofs.C14
/-!
# C14 — merging a linear path on the graph (`MergeGraph.lean`)

`mergePath` is the composition the library performs: build the merged segment, add it, take the dovetails of the
two outer ends off and put them back on the merged segment, remove the members (with everything that depends on
them).  Proved here, for every graph and every path:

* `mergePath_closed`, `mergePath_nodup`, `mergeAll_closed`, `mergeAll_nodup`: the reference graph stays closed and
  the identifiers stay distinct (the invariants of C02/C09 carry through the whole operation);
* `mergePath_members_gone`: after a merge no line carries the identifier of a member any more;
* `lenAlong_sum`: the length written on the merged segment is the sum of the member lengths minus the overlaps;
  `merged_length_matches`: when the LN tags agree with the sequences this is the length of the spelled sequence,
  so the consistency check of `__create_merged_segment` cannot fire on a consistent graph.
-/
namespace Gfa.C14Merge
open Gfa.G Gfa.C02 Gfa.C09

theorem addAll_closed : ∀ (rs : List Rec) (st st' : St), Closed st → addAll st rs = .ok st' → Closed st' := by
  intro rs
  induction rs with
  | nil => intro st st' hc he; simp only [addAll] at he; injection he with he; subst he; exact hc
  | cons r rs ih =>
    intro st st' hc he
    simp only [addAll] at he
    cases ha : add st r with
    | error e => rw [ha] at he; cases he
    | ok s => rw [ha] at he; exact ih s st' (add_closed st s r hc ha) he

theorem addAll_nodup : ∀ (rs : List Rec) (st st' : St), NoDup st → addAll st rs = .ok st' → NoDup st' := by
  intro rs
  induction rs with
  | nil => intro st st' hc he; simp only [addAll] at he; injection he with he; subst he; exact hc
  | cons r rs ih =>
    intro st st' hc he
    simp only [addAll] at he
    cases ha : add st r with
    | error e => rw [ha] at he; cases he
    | ok s => rw [ha] at he; exact ih s st' (add_nodup st s r hc ha) he

theorem rmAll_closed : ∀ (ns : List String) (st st' : St), Closed st → rmAll st ns = .ok st' → Closed st' := by
  intro ns
  induction ns with
  | nil => intro st st' hc he; simp only [rmAll] at he; injection he with he; subst he; exact hc
  | cons n ns ih =>
    intro st st' hc he
    simp only [rmAll] at he
    cases ha : rm st n with
    | error e => rw [ha] at he; cases he
    | ok s => rw [ha] at he; exact ih s st' (rm_closed st s n hc ha) he

theorem rmAll_nodup : ∀ (ns : List String) (st st' : St), NoDup st → rmAll st ns = .ok st' → NoDup st' := by
  intro ns
  induction ns with
  | nil => intro st st' hc he; simp only [rmAll] at he; injection he with he; subst he; exact hc
  | cons n ns ih =>
    intro st st' hc he
    simp only [rmAll] at he
    cases ha : rm st n with
    | error e => rw [ha] at he; cases he
    | ok s => rw [ha] at he; exact ih s st' (rm_nodup st s n hc ha) he

theorem relink_closed (st st' : St) (x : SegEnd) (m : String) (rev mr : Bool) (ml : Int) (hc : Closed st)
    (he : relink st x m rev mr ml = .ok st') : Closed st' := by
  unfold relink at he
  exact addAll_closed _ _ _ (rmIdx_closed st _ hc) he

theorem relink_nodup (st st' : St) (x : SegEnd) (m : String) (rev mr : Bool) (ml : Int) (hc : NoDup st)
    (he : relink st x m rev mr ml = .ok st') : NoDup st' := by
  unfold relink at he
  exact addAll_nodup _ _ _ (rmIdx_nodup st _ hc) he

/-- what every successful merge of a path of at least two members went through -/
theorem mergePath_steps (st st' : St) (path : List SegEnd) (vl : Nat) (hlen : 2 ≤ path.length)
    (he : mergePath st path vl = .ok st') :
    ∃ m mlen st1 st2 st3 a z, mergedSegment st path vl = .ok (m, mlen) ∧ add st m = .ok st1 ∧
      relink st1 (SegEnd.inv a) (fld m 0) (!a.right) false (mlen.getD 0) = .ok st2 ∧
      relink st2 z (fld m 0) (!z.right) true (mlen.getD 0) = .ok st3 ∧
      rmAll st3 (path.map (·.name)) = .ok st' := by
  unfold mergePath at he
  rw [if_neg (by omega)] at he
  split at he
  · cases he
  · rename_i m mlen hm
    split at he
    · rename_i st1 a z ha hh hl
      dsimp only at he
      split at he
      · rename_i st2 h2
        split at he
        · rename_i st3 h3
          exact ⟨m, mlen, st1, st2, st3, a, z, hm, ha, h2, h3, he⟩
        · cases he
      · cases he
    · cases he
    · cases he

/-- **the reference graph stays closed through a merge** -/
theorem mergePath_closed (st st' : St) (path : List SegEnd) (vl : Nat) (hc : Closed st)
    (he : mergePath st path vl = .ok st') : Closed st' := by
  by_cases hlen : 2 ≤ path.length
  · obtain ⟨m, mlen, st1, st2, st3, a, z, _, ha, h2, h3, h4⟩ := mergePath_steps st st' path vl hlen he
    exact rmAll_closed _ _ _ (relink_closed _ _ _ _ _ _ _ (relink_closed _ _ _ _ _ _ _ (add_closed _ _ _ hc ha) h2) h3) h4
  · unfold mergePath at he
    rw [if_pos (by omega)] at he
    injection he with he; subst he; exact hc

/-- **identifiers stay distinct through a merge** -/
theorem mergePath_nodup (st st' : St) (path : List SegEnd) (vl : Nat) (hc : NoDup st)
    (he : mergePath st path vl = .ok st') : NoDup st' := by
  by_cases hlen : 2 ≤ path.length
  · obtain ⟨m, mlen, st1, st2, st3, a, z, _, ha, h2, h3, h4⟩ := mergePath_steps st st' path vl hlen he
    exact rmAll_nodup _ _ _ (relink_nodup _ _ _ _ _ _ _ (relink_nodup _ _ _ _ _ _ _ (add_nodup _ _ _ hc ha) h2) h3) h4
  · unfold mergePath at he
    rw [if_pos (by omega)] at he
    injection he with he; subst he; exact hc

theorem foldl_merge_inv (P : St → Prop) (vl : Nat)
    (hstep : ∀ s s' p, P s → mergePath s p vl = .ok s' → P s') :
    ∀ (ps : List (List SegEnd)) (acc : Except Err St) (st' : St), (∀ s, acc = .ok s → P s) →
      ps.foldl (fun acc p => match acc with | .ok s => mergePath s p vl | .error e => .error e) acc = .ok st' → P st' := by
  intro ps
  induction ps with
  | nil => intro acc st' h he; exact h st' he
  | cons p ps ih =>
    intro acc st' h he
    simp only [List.foldl_cons] at he
    apply ih _ st' _ he
    intro s hs
    cases acc with
    | error e => cases hs
    | ok s0 => exact hstep s0 s p (h s0 rfl) hs

/-- `merge_linear_paths()`: closed and distinct after all merges -/
theorem mergeAll_closed (st st' : St) (vl : Nat) (hc : Closed st) (he : mergeAll st vl = .ok st') : Closed st' := by
  unfold mergeAll at he
  exact foldl_merge_inv Closed vl (fun s s' p h e => mergePath_closed s s' p vl h e) _ _ st'
    (fun s hs => by injection hs with hs; subst hs; exact hc) he

theorem mergeAll_nodup (st st' : St) (vl : Nat) (hc : NoDup st) (he : mergeAll st vl = .ok st') : NoDup st' := by
  unfold mergeAll at he
  exact foldl_merge_inv NoDup vl (fun s s' p h e => mergePath_nodup s s' p vl h e) _ _ st'
    (fun s hs => by injection hs with hs; subst hs; exact hc) he

/-- a removal only removes: an identifier not in use before is not in use after -/
theorem rm_names_subset (st st' : St) (n m : String) (he : rm st n = .ok st') (hm : hasName st m = false) :
    hasName st' m = false := by
  unfold rm at he
  split at he
  · cases he
  · injection he with he; subst he
    rw [Bool.eq_false_iff] at *
    intro hcon
    apply hm
    obtain ⟨q', hq', hqn⟩ := (hasName_iff' _ m).mp hcon
    obtain ⟨q, j, hj, hqj, _, hname, _, _⟩ := C05.rm_lines_origin st _ q' hq'
    rw [hname] at hqn
    exact (hasName_iff' _ m).mpr ⟨q, List.mem_of_getElem? hqj, hqn⟩

theorem rmAll_keeps_gone : ∀ (ns : List String) (st st' : St) (m : String), rmAll st ns = .ok st' →
    hasName st m = false → hasName st' m = false := by
  intro ns
  induction ns with
  | nil => intro st st' m he hm; simp only [rmAll] at he; injection he with he; subst he; exact hm
  | cons b ns ih =>
    intro st st' m he hm
    simp only [rmAll] at he
    cases hb : rm st b with
    | error e => rw [hb] at he; cases he
    | ok s2 => rw [hb] at he; exact ih s2 st' m he (rm_names_subset st s2 b m hb hm)

/-- **after the members are removed none of their identifiers is in use** -/
theorem rmAll_gone : ∀ (ns : List String) (st st' : St), NoDup st → rmAll st ns = .ok st' →
    ∀ n ∈ ns, hasName st' n = false := by
  intro ns
  induction ns with
  | nil => intro st st' _ _ n hn; cases hn
  | cons a ns ih =>
    intro st st' hnd he n hn
    simp only [rmAll] at he
    cases ha : rm st a with
    | error e => rw [ha] at he; cases he
    | ok s =>
      rw [ha] at he
      have hnd' := rm_nodup st s a hnd ha
      by_cases hin : n ∈ ns
      · exact ih s st' hnd' he n hin
      · have hna : n = a := by
          rcases List.mem_cons.mp hn with h | h
          · exact h
          · exact absurd h hin
        subst hna
        exact rmAll_keeps_gone ns s st' n he (C05.rm_name_gone st s n hnd ha)

/-- **after a merge no line carries the identifier of a member** -/
theorem mergePath_members_gone (st st' : St) (path : List SegEnd) (vl : Nat) (hlen : 2 ≤ path.length) (hnd : NoDup st)
    (he : mergePath st path vl = .ok st') : ∀ e ∈ path, hasName st' e.name = false := by
  obtain ⟨m, mlen, st1, st2, st3, a, z, _, ha, h2, h3, h4⟩ := mergePath_steps st st' path vl hlen he
  have hnd3 := relink_nodup _ _ _ _ _ _ _ (relink_nodup _ _ _ _ _ _ _ (add_nodup _ _ _ hnd ha) h2) h3
  intro e he'
  exact rmAll_gone _ st3 st' hnd3 h4 e.name (List.mem_map.mpr ⟨e, he', rfl⟩)

-- ------------------------------------------------------------------ the length written on the merged segment
theorem lenAlong_sum : ∀ (ls : List (Int × Nat)) (n0 : Int), 0 < n0 → (∀ p ∈ ls, (p.2 : Int) < p.1) →
    lenAlong (some n0) (ls.map (fun p => (some p.1, p.2))) = some (n0 + (ls.map (fun p => p.1 - (p.2 : Int))).sum) := by
  intro ls
  induction ls with
  | nil => intro n0 _ _; simp [lenAlong]
  | cons p ls ih =>
    intro n0 h0 h
    have hp := h p (by simp)
    have hm : p.1 ≠ 0 := by omega
    have hn : n0 ≠ 0 := by omega
    simp only [List.map_cons, lenAlong, lenStep, if_pos hn, if_pos hm, List.sum_cons]
    rw [ih (n0 + (p.1 - (p.2 : Int))) (by omega) (fun q hq => h q (by simp [hq]))]
    congr 1; omega

theorem sum_sub_eq : ∀ (ms : List Seq.Member), (∀ m ∈ ms, m.cut ≤ m.seq.length) →
    ((ms.map (fun m => ((m.seq.length : Int), m.cut))).map (fun p => p.1 - (p.2 : Int))).sum =
      (((ms.map (·.seq.length)).sum : Nat) : Int) - (((ms.map (·.cut)).sum : Nat) : Int) := by
  intro ms
  induction ms with
  | nil => intro _; simp
  | cons m ms ih =>
    intro h
    simp only [List.map_cons, List.sum_cons]
    rw [ih (fun q hq => h q (by simp [hq]))]
    push_cast
    omega

/-- **the LN computed member by member is the length of the spelled sequence** when every member has its
    sequence and each overlap is shorter than the member it cuts: on a graph whose LN tags agree with the sequences
    the consistency check of the merge cannot fire -/
theorem merged_length_matches (m0 : Seq.Member) (ms : List Seq.Member) (r : List Char)
    (hs : Seq.spell (m0 :: ms) = some r) (h0 : m0.cut = 0) (hpos : 0 < m0.seq.length)
    (hcut : ∀ m ∈ ms, m.cut < m.seq.length) :
    lenAlong (some (m0.seq.length : Int)) (ms.map (fun m => (some (m.seq.length : Int), m.cut))) = some (r.length : Int) := by
  have hl := C14.spell_length (m0 :: ms) r hs (by
    intro m hm
    rcases List.mem_cons.mp hm with h | h
    · subst h; omega
    · exact Nat.le_of_lt (hcut m h))
  have := lenAlong_sum (ms.map (fun m => ((m.seq.length : Int), m.cut))) (m0.seq.length : Int) (by omega) (by
    intro p hp
    obtain ⟨m, hm, rfl⟩ := List.mem_map.mp hp
    have := hcut m hm
    simp only; omega)
  rw [List.map_map] at this
  rw [show (fun m : Seq.Member => (some (m.seq.length : Int), m.cut)) =
      ((fun p : Int × Nat => (some p.1, p.2)) ∘ fun m : Seq.Member => ((m.seq.length : Int), m.cut)) from rfl, this,
    sum_sub_eq ms (fun m hm => Nat.le_of_lt (hcut m hm))]
  simp only [List.map_cons, List.sum_cons, h0] at hl
  congr 1
  omega

example : lenAlong (some 4) [(some 6, 2), (some 5, 1)] = some 12 := by decide

end Gfa.C14Merge
