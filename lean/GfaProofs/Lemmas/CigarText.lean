import GfaModel.CigarText
import GfaProofs.Lemmas.Digits
namespace Gfa

theorem ofChar_toChar (c : Code) : Code.ofChar? c.toChar = some c := by cases c <;> rfl
theorem toChar_not_digit (c : Code) : isDigit c.toChar = false := by cases c <;> decide

theorem parseOpsAux_digits (ds rest acc : List Char) (h : ds.all isDigit = true) :
    parseOpsAux (ds ++ rest) acc = parseOpsAux rest (acc ++ ds) := by
  induction ds generalizing acc with
  | nil => simp
  | cons d ds ih =>
    simp only [List.all_cons, Bool.and_eq_true] at h
    simp only [List.cons_append, parseOpsAux, h.1, if_true]
    rw [ih _ h.2]; simp

theorem parseOpsAux_print (c : Cigar) : parseOpsAux (Cigar.print c) [] = some c := by
  induction c with
  | nil => simp [Cigar.print, parseOpsAux]
  | cons o os ih =>
    have hp : Cigar.print (o :: os) = digitsOf o.len ++ (o.code.toChar :: Cigar.print os) := by
      simp [Cigar.print]
    rw [hp, parseOpsAux_digits _ _ _ (digitsOf_all _)]
    simp only [List.nil_append, parseOpsAux, toChar_not_digit, ofChar_toChar]
    have : (digitsOf o.len).isEmpty = false := by
      cases h : digitsOf o.len with
      | nil => exact absurd h (digitsOf_ne_nil _)
      | cons _ _ => rfl
    simp [this, ih, natOf_digitsOf]

theorem print_ne_nil (c : Cigar) (h : c ≠ []) : (Cigar.print c).isEmpty = false := by
  cases c with
  | nil => exact absurd rfl h
  | cons o os =>
    simp only [Cigar.print, List.flatMap_cons]
    cases hd : digitsOf o.len with
    | nil => exact absurd hd (digitsOf_ne_nil _)
    | cons _ _ => rfl

/-- Reading a written CIGAR gives back the same operations. -/
theorem cigar_parse_print (c : Cigar) (h : c ≠ []) : Cigar.parse (Cigar.print c) = some c := by
  simp [Cigar.parse, print_ne_nil c h, parseOpsAux_print]

theorem print_head_digit (c : Cigar) (h : c ≠ []) : ∃ d ds, Cigar.print c = d :: ds ∧ isDigit d = true := by
  cases c with
  | nil => exact absurd rfl h
  | cons o os =>
    obtain ⟨d, ds, hd, hdig⟩ := digitsOf_head_isDigit o.len
    exact ⟨d, ds ++ (o.code.toChar :: Cigar.print os), by simp [Cigar.print, hd], hdig⟩

/-- An overlap is written and read back unchanged (the empty CIGAR is written `*`, i.e. read back as placeholder). -/
theorem aln_parse_print (a : Aln) (h : a ≠ .cigar []) : Aln.parse (Aln.print a) = some a := by
  cases a with
  | star => simp [Aln.print, Aln.parse]
  | cigar c =>
    have hc : c ≠ [] := by intro hc; exact h (by rw [hc])
    obtain ⟨d, ds, hd, hdig⟩ := print_head_digit c hc
    have hne : Cigar.print c ≠ ['*'] := by
      rw [hd]; intro heq
      have : d = '*' := by simpa using (List.cons.inj heq).1
      rw [this] at hdig; exact absurd hdig (by decide)
    cases c with
    | nil => exact absurd rfl hc
    | cons o os =>
      simp only [Aln.print, Aln.parse, hne, if_false, cigar_parse_print _ hc, Option.map_some]

end Gfa
