import GfaProofs.Lemmas.Regex
/-! Inversion lemmas for `Lang` and closed forms for class repetitions. -/
namespace Gfa
namespace RE

theorem lang_empty (s : List Char) : ¬ Lang empty s := by intro h; cases h
theorem lang_eps (s : List Char) : Lang eps s ↔ s = [] := by
  constructor
  · intro h; cases h; rfl
  · rintro rfl; exact Lang.eps
theorem lang_cls (rs) (s : List Char) : Lang (cls rs) s ↔ ∃ c, s = [c] ∧ inRanges rs c = true := by
  constructor
  · intro h; cases h with | cls hc => exact ⟨_, rfl, hc⟩
  · rintro ⟨c, rfl, hc⟩; exact Lang.cls hc
theorem lang_seq (a b : RE) (s : List Char) :
    Lang (seq a b) s ↔ ∃ s1 s2, s = s1 ++ s2 ∧ Lang a s1 ∧ Lang b s2 := by
  constructor
  · intro h; cases h with | seq h1 h2 => exact ⟨_, _, rfl, h1, h2⟩
  · rintro ⟨s1, s2, rfl, h1, h2⟩; exact Lang.seq h1 h2
theorem lang_alt (a b : RE) (s : List Char) : Lang (alt a b) s ↔ Lang a s ∨ Lang b s := by
  constructor
  · intro h; cases h with
    | altL h => exact Or.inl h
    | altR h => exact Or.inr h
  · rintro (h | h); exact Lang.altL h; exact Lang.altR h
theorem lang_opt (a : RE) (s : List Char) : Lang (opt a) s ↔ s = [] ∨ Lang a s := by
  simp [opt, lang_alt, lang_eps]

/-- `[…]*` accepts exactly the strings all of whose characters are in the class -/
theorem lang_star_cls (rs) (s : List Char) : Lang (star (cls rs)) s ↔ ∀ c ∈ s, inRanges rs c = true := by
  constructor
  · intro h
    generalize hr : star (cls rs) = r at h
    induction h with
    | eps => cases hr
    | cls _ => cases hr
    | seq _ _ => cases hr
    | altL _ => cases hr
    | altR _ => cases hr
    | starNil => intro c hc; cases hc
    | starCons h1 _ _ _ ih2 =>
      cases hr
      intro c hc
      rcases List.mem_append.mp hc with hc | hc
      · obtain ⟨c', rfl, hc'⟩ := (lang_cls _ _).mp h1
        simp at hc; subst hc; exact hc'
      · exact ih2 rfl c hc
  · intro h
    induction s with
    | nil => exact Lang.starNil
    | cons c cs ih =>
      have h1 : Lang (cls rs) [c] := Lang.cls (h c (by simp))
      have h2 := ih (fun x hx => h x (by simp [hx]))
      exact Lang.starCons (s := [c]) h1 (by simp) h2

/-- `[…]+` -/
theorem lang_plus_cls (rs) (s : List Char) :
    Lang (plus (cls rs)) s ↔ s ≠ [] ∧ ∀ c ∈ s, inRanges rs c = true := by
  unfold plus
  rw [lang_seq]
  constructor
  · rintro ⟨s1, s2, rfl, h1, h2⟩
    obtain ⟨c, rfl, hc⟩ := (lang_cls _ _).mp h1
    refine ⟨by simp, ?_⟩
    intro x hx
    simp at hx
    rcases hx with rfl | hx
    · exact hc
    · exact (lang_star_cls _ _).mp h2 x hx
  · rintro ⟨hne, h⟩
    cases s with
    | nil => exact absurd rfl hne
    | cons c cs =>
      refine ⟨[c], cs, rfl, Lang.cls (h c (by simp)), ?_⟩
      exact (lang_star_cls _ _).mpr (fun x hx => h x (by simp [hx]))

theorem accepts_plus_cls (rs) (s : List Char) :
    accepts (plus (cls rs)) s = (!s.isEmpty && s.all (inRanges rs)) := by
  rw [Bool.eq_iff_iff, accepts_iff, lang_plus_cls]
  cases s <;> simp

theorem accepts_cls (rs) (s : List Char) :
    accepts (cls rs) s = true ↔ ∃ c, s = [c] ∧ inRanges rs c = true := by
  rw [accepts_iff, lang_cls]

end RE
end Gfa
