import GfaModel.Graph
/-! Helper lemmas about the identifier list of a model Gfa. -/
namespace Gfa.G

def namesOf (ls : List Rec) : List String := ls.filterMap Rec.name

theorem names_eq (st : St) : names st = namesOf st.lines := rfl

theorem namesOf_append (a b : List Rec) : namesOf (a ++ b) = namesOf a ++ namesOf b := by
  simp [namesOf, List.filterMap_append]

theorem namesOf_single_some (r : Rec) (n : String) (h : r.name = some n) : namesOf [r] = [n] := by
  simp [namesOf, List.filterMap_cons, h]

theorem namesOf_single_none (r : Rec) (h : r.name = none) : namesOf [r] = [] := by
  simp [namesOf, List.filterMap_cons, h]

/-- replacing a record by one with the same identifier does not change the identifier list -/
theorem namesOf_set_same (ls : List Rec) (i : Nat) (r : Rec) (h : (ls.getD i default).name = r.name) (hi : i < ls.length) :
    namesOf (ls.set i r) = namesOf ls := by
  induction ls generalizing i with
  | nil => simp at hi
  | cons x xs ih =>
    cases i with
    | zero =>
      simp only [List.set_cons_zero, namesOf, List.filterMap_cons]
      simp only [List.getD_cons_zero] at h
      rw [h]
    | succ j =>
      simp only [List.set_cons_succ, namesOf, List.filterMap_cons]
      have := ih j (by simpa using h) (by simpa using hi)
      simp only [namesOf] at this
      rw [this]

theorem mem_namesOf (ls : List Rec) (n : String) : n ∈ namesOf ls ↔ ∃ r ∈ ls, r.name = some n := by
  simp [namesOf, List.mem_filterMap]

theorem findIdx_none_not_mem (ls : List Rec) (n : String) (h : ls.findIdx? (fun q => q.name = some n) = none) :
    n ∉ namesOf ls := by
  rw [mem_namesOf]
  rintro ⟨r, hr, hn⟩
  rw [List.findIdx?_eq_none_iff] at h
  have := h r hr
  simp [hn] at this

theorem hasName_iff (st : St) (n : String) : hasName st n = true ↔ n ∈ names st := by
  unfold hasName findNamed
  rw [names_eq, mem_namesOf, List.find?_isSome]
  simp

/-- replacing an unnamed record by a named one inserts the name -/
theorem namesOf_set_perm (ls : List Rec) (i : Nat) (r : Rec) (n : String) (hi : i < ls.length)
    (hprev : (ls.getD i default).name = none) (hr : r.name = some n) :
    (namesOf (ls.set i r)).Perm (n :: namesOf ls) := by
  induction ls generalizing i with
  | nil => simp at hi
  | cons x xs ih =>
    cases i with
    | zero =>
      simp only [List.getD_cons_zero] at hprev
      simp [namesOf, List.filterMap_cons, hprev, hr]
    | succ j =>
      have := ih j (by simpa using hi) (by simpa using hprev)
      simp only [List.set_cons_succ, namesOf, List.filterMap_cons] at this ⊢
      cases hx : x.name with
      | none => simpa [hx] using this
      | some m =>
        simp only [hx]
        exact (List.Perm.cons m this).trans (List.Perm.swap n m _)

theorem findIdx_some_lt (ls : List Rec) (p : Rec → Bool) (i : Nat) (h : ls.findIdx? p = some i) :
    i < ls.length ∧ p (ls.getD i default) = true := by
  rw [List.findIdx?_eq_some_iff_getElem] at h
  obtain ⟨hi, hp, _⟩ := h
  refine ⟨hi, ?_⟩
  simp [List.getD_eq_getElem?_getD, hi, hp]

end Gfa.G

namespace Gfa.G

theorem mem_namesOf_set (ls : List Rec) (i : Nat) (r : Rec) (a : String) (h : a ∈ namesOf (ls.set i r)) :
    a ∈ namesOf ls ∨ r.name = some a := by
  rw [mem_namesOf] at h
  obtain ⟨q, hq, hn⟩ := h
  rcases List.mem_or_eq_of_mem_set hq with hq | rfl
  · left; rw [mem_namesOf]; exact ⟨q, hq, hn⟩
  · right; exact hn

/-- replacing the record at `i` keeps the identifiers distinct when the new identifier is free or is the
    one the replaced record carried -/
theorem nodup_set (ls : List Rec) (i : Nat) (r : Rec) (h : (namesOf ls).Nodup) (hi : i < ls.length)
    (hr : ∀ n, r.name = some n → n ∉ namesOf ls ∨ (ls.getD i default).name = some n) :
    (namesOf (ls.set i r)).Nodup := by
  induction ls generalizing i with
  | nil => simp at hi
  | cons x xs ih =>
    have hx : namesOf (x :: xs) = (match x.name with | some m => [m] | none => []) ++ namesOf xs := by
      simp only [namesOf, List.filterMap_cons]; cases x.name <;> rfl
    cases i with
    | zero =>
      simp only [List.set_cons_zero]
      have hr0 : namesOf (r :: xs) = (match r.name with | some m => [m] | none => []) ++ namesOf xs := by
        simp only [namesOf, List.filterMap_cons]; cases r.name <;> rfl
      rw [hr0]
      rw [hx] at h
      have hxs : (namesOf xs).Nodup := (List.nodup_append.mp h).2.1
      cases hn : r.name with
      | none => simpa using hxs
      | some n =>
        simp only [List.singleton_append, List.nodup_cons]
        refine ⟨?_, hxs⟩
        rcases hr n hn with h1 | h1
        · intro hin; apply h1; rw [hx]; exact List.mem_append_right _ hin
        · simp only [List.getD_cons_zero] at h1
          rw [h1] at h
          simp only [List.singleton_append, List.nodup_cons] at h
          exact h.1
    | succ j =>
      simp only [List.set_cons_succ]
      have hs : namesOf (x :: xs.set j r) = (match x.name with | some m => [m] | none => []) ++ namesOf (xs.set j r) := by
        simp only [namesOf, List.filterMap_cons]; cases x.name <;> rfl
      rw [hs]
      rw [hx] at h
      have hxs : (namesOf xs).Nodup := (List.nodup_append.mp h).2.1
      have hj : j < xs.length := by simpa using hi
      have ih' := ih j hxs hj (by
        intro n hn
        rcases hr n hn with h1 | h1
        · left; intro hin; apply h1; rw [hx]; exact List.mem_append_right _ hin
        · right; simpa using h1)
      cases hxn : x.name with
      | none => simpa using ih'
      | some m =>
        simp only [List.singleton_append, List.nodup_cons]
        refine ⟨?_, ih'⟩
        intro hin
        rw [hxn] at h
        simp only [List.singleton_append, List.nodup_cons] at h
        rcases mem_namesOf_set xs j r m hin with h2 | h2
        · exact h.1 h2
        · rcases hr m h2 with h3 | h3
          · apply h3; rw [hx, hxn]; simp
          · simp only [List.getD_cons_succ] at h3
            -- then m is also the name of xs[j]: it occurs in namesOf xs
            apply h.1
            rw [mem_namesOf]
            refine ⟨xs[j], List.getElem_mem hj, ?_⟩
            simpa [List.getD_eq_getElem?_getD, hj] using h3

end Gfa.G

namespace Gfa.G

theorem modAt_drop (l : List String) (i k : Nat) (g : String → String) (h : i < k) : (modAt l i g).drop k = l.drop k := by
  induction l generalizing i k with
  | nil => simp [modAt]
  | cons x xs ih =>
    cases i with
    | zero => cases k with
      | zero => omega
      | succ k' => simp [modAt]
    | succ i' => cases k with
      | zero => omega
      | succ k' => simp only [modAt, List.drop_succ_cons]; exact ih i' k' (by omega)

theorem modAt_getD_ne (l : List String) (i j : Nat) (g : String → String) (d : String) (h : i ≠ j) :
    (modAt l i g).getD j d = l.getD j d := by
  induction l generalizing i j with
  | nil => simp [modAt]
  | cons x xs ih =>
    cases i with
    | zero => cases j with
      | zero => exact absurd rfl h
      | succ j' => simp [modAt]
    | succ i' => cases j with
      | zero => simp [modAt]
      | succ j' => simp only [modAt, List.getD_cons_succ]; exact ih i' j' (by omega)

theorem modAt_getD_same (l : List String) (i : Nat) (g : String → String) (d : String) (h : i < l.length) :
    (modAt l i g).getD i d = g (l.getD i d) := by
  induction l generalizing i with
  | nil => simp at h
  | cons x xs ih =>
    cases i with
    | zero => simp [modAt]
    | succ i' => simp only [modAt, List.getD_cons_succ]; exact ih i' (by simpa using h)

/-- substituting an identifier in the reference fields of a record leaves the record's own identifier alone -/
theorem renameIn_name (a b : String) (r : Rec) : (renameIn a b r).name = r.name := by
  have d05 : ∀ (l : List String) (g : String → String), (modAt l 0 g).drop 5 = l.drop 5 := fun l g => modAt_drop l 0 5 g (by decide)
  have d25 : ∀ (l : List String) (g : String → String), (modAt l 2 g).drop 5 = l.drop 5 := fun l g => modAt_drop l 2 5 g (by decide)
  have d06 : ∀ (l : List String) (g : String → String), (modAt l 0 g).drop 6 = l.drop 6 := fun l g => modAt_drop l 0 6 g (by decide)
  have d26 : ∀ (l : List String) (g : String → String), (modAt l 2 g).drop 6 = l.drop 6 := fun l g => modAt_drop l 2 6 g (by decide)
  have g10 : ∀ (l : List String) (g : String → String), (modAt l 1 g).getD 0 "" = l.getD 0 "" := fun l g => modAt_getD_ne l 1 0 g "" (by decide)
  have g20 : ∀ (l : List String) (g : String → String), (modAt l 2 g).getD 0 "" = l.getD 0 "" := fun l g => modAt_getD_ne l 2 0 g "" (by decide)
  unfold renameIn
  cases hrt : r.rt <;> simp only [hrt, Rec.name, fld, d05, d25, d06, d26, g10, g20] <;> (try rfl) <;> simp [hrt]

end Gfa.G
