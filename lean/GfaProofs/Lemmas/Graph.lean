import GfaModel.Graph
/-! Helper lemmas about the identifier list of a model Gfa. -/
namespace Gfa.G

def namesOf (ls : List Rec) : List String := ls.filterMap Rec.name

theorem names_eq (st : St) : names st = namesOf st.lines := rfl

theorem namesOf_append (a b : List Rec) : namesOf (a ++ b) = namesOf a ++ namesOf b := by
  simp [namesOf, List.filterMap_append]

theorem namesOf_single_some (r : Rec) (n : String) (h : r.name = some n) : namesOf [r] = [n] := by
  simp [namesOf, List.filterMap_cons, h]

theorem namesOf_single_none (r : Rec) (h : r.name = none) : namesOf [r] = [] := by
  simp [namesOf, List.filterMap_cons, h]

/-- replacing a record by one with the same identifier does not change the identifier list -/
theorem namesOf_set_same (ls : List Rec) (i : Nat) (r : Rec) (h : (ls.getD i default).name = r.name) (hi : i < ls.length) :
    namesOf (ls.set i r) = namesOf ls := by
  induction ls generalizing i with
  | nil => simp at hi
  | cons x xs ih =>
    cases i with
    | zero =>
      simp only [List.set_cons_zero, namesOf, List.filterMap_cons]
      simp only [List.getD_cons_zero] at h
      rw [h]
    | succ j =>
      simp only [List.set_cons_succ, namesOf, List.filterMap_cons]
      have := ih j (by simpa using h) (by simpa using hi)
      simp only [namesOf] at this
      rw [this]

theorem mem_namesOf (ls : List Rec) (n : String) : n ∈ namesOf ls ↔ ∃ r ∈ ls, r.name = some n := by
  simp [namesOf, List.mem_filterMap]

theorem findIdx_none_not_mem (ls : List Rec) (n : String) (h : ls.findIdx? (fun q => q.name = some n) = none) :
    n ∉ namesOf ls := by
  rw [mem_namesOf]
  rintro ⟨r, hr, hn⟩
  rw [List.findIdx?_eq_none_iff] at h
  have := h r hr
  simp [hn] at this

theorem hasName_iff (st : St) (n : String) : hasName st n = true ↔ n ∈ names st := by
  unfold hasName findNamed
  rw [names_eq, mem_namesOf, List.find?_isSome]
  simp

/-- replacing an unnamed record by a named one inserts the name -/
theorem namesOf_set_perm (ls : List Rec) (i : Nat) (r : Rec) (n : String) (hi : i < ls.length)
    (hprev : (ls.getD i default).name = none) (hr : r.name = some n) :
    (namesOf (ls.set i r)).Perm (n :: namesOf ls) := by
  induction ls generalizing i with
  | nil => simp at hi
  | cons x xs ih =>
    cases i with
    | zero =>
      simp only [List.getD_cons_zero] at hprev
      simp [namesOf, List.filterMap_cons, hprev, hr]
    | succ j =>
      have := ih j (by simpa using hi) (by simpa using hprev)
      simp only [List.set_cons_succ, namesOf, List.filterMap_cons] at this ⊢
      cases hx : x.name with
      | none => simpa [hx] using this
      | some m =>
        simp only [hx]
        exact (List.Perm.cons m this).trans (List.Perm.swap n m _)

theorem findIdx_some_lt (ls : List Rec) (p : Rec → Bool) (i : Nat) (h : ls.findIdx? p = some i) :
    i < ls.length ∧ p (ls.getD i default) = true := by
  rw [List.findIdx?_eq_some_iff_getElem] at h
  obtain ⟨hi, hp, _⟩ := h
  refine ⟨hi, ?_⟩
  simp [List.getD_eq_getElem?_getD, hi, hp]

end Gfa.G
