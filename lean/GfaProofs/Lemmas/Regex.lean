import GfaModel.Regex
/-! Correctness of the derivative matcher against the inductive language. -/
namespace Gfa
namespace RE

inductive Lang : RE → List Char → Prop
  | eps : Lang eps []
  | cls {rs c} : inRanges rs c = true → Lang (cls rs) [c]
  | seq {a b s t} : Lang a s → Lang b t → Lang (seq a b) (s ++ t)
  | altL {a b s} : Lang a s → Lang (alt a b) s
  | altR {a b s} : Lang b s → Lang (alt a b) s
  | starNil {a} : Lang (star a) []
  | starCons {a s t} : Lang a s → s ≠ [] → Lang (star a) t → Lang (star a) (s ++ t)

theorem nullable_iff (r : RE) : nullable r = true ↔ Lang r [] := by
  induction r with
  | empty => simp [nullable]; intro h; cases h
  | eps => simp [nullable]; exact Lang.eps
  | cls rs => simp [nullable]; intro h; cases h
  | seq a b iha ihb =>
    simp only [nullable, Bool.and_eq_true, iha, ihb]
    constructor
    · rintro ⟨h1, h2⟩; exact Lang.seq (s := []) (t := []) h1 h2
    · intro h
      generalize hs : ([] : List Char) = u at h
      cases h with
      | seq h1 h2 =>
        rename_i s t
        have : s = [] ∧ t = [] := by simpa using hs.symm
        obtain ⟨rfl, rfl⟩ := this
        exact ⟨h1, h2⟩
  | alt a b iha ihb =>
    simp only [nullable, Bool.or_eq_true, iha, ihb]
    constructor
    · rintro (h | h); exact Lang.altL h; exact Lang.altR h
    · intro h; cases h with
      | altL h => exact Or.inl h
      | altR h => exact Or.inr h
  | star a _ => simp [nullable]; exact Lang.starNil

theorem deriv_iff (r : RE) (c : Char) (s : List Char) : Lang (deriv c r) s ↔ Lang r (c :: s) := by
  induction r generalizing s with
  | empty => simp [deriv]; constructor <;> (intro h; cases h)
  | eps => simp [deriv]; constructor <;> (intro h; cases h)
  | cls rs =>
    simp only [deriv]
    constructor
    · intro h
      split at h
      · cases h; exact Lang.cls (by assumption)
      · cases h
    · intro h
      cases h with
      | cls hc => simp [hc]; exact Lang.eps
  | seq a b iha ihb =>
    simp only [deriv]
    constructor
    · intro h
      split at h
      · rename_i hn
        cases h with
        | altL h =>
          cases h with
          | seq h1 h2 => exact Lang.seq (s := c :: _) ((iha _).mp h1) h2
        | altR h =>
          exact Lang.seq (s := []) ((nullable_iff a).mp hn) ((ihb _).mp h)
      · cases h with
        | seq h1 h2 => exact Lang.seq (s := c :: _) ((iha _).mp h1) h2
    · intro h
      generalize hu : c :: s = u at h
      cases h with
      | seq h1 h2 =>
        rename_i s1 t1
        cases s1 with
        | nil =>
          simp at hu; subst hu
          have hn := (nullable_iff a).mpr h1
          simp [hn]; exact Lang.altR ((ihb _).mpr h2)
        | cons x xs =>
          simp at hu; obtain ⟨rfl, rfl⟩ := hu
          have h1' := (iha _).mpr h1
          split
          · exact Lang.altL (Lang.seq h1' h2)
          · exact Lang.seq h1' h2
  | alt a b iha ihb =>
    simp only [deriv]
    constructor
    · intro h; cases h with
      | altL h => exact Lang.altL ((iha _).mp h)
      | altR h => exact Lang.altR ((ihb _).mp h)
    · intro h; cases h with
      | altL h => exact Lang.altL ((iha _).mpr h)
      | altR h => exact Lang.altR ((ihb _).mpr h)
  | star a iha =>
    simp only [deriv]
    constructor
    · intro h
      cases h with
      | seq h1 h2 => exact Lang.starCons (s := c :: _) ((iha _).mp h1) (by simp) h2
    · intro h
      generalize hu : c :: s = u at h
      cases h with
      | starNil => simp at hu
      | starCons h1 hne h2 =>
        rename_i s1 t1
        cases s1 with
        | nil => exact absurd rfl hne
        | cons x xs =>
          simp at hu; obtain ⟨rfl, rfl⟩ := hu
          exact Lang.seq ((iha _).mpr h1) h2

/-- The executable matcher decides the inductive language. -/
theorem accepts_iff (r : RE) (s : List Char) : accepts r s = true ↔ Lang r s := by
  induction s generalizing r with
  | nil => simpa [accepts] using nullable_iff r
  | cons c cs ih => simp only [accepts]; rw [ih, deriv_iff]

end RE
end Gfa
