import GfaModel.Util.Digits
namespace Gfa

theorem digitVal_digitChar (d : Nat) (h : d < 10) : digitVal (digitChar d) = d := by
  have : d = 0 ∨ d = 1 ∨ d = 2 ∨ d = 3 ∨ d = 4 ∨ d = 5 ∨ d = 6 ∨ d = 7 ∨ d = 8 ∨ d = 9 := by omega
  rcases this with h|h|h|h|h|h|h|h|h|h <;> subst h <;> decide

theorem isDigit_digitChar (d : Nat) (h : d < 10) : isDigit (digitChar d) = true := by
  have : d = 0 ∨ d = 1 ∨ d = 2 ∨ d = 3 ∨ d = 4 ∨ d = 5 ∨ d = 6 ∨ d = 7 ∨ d = 8 ∨ d = 9 := by omega
  rcases this with h|h|h|h|h|h|h|h|h|h <;> subst h <;> decide

theorem natOf_append_singleton (xs : List Char) (c : Char) :
    natOf (xs ++ [c]) = 10 * natOf xs + digitVal c := by
  simp [natOf, List.foldl_append]

/-- `int(str(n)) = n` -/
theorem natOf_digitsOf (n : Nat) : natOf (digitsOf n) = n := by
  induction n using digitsOf.induct with
  | case1 n h => unfold digitsOf; simp [h, natOf, digitVal_digitChar n h]
  | case2 n h ih =>
    unfold digitsOf; simp only [h, dite_false]
    rw [natOf_append_singleton, ih, digitVal_digitChar _ (Nat.mod_lt _ (by decide))]
    omega

theorem digitsOf_all (n : Nat) : (digitsOf n).all isDigit = true := by
  induction n using digitsOf.induct with
  | case1 n h => unfold digitsOf; simp [h, isDigit_digitChar n h]
  | case2 n h ih =>
    unfold digitsOf; simp only [h, dite_false, List.all_append, ih, Bool.true_and]
    simp [isDigit_digitChar _ (Nat.mod_lt n (by decide : 0 < 10))]

theorem digitsOf_ne_nil (n : Nat) : digitsOf n ≠ [] := by
  unfold digitsOf; split <;> simp

theorem allDigits_digitsOf (n : Nat) : allDigits (digitsOf n) = true := by
  simp only [allDigits, digitsOf_all, Bool.and_true]
  cases h : digitsOf n with
  | nil => exact absurd h (digitsOf_ne_nil n)
  | cons _ _ => rfl

theorem natOf?_digitsOf (n : Nat) : natOf? (digitsOf n) = some n := by
  simp [natOf?, allDigits_digitsOf, natOf_digitsOf]

theorem digitsOf_head_isDigit (n : Nat) : ∃ c cs, digitsOf n = c :: cs ∧ isDigit c = true := by
  cases h : digitsOf n with
  | nil => exact absurd h (digitsOf_ne_nil n)
  | cons c cs =>
    refine ⟨c, cs, rfl, ?_⟩
    have := digitsOf_all n
    rw [h] at this
    simp at this
    exact this.1

/-- `int(str(i)) = i` for every integer. -/
theorem intOf?_intStr (i : Int) : intOf? (intStr i) = some i := by
  cases i with
  | ofNat n =>
    simp only [intStr]
    obtain ⟨c, cs, hc, hd⟩ := digitsOf_head_isDigit n
    have hne : c ≠ '-' ∧ c ≠ '+' := by
      constructor <;> (rintro rfl; revert hd; decide)
    have := allDigits_digitsOf n
    have hv := natOf_digitsOf n
    rw [hc] at this hv ⊢
    unfold intOf?
    split
    · simp_all
    · simp_all
    · simp [this, hv]
  | negSucc n =>
    simp only [intStr, intOf?, allDigits_digitsOf, natOf_digitsOf, if_true]
    congr

end Gfa
