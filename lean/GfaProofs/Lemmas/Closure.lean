import GfaModel.Util.Closure
namespace Gfa.Closure
variable {α : Type} [DecidableEq α]

theorem lfp_closed (univ : List α) (adj) (d : List α) : newOnes univ adj (lfp univ adj d) = [] := by
  induction d using lfp.induct univ adj with
  | case1 d h => unfold lfp; rw [dif_pos h]; exact h
  | case2 d h ih => unfold lfp; rw [dif_neg h]; exact ih

theorem lfp_seed (univ : List α) (adj) (d : List α) : ∀ x ∈ d, x ∈ lfp univ adj d := by
  induction d using lfp.induct univ adj with
  | case1 d h => intro x hx; unfold lfp; rw [dif_pos h]; exact hx
  | case2 d h ih => intro x hx; unfold lfp; rw [dif_neg h]; exact ih x (List.mem_append_left _ hx)

/-- reachability from the seed through `adj`, staying inside the universe -/
inductive Reach (univ : List α) (adj : α → α → Bool) (seed : List α) : α → Prop
  | seed {x} : x ∈ seed → Reach univ adj seed x
  | step {y x} : Reach univ adj seed y → adj y x = true → x ∈ univ → Reach univ adj seed x

theorem reach_mono (univ : List α) (adj) (s s' : List α) (h : ∀ x ∈ s', Reach univ adj s x) (x : α)
    (hx : Reach univ adj s' x) : Reach univ adj s x := by
  induction hx with
  | seed hm => exact h _ hm
  | step _ ha hu ih => exact Reach.step ih ha hu

/-- soundness: everything in the fixed point is reachable -/
theorem lfp_sound (univ : List α) (adj) (d : List α) : ∀ x ∈ lfp univ adj d, Reach univ adj d x := by
  induction d using lfp.induct univ adj with
  | case1 d h => intro x hx; unfold lfp at hx; rw [dif_pos h] at hx; exact Reach.seed hx
  | case2 d h ih =>
    intro x hx
    unfold lfp at hx; rw [dif_neg h] at hx
    have := ih x hx
    apply reach_mono univ adj d (d ++ newOnes univ adj d) _ x this
    intro z hz
    rcases List.mem_append.mp hz with hz | hz
    · exact Reach.seed hz
    · have hz' := List.mem_filter.mp hz
      obtain ⟨hu, hcond⟩ := hz'
      simp only [Bool.and_eq_true, List.any_eq_true] at hcond
      obtain ⟨_, y, hy, hadj⟩ := hcond
      exact Reach.step (Reach.seed hy) hadj hu

/-- completeness: everything reachable is in the fixed point (it is the *least* closed set) -/
theorem lfp_complete (univ : List α) (adj) (d : List α) : ∀ x, Reach univ adj d x → x ∈ lfp univ adj d := by
  intro x hx
  induction hx with
  | seed hm => exact lfp_seed univ adj d _ hm
  | @step y x _ ha hu ih =>
    by_cases hin : x ∈ lfp univ adj d
    · exact hin
    · exfalso
      have hc := lfp_closed univ adj d
      have : x ∈ newOnes univ adj (lfp univ adj d) := by
        apply List.mem_filter.mpr
        refine ⟨hu, ?_⟩
        simp only [Bool.and_eq_true, Bool.not_eq_true', List.any_eq_true]
        exact ⟨by simpa using hin, y, ih, ha⟩
      rw [hc] at this; cases this

theorem lfp_iff (univ : List α) (adj) (d : List α) (x : α) : x ∈ lfp univ adj d ↔ Reach univ adj d x :=
  ⟨lfp_sound univ adj d x, lfp_complete univ adj d x⟩

end Gfa.Closure
