import GfaProofs.C18
/-!
# C18 for a whole line: every field of a line, each with its own datatype

`C18.lean` states the level laws for one field.  A line is a list of fields, each with its own codec and its own
"delayed parsing" flag; the line is built (`initF` per field) and written (`writeF` per field) at a validation level.
The laws lift to the line: levels 1–3 write literally the same fields, all four levels write the same fields up to
canonical spelling, and a line accepted at a level is accepted at every lower level.
-/
namespace Gfa.C18
open Lvl

/-- one field of a line: its datatype (codec) and whether the datatype is parsed lazily at level 0 -/
structure FieldSpec where
  V : Type
  c : Codec V
  delayed : Bool

/-- build the field from its text at level `k` and write it back -/
def fieldAt (k : Nat) (f : FieldSpec) (s : List Char) : Option (List Char) :=
  (initF f.c k f.delayed s).bind (writeF f.c k)

/-- the fields a line writes when it is built from text at level `k` (`none`: an error is raised) -/
def writeLineAt (k : Nat) : List (FieldSpec × List Char) → Option (List (List Char))
  | [] => some []
  | (f, s) :: rest =>
    match fieldAt k f s, writeLineAt k rest with
    | some w, some ws => some (w :: ws)
    | _, _ => none

/-- is the line accepted (constructed without error) at level `k`? -/
def acceptLineAt (k : Nat) (fs : List (FieldSpec × List Char)) : Bool :=
  fs.all (fun p => (initF p.1.c k p.1.delayed p.2).isSome)

/-- canonical spelling of every field -/
def canonLine : List (FieldSpec × List Char) → Option (List (List Char))
  | [] => some []
  | (f, s) :: rest =>
    match canon f.c s, canonLine rest with
    | some t, some ts => some (t :: ts)
    | _, _ => none

/-- **levels 1, 2, 3 write literally the same line** (and level 0 too when no field is of a lazily parsed datatype) -/
theorem line_levels_literal (fs : List (FieldSpec × List Char)) (k k' : Nat)
    (hk : ∀ p ∈ fs, ¬ (k = 0 ∧ p.1.delayed = true)) (hk' : ∀ p ∈ fs, ¬ (k' = 0 ∧ p.1.delayed = true)) :
    writeLineAt k fs = writeLineAt k' fs := by
  induction fs with
  | nil => rfl
  | cons p rest ih =>
    obtain ⟨f, s⟩ := p
    simp only [writeLineAt, fieldAt]
    rw [levels_agree_literal f.c f.delayed s k k' (hk (f, s) (by simp)) (hk' (f, s) (by simp)),
      ih (fun q hq => hk q (by simp [hq])) (fun q hq => hk' q (by simp [hq]))]

theorem line_levels_123 (fs : List (FieldSpec × List Char)) (k k' : Nat) (hk : 1 ≤ k) (hk' : 1 ≤ k') :
    writeLineAt k fs = writeLineAt k' fs :=
  line_levels_literal fs k k' (fun _ _ h => by omega) (fun _ _ h => by omega)

/-- **every level writes the same line up to canonical spelling**: on valid input (every field has a canonical
    spelling) the line is written at every level, and the canonical spelling of what is written is the same -/
theorem line_levels_canon (fs : List (FieldSpec × List Char)) (hl : ∀ p ∈ fs, p.1.c.Lawful) (ts : List (List Char))
    (hs : canonLine fs = some ts) (k : Nat) :
    ∃ ws, writeLineAt k fs = some ws ∧ canonLine ((fs.map Prod.fst).zip ws) = some ts := by
  induction fs generalizing ts with
  | nil => simp only [canonLine] at hs; cases hs; exact ⟨[], rfl, rfl⟩
  | cons p rest ih =>
    obtain ⟨f, s⟩ := p
    simp only [canonLine] at hs
    cases h1 : canon f.c s with
    | none => simp [h1] at hs
    | some t =>
      cases h2 : canonLine rest with
      | none => simp [h1, h2] at hs
      | some ts' =>
        simp only [h1, h2, Option.some.injEq] at hs
        subst hs
        obtain ⟨cell, w, hi, hw, hc⟩ := levels_agree_canon f.c (hl (f, s) (by simp)) f.delayed s t h1 k
        obtain ⟨ws, hws, hcs⟩ := ih (fun q hq => hl q (by simp [hq])) ts' h2
        refine ⟨w :: ws, ?_, ?_⟩
        · simp [writeLineAt, fieldAt, hi, hw, hws]
        · simp [canonLine, hc, hcs]

/-- **monotonicity for lines**: a line accepted at a level is accepted at every lower level -/
theorem line_accept_mono (fs : List (FieldSpec × List Char)) (k : Nat) (h : acceptLineAt (k + 1) fs = true) :
    acceptLineAt k fs = true := by
  unfold acceptLineAt at *
  rw [List.all_eq_true] at *
  intro p hp
  exact accept_mono p.1.c p.1.delayed p.2 k (h p hp)

theorem line_accept_le (fs : List (FieldSpec × List Char)) (k k' : Nat) (hle : k' ≤ k) (h : acceptLineAt k fs = true) :
    acceptLineAt k' fs = true := by
  induction k with
  | zero => have : k' = 0 := by omega
            subst this; exact h
  | succ n ih =>
    by_cases hk : k' = n + 1
    · subst hk; exact h
    · exact ih (by omega) (line_accept_mono fs n h)

-- non-vacuity: a line with a string and a byte-array field (lazily parsed) written at levels 0 and 2
example :
    let fs : List (FieldSpec × List Char) :=
      [(⟨List Char, strCodec, false⟩, ['a', 'b', ' ', 'c']), (⟨List Nat, bytesCodec, true⟩, ['1', 'A', '2', 'B'])]
    writeLineAt 0 fs = some [['a', 'b', ' ', 'c'], ['1', 'A', '2', 'B']] ∧
    writeLineAt 2 fs = writeLineAt 1 fs ∧ acceptLineAt 3 fs = true := by
  decide

end Gfa.C18
