import GfaModel.Grammar
import GfaProofs.Lemmas.RegexLang
/-!
# C07 / C04 — the simplified expression for lists of oriented GFA1 names accepts the same strings

gfapy validated an encoded list of oriented segment names with `N X* O (, N X* O)*` (N: a name start, X: any
printable character — the comma included —, O: a sign).  On a long list followed by an invalid character Python's
backtracking matcher tries every way of cutting the list: exponential time.  The repair (commit 93e5bab) uses
`N X* O`.  `oidList_old_iff_new`: the two expressions denote **the same language**, so the repair changes the running
time and nothing else (what is accepted as a list element by element is the side condition of `Field.accept`, unchanged).
-/
namespace Gfa.C07Regex
open Gfa.RE Gfa.Grammar

def nameStartR : List (Char × Char) := [('!', ')'), ('+', '<'), ('>', '~')]
def printableR : List (Char × Char) := [('!', '~')]
def signR : List (Char × Char) := [('+', '+'), ('-', '-')]

def chunk : RE := seqs [chr ',', nameStart, star printable, sign]
def oldRe : RE := seqs [nameStart, star printable, sign, star chunk]
def newRe : RE := seqs [nameStart, star printable, sign]

theorem le_iff (a b : Char) : (a ≤ b) ↔ a.val.toNat ≤ b.val.toNat := by
  rw [Char.le_def, UInt32.le_iff_toNat_le]

theorem nameStart_printable (c : Char) (h : inRanges nameStartR c = true) : inRanges printableR c = true := by
  simp only [inRanges, nameStartR, printableR, List.any_cons, List.any_nil, Bool.or_false, Bool.and_eq_true, Bool.or_eq_true,
    decide_eq_true_eq, le_iff] at *
  have e1 : ('!' : Char).val.toNat = 33 := by decide
  have e2 : (')' : Char).val.toNat = 41 := by decide
  have e3 : ('+' : Char).val.toNat = 43 := by decide
  have e4 : ('<' : Char).val.toNat = 60 := by decide
  have e5 : ('>' : Char).val.toNat = 62 := by decide
  have e6 : ('~' : Char).val.toNat = 126 := by decide
  rw [e1, e2, e3, e4, e5, e6] at h
  rw [e1, e6]
  omega

theorem sign_printable (c : Char) (h : inRanges signR c = true) : inRanges printableR c = true := by
  simp only [inRanges, signR, printableR, List.any_cons, List.any_nil, Bool.or_false, Bool.and_eq_true, Bool.or_eq_true,
    decide_eq_true_eq, le_iff] at *
  have e1 : ('!' : Char).val.toNat = 33 := by decide
  have e3 : ('+' : Char).val.toNat = 43 := by decide
  have e4 : ('-' : Char).val.toNat = 45 := by decide
  have e6 : ('~' : Char).val.toNat = 126 := by decide
  rw [e3, e4] at h
  rw [e1, e6]
  omega

theorem comma_printable : inRanges printableR ',' = true := by decide

/-- closed form of `N X* O` -/
def Oid (s : List Char) : Prop :=
  ∃ n xs o, s = n :: (xs ++ [o]) ∧ inRanges nameStartR n = true ∧ (∀ c ∈ xs, inRanges printableR c = true) ∧ inRanges signR o = true

theorem lang_new (s : List Char) : Lang newRe s ↔ Oid s := by
  unfold newRe seqs seqs seqs nameStart printable sign
  rw [lang_seq]
  constructor
  · rintro ⟨s1, s2, rfl, h1, h2⟩
    obtain ⟨n, rfl, hn⟩ := (lang_cls _ _).mp h1
    obtain ⟨t1, t2, rfl, h3, h4⟩ := (lang_seq _ _ _).mp h2
    obtain ⟨o, rfl, ho⟩ := (lang_cls _ _).mp h4
    exact ⟨n, t1, o, rfl, hn, (lang_star_cls _ _).mp h3, ho⟩
  · rintro ⟨n, xs, o, rfl, hn, hx, ho⟩
    exact ⟨[n], xs ++ [o], rfl, Lang.cls hn, Lang.seq ((lang_star_cls _ _).mpr hx) (Lang.cls ho)⟩

/-- one more element of the list: a comma and an oriented name -/
theorem lang_chunk (s : List Char) : Lang chunk s ↔ ∃ t, s = ',' :: t ∧ Oid t := by
  unfold chunk seqs seqs
  rw [lang_seq]
  constructor
  · rintro ⟨s1, s2, rfl, h1, h2⟩
    obtain ⟨c, rfl, hc⟩ := (lang_cls _ _).mp h1
    have hc' : c = ',' := by
      simp only [inRanges, List.any_cons, List.any_nil, Bool.or_false, Bool.and_eq_true, decide_eq_true_eq] at hc
      exact Char.le_antisymm hc.2 hc.1
    subst hc'
    exact ⟨s2, rfl, (lang_new s2).mp h2⟩
  · rintro ⟨t, rfl, ht⟩
    exact ⟨[','], t, rfl, Lang.cls (by decide), (lang_new t).mpr ht⟩

/-- every further element consists of printable characters and the whole ends with a sign -/
theorem star_chunk_shape (v : List Char) (h : Lang (star chunk) v) :
    v = [] ∨ ∃ v' o, v = v' ++ [o] ∧ (∀ c ∈ v', inRanges printableR c = true) ∧ inRanges signR o = true := by
  generalize hr : star chunk = r at h
  induction h with
  | eps => cases hr
  | cls _ => cases hr
  | seq _ _ => cases hr
  | altL _ => cases hr
  | altR _ => cases hr
  | starNil => exact Or.inl rfl
  | @starCons a s t hs hne ht _ ih2 =>
    injection hr with hr; subst hr
    obtain ⟨u, rfl, n, xs, o, rfl, hn, hx, ho⟩ := (lang_chunk s).mp hs
    have hall : ∀ c ∈ ',' :: n :: xs, inRanges printableR c = true := by
      intro c hc
      rcases List.mem_cons.mp hc with rfl | hc
      · exact comma_printable
      rcases List.mem_cons.mp hc with rfl | hc
      · exact nameStart_printable _ hn
      · exact hx c hc
    rcases ih2 rfl with rfl | ⟨v', o', rfl, hv', ho'⟩
    · right
      refine ⟨',' :: n :: xs, o, by simp, hall, ho⟩
    · right
      refine ⟨',' :: n :: xs ++ [o] ++ v', o', by simp, ?_, ho'⟩
      intro c hc
      simp only [List.cons_append, List.append_assoc, List.mem_cons, List.mem_append, List.mem_singleton] at hc
      rcases hc with rfl | rfl | hc | rfl | hc | hc
      · exact comma_printable
      · exact nameStart_printable _ hn
      · exact hx c hc
      · exact sign_printable _ ho
      · cases hc
      · exact hv' c hc

/-- **the old (ambiguous) and the new (linear) expression accept the same strings** -/
theorem oidList_old_iff_new (s : List Char) : Lang oldRe s ↔ Lang newRe s := by
  constructor
  · intro h
    unfold oldRe seqs seqs seqs seqs nameStart printable sign at h
    obtain ⟨s1, r1, rfl, h1, h2⟩ := (lang_seq _ _ _).mp h
    obtain ⟨n, rfl, hn⟩ := (lang_cls _ _).mp h1
    obtain ⟨xs, r2, rfl, h3, h4⟩ := (lang_seq _ _ _).mp h2
    obtain ⟨so, v, rfl, h5, h6⟩ := (lang_seq _ _ _).mp h4
    obtain ⟨o, rfl, ho⟩ := (lang_cls _ _).mp h5
    have hx := (lang_star_cls _ _).mp h3
    rw [lang_new]
    rcases star_chunk_shape v h6 with rfl | ⟨v', o', rfl, hv', ho'⟩
    · exact ⟨n, xs, o, by simp, hn, hx, ho⟩
    · refine ⟨n, xs ++ [o] ++ v', o', by simp, hn, ?_, ho'⟩
      intro c hc
      simp only [List.append_assoc, List.mem_append, List.mem_singleton] at hc
      rcases hc with hc | rfl | hc
      · exact hx c hc
      · exact sign_printable _ ho
      · exact hv' c hc
  · intro h
    obtain ⟨n, xs, o, rfl, hn, hx, ho⟩ := (lang_new s).mp h
    unfold oldRe seqs seqs seqs seqs nameStart printable sign
    have : n :: (xs ++ [o]) = [n] ++ (xs ++ ([o] ++ [])) := by simp
    rw [this]
    exact Lang.seq (Lang.cls hn) (Lang.seq ((lang_star_cls _ _).mpr hx) (Lang.seq (Lang.cls ho) Lang.starNil))

/-- the same for the executable matcher the model and the correspondence use -/
theorem oidList_accepts_eq (s : List Char) : accepts oldRe s = accepts newRe s := by
  have h := oidList_old_iff_new s
  rw [← accepts_iff, ← accepts_iff] at h
  cases h1 : accepts oldRe s <;> cases h2 : accepts newRe s <;> simp_all

/-- the expression of the model is the new one -/
theorem model_uses_new : Grammar.re .oidListGfa1 = newRe := rfl

end Gfa.C07Regex
