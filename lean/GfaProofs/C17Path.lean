import GfaModel.Captured
/-!
# C17 — captured path of an ordered group is an alternating walk

Whatever the items (segments, edges, nested paths in either orientation, to any depth), if the computation
returns a path then it is a walk: segment, edge, segment, … , segment, and every edge joins the two segments
next to it.  An edge the group does not list is supplied only when it is the only one that fits.
-/
namespace Gfa.C17
open G G.Cap

/-- alternating walks, grown at the end as the library grows them -/
inductive Walk (st : St) : List El → Prop
  | nil : Walk st []
  | one (s : OS) : Walk st [.seg s]
  | snoc (p : List El) (l : OS) (i : Nat) (o : Orient) (t : OS) :
      Walk st (p ++ [.seg l]) → joins st i o l t = true → Walk st (p ++ [.seg l, .edge i o, .seg t])

theorem osInv_osInv (s : OS) : osInv (osInv s) = s := by
  obtain ⟨n, o⟩ := s; cases o <;> rfl

theorem getLast?_split {α} (l : List α) (a : α) (h : l.getLast? = some a) : ∃ p, l = p ++ [a] := by
  induction l with
  | nil => simp at h
  | cons x xs ih =>
    cases xs with
    | nil => simp at h; exact ⟨[], by simp [h]⟩
    | cons y ys =>
      rw [List.getLast?_cons_cons] at h
      obtain ⟨p, hp⟩ := ih h
      exact ⟨x :: p, by rw [hp]; rfl⟩

theorem map_ok {ε α β} (x : Except ε α) (f : α → β) (r : β) (h : x.map f = .ok r) : ∃ p, x = .ok p ∧ r = f p := by
  cases x with
  | error e => simp [Except.map] at h
  | ok p => simp [Except.map] at h; exact ⟨p, rfl, h.symm⟩

/-- every candidate of `_find_edge_from_path_to_segment` is an oriented edge that joins the two segments -/
theorem fitting_joins (st : St) (last s : OS) (e : El) (h : e ∈ fitting st last s) :
    ∃ i o, e = .edge i o ∧ joins st i o last s = true := by
  unfold fitting at h
  rw [List.mem_filterMap] at h
  obtain ⟨⟨r, i⟩, hmem, hsome⟩ := h
  have hr : recAt st i = r := by
    have := List.mem_zipIdx hmem
    simp only [recAt, List.getD_eq_getElem?_getD]
    obtain ⟨_, hlt, hget⟩ := this
    simp at hlt hget
    simp [List.getElem?_eq_getElem hlt, hget]
  simp only at hsome
  split at hsome
  · split at hsome
    · rename_i hc
      injection hsome with hsome
      refine ⟨i, .plus, hsome.symm, ?_⟩
      simp only [joins, ends, hr]
      simp only [Bool.or_eq_true, Bool.and_eq_true] at hc ⊢
      rcases hc with hc | hc
      · exact Or.inr hc
      · exact Or.inl hc
    · split at hsome
      · rename_i hc
        injection hsome with hsome
        refine ⟨i, .minus, hsome.symm, ?_⟩
        simp only [joins, ends, hr]
        simp only [Bool.or_eq_true, Bool.and_eq_true, beq_iff_eq] at hc ⊢
        rcases hc with ⟨h1, h2⟩ | ⟨h1, h2⟩
        · right; rw [h1, h2, osInv_osInv, osInv_osInv]; exact ⟨rfl, rfl⟩
        · left; rw [h1, h2, osInv_osInv, osInv_osInv]; exact ⟨rfl, rfl⟩
      · cases hsome
  · cases hsome

theorem findEdge_spec (st : St) (last s : OS) (e : El) (h : findEdge st last s = .ok e) : fitting st last s = [e] := by
  unfold findEdge at h
  split at h
  · cases h
  · rename_i x hx; injection h with h; rw [hx, h]
  · cases h

/-- **an edge the group does not list is supplied only when exactly one fits** -/
theorem supplied_edge_unique (st : St) (path : List El) (l s : OS) (p' : List El)
    (hl : path.getLast? = some (.seg l)) (h : pushSeg st path false s = .ok p') :
    ∃ e, fitting st l s = [e] ∧ p' = path ++ [e, .seg s] := by
  unfold pushSeg at h
  rw [hl] at h
  simp only [Bool.false_eq_true, if_false] at h
  split at h
  · rename_i e he
    injection h with h
    exact ⟨e, findEdge_spec st l s e he, h.symm⟩
  · cases h

/-- no edge between two listed segments: the group is refused (NotFoundError); two: NotUniqueError -/
theorem noncontiguous_error (st : St) (path : List El) (l s : OS)
    (hl : path.getLast? = some (.seg l)) (hnone : fitting st l s = []) :
    pushSeg st path false s = .error .notFound := by
  unfold pushSeg; rw [hl]; simp [findEdge, hnone]

theorem ambiguous_error (st : St) (path : List El) (l s : OS) (e1 e2 : El) (rest : List El)
    (hl : path.getLast? = some (.seg l)) (h2 : fitting st l s = e1 :: e2 :: rest) :
    pushSeg st path false s = .error .notUnique := by
  unfold pushSeg; rw [hl]; simp [findEdge, h2]

theorem pushSeg_walk (st : St) (path : List El) (pe : Bool) (s : OS) (p' : List El)
    (hw : Walk st path) (h : pushSeg st path pe s = .ok p') : Walk st p' := by
  unfold pushSeg at h
  split at h
  · injection h with h; subst h; exact Walk.one s
  · rename_i l hl
    split at h
    · split at h
      · injection h with h; subst h; exact hw
      · cases h
    · split at h
      · rename_i e he
        injection h with h; subst h
        have hf := findEdge_spec st l s e he
        obtain ⟨i, o, rfl, hj⟩ := fitting_joins st l s e (by rw [hf]; simp)
        obtain ⟨p, rfl⟩ := getLast?_split path _ hl
        have := Walk.snoc p l i o s hw hj
        simpa using this
      · cases h
  · cases h

theorem pushEdge_walk (st : St) (path : List El) (i : Nat) (o : Orient) (p' : List El)
    (hw : Walk st path) (h : pushEdge st path i o = .ok p') : Walk st p' := by
  unfold pushEdge at h
  split at h
  · rename_i prev hl
    obtain ⟨p, rfl⟩ := getLast?_split path _ hl
    simp only at h
    split at h
    · rename_i hc
      injection h with h; subst h
      have := Walk.snoc p prev i o (ends (recAt st i) o).2 hw (by simp [joins, hc])
      simpa using this
    · split at h
      · rename_i hc
        injection h with h; subst h
        have := Walk.snoc p prev i o (ends (recAt st i) o).1 hw (by simp [joins, hc])
        simpa using this
      · cases h
  · cases h

theorem pushFirstEdge_walk (st : St) (i : Nat) (o : Orient) (nx : Next) : Walk st (pushFirstEdge st i o nx) := by
  have key : ∀ a b : OS, joins st i o a b = true → Walk st [.seg a, .edge i o, .seg b] := by
    intro a b hj
    have := Walk.snoc [] a i o b (Walk.one a) hj
    simpa using this
  unfold pushFirstEdge
  cases nx <;> cases o <;> simp only <;> (try exact Walk.nil) <;> (try split) <;>
    exact key _ _ (by simp [joins, ends, osInv_osInv])

theorem pushEl_walk (st : St) (acc r : List El × Bool) (e : El) (hw : Walk st acc.1)
    (h : pushEl st acc e = .ok r) : Walk st r.1 := by
  unfold pushEl at h
  cases e with
  | seg s =>
    obtain ⟨p, hp, rfl⟩ := map_ok _ _ _ h
    exact pushSeg_walk st _ _ _ _ hw hp
  | edge i o =>
    simp only at h
    split at h
    · cases h
    · obtain ⟨p, hp, rfl⟩ := map_ok _ _ _ h
      exact pushEdge_walk st _ _ _ _ hw hp

theorem pushEls_walk (st : St) (es : List El) : ∀ (acc r : List El × Bool), Walk st acc.1 →
    pushEls st acc es = .ok r → Walk st r.1 := by
  induction es with
  | nil => intro acc r hw h; simp [pushEls, List.foldlM, pure, Except.pure] at h; subst h; exact hw
  | cons e es ih =>
    intro acc r hw h
    simp only [pushEls, List.foldlM_cons, bind, Except.bind] at h
    cases hp : pushEl st acc e with
    | error x => simp [hp] at h
    | ok a => simp only [hp] at h; exact ih a r (pushEl_walk st acc a e hw hp) h

theorem pushItem_walk (st : St) (fuel : Nat) (all : List OS) (acc r : List El × Bool) (it : OS)
    (hw : Walk st acc.1) (h : pushItem st fuel all acc it = .ok r) : Walk st r.1 := by
  unfold pushItem at h
  split at h
  · cases h
  · cases h
  · obtain ⟨p, hp, rfl⟩ := map_ok _ _ _ h
    exact pushSeg_walk st _ _ _ _ hw hp
  · split at h
    · split at h
      · injection h with h; subst h; exact pushFirstEdge_walk st _ _ _
      · cases h
    · obtain ⟨p, hp, rfl⟩ := map_ok _ _ _ h
      exact pushEdge_walk st _ _ _ _ hw hp
  · split at h
    · cases h
    · split at h
      · cases h
      · split at h
        · obtain ⟨p, hp, rfl⟩ := map_ok _ _ _ h
          exact pushEls_walk st _ acc p hw hp
        · obtain ⟨p, hp, rfl⟩ := map_ok _ _ _ h
          exact pushEls_walk st _ acc p hw hp

theorem pushItems_walk (st : St) (fuel : Nat) (all : List OS) (l : List OS) : ∀ (acc r : List El × Bool),
    Walk st acc.1 → pushItems st fuel all l acc = .ok r → Walk st r.1 := by
  induction l with
  | nil => intro acc r hw h; unfold pushItems at h; injection h with h; subst h; exact hw
  | cons it rest ih =>
    intro acc r hw h
    unfold pushItems at h
    split at h
    · rename_i a ha; exact ih a r (pushItem_walk st fuel all acc a it hw ha) h
    · cases h

/-- **the captured path, whenever it is returned, is an alternating walk whose every edge joins its neighbours** -/
theorem captured_is_walk (st : St) (n : String) (p : List El) (h : capturedPath st n = .ok p) : Walk st p := by
  unfold capturedPath at h
  split at h
  · rename_i i _
    cases hc : compute st (st.lines.length + 1) i with
    | error x => simp [hc, Except.map] at h
    | ok r =>
      simp [hc, Except.map] at h; subst h
      unfold compute at hc
      exact pushItems_walk st _ _ _ _ r Walk.nil hc
  · cases h

/-- shape of a walk: it is empty or has odd length, segments at even and edges at odd positions -/
theorem walk_shape (st : St) (p : List El) (h : Walk st p) :
    (p = [] ∨ p.length % 2 = 1) ∧ ∀ k (hk : k < p.length), (p[k]).isEdge = (k % 2 == 1) := by
  induction h with
  | nil => simp
  | one s => simp [El.isEdge]
  | snoc q l i o t hw hj ih =>
    obtain ⟨ih1, ih2⟩ := ih
    have hlen : (q ++ [El.seg l]).length % 2 = 1 := by
      rcases ih1 with h0 | h0
      · simp at h0
      · exact h0
    simp only [List.length_append, List.length_cons, List.length_nil] at hlen
    refine ⟨Or.inr (by simp; omega), ?_⟩
    intro k hk
    simp only [List.length_append, List.length_cons, List.length_nil] at hk
    by_cases h1 : k < q.length + 1
    · have := ih2 k (by simp; omega)
      have e : (q ++ [El.seg l, El.edge i o, El.seg t])[k] = (q ++ [El.seg l])[k]'(by simp; omega) := by
        by_cases h2 : k < q.length
        · simp [List.getElem_append_left h2]
        · have : k = q.length := by omega
          subst this; simp
      rw [e]; exact this
    · by_cases h2 : k = q.length + 1
      · subst h2
        have : (q ++ [El.seg l, El.edge i o, El.seg t])[q.length + 1] = El.edge i o := by
          rw [List.getElem_append_right (by omega)]; simp
        rw [this]; simp [El.isEdge]; omega
      · have h3 : k = q.length + 2 := by omega
        subst h3
        have : (q ++ [El.seg l, El.edge i o, El.seg t])[q.length + 2] = El.seg t := by
          rw [List.getElem_append_right (by omega)]; simp
        rw [this]; simp [El.isEdge]; omega

end Gfa.C17
