import GfaModel.Driver
import GfaProofs.C18
import GfaProofs.C19
/-!
# C10 — read-only operations never modify anything

In the model every query is a function of the state; the statement that matters is about the *executable* model
the correspondence check drives: no command other than the seven mutators changes the driver's state, so the
answers it gives after any number of queries are those of the state before them.  The correspondence check asks the
library the catalogue of read-only calls between two observations and compares the observations with the model's:
a query of the library that leaves a trace makes the two differ.

Field level (lazy decoding replaces a string by an equal-valued object): `C18.get_preserves_canon`,
`C18.get_val_noop`.  Value level (a returned object shared with the line): `C19.edit_frame`.
-/
namespace Gfa.C10
open Driver

def mutators : List String := ["g.new", "g.add", "g.rm", "g.rename", "g.rmtext", "g.settag", "g.deltag", "g.multiply", "g.merge", "g.mergeall"]

/-- **frame**: a command that is not one of the ten mutators leaves the model Gfa untouched -/
theorem step_frame (d : DState) (cmd : String) (args : List (List Char)) (h : cmd ∉ mutators) :
    (step d cmd args).1 = d := by
  simp only [mutators, List.mem_cons, List.not_mem_nil, or_false, not_or] at h
  obtain ⟨h1, h2, h3, h4, h5, h6, h7, h8, h9, h10⟩ := h
  unfold step
  split <;> first | rfl | (exfalso; simp_all; done) | skip
  all_goals (split <;> rfl)

/-- any sequence of queries: the state after it is the state before it -/
theorem queries_frame (d : DState) (qs : List (String × List (List Char))) (h : ∀ q ∈ qs, q.1 ∉ mutators) :
    qs.foldl (fun d q => (step d q.1 q.2).1) d = d := by
  induction qs with
  | nil => rfl
  | cons q qs ih =>
    simp only [List.foldl_cons]
    rw [step_frame d q.1 q.2 (h q (by simp))]
    exact ih (fun x hx => h x (by simp [hx]))

/-- asking twice gives the same answer, whatever was asked in between -/
theorem ask_twice (d : DState) (cmd : String) (args : List (List Char))
    (qs : List (String × List (List Char))) (h : ∀ q ∈ qs, q.1 ∉ mutators) :
    (step (qs.foldl (fun d q => (step d q.1 q.2).1) d) cmd args).2 = (step d cmd args).2 := by
  rw [queries_frame d qs h]

/-- the temporary field swap of `WriterWoSequence.__str__`: put a placeholder, write, put the value back -/
theorem swap_restore {α} (fields : List α) (i : Nat) (ph : α) (h : i < fields.length) :
    (fields.set i ph).set i fields[i] = fields := by
  simp

end Gfa.C10
