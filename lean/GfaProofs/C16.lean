import GfaModel.Components
import GfaProofs.Lemmas.Closure
/-!
# C16 — connected components and topology counts
-/
namespace Gfa.C16
open G Closure

theorem adj_symm (st : St) (a b : String) : adj st a b = adj st b a := by
  unfold adj
  congr 1
  funext p
  rw [Bool.or_comm]

/-- chain of dovetails between segments of the graph -/
abbrev Chain (st : St) (s : String) (x : String) : Prop := Reach (segNames st) (adj st) [s] x

/-- **`segment_connected_component(s)` is exactly the set of segments joined to `s` by a chain of dovetails** -/
theorem component_iff_chain (st : St) (s x : String) : x ∈ component st s ↔ Chain st s x :=
  lfp_iff (segNames st) (adj st) [s] x

theorem mem_component_self (st : St) (s : String) : s ∈ component st s :=
  lfp_seed _ _ _ s (by simp)

/-- containments, internal alignments, gaps, fragments do not connect: only records filed under
    two dovetail keys contribute to adjacency -/
theorem only_dovetails_connect (st : St) (a b : String) (h : adj st a b = true) :
    ∃ r ∈ st.lines, ∃ k1 k2, (r.filing = [(a, k1), (b, k2)] ∨ r.filing = [(b, k1), (a, k2)]) ∧
      isDovKey k1 = true ∧ isDovKey k2 = true := by
  unfold adj dovetailPairs at h
  rw [List.any_eq_true] at h
  obtain ⟨p, hp, hc⟩ := h
  rw [List.mem_filterMap] at hp
  obtain ⟨r, hr, hd⟩ := hp
  unfold dovetailPair at hd
  split at hd
  · rename_i a' k1 b' k2 hf
    split at hd
    · rename_i hk
      simp only [Bool.and_eq_true] at hk
      cases hd
      simp only [Bool.or_eq_true, Bool.and_eq_true, beq_iff_eq] at hc
      rcases hc with ⟨rfl, rfl⟩ | ⟨rfl, rfl⟩
      · exact ⟨r, hr, k1, k2, Or.inl hf, hk.1, hk.2⟩
      · exact ⟨r, hr, k1, k2, Or.inr hf, hk.1, hk.2⟩
    · cases hd
  · cases hd

theorem chain_trans (st : St) (s x y : String) (h1 : Chain st s x) (h2 : Chain st x y) : Chain st s y := by
  apply reach_mono (segNames st) (adj st) [s] [x] _ y h2
  intro z hz; simp at hz; subst hz; exact h1

/-- chains can be walked backwards (dovetails are undirected for connectivity) -/
theorem chain_symm (st : St) (s x : String) (hs : s ∈ segNames st) (h : Chain st s x) : Chain st x s := by
  induction h with
  | seed hm => simp at hm; subst hm; exact Reach.seed (by simp)
  | @step y z _ ha hu ih =>
    -- z → y by symmetry of adj, then y → s by ih
    have hy : y ∈ segNames st ∨ y = s := by
      rename_i hr
      cases hr with
      | seed hm => simp at hm; exact Or.inr hm
      | step _ _ hu' => exact Or.inl hu'
    have hyu : y ∈ segNames st := by rcases hy with h | h; exact h; subst h; exact hs
    have hzy : Chain st z y := Reach.step (y := z) (Reach.seed (List.mem_singleton.mpr rfl)) (by rw [adj_symm]; exact ha) hyu
    exact chain_trans st z y s hzy ih

/-- **the components are equivalence classes**: a member's component is the same set -/
theorem component_class (st : St) (s x : String) (hs : s ∈ segNames st) (hx : x ∈ component st s) :
    ∀ y, y ∈ component st x ↔ y ∈ component st s := by
  intro y
  rw [component_iff_chain, component_iff_chain]
  rw [component_iff_chain] at hx
  constructor
  · intro h; exact chain_trans st s x y hx h
  · intro h; exact chain_trans st x s y (chain_symm st s x hs hx) h

/-- two components are equal as sets or disjoint -/
theorem components_disjoint_or_equal (st : St) (s t : String) (hs : s ∈ segNames st) (ht : t ∈ segNames st) :
    (∀ y, y ∈ component st s ↔ y ∈ component st t) ∨ (∀ y, y ∈ component st s → y ∉ component st t) := by
  by_cases h : ∃ z, z ∈ component st s ∧ z ∈ component st t
  · left
    obtain ⟨z, hz1, hz2⟩ := h
    intro y
    rw [← component_class st s z hs hz1 y, component_class st t z ht hz2 y]
  · right
    intro y hy hy'
    exact h ⟨y, hy, hy'⟩

/-- every member of a component is a segment of the graph (or the start itself) -/
theorem component_subset (st : St) (s x : String) (hx : x ∈ component st s) : x ∈ segNames st ∨ x = s := by
  rw [component_iff_chain] at hx
  cases hx with
  | seed hm => simp at hm; exact Or.inr hm
  | step _ _ hu => exact Or.inl hu

/-- `connected_components` covers every segment -/
theorem components_cover_aux (st : St) (rest visited : List String) :
    ∀ s ∈ rest, s ∈ visited ∨ ∃ c ∈ componentsAux st rest visited, s ∈ c := by
  induction rest generalizing visited with
  | nil => intro s hs; cases hs
  | cons r rs ih =>
    intro s hs
    simp only [componentsAux]
    by_cases hv : visited.contains r = true
    · simp only [hv, if_true]
      rcases List.mem_cons.mp hs with rfl | hs'
      · left; simpa using hv
      · exact ih visited s hs'
    · simp only [hv, Bool.false_eq_true, if_false]
      rcases List.mem_cons.mp hs with rfl | hs'
      · right; exact ⟨component st s, by simp, mem_component_self st s⟩
      · rcases ih (visited ++ component st r) s hs' with h | ⟨c, hc, hsc⟩
        · rcases List.mem_append.mp h with h | h
          · left; exact h
          · right; exact ⟨component st r, by simp, h⟩
        · right; exact ⟨c, by simp [hc], hsc⟩

theorem components_cover (st : St) (s : String) (hs : s ∈ segNames st) : ∃ c ∈ components st, s ∈ c := by
  rcases components_cover_aux st (segNames st) [] s hs with h | h
  · cases h
  · exact h

/-- every returned component is the component of one of the segments -/
theorem components_are_classes_aux (st : St) (rest visited : List String) :
    ∀ c ∈ componentsAux st rest visited, ∃ s ∈ rest, c = component st s := by
  induction rest generalizing visited with
  | nil => intro c hc; cases hc
  | cons r rs ih =>
    intro c hc
    simp only [componentsAux] at hc
    by_cases hv : visited.contains r = true
    · simp only [hv, if_true] at hc
      obtain ⟨s, hs, he⟩ := ih visited c hc
      exact ⟨s, by simp [hs], he⟩
    · simp only [hv, Bool.false_eq_true, if_false] at hc
      rcases List.mem_cons.mp hc with rfl | hc'
      · exact ⟨r, by simp, rfl⟩
      · obtain ⟨s, hs, he⟩ := ih _ c hc'
        exact ⟨s, by simp [hs], he⟩

theorem components_are_classes (st : St) : ∀ c ∈ components st, ∃ s ∈ segNames st, c = component st s :=
  components_are_classes_aux st (segNames st) []

-- ---------------------------------------------------------------- counting (handshake)
theorem sum_zero (l : List Nat) (h : ∀ n ∈ l, n = 0) : l.sum = 0 := by
  induction l with
  | nil => rfl
  | cons x xs ih =>
    simp only [List.sum_cons]
    rw [h x (by simp), ih (fun n hn => h n (by simp [hn]))]

theorem sum_indicator (segs : List String) (hnd : segs.Nodup) (x : String) (hx : x ∈ segs) :
    (segs.map (fun s => if s = x then 1 else 0)).sum = 1 := by
  induction segs with
  | nil => cases hx
  | cons y ys ih =>
    have hnd' := List.nodup_cons.mp hnd
    simp only [List.map_cons, List.sum_cons]
    rcases List.mem_cons.mp hx with rfl | hin
    · have : (ys.map (fun s => if s = x then 1 else 0)).sum = 0 := by
        apply sum_zero
        intro n hn
        rw [List.mem_map] at hn
        obtain ⟨s, hs, rfl⟩ := hn
        have : s ≠ x := by rintro rfl; exact hnd'.1 hs
        simp [this]
      simp [this]
    · have hne : y ≠ x := by rintro rfl; exact hnd'.1 hin
      simp [hne, ih hnd'.2 hin]

/-- counting lemma: summing, over distinct segment names, the number of occurrences in a list whose
    elements are all segment names gives the length of the list -/
theorem sum_count (segs : List String) (hnd : segs.Nodup) (xs : List String) (h : ∀ x ∈ xs, x ∈ segs) :
    (segs.map (fun s => (xs.filter (· = s)).length)).sum = xs.length := by
  induction xs with
  | nil =>
    simp only [List.filter_nil, List.length_nil]
    apply sum_zero
    intro n hn
    rw [List.mem_map] at hn
    obtain ⟨_, _, rfl⟩ := hn; rfl
  | cons x xs ih =>
    have ih' := ih (fun y hy => h y (by simp [hy]))
    have hx := sum_indicator segs hnd x (h x (by simp))
    have : ∀ s, ((x :: xs).filter (· = s)).length = (xs.filter (· = s)).length + (if s = x then 1 else 0) := by
      intro s
      by_cases hs : x = s
      · subst hs; simp
      · have : ¬ s = x := fun h => hs h.symm
        simp [List.filter_cons, hs, this]
    simp only [this]
    rw [show (segs.map fun s => (xs.filter (· = s)).length + (if s = x then 1 else 0)) =
        List.zipWith (· + ·) (segs.map fun s => (xs.filter (· = s)).length) (segs.map fun s => if s = x then 1 else 0) by
      simp [List.zipWith_map]]
    have hz : ∀ (a b : List Nat), a.length = b.length → (List.zipWith (· + ·) a b).sum = a.sum + b.sum := by
      intro a
      induction a with
      | nil => intro b hb; cases b <;> simp_all
      | cons p ps iha =>
        intro b hb
        cases b with
        | nil => simp at hb
        | cons q qs =>
          simp only [List.zipWith_cons_cons, List.sum_cons]
          rw [iha qs (by simpa using hb)]; omega
    rw [hz _ _ (by simp), ih', hx]
    simp

-- non-vacuity of the counting lemma: two segments, a self-link and a link
example : (["A", "B"].map (fun s => (["A", "A", "A", "B"].filter (· = s)).length)).sum = 4 := by decide

end Gfa.C16
