import GfaProofs.C14Paths
/-!
# C14 — `linear_paths` misses no chain: maximality and coverage

`Joined nb x y`: the only dovetail on the end `x` leads to `y.inv`, and the only dovetail on `y.inv` leads back.

* `traverse_last`: the traversal stops only where the chain cannot be continued — if its last member is `Joined` to
  some `y`, then `y` was already excluded (it belongs to this path: a cycle; or it was visited before);
* `linearPath_closed`: the members of the path found from `s` are closed under `Joined` (both directions), provided the
  exclusion set was (`ExClosed`) — nothing joined to a member is left outside;
* `linearPaths_cover`: for the whole scan: two different segments that are `Joined` are members of one returned path.
  With `linearPaths_chains` and `linearPaths_disjoint` (C14Paths) the returned paths are exactly the maximal chains.

The step bound `pathFuel` is shown sufficient (`mu`: names of segment ends not yet excluded).
-/
namespace Gfa.C14
open G

-- ------------------------------------------------------------------ measure
def mu (U ex : List String) : Nat := (U.filter (fun n => !ex.contains n)).length

theorem mu_cons_le (U ex : List String) (n : String) : mu U (n :: ex) ≤ mu U ex := by
  unfold mu
  apply Closure.filter_length_le
  intro x _ hx
  simp only [List.contains_cons, Bool.not_eq_true', Bool.or_eq_false_iff] at hx
  simp only [Bool.not_eq_true']
  exact hx.2

theorem mu_cons_lt (U ex : List String) (n : String) (h1 : n ∈ U) (h2 : n ∉ ex) : mu U (n :: ex) < mu U ex := by
  unfold mu
  apply Closure.filter_length_lt U _ n h1
  · simp [h2]
  · simp
  · intro x _ hx
    simp only [List.contains_cons, Bool.not_eq_true', Bool.or_eq_false_iff] at hx
    simp only [Bool.not_eq_true']
    exact hx.2

theorem inv_inj (x y : SegEnd) (h : x.inv = y.inv) : x = y := by
  have := congrArg SegEnd.inv h
  simpa [inv_inv] using this

theorem inv_name (x : SegEnd) : x.inv.name = x.name := rfl

-- ------------------------------------------------------------------ where a traversal stops
/-- **the traversal stops only where the chain ends**: whatever its last member is joined to is already excluded -/
theorem traverse_last (nb : SegEnd → List SegEnd) (hs : Sym nb) (U : List String)
    (hU : ∀ x o, o ∈ nb x → o.name ∈ U) (fuel : Nat) :
    ∀ (cur : SegEnd) (lst : List SegEnd) (ex : List String),
      mu U ex + 1 + (if cur.name ∈ ex then 1 else 0) ≤ fuel →
      (cur.name ∉ ex → cur.name ∈ U) →
      (∀ l, lst.getLast? = some l → nb l = [cur.inv]) → (lst = [] → (nb cur).length = 1) →
      ∀ l y, (traverse nb fuel cur lst ex).1.getLast? = some l → Joined nb l y →
        y.name ∈ (traverse nb fuel cur lst ex).2 := by
  induction fuel with
  | zero => intro cur lst ex hf; omega
  | succ n ih =>
    intro cur lst ex hf hcurU hlast hfirst l y hl hj
    simp only [traverse] at hl ⊢
    split at hl
    · rename_i hcond
      have hafter : (nb cur).length = 1 := by
        rcases hcond with h | h
        · exact h.2
        · exact hfirst h
      simp only [if_pos hcond]
      split at hl
      · rename_i hnil
        simp [hnil] at hafter
      · rename_i o rest hnb
        have hrest : rest = [] := by rw [hnb] at hafter; simpa using hafter
        subst hrest
        try simp only [hnb]
        split at hl
        · rename_i hin
          simp only [if_pos hin]
          simp only [List.getLast?_append, List.getLast?_singleton, Option.some_or, Option.some.injEq] at hl
          subst hl
          have : y.inv = o := by
            have := hj.1; rw [hnb] at this; simpa using this.symm
          have hy : y = o.inv := by rw [← this, inv_inv]
          rw [hy]
          simpa using hin
        · rename_i hnot
          simp only [if_neg hnot]
          have hnot' : o.inv.name ∉ cur.name :: ex := by simpa using hnot
          apply ih o.inv (lst ++ [cur]) (cur.name :: ex) ?_ ?_ ?_ ?_ l y hl hj
          · rw [if_neg hnot']
            by_cases hc : cur.name ∈ ex
            · rw [if_pos hc] at hf
              have := mu_cons_le U ex cur.name
              omega
            · rw [if_neg hc] at hf
              have := mu_cons_lt U ex cur.name (hcurU hc) hc
              omega
          · intro _
            rw [inv_name]
            exact hU cur o (by rw [hnb]; simp)
          · intro l' hl'
            simp only [List.getLast?_append, List.getLast?_singleton, Option.some_or, Option.some.injEq] at hl'
            subst hl'
            rw [hnb, inv_inv]
          · intro h; simp at h
    · rename_i hcond
      simp only [if_neg hcond]
      split at hl
      · rename_i hb
        -- the current end was appended although its outgoing end does not carry exactly one dovetail
        simp only [List.getLast?_append, List.getLast?_singleton, Option.some_or, Option.some.injEq] at hl
        subst hl
        exfalso
        apply hcond
        left
        exact ⟨hb, by rw [hj.1]; simp⟩
      · rename_i hb
        simp only [if_neg hb]
        -- nothing appended: the last member leads to `cur`, whose incoming end is not a single dovetail
        exfalso
        have h1 := hlast l hl
        have : y = cur := inv_inj _ _ (by have := hj.1; rw [h1] at this; simpa using this.symm)
        subst this
        apply hb
        rw [hj.2]; simp

/-- names excluded by a traversal: the ones excluded before and the members it found -/
theorem traverse_ex (nb : SegEnd → List SegEnd) (fuel : Nat) :
    ∀ (cur : SegEnd) (lst : List SegEnd) (ex : List String),
      ∀ n ∈ (traverse nb fuel cur lst ex).2, n ∈ ex ∨ n ∈ pnames (traverse nb fuel cur lst ex).1 := by
  induction fuel with
  | zero => intro cur lst ex n hn; simp only [traverse] at hn ⊢; exact Or.inl hn
  | succ k ih =>
    intro cur lst ex n hn
    have stop : ∀ n ∈ cur.name :: ex, n ∈ ex ∨ n ∈ pnames (lst ++ [cur]) := by
      intro n hn
      rcases List.mem_cons.mp hn with h | h
      · right; rw [pnames_append]; simp [pnames, h]
      · exact Or.inl h
    simp only [traverse] at hn ⊢
    by_cases h1 : ((nb cur.inv).length = 1 ∧ (nb cur).length = 1) ∨ lst = []
    · simp only [if_pos h1] at hn ⊢
      cases hnb : nb cur with
      | nil => simp only [hnb] at hn ⊢; exact Or.inl hn
      | cons o rest =>
        simp only [hnb] at hn ⊢
        by_cases hin : ((cur.name :: ex).contains o.inv.name) = true
        · simp only [if_pos hin] at hn ⊢; exact stop n hn
        · simp only [if_neg hin] at hn ⊢
          rcases ih o.inv (lst ++ [cur]) (cur.name :: ex) n hn with h | h
          · rcases stop n h with h' | h'
            · exact Or.inl h'
            · right
              obtain ⟨t, ht, _⟩ := traverse_prefix nb k o.inv (lst ++ [cur]) (cur.name :: ex)
              rw [ht, pnames_append]
              exact List.mem_append_left _ h'
          · exact Or.inr h
    · simp only [if_neg h1] at hn ⊢
      by_cases hb : (nb cur.inv).length = 1
      · simp only [if_pos hb] at hn ⊢; exact stop n hn
      · simp only [if_neg hb] at hn ⊢; exact Or.inl hn

-- ------------------------------------------------------------------ list helpers
theorem chain_succ {α} {R : α → α → Prop} (l : List α) (h : Chain R l) (c : α) (hc : c ∈ l) :
    l.getLast? = some c ∨ ∃ c' ∈ l, R c c' := by
  induction l with
  | nil => cases hc
  | cons a r ih =>
    cases r with
    | nil => simp at hc; subst hc; left; rfl
    | cons b r' =>
      rcases List.mem_cons.mp hc with rfl | hin
      · right; exact ⟨b, by simp, h.1⟩
      · rcases ih h.2 hin with h1 | ⟨c', hc', hr⟩
        · left; simpa [List.getLast?_cons_cons] using h1
        · right; exact ⟨c', List.mem_cons_of_mem _ hc', hr⟩

theorem chain_pred {α} {R : α → α → Prop} (l : List α) (h : Chain R l) (c : α) (hc : c ∈ l) :
    l.head? = some c ∨ ∃ c' ∈ l, R c' c := by
  induction l with
  | nil => cases hc
  | cons a r ih =>
    rcases List.mem_cons.mp hc with rfl | hin
    · left; rfl
    · right
      cases r with
      | nil => cases hin
      | cons b r' =>
        rcases ih h.2 hin with h1 | ⟨c', hc', hr⟩
        · simp at h1; subst h1; exact ⟨a, by simp, h.1⟩
        · exact ⟨c', List.mem_cons_of_mem _ hc', hr⟩

theorem revPath_head (p : List SegEnd) (f : SegEnd) (h : (revPath p).head? = some f) : p.getLast? = some f.inv := by
  unfold revPath at h
  rw [List.head?_reverse, List.getLast?_map] at h
  cases hl : p.getLast? with
  | none => simp [hl] at h
  | some z => simp [hl] at h; rw [← h, inv_inv]

theorem mem_revPath (p : List SegEnd) (x : SegEnd) : x ∈ revPath p ↔ x.inv ∈ p := by
  unfold revPath
  simp only [List.mem_reverse, List.mem_map]
  constructor
  · rintro ⟨a, ha, rfl⟩; rw [inv_inv]; exact ha
  · intro h; exact ⟨x.inv, h, inv_inv x⟩

-- ------------------------------------------------------------------ one linear path
/-- the exclusion set is closed under `Joined`: a segment joined to an excluded one is excluded -/
def ExClosed (nb : SegEnd → List SegEnd) (ex : List String) : Prop :=
  ∀ x y, Joined nb x y → x.name ∈ ex → y.name ∈ ex

/-- premises shared by the lemmas on one call of `linear_path` -/
structure Ctx (nb : SegEnd → List SegEnd) (U : List String) (fuel : Nat) (s : String) (ex : List String) : Prop where
  sym : Sym nb
  univ : ∀ x o, o ∈ nb x → o.name ∈ U
  fuel : U.length + 2 ≤ fuel
  fresh : s ∉ ex

theorem mu_le_length (U ex : List String) : mu U ex ≤ U.length := by
  unfold mu; exact List.length_filter_le _ _

/-- result of the traversal from one end of `s`, before orientation: its last member is maximal -/
theorem start_last (nb : SegEnd → List SegEnd) (U : List String) (fuel : Nat) (s : String) (ex ex0 : List String)
    (c : Ctx nb U fuel s ex0) (b : Bool) (h1 : (nb ⟨s, b⟩).length = 1) :
    ∀ l y, (traverse nb fuel ⟨s, b⟩ [] (s :: ex)).1.getLast? = some l → Joined nb l y →
      y.name ∈ s :: ex ∨ y.name ∈ pnames (traverse nb fuel ⟨s, b⟩ [] (s :: ex)).1 := by
  intro l y hl hj
  have := traverse_last nb c.sym U c.univ fuel ⟨s, b⟩ [] (s :: ex)
    (by have := mu_le_length U (s :: ex); have := c.fuel; simp; omega)
    (by intro h; simp at h) (by intro l hl; simp at hl) (fun _ => h1) l y hl hj
  exact traverse_ex nb fuel _ _ _ _ this

theorem traverseFrom_right (nb : SegEnd → List SegEnd) (fuel : Nat) (s : String) (ex : List String) :
    (traverseFrom nb fuel ⟨s, true⟩ ex).1 = (traverse nb fuel ⟨s, true⟩ [] ex).1 := by simp [traverseFrom]

theorem traverseFrom_left (nb : SegEnd → List SegEnd) (fuel : Nat) (s : String) (ex : List String) :
    (traverseFrom nb fuel ⟨s, false⟩ ex).1 = revPath (traverse nb fuel ⟨s, false⟩ [] ex).1 := by simp [traverseFrom]

theorem traverse_nonempty (nb : SegEnd → List SegEnd) (fuel : Nat) (cur : SegEnd) (ex : List String)
    (hf : 1 ≤ fuel) (h1 : (nb cur).length = 1) : ∃ t, (traverse nb fuel cur [] ex).1 = cur :: t := by
  cases fuel with
  | zero => omega
  | succ k =>
    simp only [traverse, or_true, if_true]
    split
    · rename_i hnil; rw [hnil] at h1; simp at h1
    · split
      · exact ⟨[], rfl⟩
      · obtain ⟨t, ht, _⟩ := traverse_prefix nb k _ ([] ++ [cur]) (cur.name :: ex)
        exact ⟨t, by rw [ht]; rfl⟩

/-- **the members of the path found from `s` are closed under `Joined`** -/
theorem linearPath_closed (nb : SegEnd → List SegEnd) (U : List String) (fuel : Nat) (s : String) (ex : List String)
    (c : Ctx nb U fuel s ex) (hcl : ExClosed nb ex) :
    ∀ x y, Joined nb x y → x.name ∈ pnames (linearPath nb fuel s ex).1 → y.name ∈ pnames (linearPath nb fuel s ex).1 := by
  have hchain := linearPath_chain nb c.sym fuel s ex
  obtain ⟨_, _, _, hnew⟩ := linearPath_names nb fuel s ex c.fresh
  have hf1 : 1 ≤ fuel := by have := c.fuel; omega
  -- maximality at both ends of the path
  have hends : (∀ l y, (linearPath nb fuel s ex).1.getLast? = some l → Joined nb l y →
        y.name ∈ ex ∨ y.name ∈ pnames (linearPath nb fuel s ex).1) ∧
      (∀ f z, (linearPath nb fuel s ex).1.head? = some f → Joined nb z f →
        z.name ∈ ex ∨ z.name ∈ pnames (linearPath nb fuel s ex).1) := by
    unfold linearPath
    simp only
    by_cases hL : (nb ⟨s, false⟩).length = 1
    · -- there is a first half: the backward traversal, read forwards
      obtain ⟨t1, ht1⟩ := traverse_nonempty nb fuel ⟨s, false⟩ (s :: ex) hf1 hL
      have hr1 : (traverseFrom nb fuel ⟨s, false⟩ (s :: ex)).1 = revPath (⟨s, false⟩ :: t1) := by
        rw [traverseFrom_left, ht1]
      have hr1' : (traverseFrom nb fuel ⟨s, false⟩ (s :: ex)).1 = revPath t1 ++ [⟨s, true⟩] := by
        rw [hr1]; simp [revPath, SegEnd.inv]
      have hr12 : (traverseFrom nb fuel ⟨s, false⟩ (s :: ex)).2 = (traverse nb fuel ⟨s, false⟩ [] (s :: ex)).2 := rfl
      have hlastL := start_last nb U fuel s ex ex c false hL
      rw [ht1] at hlastL
      -- names of the first half
      have hn1 : ∀ n, n ∈ pnames (⟨s, false⟩ :: t1) ↔ n ∈ pnames (revPath t1 ++ [(⟨s, true⟩ : SegEnd)]) := by
        intro n
        have : revPath t1 ++ [(⟨s, true⟩ : SegEnd)] = revPath (⟨s, false⟩ :: t1) := by simp [revPath, SegEnd.inv]
        rw [this, pnames_revPath]; simp
      -- whatever precedes the first member of the first half
      have firstL : ∀ f z, (revPath t1 ++ [(⟨s, true⟩ : SegEnd)]).head? = some f → Joined nb z f →
          z.name ∈ s :: ex ∨ z.name ∈ pnames (revPath t1 ++ [(⟨s, true⟩ : SegEnd)]) := by
        intro f z hf hj
        have hrev : revPath t1 ++ [(⟨s, true⟩ : SegEnd)] = revPath (⟨s, false⟩ :: t1) := by simp [revPath, SegEnd.inv]
        rw [hrev] at hf
        have hl := revPath_head _ f hf
        have hj' := joined_rev nb z f hj
        rcases hlastL f.inv z.inv hl hj' with h | h
        · exact Or.inl h
        · right; rw [← hn1]; simpa [inv_name] using h
      simp only [if_pos hL, hr1']
      by_cases hR : (nb ⟨s, true⟩).length = 1
      · simp only [if_pos hR, List.dropLast_concat]
        obtain ⟨t2, ht2⟩ := traverse_nonempty nb fuel ⟨s, true⟩ (s :: (traverseFrom nb fuel ⟨s, false⟩ (s :: ex)).2) hf1 hR
        have hr2 : (traverseFrom nb fuel ⟨s, true⟩ (s :: (traverseFrom nb fuel ⟨s, false⟩ (s :: ex)).2)).1 = ⟨s, true⟩ :: t2 := by
          rw [traverseFrom_right, ht2]
        have hlastR := start_last nb U fuel s (traverseFrom nb fuel ⟨s, false⟩ (s :: ex)).2 ex c true hR
        rw [ht2] at hlastR
        rw [hr2]
        -- names excluded after the first half
        have hex1 : ∀ n ∈ (traverseFrom nb fuel ⟨s, false⟩ (s :: ex)).2, n ∈ s :: ex ∨ n ∈ pnames (⟨s, false⟩ :: t1) := by
          intro n hn
          rw [hr12] at hn
          have := traverse_ex nb fuel _ _ _ n hn
          rw [ht1] at this; exact this
        have hs_in : s ∈ pnames (revPath t1 ++ (⟨s, true⟩ : SegEnd) :: t2) := by
          rw [pnames_append]; simp [pnames]
        have lift1 : ∀ n, n ∈ pnames (revPath t1 ++ [(⟨s, true⟩ : SegEnd)]) → n ∈ pnames (revPath t1 ++ (⟨s, true⟩ : SegEnd) :: t2) := by
          intro n hn
          rw [pnames_append] at hn ⊢
          rcases List.mem_append.mp hn with h | h
          · exact List.mem_append_left _ h
          · apply List.mem_append_right; simp [pnames] at h ⊢; exact Or.inl h
        have into : ∀ n, n ∈ s :: ex → n ∈ ex ∨ n ∈ pnames (revPath t1 ++ (⟨s, true⟩ : SegEnd) :: t2) := by
          intro n hn
          rcases List.mem_cons.mp hn with h | h
          · right; rw [h]; exact hs_in
          · exact Or.inl h
        constructor
        · intro l y hl hj
          have hl' : ((⟨s, true⟩ : SegEnd) :: t2).getLast? = some l := by
            rw [List.getLast?_append] at hl
            cases h : ((⟨s, true⟩ : SegEnd) :: t2).getLast? with
            | none => simp at h
            | some z => rw [h] at hl; simpa using hl
          rcases hlastR l y hl' hj with h | h
          · rcases List.mem_cons.mp h with h' | h'
            · right; rw [h']; exact hs_in
            · rcases hex1 _ h' with h'' | h''
              · exact into _ h''
              · right; exact lift1 _ ((hn1 _).mp h'')
          · right; rw [pnames_append]; exact List.mem_append_right _ h
        · intro f z hf hj
          have hf' : (revPath t1 ++ [(⟨s, true⟩ : SegEnd)]).head? = some f := by
            cases hrt : revPath t1 with
            | nil => rw [hrt] at hf; simpa using hf
            | cons a r => rw [hrt] at hf; simpa using hf
          rcases firstL f z hf' hj with h | h
          · exact into _ h
          · exact Or.inr (lift1 _ h)
      · simp only [if_neg hR, hr1']
        constructor
        · intro l y hl hj
          simp only [List.getLast?_append, List.getLast?_singleton, Option.some_or, Option.some.injEq] at hl
          subst hl
          exfalso; apply hR; rw [hj.1]; simp
        · intro f z hf hj
          rcases firstL f z hf hj with h | h
          · rcases List.mem_cons.mp h with h' | h'
            · right; rw [h', pnames_append]; simp [pnames]
            · exact Or.inl h'
          · exact Or.inr h
    · -- no first half
      simp only [if_neg hL]
      by_cases hR : (nb ⟨s, true⟩).length = 1
      · simp only [if_pos hR, List.dropLast_nil, List.nil_append]
        obtain ⟨t2, ht2⟩ := traverse_nonempty nb fuel ⟨s, true⟩ (s :: ex) hf1 hR
        have hr2 : (traverseFrom nb fuel ⟨s, true⟩ (s :: ex)).1 = ⟨s, true⟩ :: t2 := by
          rw [traverseFrom_right, ht2]
        have hlastR := start_last nb U fuel s ex ex c true hR
        rw [ht2] at hlastR
        rw [hr2]
        constructor
        · intro l y hl hj
          rcases hlastR l y hl hj with h | h
          · rcases List.mem_cons.mp h with h' | h'
            · right; rw [h']; simp [pnames]
            · exact Or.inl h'
          · exact Or.inr h
        · intro f z hf hj
          simp only [List.head?_cons, Option.some.injEq] at hf
          subst hf
          exfalso; apply hL
          have := hj.2
          simp only [SegEnd.inv, Bool.not_true] at this
          rw [this]; simp
      · simp only [if_neg hR]
        exact ⟨fun l y hl => by simp at hl, fun f z hf => by simp at hf⟩
  -- closure
  intro x y hj hx
  have hy_notex : y.name ∉ ex := by
    intro hy
    have := hcl y.inv x.inv (joined_rev nb x y hj) (by simpa [inv_name] using hy)
    exact hnew x.name hx (by simpa [inv_name] using this)
  obtain ⟨c0, hc0, hc0n⟩ : ∃ c0 ∈ (linearPath nb fuel s ex).1, c0.name = x.name := by
    simp only [pnames, List.mem_map] at hx; exact hx
  have hcase : x = c0 ∨ x = c0.inv := by
    cases x with
    | mk xn xr => cases c0 with
      | mk cn cr =>
        simp only at hc0n; subst hc0n
        by_cases h : xr = cr
        · left; rw [h]
        · right; simp only [SegEnd.inv, SegEnd.mk.injEq, true_and]; cases xr <;> cases cr <;> simp_all
  rcases hcase with rfl | rfl
  · rcases chain_succ _ hchain x hc0 with hl | ⟨c', hc', hr⟩
    · rcases hends.1 x y hl hj with h | h
      · exact absurd h hy_notex
      · exact h
    · have : y = c' := inv_inj _ _ (by have := hj.1; rw [hr.1] at this; simpa using this.symm)
      rw [this]; simp only [pnames, List.mem_map]; exact ⟨c', hc', rfl⟩
  · have hj' : Joined nb y.inv c0 := by
      have := joined_rev nb c0.inv y hj; rwa [inv_inv] at this
    rcases chain_pred _ hchain c0 hc0 with hh | ⟨c', hc', hr⟩
    · rcases hends.2 c0 y.inv hh hj' with h | h
      · exact absurd (by simpa [inv_name] using h) hy_notex
      · simpa [inv_name] using h
    · have : y.inv = c' := by have := hj'.2; rw [hr.2] at this; simpa using this.symm
      have hyn : y.name = c'.name := by rw [← this]; rfl
      rw [hyn]; simp only [pnames, List.mem_map]; exact ⟨c', hc', rfl⟩

-- ------------------------------------------------------------------ the whole scan
/-- names excluded after one call: the ones excluded before and the members of the path -/
theorem linearPath_ex (nb : SegEnd → List SegEnd) (fuel : Nat) (s : String) (ex : List String) (hf1 : 1 ≤ fuel) :
    ∀ n ∈ (linearPath nb fuel s ex).2, n ∈ ex ∨ n ∈ pnames (linearPath nb fuel s ex).1 := by
  unfold linearPath
  simp only
  by_cases hL : (nb ⟨s, false⟩).length = 1
  · obtain ⟨t1, ht1⟩ := traverse_nonempty nb fuel ⟨s, false⟩ (s :: ex) hf1 hL
    have hr1' : (traverseFrom nb fuel ⟨s, false⟩ (s :: ex)).1 = revPath t1 ++ [⟨s, true⟩] := by
      rw [traverseFrom_left, ht1]; simp [revPath, SegEnd.inv]
    have hex1 : ∀ n ∈ (traverseFrom nb fuel ⟨s, false⟩ (s :: ex)).2, n ∈ ex ∨ n ∈ pnames (revPath t1 ++ [(⟨s, true⟩ : SegEnd)]) := by
      intro n hn
      have hn' : n ∈ (traverse nb fuel ⟨s, false⟩ [] (s :: ex)).2 := hn
      rcases traverse_ex nb fuel _ _ _ n hn' with h | h
      · rcases List.mem_cons.mp h with h' | h'
        · right; rw [h', pnames_append]; simp [pnames]
        · exact Or.inl h'
      · right
        rw [ht1] at h
        have e : revPath t1 ++ [(⟨s, true⟩ : SegEnd)] = revPath (⟨s, false⟩ :: t1) := by simp [revPath, SegEnd.inv]
        rw [e, pnames_revPath]; simpa using h
    simp only [if_pos hL]
    by_cases hR : (nb ⟨s, true⟩).length = 1
    · simp only [if_pos hR, hr1', List.dropLast_concat]
      obtain ⟨t2, ht2⟩ := traverse_nonempty nb fuel ⟨s, true⟩ (s :: (traverseFrom nb fuel ⟨s, false⟩ (s :: ex)).2) hf1 hR
      have hr2 : (traverseFrom nb fuel ⟨s, true⟩ (s :: (traverseFrom nb fuel ⟨s, false⟩ (s :: ex)).2)).1 = ⟨s, true⟩ :: t2 := by
        rw [traverseFrom_right, ht2]
      intro n hn
      have hn' : n ∈ (traverse nb fuel ⟨s, true⟩ [] (s :: (traverseFrom nb fuel ⟨s, false⟩ (s :: ex)).2)).2 := hn
      rw [hr2, pnames_append]
      rcases traverse_ex nb fuel _ _ _ n hn' with h | h
      · rcases List.mem_cons.mp h with h' | h'
        · right; rw [h']; apply List.mem_append_right; simp [pnames]
        · rcases hex1 n h' with h'' | h''
          · exact Or.inl h''
          · right
            rw [pnames_append] at h''
            rcases List.mem_append.mp h'' with h3 | h3
            · exact List.mem_append_left _ h3
            · apply List.mem_append_right; simp [pnames] at h3 ⊢; exact Or.inl h3
      · right; rw [ht2] at h; exact List.mem_append_right _ h
    · simp only [if_neg hR, hr1']
      exact hex1
  · simp only [if_neg hL]
    by_cases hR : (nb ⟨s, true⟩).length = 1
    · simp only [if_pos hR, List.dropLast_nil, List.nil_append]
      intro n hn
      have hn' : n ∈ (traverse nb fuel ⟨s, true⟩ [] (s :: ex)).2 := hn
      obtain ⟨t2, ht2⟩ := traverse_nonempty nb fuel ⟨s, true⟩ (s :: ex) hf1 hR
      rw [traverseFrom_right]
      rcases traverse_ex nb fuel _ _ _ n hn' with h | h
      · rcases List.mem_cons.mp h with h' | h'
        · right; rw [h', ht2]; simp [pnames]
        · exact Or.inl h'
      · exact Or.inr h
    · simp only [if_neg hR]
      intro n hn; exact Or.inl hn

/-- a segment with exactly one dovetail on one of its ends is a member of the path found from it -/
theorem linearPath_has_start (nb : SegEnd → List SegEnd) (fuel : Nat) (s : String) (ex : List String) (hf1 : 1 ≤ fuel)
    (h : (nb ⟨s, false⟩).length = 1 ∨ (nb ⟨s, true⟩).length = 1) : s ∈ pnames (linearPath nb fuel s ex).1 := by
  unfold linearPath
  simp only
  by_cases hR : (nb ⟨s, true⟩).length = 1
  · simp only [if_pos hR]
    obtain ⟨t2, ht2⟩ := traverse_nonempty nb fuel ⟨s, true⟩
      (s :: (if (nb ⟨s, false⟩).length = 1 then traverseFrom nb fuel ⟨s, false⟩ (s :: ex) else ([], ex)).2) hf1 hR
    rw [traverseFrom_right, ht2, pnames_append]
    apply List.mem_append_right; simp [pnames]
  · simp only [if_neg hR]
    have hL : (nb ⟨s, false⟩).length = 1 := by rcases h with h | h; exact h; exact absurd h hR
    simp only [if_pos hL]
    obtain ⟨t1, ht1⟩ := traverse_nonempty nb fuel ⟨s, false⟩ (s :: ex) hf1 hL
    rw [traverseFrom_left, ht1, pnames_revPath]
    simp [pnames]

theorem two_names_length (p : List SegEnd) (a b : String) (ha : a ∈ pnames p) (hb : b ∈ pnames p) (hab : a ≠ b) :
    1 < p.length := by
  match p, ha, hb with
  | [], ha, _ => simp [pnames] at ha
  | [c], ha, hb => simp [pnames] at ha hb; rw [ha, hb] at hab; exact absurd rfl hab
  | _ :: _ :: _, _, _ => simp

/-- **coverage over the scan**: two different segments that are `Joined` end up in one returned path -/
theorem linearPathsAux_cover (nb : SegEnd → List SegEnd) (U : List String) (fuel : Nat) (hs : Sym nb)
    (hU : ∀ x o, o ∈ nb x → o.name ∈ U) (hfuel : U.length + 2 ≤ fuel) :
    ∀ (names ex : List String), ExClosed nb ex →
      ∀ x y, Joined nb x y → x.name ≠ y.name → x.name ∈ names → x.name ∉ ex →
        ∃ p ∈ linearPathsAux nb fuel names ex, x.name ∈ pnames p ∧ y.name ∈ pnames p := by
  have hf1 : 1 ≤ fuel := by omega
  intro names
  induction names with
  | nil => intro ex _ x y _ _ hx; cases hx
  | cons s rest ih =>
    intro ex hcl x y hj hne hx hxe
    simp only [linearPathsAux]
    by_cases hse : ex.contains s = true
    · simp only [if_pos hse]
      have hs' : s ∈ ex := by simpa using hse
      have : x.name ∈ rest := by
        rcases List.mem_cons.mp hx with h | h
        · rw [h] at hxe; exact absurd hs' hxe
        · exact h
      exact ih ex hcl x y hj hne this hxe
    · simp only [if_neg hse]
      have hs' : s ∉ ex := by simpa using hse
      have c : Ctx nb U fuel s ex := ⟨hs, hU, hfuel, hs'⟩
      have hclosed := linearPath_closed nb U fuel s ex c hcl
      obtain ⟨_, c2, c3, _⟩ := linearPath_names nb fuel s ex hs'
      have hexr := linearPath_ex nb fuel s ex hf1
      -- the exclusion set stays closed
      have hcl' : ExClosed nb (linearPath nb fuel s ex).2 := by
        intro a b hab ha
        rcases hexr _ ha with h | h
        · exact c3 _ (hcl a b hab h)
        · exact c2 _ (hclosed a b hab h)
      by_cases hxp : x.name ∈ pnames (linearPath nb fuel s ex).1
      · have hyp := hclosed x y hj hxp
        have hlen := two_names_length _ _ _ hxp hyp hne
        simp only [if_pos hlen]
        exact ⟨_, by simp, hxp, hyp⟩
      · have hxs : x.name ≠ s := by
          intro h
          apply hxp
          rw [h]
          apply linearPath_has_start nb fuel s ex hf1
          have h1 : (nb x).length = 1 := by rw [hj.1]; simp
          cases x with
          | mk xn xr =>
            simp only at h; subst h
            cases xr
            · exact Or.inl h1
            · exact Or.inr h1
        have hxr : x.name ∈ rest := by
          rcases List.mem_cons.mp hx with h | h
          · exact absurd h hxs
          · exact h
        have hxe' : x.name ∉ (linearPath nb fuel s ex).2 := by
          intro h
          rcases hexr _ h with h' | h'
          · exact hxe h'
          · exact hxp h'
        obtain ⟨p, hp, hp1, hp2⟩ := ih _ hcl' x y hj hne hxr hxe'
        split
        · exact ⟨p, by simp [hp], hp1, hp2⟩
        · exact ⟨p, hp, hp1, hp2⟩

theorem otherEndsOf_names (ps : List (SegEnd × SegEnd)) (x o : SegEnd) (h : o ∈ otherEndsOf ps x) :
    o.name ∈ endNames ps := by
  unfold otherEndsOf at h
  unfold endNames
  simp only [List.mem_flatMap, List.mem_append] at h ⊢
  obtain ⟨p, hp, h⟩ := h
  refine ⟨p, hp, ?_⟩
  rcases h with h | h
  · split at h
    · simp at h; subst h; simp
    · cases h
  · split at h
    · simp at h; subst h; simp
    · cases h

/-- **`linear_paths` misses no chain**: two different segments of the Gfa joined end to end by a dovetail that is the
    only dovetail on both joined ends are members of one returned path -/
theorem linearPaths_cover (st : St) (x y : SegEnd) (hj : Joined (otherEnds st) x y) (hne : x.name ≠ y.name)
    (hx : x.name ∈ segNames st) : ∃ p ∈ linearPaths st, x.name ∈ pnames p ∧ y.name ∈ pnames p := by
  unfold linearPaths
  apply linearPathsAux_cover (otherEnds st) (endNames (st.lines.filterMap dovEnds)) (pathFuel st) (otherEnds_sym st)
    (fun x o h => otherEndsOf_names _ x o h) (by unfold pathFuel; omega) (segNames st) []
    (by intro a b _ h; cases h) x y hj hne hx (by simp)

theorem flatMap_nodup_disjoint {α β} (f : α → List β) : ∀ (l : List α), (l.flatMap f).Nodup →
    ∀ i j (hi : i < l.length) (hj : j < l.length), i < j → ∀ a ∈ f l[i], a ∉ f l[j] := by
  intro l
  induction l with
  | nil => intro _ i j hi; simp at hi
  | cons x xs ih =>
    intro h i j hi hj hij a ha hb
    simp only [List.flatMap_cons] at h
    have hh := List.nodup_append.mp h
    cases j with
    | zero => omega
    | succ j' =>
      cases i with
      | zero =>
        simp only [List.getElem_cons_zero] at ha
        simp only [List.getElem_cons_succ] at hb
        exact hh.2.2 a ha a (List.mem_flatMap.mpr ⟨xs[j']'(by simpa using hj), List.getElem_mem _, hb⟩) rfl
      | succ i' =>
        simp only [List.getElem_cons_succ] at ha hb
        exact ih hh.2.1 i' j' (by simpa using hi) (by simpa using hj) (by omega) a ha hb

/-- maximality in the property's words: a returned path cannot be extended — whatever is joined to a member of a
    returned path is a member of that path (or the same segment) -/
theorem linearPaths_maximal (st : St) (p : List SegEnd) (hp : p ∈ linearPaths st) (x y : SegEnd)
    (hj : Joined (otherEnds st) x y) (hne : x.name ≠ y.name) (hxs : x.name ∈ segNames st) (hx : x.name ∈ pnames p) :
    y.name ∈ pnames p := by
  obtain ⟨q, hq, hq1, hq2⟩ := linearPaths_cover st x y hj hne hxs
  -- x is a member of p and of q: they are the same path (no segment in two paths)
  have hnd := linearPaths_disjoint st
  by_cases hpq : p = q
  · rw [hpq]; exact hq2
  · exfalso
    -- two different entries of the list containing the same name contradict Nodup of the concatenation
    obtain ⟨i, hi, rfl⟩ := List.getElem_of_mem hp
    obtain ⟨j, hj', rfl⟩ := List.getElem_of_mem hq
    have hij : i ≠ j := by intro h; subst h; exact hpq rfl
    rcases Nat.lt_or_gt_of_ne hij with h | h
    · exact flatMap_nodup_disjoint pnames _ hnd i j hi hj' h _ hx hq1
    · exact flatMap_nodup_disjoint pnames _ hnd j i hj' hi h _ hq1 hx

-- non-vacuity: in A+ -> B+ -> C- the ends A:R, B:R and B:R, C:L are `Joined`, and all premises of `linearPaths_cover` hold
example :
    let st : St := ⟨.gfa1, [⟨.S, ["B", "*"], false⟩, ⟨.S, ["A", "*"], false⟩, ⟨.S, ["C", "*"], false⟩,
      ⟨.L, ["A", "+", "B", "+", "*"], false⟩, ⟨.L, ["B", "+", "C", "-", "*"], false⟩]⟩
    Joined (otherEnds st) ⟨"A", true⟩ ⟨"B", true⟩ ∧ Joined (otherEnds st) ⟨"B", true⟩ ⟨"C", false⟩ ∧
      "A" ∈ segNames st ∧ ("A" : String) ≠ "B" := by
  unfold Joined; decide

end Gfa.C14
