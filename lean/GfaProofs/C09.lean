import GfaProofs.Lemmas.Graph
/-!
# C09 — identifiers are unique; lookup and renaming stay coherent

`NoDup st`: the identified lines of the model Gfa (segments, paths, sets, gaps, edges, ID-tagged
links/containments, placeholders) carry pairwise distinct identifiers.  It holds of the empty Gfa and is
preserved by every operation, whether it succeeds or raises — hence of every reachable state.
-/
namespace Gfa.C09
open G

def NoDup (st : St) : Prop := (names st).Nodup

theorem nodup_empty (v : Ver) : NoDup (St.empty v) := by simp [NoDup, names, St.empty]

theorem virtSeg_name (v : Ver) (n : String) (h : n ≠ "*") : (virtSeg v n).name = some n := by
  cases v <;> simp [virtSeg, Rec.name, fld, h]

theorem virtSeg_name_star (v : Ver) : (virtSeg v "*").name = none := by
  cases v <;> simp [virtSeg, Rec.name, fld]

theorem virtUnk_name (n : String) : (virtUnk n).name = if n = "*" then none else some n := by
  simp [virtUnk, Rec.name, fld]

theorem virtLink_name (l : Link) : (virtLink l).name = none := by
  simp [virtLink, Rec.name, idTag]

theorem nodup_append_rec (st : St) (r : Rec) (h : NoDup st) (hr : ∀ n, r.name = some n → n ∉ names st) :
    NoDup { st with lines := st.lines ++ [r] } := by
  unfold NoDup at *
  rw [names_eq] at *
  simp only [namesOf_append]
  cases hn : r.name with
  | none => rw [namesOf_single_none r hn]; simpa using h
  | some n =>
    rw [namesOf_single_some r n hn]
    rw [List.nodup_append]
    refine ⟨h, by simp, ?_⟩
    intro a ha b hb
    simp at hb; subst hb
    intro hab; subst hab
    exact hr a hn ha

theorem ensureSeg_nodup (st st' : St) (n : String) (h : NoDup st) (he : ensureSeg st n = .ok st') : NoDup st' := by
  unfold ensureSeg at he
  split at he
  · cases he; exact h
  · split at he
    · rename_i hnone
      cases he
      apply nodup_append_rec st _ h
      intro m hm
      have hnot := findIdx_none_not_mem st.lines n hnone
      by_cases hs : n = "*"
      · subst hs; rw [virtSeg_name_star] at hm; cases hm
      · rw [virtSeg_name _ _ hs] at hm; cases hm; exact hnot
    · rename_i i hsome
      split at he
      · cases he
        obtain ⟨hi, hp⟩ := findIdx_some_lt _ _ _ hsome
        have hp' : (st.lines.getD i default).name = some n := by simpa using hp
        have hne : n ≠ "*" := by
          intro hs; subst hs
          simp only [Rec.name] at hp'
          split at hp' <;> simp_all
        unfold NoDup at *
        rw [names_eq] at *
        simp only []
        rw [namesOf_set_same _ _ _ (by rw [hp', virtSeg_name _ _ hne]) hi]
        exact h
      · cases he

theorem ensureSegs_nodup (ns : List String) : ∀ (st st' : St), NoDup st → ensureSegs st ns = .ok st' → NoDup st' := by
  induction ns with
  | nil => intro st st' h he; simp [ensureSegs] at he; cases he; exact h
  | cons n ns ih =>
    intro st st' h he
    simp only [ensureSegs] at he
    cases h1 : ensureSeg st n with
    | error e => simp [h1, Except.bind] at he
    | ok st1 =>
      simp only [h1, Except.bind] at he
      exact ih st1 st' (ensureSeg_nodup st st1 n h h1) he

theorem ensureItems_nodup (ns : List String) : ∀ (st : St), NoDup st → NoDup (ensureItems st ns) := by
  induction ns with
  | nil => intro st h; exact h
  | cons n ns ih =>
    intro st h
    simp only [ensureItems]
    split
    · exact ih st h
    · rename_i hn
      apply ih
      apply nodup_append_rec st _ h
      intro m hm
      rw [virtUnk_name] at hm
      split at hm
      · cases hm
      · cases hm
        intro hin
        exact hn ((hasName_iff st _).mpr hin)

theorem ensureLinks_nodup (ls : List Link) : ∀ (st st' : St), NoDup st → ensureLinks st ls = .ok st' → NoDup st' := by
  induction ls with
  | nil => intro st st' h he; simp [ensureLinks] at he; cases he; exact h
  | cons l ls ih =>
    intro st st' h he
    simp only [ensureLinks] at he
    cases h1 : ensureSegs st [l.frm, l.to] with
    | error e => simp [h1, Except.bind] at he
    | ok st1 =>
      simp only [h1, Except.bind] at he
      have hn1 := ensureSegs_nodup _ st st1 h h1
      split at he
      · exact ih st1 st' hn1 he
      · apply ih _ st' _ he
        apply nodup_append_rec st1 _ hn1
        intro m hm; rw [virtLink_name] at hm; cases hm

theorem ensureRefs_nodup (st st' : St) (r : Rec) (h : NoDup st) (he : ensureRefs st r = .ok st') : NoDup st' := by
  unfold ensureRefs at he
  cases h1 : ensureSegs st r.segRefs with
  | error e => simp [h1, Except.bind] at he
  | ok st1 =>
    simp only [h1, Except.bind] at he
    have hn1 := ensureSegs_nodup _ st st1 h h1
    split at he
    · cases h2 : ensureLinks st1 r.pathSteps with
      | error e => simp [h2, Except.map] at he
      | ok st2 =>
        simp only [h2, Except.map] at he
        cases he
        exact ensureItems_nodup _ st2 (ensureLinks_nodup _ st1 st2 hn1 h2)
    · simp only [Except.map] at he
      cases he
      exact ensureItems_nodup _ st1 hn1

theorem register_nodup (st st' : St) (r : Rec) (h : NoDup st) (he : register st r = .ok st') : NoDup st' := by
  unfold register at he
  cases h1 : ensureRefs st r with
  | error e => simp [h1, Except.bind] at he
  | ok st1 =>
    simp only [h1, Except.bind] at he
    have hn1 := ensureRefs_nodup st st1 r h h1
    split at he
    · rename_i n hn
      split at he
      · cases he
      · rename_i hfree
        cases he
        apply nodup_append_rec st1 _ hn1
        intro m hm
        rw [hn] at hm; cases hm
        intro hin; exact hfree ((hasName_iff st1 _).mpr hin)
    · rename_i hn
      cases he
      apply nodup_append_rec st1 _ hn1
      intro m hm; rw [hn] at hm; cases hm

end Gfa.C09
