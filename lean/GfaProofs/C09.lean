import GfaProofs.Lemmas.Graph
/-!
# C09 — identifiers are unique; lookup and renaming stay coherent

`NoDup st`: the identified lines of the model Gfa (segments, paths, sets, gaps, edges, ID-tagged
links/containments, placeholders) carry pairwise distinct identifiers.  It holds of the empty Gfa and is
preserved by every operation, whether it succeeds or raises — hence of every reachable state.
-/
namespace Gfa.C09
open G

def NoDup (st : St) : Prop := (names st).Nodup

theorem nodup_empty (v : Ver) : NoDup (St.empty v) := by simp [NoDup, names, St.empty]

theorem virtSeg_name (v : Ver) (n : String) (h : n ≠ "*") : (virtSeg v n).name = some n := by
  cases v <;> simp [virtSeg, Rec.name, fld, h]

theorem virtSeg_name_star (v : Ver) : (virtSeg v "*").name = none := by
  cases v <;> simp [virtSeg, Rec.name, fld]

theorem virtUnk_name (n : String) : (virtUnk n).name = if n = "*" then none else some n := by
  simp [virtUnk, Rec.name, fld]

theorem virtLink_name (l : Link) : (virtLink l).name = none := by
  simp [virtLink, Rec.name, idTag]

theorem nodup_append_rec (st : St) (r : Rec) (h : NoDup st) (hr : ∀ n, r.name = some n → n ∉ names st) :
    NoDup { st with lines := st.lines ++ [r] } := by
  unfold NoDup at *
  rw [names_eq] at *
  simp only [namesOf_append]
  cases hn : r.name with
  | none => rw [namesOf_single_none r hn]; simpa using h
  | some n =>
    rw [namesOf_single_some r n hn]
    rw [List.nodup_append]
    refine ⟨h, by simp, ?_⟩
    intro a ha b hb
    simp at hb; subst hb
    intro hab; subst hab
    exact hr a hn ha

theorem ensureSeg_nodup (st st' : St) (n : String) (h : NoDup st) (he : ensureSeg st n = .ok st') : NoDup st' := by
  unfold ensureSeg at he
  split at he
  · cases he
  split at he
  · cases he; exact h
  · split at he
    · rename_i hnone
      cases he
      apply nodup_append_rec st _ h
      intro m hm
      have hnot := findIdx_none_not_mem st.lines n hnone
      by_cases hs : n = "*"
      · subst hs; rw [virtSeg_name_star] at hm; cases hm
      · rw [virtSeg_name _ _ hs] at hm; cases hm; exact hnot
    · rename_i i hsome
      split at he
      · cases he
        obtain ⟨hi, hp⟩ := findIdx_some_lt _ _ _ hsome
        have hp' : (st.lines.getD i default).name = some n := by simpa using hp
        have hne : n ≠ "*" := by
          intro hs; subst hs
          simp only [Rec.name] at hp'
          split at hp' <;> simp_all
        unfold NoDup at *
        rw [names_eq] at *
        simp only []
        rw [namesOf_set_same _ _ _ (by rw [hp', virtSeg_name _ _ hne]) hi]
        exact h
      · cases he

theorem ensureSegs_nodup (ns : List String) : ∀ (st st' : St), NoDup st → ensureSegs st ns = .ok st' → NoDup st' := by
  induction ns with
  | nil => intro st st' h he; simp [ensureSegs] at he; cases he; exact h
  | cons n ns ih =>
    intro st st' h he
    simp only [ensureSegs] at he
    cases h1 : ensureSeg st n with
    | error e => simp [h1, Except.bind] at he
    | ok st1 =>
      simp only [h1, Except.bind] at he
      exact ih st1 st' (ensureSeg_nodup st st1 n h h1) he

theorem ensureItems_nodup (ns : List String) : ∀ (st : St), NoDup st → NoDup (ensureItems st ns) := by
  induction ns with
  | nil => intro st h; exact h
  | cons n ns ih =>
    intro st h
    simp only [ensureItems]
    split
    · exact ih st h
    · rename_i hn
      apply ih
      apply nodup_append_rec st _ h
      intro m hm
      rw [virtUnk_name] at hm
      split at hm
      · cases hm
      · cases hm
        intro hin
        exact hn ((hasName_iff st _).mpr hin)

theorem set4_name (q : Rec) (v : String) (h : q.rt = .L) : ({ q with fields := q.fields.set 4 v } : Rec).name = q.name := by
  unfold Rec.name
  simp only [h, List.drop_set_of_lt (show 4 < 5 by decide)]

theorem adoptOverlap_name (s : Link) (q : Rec) : (adoptOverlap s q).name = q.name := by
  unfold adoptOverlap
  split
  · rename_i k hk
    split
    · exact set4_name q _ (by
        unfold Rec.linkOf at hk
        split at hk
        · rename_i hrt; exact hrt
        · cases hk)
    · rfl
  · rfl

/-- replacing a record by one with the same identifier leaves the list of identifiers as it was -/
theorem namesOf_set (ls : List Rec) (i : Nat) (r : Rec) (hi : i < ls.length) (hr : r.name = (ls.getD i default).name) :
    namesOf (ls.set i r) = namesOf ls := by
  induction ls generalizing i with
  | nil => simp at hi
  | cons x xs ih =>
    cases i with
    | zero => simp [namesOf, List.filterMap_cons] at hr ⊢; rw [hr]
    | succ j =>
      simp only [List.set_cons_succ, namesOf, List.filterMap_cons]
      have := ih j (by simpa using hi) (by simpa using hr)
      simp only [namesOf] at this
      rw [this]

theorem ensureLinks_nodup (ls : List Link) : ∀ (st st' : St), NoDup st → ensureLinks st ls = .ok st' → NoDup st' := by
  induction ls with
  | nil => intro st st' h he; simp [ensureLinks] at he; cases he; exact h
  | cons l ls ih =>
    intro st st' h he
    simp only [ensureLinks] at he
    cases h1 : ensureSegs st [l.frm, l.to] with
    | error e => simp [h1, Except.bind] at he
    | ok st1 =>
      simp only [h1, Except.bind] at he
      have hn1 := ensureSegs_nodup _ st st1 h h1
      split at he
      · rename_i i hfound
        apply ih _ st' _ he
        -- a placeholder link that adopts an overlap keeps (having none) its identifier
        unfold NoDup at *
        rw [names_eq] at *
        simp only []
        have hi : i < st1.lines.length := (findIdx_some_lt _ _ _ hfound).1
        rw [namesOf_set _ _ _ hi (adoptOverlap_name l _)]
        exact hn1
      · apply ih _ st' _ he
        apply nodup_append_rec st1 _ hn1
        intro m hm; rw [virtLink_name] at hm; cases hm

theorem ensureRefs_nodup (st st' : St) (r : Rec) (h : NoDup st) (he : ensureRefs st r = .ok st') : NoDup st' := by
  unfold ensureRefs at he
  cases h1 : ensureSegs st r.segRefs with
  | error e => simp [h1, Except.bind] at he
  | ok st1 =>
    simp only [h1, Except.bind] at he
    have hn1 := ensureSegs_nodup _ st st1 h h1
    split at he
    · cases h2 : ensureLinks st1 r.pathSteps with
      | error e => simp [h2, Except.map] at he
      | ok st2 =>
        simp only [h2, Except.map] at he
        cases he
        exact ensureItems_nodup _ st2 (ensureLinks_nodup _ st1 st2 hn1 h2)
    · simp only [Except.map] at he
      cases he
      exact ensureItems_nodup _ st1 hn1

theorem register_nodup (st st' : St) (r : Rec) (h : NoDup st) (he : register st r = .ok st') : NoDup st' := by
  unfold register at he
  cases h1 : ensureRefs st r with
  | error e => simp [h1, Except.bind] at he
  | ok st1 =>
    simp only [h1, Except.bind] at he
    have hn1 := ensureRefs_nodup st st1 r h h1
    split at he
    · rename_i n hn
      split at he
      · cases he
      · rename_i hfree
        cases he
        apply nodup_append_rec st1 _ hn1
        intro m hm
        rw [hn] at hm; cases hm
        intro hin; exact hfree ((hasName_iff st1 _).mpr hin)
    · rename_i hn
      cases he
      apply nodup_append_rec st1 _ hn1
      intro m hm; rw [hn] at hm; cases hm

end Gfa.C09

namespace Gfa.C09
open G

theorem substitute_nodup (st st' : St) (i : Nat) (r : Rec) (h : NoDup st) (hi : i < st.lines.length)
    (hr : ∀ n, r.name = some n → n ∉ names st ∨ (st.lines.getD i default).name = some n)
    (he : substitute st i r = .ok st') : NoDup st' := by
  unfold substitute at he
  apply ensureRefs_nodup _ st' r _ he
  unfold NoDup
  rw [names_eq]
  exact nodup_set st.lines i r h hi hr

theorem addLinkOnto_nodup (st st' : St) (r : Rec) (l : Link) (i : Nat) (h : NoDup st) (hi : i < st.lines.length)
    (he : addLinkOnto st r l i = .ok st') : NoDup st' := by
  unfold addLinkOnto at he
  split at he
  · split at he
    · rename_i hfree
      apply substitute_nodup st st' i r h hi _ he
      intro m hm
      left
      unfold nameFree at hfree
      rw [hm] at hfree
      intro hin
      have := (hasName_iff st m).mpr hin
      simp [this] at hfree
    · cases he
  · split at he
    · injection he with he; rw [← he]; exact h
    · cases he

theorem addLinkFresh_nodup (st st' : St) (r : Rec) (h : NoDup st) (he : addLinkFresh st r = .ok st') : NoDup st' := by
  unfold addLinkFresh at he
  split at he
  · exact register_nodup st st' r h he
  · rename_i n hn
    split at he
    · exact register_nodup st st' r h he
    · rename_i j hj
      obtain ⟨hjl, hjp⟩ := findIdx_some_lt _ _ _ hj
      split at he
      · apply substitute_nodup st st' j r h hjl _ he
        intro m hm; rw [hn] at hm; cases hm
        right; simpa using hjp
      · cases he

theorem name_group (r : Rec) (n : String) (hg : r.rt = .O ∨ r.rt = .U) (hn : r.name = some n) : fld r 0 = n ∧ n ≠ "*" := by
  rcases hg with ho | hu
  · simp only [Rec.name, ho] at hn; split at hn <;> simp_all
  · simp only [Rec.name, hu] at hn; split at hn <;> simp_all

theorem mergeGroup_nodup (st st' : St) (r : Rec) (n : String) (i : Nat) (h : NoDup st) (hi : i < st.lines.length)
    (hp : (st.lines.getD i default).name = some n) (hg : r.rt = .O ∨ r.rt = .U) (hn : r.name = some n)
    (he : mergeGroup st r n i = .ok st') : NoDup st' := by
  unfold mergeGroup at he
  split at he
  · cases he
  · rename_i tg _
    apply ensureRefs_nodup _ st' r _ he
    unfold NoDup
    rw [names_eq]
    apply nodup_set st.lines i _ h hi
    intro m hm
    right
    rw [hp]
    obtain ⟨_, hne⟩ := name_group r n hg hn
    rcases hg with ho | hu
    · simp only [Rec.name, ho, fld, List.cons_append, List.getD_cons_zero] at hm
      split at hm <;> simp_all
    · simp only [Rec.name, hu, fld, List.cons_append, List.getD_cons_zero] at hm
      split at hm <;> simp_all

theorem addOnto_nodup (st st' : St) (r : Rec) (n : String) (i : Nat) (h : NoDup st) (hi : i < st.lines.length)
    (hp : (st.lines.getD i default).name = some n) (hn : r.name = some n)
    (he : addOnto st r n i = .ok st') : NoDup st' := by
  unfold addOnto at he
  split at he
  · split at he
    · apply substitute_nodup st st' i r h hi _ he
      intro m hm; rw [hn] at hm; cases hm; right; exact hp
    · cases he
  · split at he
    · rename_i hgrp
      exact mergeGroup_nodup st st' r n i h hi hp hgrp.1 hn he
    · cases he

/-- **`add_line` keeps the identifiers pairwise distinct**, whatever the line and the state -/
theorem add_nodup (st st' : St) (r : Rec) (h : NoDup st) (he : add st r = .ok st') : NoDup st' := by
  unfold add at he
  split at he
  · cases he
  split at he
  · split at he <;> cases he
  split at he
  · cases he
  split at he
  · split at he
    · cases he
    · rename_i l _
      split at he
      · rename_i i hfound
        obtain ⟨hi, _⟩ := findIdx_some_lt _ _ _ hfound
        split at he
        · cases he
        · exact addLinkOnto_nodup st st' r l i h hi he
      · exact addLinkFresh_nodup st st' r h he
  · split at he
    · exact register_nodup st st' r h he
    · rename_i n hn
      split at he
      · exact register_nodup st st' r h he
      · rename_i i hfound
        obtain ⟨hi, hp⟩ := findIdx_some_lt _ _ _ hfound
        exact addOnto_nodup st st' r n i h hi (by simpa using hp) hn he

/-- **a line that mentions its own identifier is refused** (the placeholder for the mention would carry the same
    identifier), whatever the state -/
theorem add_selfref_raises (st : St) (r : Rec) (h1 : allowed st.ver r.rt = true)
    (h2 : ¬ (r.rt = .S ∧ segSyntax r ≠ some st.ver)) (h3 : selfRef r = true) : add st r = .error .notUnique := by
  unfold add
  simp [h1, h2, h3]

end Gfa.C09

namespace Gfa.C09
open G

theorem dropItems_name (gone : List String) (r : Rec) : (dropItems gone r).name = r.name := by
  unfold dropItems
  split
  · rename_i hu
    simp [Rec.name, hu, fld]
  · rfl

theorem kept_sublist (ls : List Rec) (dead : List Nat) :
    ((ls.zipIdx.filter (fun p => !dead.contains p.2)).map (·.1)).Sublist ls := by
  have h1 : (ls.zipIdx.filter (fun p => !dead.contains p.2)).Sublist ls.zipIdx := List.filter_sublist
  have h2 := h1.map (·.1)
  have h3 : ls.zipIdx.map (·.1) = ls := by
    simp [List.zipIdx_eq_zip_range', List.map_fst_zip]
  rw [h3] at h2
  exact h2

theorem rmCore_nodup (st : St) (seed : List Nat) (h : NoDup st) : NoDup (rmCore st seed) := by
  unfold NoDup rmCore at *
  rw [names_eq] at *
  simp only []
  have hmap : ∀ (ks : List Rec) (gone : List String), namesOf (ks.map (dropItems gone)) = namesOf ks := by
    intro ks gone
    simp only [namesOf, List.filterMap_map]
    congr 1
    funext r
    exact dropItems_name gone r
  rw [hmap]
  have hs := kept_sublist st.lines (cascade st seed)
  exact (hs.filterMap Rec.name).nodup h

theorem resetPlaceholder_name (lines : List Rec) (p : Rec × Nat) : (resetPlaceholder lines p).name = p.1.name := by
  unfold resetPlaceholder
  split
  · rename_i h
    simp only [Bool.and_eq_true, beq_iff_eq] at h
    exact set4_name p.1 _ h.1.1.2
  · rfl

theorem filterMap_congr0 {α β} (l : List α) (f g : α → Option β) (h : ∀ x ∈ l, f x = g x) :
    l.filterMap f = l.filterMap g := by
  induction l with
  | nil => rfl
  | cons x xs ih =>
    simp only [List.filterMap_cons, h x (by simp), ih (fun y hy => h y (by simp [hy]))]

theorem namesOf_zipIdx_map (ls : List Rec) (f : Rec × Nat → Rec) (hf : ∀ p, (f p).name = p.1.name) :
    namesOf (ls.zipIdx.map f) = namesOf ls := by
  have h3 : ls.zipIdx.map (·.1) = ls := by simp [List.zipIdx_eq_zip_range', List.map_fst_zip]
  conv => rhs; rw [← h3]
  simp only [namesOf, List.filterMap_map]
  apply filterMap_congr0
  intro p _
  simp [hf p]

theorem resetAll_nodup (st : St) (h : NoDup st) : NoDup (resetAll st) := by
  unfold NoDup resetAll at *
  rw [names_eq] at *
  simp only []
  rw [namesOf_zipIdx_map _ _ (resetPlaceholder_name st.lines)]
  exact h

/-- **removing lines keeps the identifiers distinct** -/
theorem rmIdx_nodup (st : St) (seed : List Nat) (h : NoDup st) : NoDup (rmIdx st seed) :=
  resetAll_nodup _ (rmCore_nodup st seed h)

theorem rm_nodup (st st' : St) (n : String) (h : NoDup st) (he : rm st n = .ok st') : NoDup st' := by
  unfold rm at he
  split at he
  · cases he
  · injection he with he; rw [← he]; exact rmIdx_nodup st _ h

end Gfa.C09

namespace Gfa.C09
open G

theorem idTag_map (b : String) (xs : List String) (n : String)
    (h : idTag (xs.map (fun t => if isIdTag t then "ID:Z:" ++ b else t)) = some n) : n = b := by
  unfold idTag at h
  rw [List.find?_map] at h
  cases hf : xs.find? (isIdTag ∘ fun t => if isIdTag t then "ID:Z:" ++ b else t) with
  | none => simp [hf] at h
  | some t =>
    simp only [hf, Option.map_some, Option.some.injEq] at h
    have hp := List.find?_some hf
    simp only [Function.comp] at hp
    by_cases ht : isIdTag t = true
    · simp only [ht, if_true] at h
      rw [← h]; simp
    · simp only [ht, Bool.false_eq_true, if_false] at hp

theorem drop_take_append_map {α} (k : Nat) (l : List α) (f : α → α) :
    (l.take k ++ (l.drop k).map f).drop k = (l.drop k).map f := by
  rcases Nat.le_total k l.length with h | h
  · rw [List.drop_append_of_le_length (by simp [h])]
    simp [List.drop_eq_nil_of_le, h]
  · simp [List.drop_eq_nil_of_le h, List.take_of_length_le h]

theorem setName_name (b : String) (r : Rec) (n : String) (h : (setName b r).name = some n) : n = b := by
  unfold setName at h
  cases hrt : r.rt <;> simp only [hrt, Rec.name, fld, List.getD_cons_zero] at h
  all_goals first
    | (have e5 : npos RT.L = 5 := rfl
       have e6 : npos RT.C = 6 := rfl
       first
         | (rw [← e5, drop_take_append_map] at h; exact idTag_map b _ n h)
         | (rw [← e6, drop_take_append_map] at h; exact idTag_map b _ n h))
    | (split at h <;> simp_all)
    | cases h
theorem filterMap_congr' {α β} (l : List α) (f g : α → Option β) (h : ∀ x ∈ l, f x = g x) :
    l.filterMap f = l.filterMap g := by
  induction l with
  | nil => rfl
  | cons x xs ih =>
    simp only [List.filterMap_cons, h x (by simp), ih (fun y hy => h y (by simp [hy]))]

theorem namesOf_rename (ls : List Rec) (i : Nat) (f : Rec → Rec) (g : Rec → Nat → Rec)
    (hg : ∀ r j, (g r j).name = r.name) (hi : i < ls.length) :
    namesOf (ls.zipIdx.map (fun p => if p.2 = i then f p.1 else g p.1 p.2)) =
      namesOf (ls.set i (f (ls.getD i default))) := by
  suffices h : ∀ (ls : List Rec) (k : Nat) (i : Nat), i < ls.length →
      namesOf ((ls.zipIdx k).map (fun p => if p.2 = i + k then f p.1 else g p.1 p.2)) =
        namesOf (ls.set i (f (ls.getD i default))) by
    simpa using h ls 0 i hi
  intro ls
  induction ls with
  | nil => intro k i hi; simp at hi
  | cons x xs ih =>
    intro k i hi
    cases i with
    | zero =>
      simp only [List.zipIdx_cons, List.map_cons, Nat.zero_add, if_true, List.set_cons_zero, List.getD_cons_zero]
      simp only [namesOf, List.filterMap_cons]
      have : List.filterMap Rec.name (List.map (fun p => if p.2 = k then f p.1 else g p.1 p.2) (xs.zipIdx (k + 1))) =
          List.filterMap Rec.name xs := by
        have hne : ∀ p ∈ xs.zipIdx (k + 1), ¬ p.2 = k := by
          intro p hp
          have := List.le_snd_of_mem_zipIdx hp
          omega
        rw [List.filterMap_map]
        conv => rhs; rw [← List.zipIdx_map_fst (k + 1) xs, List.filterMap_map]
        apply filterMap_congr'
        intro p hp
        simp [Function.comp, hne p hp, hg]
      rw [this]
    | succ j =>
      have hj : j < xs.length := by simpa using hi
      have hne : ¬ (k = j + 1 + k) := by omega
      simp only [List.zipIdx_cons, List.map_cons, hne, if_false, List.set_cons_succ, List.getD_cons_succ]
      simp only [namesOf, List.filterMap_cons, hg]
      have := ih (k + 1) j hj
      simp only [namesOf] at this
      have e : j + 1 + k = j + (k + 1) := by omega
      rw [e, this]

theorem renameOther_name (isSeg : Bool) (a b : String) (r : Rec) : (renameOther isSeg a b r).name = r.name := by
  unfold renameOther
  split
  · exact renameIn_name a b r
  · split <;> first | exact renameIn_name a b r | rfl

/-- **renaming keeps the identifiers pairwise distinct** -/
theorem rename_nodup (st st' : St) (a b : String) (h : NoDup st) (he : rename st a b = .ok st') : NoDup st' := by
  unfold rename at he
  split at he
  · cases he
  · rename_i i hfound
    obtain ⟨hi, _⟩ := findIdx_some_lt _ _ _ hfound
    split at he
    · injection he with he; rw [← he]; exact h
    · split at he
      · cases he
      · split at he
        · cases he
        · rename_i hfree
          injection he with he
          rw [← he]
          unfold NoDup
          rw [names_eq]
          simp only []
          rw [namesOf_rename st.lines i
            (fun r => setName b (renameOther (decide ((st.lines.getD i default).rt = .S)) a b r))
            (fun r _ => renameOther (decide ((st.lines.getD i default).rt = .S)) a b r)
            (fun r _ => renameOther_name _ a b r) hi]
          apply nodup_set st.lines i _ h hi
          intro n hn
          left
          have := setName_name b _ n hn
          subst this
          intro hin
          exact hfree ((hasName_iff st n).mpr hin)

end Gfa.C09

namespace Gfa.C09
open G

/-- public mutations of the model Gfa -/
inductive Op where
  | add (r : Rec)
  | rm (n : String)
  | rename (a b : String)

/-- one call: a failing call leaves the state as it was (C08) -/
def step (st : St) : Op → St
  | .add r => match add st r with | .ok s => s | .error _ => st
  | .rm n => match rm st n with | .ok s => s | .error _ => st
  | .rename a b => match rename st a b with | .ok s => s | .error _ => st

def run (v : Ver) (ops : List Op) : St := ops.foldl step (St.empty v)

theorem step_nodup (st : St) (op : Op) (h : NoDup st) : NoDup (step st op) := by
  cases op with
  | add r => simp only [step]; cases he : add st r with
    | ok s => exact add_nodup st s r h he
    | error e => exact h
  | rm n => simp only [step]; cases he : rm st n with
    | ok s => exact rm_nodup st s n h he
    | error e => exact h
  | rename a b => simp only [step]; cases he : rename st a b with
    | ok s => exact rename_nodup st s a b h he
    | error e => exact h

/-- **at all times the identified lines carry pairwise distinct identifiers**: for every history of
    additions, removals and renames — successful or refused — from the empty Gfa -/
theorem nodup_reachable (v : Ver) (ops : List Op) : NoDup (run v ops) := by
  unfold run
  suffices h : ∀ st, NoDup st → NoDup (ops.foldl step st) from h _ (nodup_empty v)
  induction ops with
  | nil => intro st h; exact h
  | cons op ops ih => intro st h; exact ih _ (step_nodup st op h)

/-- **lookup returns exactly the line that carries the identifier** -/
theorem lookup_sound (st : St) (n : String) (r : Rec) (h : findNamed st n = some r) : r ∈ st.lines ∧ r.name = some n := by
  unfold findNamed at h
  exact ⟨List.mem_of_find?_eq_some h, by simpa using List.find?_some h⟩

theorem lookup_none (st : St) (n : String) (h : findNamed st n = none) : ∀ r ∈ st.lines, r.name ≠ some n := by
  unfold findNamed at h
  intro r hr hn
  have := List.find?_eq_none.mp h r hr
  simp [hn] at this

theorem lookup_unique_aux (ls : List Rec) (n : String) (r : Rec) (hnd : (namesOf ls).Nodup) (hr : r ∈ ls)
    (hn : r.name = some n) : ls.find? (fun q => q.name = some n) = some r := by
  induction ls with
  | nil => cases hr
  | cons x xs ih =>
    simp only [List.find?_cons]
    by_cases hx : x.name = some n
    · simp only [hx, decide_true]
      rcases List.mem_cons.mp hr with rfl | hin
      · rfl
      · exfalso
        simp only [namesOf, List.filterMap_cons, hx, List.nodup_cons] at hnd
        apply hnd.1
        exact List.mem_filterMap.mpr ⟨r, hin, hn⟩
    · simp only [hx, decide_false]
      rcases List.mem_cons.mp hr with rfl | hin
      · exact absurd hn hx
      · apply ih _ hin
        simp only [namesOf, List.filterMap_cons] at hnd
        cases hxn : x.name with
        | none => simpa [namesOf, hxn] using hnd
        | some m => rw [hxn] at hnd; exact (List.nodup_cons.mp hnd).2

/-- … and every identified line is found under its identifier (no line is shadowed by another) -/
theorem lookup_complete (st : St) (h : NoDup st) (r : Rec) (n : String) (hr : r ∈ st.lines) (hn : r.name = some n) :
    findNamed st n = some r :=
  lookup_unique_aux st.lines n r h hr hn

/-- **renaming to an identifier in use raises NotUniqueError** and changes nothing -/
theorem rename_dup_raises (st : St) (a b : String) (i : Nat)
    (ha : st.lines.findIdx? (fun q => q.name = some a) = some i) (hab : a ≠ b) (hb : b ≠ "*") (hin : hasName st b = true) :
    rename st a b = .error .notUnique := by
  simp [rename, ha, hab, hb, hin]

/-- **adding a line whose identifier is carried by a real line of another kind raises NotUniqueError** -/
theorem add_dup_raises (st : St) (r : Rec) (n : String) (i : Nat)
    (hreal : (st.lines.getD i default).virt = false)
    (hnomerge : ¬ ((r.rt = .O ∨ r.rt = .U) ∧ (st.lines.getD i default).rt = r.rt)) :
    addOnto st r n i = .error .notUnique := by
  unfold addOnto
  rw [if_neg (by rw [hreal]; decide), if_neg hnomerge]

/-- the documented merge: a link equal to the complement of the stored one changes nothing and raises nothing -/
theorem add_complement_noop (st : St) (r : Rec) (l : Link) (i : Nat)
    (hreal : (st.lines.getD i default).virt = false) (hc : complOfStored st l i = true) :
    addLinkOnto st r l i = .ok st := by
  unfold addLinkOnto
  rw [if_neg (by rw [hreal]; simp), if_pos hc]

/-- … but not when the new link carries an identifier that another real line carries: the ID tag is looked up first,
    the clash is reported whatever stored link the new one is compatible with (or the complement of) -/
theorem link_id_clash_characterised (st : St) (r : Rec) (i : Nat) :
    nameTakenElsewhere st r i = true ↔
      ∃ n j, r.name = some n ∧ st.lines.findIdx? (fun q => q.name = some n) = some j ∧ j ≠ i ∧
        (st.lines.getD j default).virt = false := by
  unfold nameTakenElsewhere
  constructor
  · intro h
    split at h
    · cases h
    · rename_i n hn
      split at h
      · rename_i j hj
        simp only [Bool.and_eq_true, bne_iff_ne, ne_eq, Bool.not_eq_true'] at h
        exact ⟨n, j, hn, hj, h.1, h.2⟩
      · cases h
  · rintro ⟨n, j, hn, hj, hji, hv⟩
    rw [hn]
    simp only [hj, Bool.and_eq_true, bne_iff_ne, ne_eq, Bool.not_eq_true']
    exact ⟨hji, hv⟩

-- non-vacuity: a forward reference creates a placeholder segment, the definition replaces it
example : (run .gfa1 [.add ⟨.L, ["A", "+", "B", "-", "*"], false⟩, .add ⟨.S, ["A", "*"], false⟩]).lines.length = 3 := by
  decide

end Gfa.C09
