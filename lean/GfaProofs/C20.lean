import GfaModel.Field
import GfaProofs.Lemmas.RegexLang
import GfaProofs.Lemmas.Digits
/-!
# C20 — tag values set through the API are written and read back unchanged

`Field.encode` / `Field.decode` / `Field.accept` model gfapy's per-datatype `encode`, safe `decode`
and `validate_encoded`.  `f` and `J` payloads are opaque (Python's float formatting and JSON codec
are outside the model): the theorems cover `i`, `Z`, `A`, `H` and integer `B` arrays.
-/
namespace Gfa.C20
open RE Field

theorem inRanges_digit (c : Char) : inRanges [('0', '9')] c = isDigit c := by
  simp [inRanges, isDigit]

theorem lang_digits (ds : List Char) (h : allDigits ds = true) : Lang (plus Grammar.digit) ds := by
  unfold Grammar.digit
  rw [lang_plus_cls]
  simp only [allDigits, Bool.and_eq_true, Bool.not_eq_true', List.all_eq_true] at h
  refine ⟨by intro h0; simp [h0] at h, ?_⟩
  intro c hc; rw [inRanges_digit]; exact h.2 c hc

theorem lang_digits_iff (ds : List Char) : Lang (plus Grammar.digit) ds ↔ allDigits ds = true := by
  constructor
  · intro h
    unfold Grammar.digit at h
    rw [lang_plus_cls] at h
    simp only [allDigits, Bool.and_eq_true, Bool.not_eq_true', List.all_eq_true]
    refine ⟨by cases ds <;> simp_all, ?_⟩
    intro c hc; rw [← inRanges_digit]; exact h.2 c hc
  · exact lang_digits ds

/-- the written form of an integer is in the grammar of `i` -/
theorem accept_intStr (i : Int) : accept .i (intStr i) = true := by
  have hside : sideOk .i (intStr i) = true := rfl
  simp only [accept, hside, Bool.and_true, Grammar.re]
  rw [accepts_iff]
  unfold Grammar.int
  rw [lang_seq]
  cases i with
  | ofNat n =>
    exact ⟨[], digitsOf n, rfl, (lang_opt _ _).mpr (Or.inl rfl), lang_digits _ (allDigits_digitsOf n)⟩
  | negSucc n =>
    refine ⟨['-'], digitsOf (n + 1), rfl, (lang_opt _ _).mpr (Or.inr ?_), lang_digits _ (allDigits_digitsOf _)⟩
    exact Lang.cls (by decide)

/-- **i**: every integer is written in the grammar of its datatype and read back equal. -/
theorem int_roundtrip (i : Int) :
    ∃ s, encode (.int i) = some s ∧ accept .i s = true ∧ decode 'i' s = some (.int i) := by
  refine ⟨intStr i, rfl, accept_intStr i, ?_⟩
  simp [decode, accept_intStr, intOf?_intStr]

/-- C04 direction for `i`: the strings the validator accepts are exactly those the converter can read
    (`int()` adds nothing beyond the regular expression, and the regular expression forbids nothing
    `[-+]?[0-9]+` allows). -/
theorem int_accept_iff (s : List Char) : accept .i s = true ↔ (intOf? s).isSome = true := by
  have hside : sideOk .i s = true := rfl
  simp only [accept, hside, Bool.and_true, Grammar.re]
  rw [accepts_iff]
  unfold Grammar.int
  rw [lang_seq]
  constructor
  · rintro ⟨s1, s2, rfl, h1, h2⟩
    rw [lang_digits_iff] at h2
    rcases (lang_opt _ _).mp h1 with rfl | h1
    · cases s2 with
      | nil => simp [allDigits] at h2
      | cons c cs =>
        have hc : isDigit c = true := by
          simp only [allDigits, List.all_cons, Bool.and_eq_true] at h2; exact h2.2.1
        have h3 : c ≠ '-' ∧ c ≠ '+' := by constructor <;> (rintro rfl; revert hc; decide)
        simp only [List.nil_append]
        unfold intOf?
        split
        · simp_all
        · simp_all
        · simp [h2]
    · obtain ⟨c, rfl, hc⟩ := (lang_cls _ _).mp h1
      have : c = '+' ∨ c = '-' := by
        simp only [Grammar.sign, inRanges, List.any_cons, List.any_nil, Bool.or_false, Bool.or_eq_true,
          Bool.and_eq_true, decide_eq_true_eq] at hc
        rcases hc with ⟨h1, h2⟩ | ⟨h1, h2⟩
        · exact Or.inl (Char.le_antisymm h2 h1)
        · exact Or.inr (Char.le_antisymm h2 h1)
      rcases this with rfl | rfl <;> simp [intOf?, h2]
  · intro h
    unfold intOf? at h
    split at h
    · rename_i ds
      split at h
      · rename_i hd
        exact ⟨['-'], ds, rfl, (lang_opt _ _).mpr (Or.inr (Lang.cls (by decide))), lang_digits _ hd⟩
      · simp at h
    · rename_i ds
      split at h
      · rename_i hd
        exact ⟨['+'], ds, rfl, (lang_opt _ _).mpr (Or.inr (Lang.cls (by decide))), lang_digits _ hd⟩
      · simp at h
    · split at h
      · rename_i hd
        exact ⟨[], s, rfl, (lang_opt _ _).mpr (Or.inl rfl), lang_digits _ hd⟩
      · simp at h

/-- **Z**: a string is representable iff it is non-empty printable text; then it round-trips verbatim. -/
theorem accept_Z_iff (s : List Char) : accept .Z s = (!s.isEmpty && s.all isPrintableSp) := by
  have hside : sideOk .Z s = true := rfl
  simp only [accept, hside, Bool.and_true, Grammar.re, Grammar.printableSp, accepts_plus_cls]
  congr 1
  apply List.all_congr rfl
  intro c; simp [inRanges, isPrintableSp]

theorem str_roundtrip (s : List Char) (h : (!s.isEmpty && s.all isPrintableSp) = true) :
    ∃ t, encode (.str s) = some t ∧ accept .Z t = true ∧ decode 'Z' t = some (.str s) := by
  refine ⟨s, by simp [encode, h], by rw [accept_Z_iff]; exact h, ?_⟩
  simp [decode, accept_Z_iff, h]

/-- a string with a tab, newline or non-printable character is refused by `encode` (no malformed text) -/
theorem str_unrepresentable (s : List Char) (h : (!s.isEmpty && s.all isPrintableSp) = false) :
    encode (.str s) = none := by
  simp [encode, h]

/-- **A** -/
theorem chr_roundtrip (c : Char) (h : isPrintable c = true) :
    ∃ t, encode (.chr c) = some t ∧ accept .A t = true ∧ decode 'A' t = some (.chr c) := by
  have ha : accept .A [c] = true := by
    have hside : sideOk .A [c] = true := rfl
    simp only [accept, hside, Bool.and_true, Grammar.re, Grammar.printable]
    rw [accepts_cls]
    exact ⟨c, rfl, by simpa [inRanges, isPrintable] using h⟩
  exact ⟨[c], by simp [encode, h], ha, by simp [decode, ha]⟩

-- ---------------------------------------------------------------- H
theorem hexVal_hexDigit (n : Nat) (h : n < 16) : hexVal (hexDigit n) = n := by
  have : n = 0 ∨ n = 1 ∨ n = 2 ∨ n = 3 ∨ n = 4 ∨ n = 5 ∨ n = 6 ∨ n = 7 ∨ n = 8 ∨ n = 9 ∨ n = 10 ∨
      n = 11 ∨ n = 12 ∨ n = 13 ∨ n = 14 ∨ n = 15 := by omega
  rcases this with h|h|h|h|h|h|h|h|h|h|h|h|h|h|h|h <;> subst h <;> decide

theorem isHex_hexDigit (n : Nat) (h : n < 16) : isHex (hexDigit n) = true := by
  have : n = 0 ∨ n = 1 ∨ n = 2 ∨ n = 3 ∨ n = 4 ∨ n = 5 ∨ n = 6 ∨ n = 7 ∨ n = 8 ∨ n = 9 ∨ n = 10 ∨
      n = 11 ∨ n = 12 ∨ n = 13 ∨ n = 14 ∨ n = 15 := by omega
  rcases this with h|h|h|h|h|h|h|h|h|h|h|h|h|h|h|h <;> subst h <;> decide

theorem unhex_hexOf (bs : List Nat) (h : ∀ b ∈ bs, b < 256) : unhex (hexOf bs) = some bs := by
  induction bs with
  | nil => rfl
  | cons b bs ih =>
    have hb : b < 256 := h b (by simp)
    have h1 : b / 16 < 16 := by omega
    have h2 : b % 16 < 16 := by omega
    simp only [hexOf, unhex, isHex_hexDigit _ h1, isHex_hexDigit _ h2, Bool.and_self, if_true,
      hexVal_hexDigit _ h1, hexVal_hexDigit _ h2, ih (fun x hx => h x (by simp [hx]))]
    simp; omega

theorem hexOf_length (bs : List Nat) : (hexOf bs).length = 2 * bs.length := by
  induction bs with
  | nil => rfl
  | cons b bs ih => simp [hexOf, ih]; omega

theorem hexOf_all (bs : List Nat) (h : ∀ b ∈ bs, b < 256) : ∀ c ∈ hexOf bs, isHex c = true := by
  induction bs with
  | nil => intro c hc; cases hc
  | cons b bs ih =>
    intro c hc
    have hb : b < 256 := h b (by simp)
    simp only [hexOf, List.mem_cons] at hc
    rcases hc with rfl | rfl | hc
    · exact isHex_hexDigit _ (by omega)
    · exact isHex_hexDigit _ (by omega)
    · exact ih (fun x hx => h x (by simp [hx])) c hc

theorem accept_hexOf (bs : List Nat) (hne : bs ≠ []) (h : ∀ b ∈ bs, b < 256) : accept .H (hexOf bs) = true := by
  have hside : sideOk .H (hexOf bs) = true := by simp [sideOk, hexOf_length]
  simp only [accept, hside, Bool.and_true, Grammar.re, Grammar.hexdig, accepts_plus_cls]
  simp only [Bool.and_eq_true, Bool.not_eq_true', List.all_eq_true]
  constructor
  · cases bs with
    | nil => exact absurd rfl hne
    | cons b bs => rfl
  · intro c hc
    have := hexOf_all bs h c hc
    simpa [inRanges, isHex] using this

/-- **H**: a non-empty byte array is written as upper-case hex of even length and read back equal. -/
theorem bytes_roundtrip (bs : List Nat) (hne : bs ≠ []) (h : ∀ b ∈ bs, b < 256) :
    ∃ t, encode (.bytes bs) = some t ∧ accept .H t = true ∧ decode 'H' t = some (.bytes bs) := by
  have hall : bs.all (· < 256) = true := by simpa using h
  have hemp : bs.isEmpty = false := by cases bs <;> simp_all
  refine ⟨hexOf bs, by simp [encode, hall, hemp], accept_hexOf bs hne h, ?_⟩
  simp [decode, accept_hexOf bs hne h, unhex_hexOf bs h]

/-- the empty byte array cannot be represented and is refused -/
theorem bytes_empty_refused : encode (.bytes []) = none := rfl

/-- an odd-length hex string is not accepted -/
theorem hex_odd_rejected (s : List Char) (h : s.length % 2 = 1) : accept .H s = false := by
  simp [accept, sideOk, h]

-- ---------------------------------------------------------------- B
/-- the subtype chosen by `integer_type` holds the whole range … -/
theorem integerType_sound (lo hi : Int) (st : Char) (h : integerType lo hi = some st) :
    ∃ a b, subtypeRange st = some (a, b) ∧ a ≤ lo ∧ hi < b := by
  unfold integerType at h
  split at h
  · split at h
    · cases h; exact ⟨_, _, rfl, by omega, by omega⟩
    · split at h
      · cases h; exact ⟨_, _, rfl, by omega, by omega⟩
      · split at h
        · cases h; exact ⟨_, _, rfl, by omega, by omega⟩
        · cases h
  · split at h
    · cases h; exact ⟨_, _, rfl, by omega, by omega⟩
    · split at h
      · cases h; exact ⟨_, _, rfl, by omega, by omega⟩
      · split at h
        · cases h; exact ⟨_, _, rfl, by omega, by omega⟩
        · cases h

/-- … signed iff some element is negative … -/
theorem integerType_signedness (lo hi : Int) (st : Char) (h : integerType lo hi = some st) :
    (lo < 0 → st ∈ ['c', 's', 'i']) ∧ (0 ≤ lo → st ∈ ['C', 'S', 'I']) := by
  unfold integerType at h
  constructor <;> intro hl <;> (repeat' split at h) <;> first | omega | (cases h; simp) | cases h

def subtypeWidth : Char → Nat
  | 'c' => 8 | 'C' => 8 | 's' => 16 | 'S' => 16 | 'i' => 32 | 'I' => 32 | _ => 0

/-- … and no narrower subtype of the same signedness could hold it (minimality). -/
theorem integerType_minimal (lo hi : Int) (_hle : lo ≤ hi) (st st' : Char) (h : integerType lo hi = some st)
    (hs : (lo < 0 ∧ st' ∈ ['c', 's', 'i']) ∨ (0 ≤ lo ∧ st' ∈ ['C', 'S', 'I']))
    (a b : Int) (hr : subtypeRange st' = some (a, b)) (hfit : a ≤ lo ∧ hi < b) :
    subtypeWidth st ≤ subtypeWidth st' := by
  unfold integerType at h
  rcases hs with ⟨hl, hm⟩ | ⟨hl, hm⟩ <;> simp only [List.mem_cons, List.mem_nil_iff, or_false] at hm <;>
    rcases hm with rfl | rfl | rfl <;> simp only [subtypeRange, Option.some.injEq, Prod.mk.injEq] at hr <;>
    obtain ⟨rfl, rfl⟩ := hr <;> (repeat' split at h) <;>
    first | omega | (cases h; decide) | cases h

/-- out-of-range contents are rejected: `integer_type` fails exactly when no subtype fits -/
theorem integerType_none_iff (lo hi : Int) (_hle : lo ≤ hi) :
    integerType lo hi = none ↔ (lo < -2147483648 ∨ (lo < 0 ∧ 2147483648 ≤ hi) ∨ 4294967296 ≤ hi) := by
  unfold integerType
  constructor
  · intro h; (repeat' split at h) <;> first | omega | cases h
  · intro h; repeat' split
    all_goals first | rfl | omega

theorem listMin_le (xs : List Int) (x : Int) (h : x ∈ xs) : listMin xs ≤ x := by
  induction xs with
  | nil => cases h
  | cons y ys ih =>
    cases ys with
    | nil => simp at h; subst h; simp [listMin]
    | cons z zs =>
      simp only [listMin]
      rcases List.mem_cons.mp h with rfl | h'
      · omega
      · have := ih h'; omega

theorem le_listMax (xs : List Int) (x : Int) (h : x ∈ xs) : x ≤ listMax xs := by
  induction xs with
  | nil => cases h
  | cons y ys ih =>
    cases ys with
    | nil => simp at h; subst h; simp [listMax]
    | cons z zs =>
      simp only [listMax]
      rcases List.mem_cons.mp h with rfl | h'
      · omega
      · have := ih h'; omega

/-- **B**: the written array starts with a subtype whose range contains *every* element. -/
theorem numarr_subtype_holds_all (xs : List Int) (st : Char) (h : computeSubtype xs = some st) :
    ∃ a b, subtypeRange st = some (a, b) ∧ ∀ x ∈ xs, a ≤ x ∧ x < b := by
  obtain ⟨a, b, hr, h1, h2⟩ := integerType_sound _ _ _ h
  refine ⟨a, b, hr, ?_⟩
  intro x hx
  have := listMin_le xs x hx
  have := le_listMax xs x hx
  omega

/-- an array with an element outside [−2³¹, 2³²) is refused by `encode` -/
theorem numarr_range_rejected (xs : List Int) (x : Int) (hx : x ∈ xs)
    (hout : x < -2147483648 ∨ 4294967296 ≤ x) : encode (.intArr xs) = none := by
  have h1 := listMin_le xs x hx
  have h2 := le_listMax xs x hx
  have hle : listMin xs ≤ listMax xs := by omega
  have : computeSubtype xs = none := by
    unfold computeSubtype
    rw [integerType_none_iff _ _ hle]; omega
  simp only [encode, this]
  split <;> rfl

-- non-vacuity / boundary instances
example : computeSubtype [0, 255] = some 'C' ∧ computeSubtype [0, 256] = some 'S' ∧
    computeSubtype [-128, 127] = some 'c' ∧ computeSubtype [-129, 0] = some 's' ∧
    computeSubtype [-1, 2147483648] = none ∧ computeSubtype [4294967295] = some 'I' := by decide

end Gfa.C20
