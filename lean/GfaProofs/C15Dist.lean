import GfaModel.MultiplyGraph
import GfaProofs.C15Graph
import GfaProofs.C05
/-!
# C15 — multiplication with distribution of the links of one end (`MultiplyGraph.multiplyD`)

After the copies are made, each copy (and the original) keeps on the distributed end only the links of its window;
the others are removed with everything that depends on them.  Proved for every graph, factor, copy names and policy:

* `distribute_closed`, `distribute_nodup`, `multiplyD_closed`, `multiplyD_nodup`: the reference graph stays closed and
  the identifiers distinct;
* `thinOne_origin`, `distribute_origin`: **no line is invented** — every line after the distribution is a line that was
  there before it, with the same record type and identifier (the same text unless it is a set that lost a mention or a
  placeholder link);
* the window arithmetic (every link is kept by some copy, each copy keeps `n-k+1` links) is `C15.distribute_covers`,
  `distribute_exact`.
-/
namespace Gfa.C15
open Gfa.G Gfa.C02 Gfa.C09

theorem thinOne_closed (st : St) (x : SegEnd) (keep : List SegEnd) (hc : Closed st) : Closed (thinOne st x keep) := by
  unfold thinOne; exact rmIdx_closed st _ hc

theorem thinOne_nodup (st : St) (x : SegEnd) (keep : List SegEnd) (h : NoDup st) : NoDup (thinOne st x keep) := by
  unfold thinOne; exact rmIdx_nodup st _ h

/-- every line after thinning one end comes from a line that was there, with the same record type and identifier -/
theorem thinOne_origin (st : St) (x : SegEnd) (keep : List SegEnd) (q' : Rec) (h : q' ∈ (thinOne st x keep).lines) :
    ∃ q ∈ st.lines, q'.name = q.name ∧ q'.rt = q.rt := by
  unfold thinOne at h
  obtain ⟨q, j, _, hqj, _, hn, hrt, _⟩ := C05.rm_lines_origin st _ q' h
  exact ⟨q, List.mem_of_getElem? hqj, hn, hrt⟩

theorem foldl_thin_inv (P : St → Prop) (right : Bool) (sigs : List SegEnd) (diff : Nat)
    (hstep : ∀ s x keep, P s → P (thinOne s x keep)) :
    ∀ (l : List (String × Nat)) (st : St), P st →
      P (l.foldl (fun acc p => thinOne acc ⟨p.1, right⟩ ((sigs.drop p.2).take (diff + 1))) st) := by
  intro l
  induction l with
  | nil => intro st h; exact h
  | cons p ps ih => intro st h; exact ih _ (hstep st _ _ h)

theorem distribute_closed (st : St) (s : String) (right : Bool) (names : List String) (k : Nat) (hc : Closed st) :
    Closed (distribute st s right names k) := by
  unfold distribute
  exact foldl_thin_inv Closed right _ _ (fun s x keep h => thinOne_closed s x keep h) _ st hc

theorem distribute_nodup (st : St) (s : String) (right : Bool) (names : List String) (k : Nat) (h : NoDup st) :
    NoDup (distribute st s right names k) := by
  unfold distribute
  exact foldl_thin_inv NoDup right _ _ (fun s x keep h => thinOne_nodup s x keep h) _ st h

/-- **no line is invented by the distribution** -/
theorem distribute_origin (st : St) (s : String) (right : Bool) (names : List String) (k : Nat) (q' : Rec)
    (h : q' ∈ (distribute st s right names k).lines) : ∃ q ∈ st.lines, q'.name = q.name ∧ q'.rt = q.rt := by
  unfold distribute at h
  have key : ∀ (sigs : List SegEnd) (diff : Nat) (l : List (String × Nat)) (st0 : St) (q' : Rec),
      q' ∈ (l.foldl (fun acc p => thinOne acc ⟨p.1, right⟩ ((sigs.drop p.2).take (diff + 1))) st0).lines →
      ∃ q ∈ st0.lines, q'.name = q.name ∧ q'.rt = q.rt := by
    intro sigs diff l
    induction l with
    | nil => intro st0 q' h; exact ⟨q', h, rfl, rfl⟩
    | cons p ps ih =>
      intro st0 q' h
      simp only [List.foldl_cons] at h
      obtain ⟨q1, hq1, hn1, hr1⟩ := ih _ q' h
      obtain ⟨q, hq, hn, hr⟩ := thinOne_origin st0 _ _ q1 hq1
      exact ⟨q, hq, hn1.trans hn, hr1.trans hr⟩
  exact key _ _ _ st q' h

theorem multiplyD_closed (st st' : St) (s : String) (k : Nat) (names : List String) (policy : String) (hk : 2 ≤ k)
    (hs : s ≠ "") (hgood : ∀ cn ∈ names, goodId cn) (hc : Closed st) (he : multiplyD st s k names policy = .ok st') :
    Closed st' := by
  unfold multiplyD at he
  split at he
  · cases he
  · rename_i st1 h1
    have hc1 := multiply_closed st st1 s k names hk hs hgood hc h1
    rw [if_neg (by omega)] at he
    split at he
    · injection he with he; subst he; exact hc1
    · injection he with he; subst he; exact distribute_closed st1 s _ names k hc1

theorem multiplyD_nodup (st st' : St) (s : String) (k : Nat) (names : List String) (policy : String) (hk : 2 ≤ k)
    (hgood : ∀ cn ∈ names, cn ≠ "*") (hnd : NoDup st) (he : multiplyD st s k names policy = .ok st') : NoDup st' := by
  unfold multiplyD at he
  split at he
  · cases he
  · rename_i st1 h1
    have hn1 := multiply_nodup st st1 s k names hk hgood hnd h1
    rw [if_neg (by omega)] at he
    split at he
    · injection he with he; subst he; exact hn1
    · injection he with he; subst he; exact distribute_nodup st1 s _ names k hn1

end Gfa.C15
