import GfaModel.MergeGraph
/-!
# C14 — the merged segment inherits the outward dovetails with the right orientations (GFA1 links)

`moveTo_L_ends`: a link moved by `__link_merged` joins the same segment ends as before, except that the end `x`
of the member is replaced by an end of the merged segment; `first_end_is_L`, `last_end_is_R`: for the arguments
`merge_linear_path` passes, that end is the left end of the merged segment for the dovetails of the first member
and its right end for those of the last member, whichever way the member is traversed.
-/
namespace Gfa.C14Merge
open Gfa.G

/-- a segment end after the move: `x` becomes an end of the merged segment, the other ends stay -/
def movedEnd (x : SegEnd) (m : String) (rev : Bool) (e : SegEnd) : SegEnd :=
  if e = x then ⟨m, xor x.right rev⟩ else e

theorem orientOf_inv (s : String) : (orientOf (invOrientStr s) = Orient.plus) = ¬ (orientOf s = Orient.plus) := by
  unfold orientOf invOrientStr
  by_cases h : s = "-"
  · simp [h]
  · simp [h]

theorem orientOf_inv_minus (s : String) :
    decide (orientOf (invOrientStr s) = Orient.minus) = !decide (orientOf s = Orient.minus) := by
  unfold orientOf invOrientStr
  by_cases h : s = "-"
  · simp [h]
  · simp [h]

theorem dovEnds_L (f0 f1 f2 f3 : String) (rest : List String) (virt : Bool) :
    dovEnds ⟨.L, f0 :: f1 :: f2 :: f3 :: rest, virt⟩ =
      some (⟨f0, decide (orientOf f1 = .plus)⟩, ⟨f2, decide (orientOf f3 = .minus)⟩) := by
  unfold dovEnds Rec.filing
  simp only [fld, List.getD_cons_zero, List.getD_cons_succ, linkKey, if_true, Bool.false_eq_true, if_false]
  by_cases h1 : orientOf f1 = .plus <;> by_cases h3 : orientOf f3 = .plus
  all_goals simp [h1, h3, isDovKey, keyRight]
  all_goals (cases h : orientOf f3 <;> simp_all)

theorem moveTo_L_ends (f0 f1 f2 f3 : String) (rest : List String) (virt : Bool) (x : SegEnd) (m : String)
    (rev mr : Bool) (ml : Int) :
    dovEnds (moveTo ⟨.L, f0 :: f1 :: f2 :: f3 :: rest, virt⟩ x m rev mr ml) =
      some (movedEnd x m rev ⟨f0, decide (orientOf f1 = .plus)⟩, movedEnd x m rev ⟨f2, decide (orientOf f3 = .minus)⟩) := by
  unfold moveTo
  rw [dovEnds_L]
  simp only []
  by_cases h2 : (⟨f2, decide (orientOf f3 = .minus)⟩ : SegEnd) = x <;>
    by_cases h1 : (⟨f0, decide (orientOf f1 = .plus)⟩ : SegEnd) = x
  all_goals simp only [h1, h2, if_true, if_false, fld, List.set_cons_zero, List.set_cons_succ, List.getD_cons_zero,
    List.getD_cons_succ, movedEnd]
  all_goals rw [dovEnds_L]
  all_goals cases rev
  all_goals simp only [Bool.false_eq_true, if_false, if_true, Bool.xor_false, Bool.xor_true]
  all_goals first
    | rfl
    | (subst_vars; simp_all [orientOf_inv])
    | skip
  all_goals exact orientOf_inv_minus f3

/-- the dovetails of the first member (`__link_merged(merged, first.inverted(), first_reversed, "L")`) end on the
    **left** end of the merged segment, whichever way the first member is traversed -/
theorem first_end_is_L (a : SegEnd) (m : String) : movedEnd a.inv m (!a.right) a.inv = ⟨m, false⟩ := by
  unfold movedEnd SegEnd.inv
  cases a with | mk n r => cases r <;> simp

/-- the dovetails of the last member end on the **right** end of the merged segment -/
theorem last_end_is_R (z : SegEnd) (m : String) : movedEnd z m (!z.right) z = ⟨m, true⟩ := by
  unfold movedEnd
  cases z with | mk n r => cases r <;> simp

/-- the other end of a moved link is the end it had -/
theorem other_end_kept (x e : SegEnd) (m : String) (rev : Bool) (h : e ≠ x) : movedEnd x m rev e = e := by
  unfold movedEnd; rw [if_neg h]

/-- a link moved from the outer end of the first member joins the merged segment's left end with whatever it joined
    before (a hairpin on that end becomes a hairpin on the merged left end) -/
theorem moved_first (f0 f1 f2 f3 : String) (rest : List String) (virt : Bool) (a : SegEnd) (m : String) (mr : Bool) (ml : Int) :
    ∃ e1 e2, dovEnds ⟨.L, f0 :: f1 :: f2 :: f3 :: rest, virt⟩ = some (e1, e2) ∧
      dovEnds (moveTo ⟨.L, f0 :: f1 :: f2 :: f3 :: rest, virt⟩ a.inv m (!a.right) mr ml) =
        some (if e1 = a.inv then ⟨m, false⟩ else e1, if e2 = a.inv then ⟨m, false⟩ else e2) := by
  refine ⟨_, _, dovEnds_L f0 f1 f2 f3 rest virt, ?_⟩
  rw [moveTo_L_ends]
  have h : ∀ e, movedEnd a.inv m (!a.right) e = if e = a.inv then ⟨m, false⟩ else e := by
    intro e
    by_cases he : e = a.inv
    · rw [if_pos he, he]; exact first_end_is_L a m
    · rw [if_neg he]; exact other_end_kept _ _ _ _ he
  rw [h, h]

theorem moved_last (f0 f1 f2 f3 : String) (rest : List String) (virt : Bool) (z : SegEnd) (m : String) (mr : Bool) (ml : Int) :
    ∃ e1 e2, dovEnds ⟨.L, f0 :: f1 :: f2 :: f3 :: rest, virt⟩ = some (e1, e2) ∧
      dovEnds (moveTo ⟨.L, f0 :: f1 :: f2 :: f3 :: rest, virt⟩ z m (!z.right) mr ml) =
        some (if e1 = z then ⟨m, true⟩ else e1, if e2 = z then ⟨m, true⟩ else e2) := by
  refine ⟨_, _, dovEnds_L f0 f1 f2 f3 rest virt, ?_⟩
  rw [moveTo_L_ends]
  have h : ∀ e, movedEnd z m (!z.right) e = if e = z then ⟨m, true⟩ else e := by
    intro e
    by_cases he : e = z
    · rw [if_pos he, he]; exact last_end_is_R z m
    · rw [if_neg he]; exact other_end_kept _ _ _ _ he
  rw [h, h]

/-- the overlap and the tags of a moved link are those of the original -/
theorem moveTo_L_rest (f0 f1 f2 f3 : String) (rest : List String) (virt : Bool) (x : SegEnd) (m : String)
    (rev mr : Bool) (ml : Int) :
    (moveTo ⟨.L, f0 :: f1 :: f2 :: f3 :: rest, virt⟩ x m rev mr ml).fields.drop 4 = rest ∧
    (moveTo ⟨.L, f0 :: f1 :: f2 :: f3 :: rest, virt⟩ x m rev mr ml).rt = .L := by
  unfold moveTo
  rw [dovEnds_L]
  simp only []
  by_cases h2 : (⟨f2, decide (orientOf f3 = .minus)⟩ : SegEnd) = x <;>
    by_cases h1 : (⟨f0, decide (orientOf f1 = .plus)⟩ : SegEnd) = x <;>
    simp [h1, h2]

/-- **the sequence of the merged segment is the spelled sequence of the chain** (GFA1, every member has a sequence),
    and at validation level ≥ 1 the length written on it is the length of that sequence -/
theorem merged_sequence_is_spell (st : St) (path : List SegEnd) (vl : Nat) (m : Rec) (ln : Option Int)
    (hv : st.ver = .gfa1) (he : mergedSegment st path vl = .ok (m, ln))
    (segs : List Rec) (hs : path.mapM (fun e => findSeg st e.name) = some segs) (cuts : List Nat)
    (hc : cutsAlong st path = some cuts) (ms : List Seq.Member) (hm : membersOf .gfa1 segs path cuts = some ms) :
    ∃ sq, Seq.spell ms = some sq ∧ fld m 1 = String.ofList sq ∧ (vl > 0 → ln = some (sq.length : Int)) := by
  unfold mergedSegment at he
  rw [hs] at he
  simp only [] at he
  cases segs with
  | nil => simp at he
  | cons first others =>
    rw [hc] at he
    simp only [hv, hm] at he
    cases hsp : Seq.spell ms with
    | none => rw [hsp] at he; simp at he
    | some sq =>
      rw [hsp] at he
      simp only [] at he
      refine ⟨sq, rfl, ?_⟩
      have key : ∀ (L : Int), (if vl > 0 ∧ L ≠ (sq.length : Int) then (Except.error Err.other : Except Err (Rec × Option Int))
            else Except.ok (⟨RT.S, ["_".intercalate (List.map (fun x => x.name) path), String.ofList sq] ++
                  mergedTags Ver.gfa1 (sTags Ver.gfa1 first) (some L) true [], false⟩, some L)) = Except.ok (m, ln) →
          fld m 1 = String.ofList sq ∧ (vl > 0 → ln = some (sq.length : Int)) := by
        intro L he
        by_cases hcond : vl > 0 ∧ L ≠ (sq.length : Int)
        · rw [if_pos hcond] at he; cases he
        · rw [if_neg hcond] at he
          injection he with he
          injection he with h1 h2
          refine ⟨by rw [← h1]; simp [fld], fun hvl => ?_⟩
          rw [← h2]
          congr 1
          apply Classical.byContradiction
          intro hne
          exact hcond ⟨hvl, hne⟩
      exact key _ he

end Gfa.C14Merge
