#!/venv/bin/python
"""check.py <property-id> [--tier quick|thorough] [--replay FILE]

One run = (1) regenerate lean/GfaGen from /repo, (2) rebuild model, bridge and the
property's theorems, audit axioms, (3) corpus + generated cases: property oracle on the
real library and correspondence model-vs-implementation, (4) verdict, (5) evidence.
Exit 0: held on everything explored.  Exit 1 + "VIOLATION property=<id> replay=<path>".
Exit 2: infrastructure failure (never a VIOLATION line).
"""
import sys, os, json, time, subprocess, importlib, argparse, fcntl, re, signal, traceback, glob
import multiprocessing as mp

HERE = os.path.dirname(os.path.abspath(__file__))
VERIF = os.path.dirname(HERE)
sys.path.insert(0, VERIF)
from harness import lib  # noqa

LEAN_DIR = os.path.join(VERIF, "lean")
DRIVER = os.path.join(LEAN_DIR, ".lake", "build", "bin", "driver")
ALLOWED_AXIOMS = {"propext", "Classical.choice", "Quot.sound"}
FORBIDDEN = re.compile(r"\b(sorry|admit|native_decide|bv_decide|implemented_by|unsafe)\b|^\s*axiom\s|maxHeartbeats\s+0")
PY = "/venv/bin/python"


def load_prop(pid):
    """property = oracle module (props/cXX.py) + lean obligations (leanspec) + optional correspondence module (corr/cXX.py)"""
    prop = importlib.import_module("harness.props." + pid.lower())
    from harness import leanspec
    spec = leanspec.SPEC.get(pid, {})
    for k, v in spec.items():
        if not hasattr(prop, k):
            setattr(prop, k, v)
    try:
        prop.CORR = importlib.import_module("harness.corr." + pid.lower())
    except ModuleNotFoundError:
        prop.CORR = None
    return prop


def log(*a):
    print("[check]", *a, file=sys.stderr, flush=True)


# ------------------------------------------------------------------ lean side
def run(cmd, cwd=None, timeout=3000, env=None):
    p = subprocess.run(cmd, cwd=cwd, stdout=subprocess.PIPE, stderr=subprocess.STDOUT, text=True,
                       timeout=timeout, env=env)
    return p.returncode, p.stdout


def strip_comments(src):
    # remove /- ... -/ (nested not needed) and -- comments
    src = re.sub(r"/-.*?-/", "", src, flags=re.S)
    src = re.sub(r"--.*", "", src)
    return src


def lean_side(prop, tier="quick"):
    """Regenerate GfaGen, build, audit (thorough tier: re-check the compiled modules with leanchecker, the toolchain's
    independent re-checker of .olean files). Returns dict with per-obligation status."""
    res = {"regen_ok": False, "model_ok": False, "modules": {}, "theorems": {}, "log": [], "leanchecker": None}
    lock = open(os.path.join(LEAN_DIR, ".check.lock"), "w")
    fcntl.flock(lock, fcntl.LOCK_EX)
    try:
        rc, out = run([PY, os.path.join(VERIF, "translator", "extract.py"), "--repo", lib.REPO,
                       "--out", os.path.join(LEAN_DIR, "GfaGen")])
        res["regen_ok"] = rc == 0
        res["regen_log"] = out[-4000:]
        if rc != 0:
            # the source can no longer be translated: every bridge that needs it is missing
            res["log"].append("translator failed:\n" + out[-2000:])
        rc, out = run(["lake", "build", "GfaModel", "driver"], cwd=LEAN_DIR)
        res["model_ok"] = rc == 0
        if rc != 0:
            res["log"].append("model build failed:\n" + out[-3000:])
            return res
        for m in prop.LEAN["modules"]:
            rc, out = run(["lake", "build", m], cwd=LEAN_DIR)
            ok = rc == 0
            res["modules"][m] = {"ok": ok, "errors": [l for l in out.splitlines() if l.startswith("error")][:10]}
            if not ok:
                res["log"].append("module %s failed:\n%s" % (m, out[-3000:]))
        if tier == "thorough":
            built_now = [m for m in prop.LEAN["modules"] if res["modules"][m]["ok"]]
            if built_now:
                rc, out = run(["lake", "env", "leanchecker"] + built_now, cwd=LEAN_DIR, timeout=3000)
                res["leanchecker"] = {"ok": rc == 0, "modules": built_now, "output": out[-1500:]}
                if rc != 0:
                    # the independent re-check of the compiled proofs failed: none of these modules counts as built
                    for m in built_now:
                        res["modules"][m] = {"ok": False, "errors": ["leanchecker: " + out[-300:]]}
                    res["log"].append("leanchecker failed:\n" + out[-3000:])
        # forbidden tokens
        bad = []
        for m in prop.LEAN["modules"] + prop.LEAN.get("support", []):
            path = os.path.join(LEAN_DIR, m.replace(".", "/") + ".lean")
            if os.path.exists(path):
                for i, line in enumerate(strip_comments(open(path).read()).splitlines()):
                    if FORBIDDEN.search(line):
                        bad.append("%s:%d: %s" % (m, i + 1, line.strip()))
        res["forbidden"] = bad
        # audit: #print axioms for every obligation
        built = [m for m in prop.LEAN["modules"] if res["modules"][m]["ok"]]
        audit_src = "".join("import %s\n" % m for m in built)
        for t in prop.LEAN["theorems"]:
            audit_src += "#print axioms %s\n" % t
        apath = os.path.join(LEAN_DIR, ".audit_%s.lean" % prop.ID)
        open(apath, "w").write(audit_src)
        rc, out = run(["lake", "env", "lean", apath], cwd=LEAN_DIR)
        os.unlink(apath)
        res["audit_raw"] = out[-6000:]
        # parse
        cur = None
        axioms = {}
        for t in prop.LEAN["theorems"]:
            axioms[t] = None
        # messages look like: 'Gfa.C12.compl_compl' depends on axioms: [propext, ...]   or  does not depend on any axioms
        for m in re.finditer(r"'([^']+)' (does not depend on any axioms|depends on axioms: \[([^\]]*)\])", out, flags=re.S):
            name = m.group(1)
            axs = [] if m.group(3) is None else [a.strip() for a in m.group(3).replace("\n", " ").split(",") if a.strip()]
            axioms[name] = axs
        for t in prop.LEAN["theorems"]:
            a = axioms.get(t)
            ok = a is not None and set(a) <= ALLOWED_AXIOMS and not bad
            res["theorems"][t] = {"ok": ok, "axioms": a}
    finally:
        fcntl.flock(lock, fcntl.LOCK_UN)
        lock.close()
    return res


def run_driver(ops):
    """Feed protocol lines to the native model driver, return reply lines."""
    if not ops:
        return []
    p = subprocess.run([DRIVER], input="\n".join(ops) + "\n", stdout=subprocess.PIPE, stderr=subprocess.PIPE,
                       text=True, timeout=1800)
    if p.returncode != 0:
        raise RuntimeError("driver exited %d: %s" % (p.returncode, p.stderr[-500:]))
    out = p.stdout.split("\n")
    if out and out[-1] == "":
        out.pop()
    return out


# ------------------------------------------------------------------ python side
class CaseTimeout(Exception):
    pass


def _alarm(signum, frame):
    raise CaseTimeout()


def eval_case(prop, case, want_ops=True, src="prop"):
    """Run oracle and correspondence-side of one case on the real library."""
    r = {"hash": lib.case_hash(case), "failures": [], "ops": [], "expected": [], "nontrivial": False, "tags": []}
    if src == "corr":
        prop = prop.CORR
    signal.signal(signal.SIGALRM, _alarm)
    signal.alarm(getattr(prop, "CASE_TIMEOUT", 60))
    try:
        try:
            r["nontrivial"] = bool(prop.nontrivial(case)) if hasattr(prop, "nontrivial") else True
            if hasattr(prop, "tags"):
                r["tags"] = list(prop.tags(case))
            if hasattr(prop, "oracle"):
                r["failures"] = list(prop.oracle(case) or [])
            mo = getattr(prop, "model_ops", None)
            if mo is None and src == "prop" and getattr(prop, "CORR", None) is not None:
                mo = getattr(prop.CORR, "model_ops_for_prop_case", None)
            if want_ops and mo is not None:
                ops, exp = mo(case)
                assert len(ops) == len(exp), "model_ops: %d ops vs %d expected" % (len(ops), len(exp))
                r["ops"], r["expected"] = ops, exp
        finally:
            signal.alarm(0)
    except CaseTimeout:
        r["failures"].append("timeout: case did not finish in %ds" % getattr(prop, "CASE_TIMEOUT", 60))
        r["timeout"] = True
    except Exception as e:
        r["infra"] = "harness exception %s: %s\n%s" % (e.__class__.__name__, e, traceback.format_exc()[-1500:])
    return r


def _worker(args):
    pid, tier, seed, idxs = args
    prop = load_prop(pid)
    lib.import_gfapy()
    out = []
    for kind, i in idxs:
        src = "corr" if kind.startswith("c") else "prop"
        m = prop.CORR if src == "corr" else prop
        if kind in ("x", "cx"):
            case = m.exhaustive_case(i, tier)
        else:
            case = m.gen_case(lib.Rng(lib.sub_seed(seed, pid, kind, i)), tier, i)
        r = eval_case(prop, case, src=src)
        r["src"] = src
        r["idx"] = (kind, i)
        if r["failures"] or r.get("infra") or i < 3:
            r["case"] = case
        out.append(r)
    return out


def python_side(prop, tier, seed, budget_scale=1.0):
    """corpus + exhaustive + random cases, sharded over cores."""
    results = []
    # corpus first (sequential, small)
    for path in sorted(glob.glob(os.path.join(VERIF, "corpus", prop.ID, "*.json"))):
        case = json.load(open(path))
        r = eval_case(prop, case)
        r["idx"] = ("corpus", os.path.basename(path))
        r["case"] = case
        results.append(r)
    # witnesses of the repaired defects of this property (KNOWN_FINDINGS 'fixed' entries): a regression is a violation
    for k in load_known():
        w = k.get("witness")
        if k.get("property") == prop.ID and k.get("status") == "fixed" and isinstance(w, str) and w.endswith(".py"):
            results.append(run_witness(w))
    n_ex = prop.n_exhaustive(tier) if hasattr(prop, "n_exhaustive") else 0
    n_rand = int(prop.budget(tier) * budget_scale)
    idxs = [("x", i) for i in range(n_ex)] + [("r", i) for i in range(n_rand)]
    C = getattr(prop, "CORR", None)
    if C is not None and hasattr(C, "gen_case"):
        n_cx = C.n_exhaustive(tier) if hasattr(C, "n_exhaustive") else 0
        idxs += [("cx", i) for i in range(n_cx)] + [("cr", i) for i in range(int(C.budget(tier) * budget_scale))]
    ncpu = min(16, os.cpu_count() or 1)
    chunk = max(1, min(200, len(idxs) // (ncpu * 4) + 1))
    jobs = [(prop.ID, tier, seed, idxs[i:i + chunk]) for i in range(0, len(idxs), chunk)]
    if jobs:
        with mp.Pool(ncpu) as pool:
            for part in pool.imap(_worker, jobs):
                results.extend(part)
    return results


def run_witness(rel):
    """run a committed witness script of a repaired defect against /repo: exit 0 = the defect stays repaired"""
    path = os.path.join(VERIF, rel)
    r = {"hash": "witness:" + rel, "failures": [], "ops": [], "expected": [], "nontrivial": True, "tags": ["witness"],
         "idx": ("witness", os.path.basename(rel)), "case": {"witness": rel}, "src": "prop"}
    try:
        p = subprocess.run([PY, path], cwd="/tmp", env=dict(os.environ, PYTHONPATH=lib.REPO), stdout=subprocess.PIPE,
                           stderr=subprocess.STDOUT, text=True, timeout=300)
        if p.returncode != 0:
            r["failures"].append("witness-regressed[%s]: %s" % (os.path.basename(rel), p.stdout.strip()[-300:]))
    except subprocess.TimeoutExpired:
        r["failures"].append("witness-regressed[%s]: timeout" % os.path.basename(rel))
    return r


def correspondence(results):
    """Pipe all ops through the model driver; return list of disagreements."""
    ops = []; exp = []; owner = []
    for ri, r in enumerate(results):
        for o, e in zip(r["ops"], r["expected"]):
            ops.append(o); exp.append(e); owner.append(ri)
    got = run_driver(ops)
    dis = []
    if len(got) != len(ops):
        raise RuntimeError("driver replied %d lines for %d ops" % (len(got), len(ops)))
    for i, (g, e) in enumerate(zip(got, exp)):
        if g != lib.esc(e):
            dis.append({"result": owner[i], "op": ops[i], "model": g, "impl": e})
    return len(ops), dis


# ------------------------------------------------------------------ findings
def load_known():
    path = os.path.join(VERIF, "KNOWN_FINDINGS.json")
    if not os.path.exists(path):
        return []
    return json.load(open(path)).get("findings", [])


def match_known(known, pid, sig, case=None):
    """an open finding matches by exact signature, or by signature_regex + a filter on fields of the case"""
    for k in known:
        if k.get("property") != pid or k.get("status") != "open":
            continue
        if k.get("signature") is not None and k.get("signature") == sig:
            return k
        rx = k.get("signature_regex")
        if rx and re.search(rx, sig or ""):
            flt = k.get("case_filter") or {}
            if all(isinstance(case, dict) and case.get(f) == v for f, v in flt.items()):
                return k
    return None


def write_replay(pid, seed, n, payload):
    d = os.path.join(VERIF, "replays")
    os.makedirs(d, exist_ok=True)
    path = os.path.join(d, "%s-%s-%d.json" % (pid, seed, n))
    json.dump(payload, open(path, "w"), indent=1, sort_keys=True, default=str)
    return os.path.relpath(path, VERIF)


# ------------------------------------------------------------------ main
def main():
    ap = argparse.ArgumentParser()
    ap.add_argument("prop")
    ap.add_argument("--tier", default=os.environ.get("VERIF_TIER", "quick"))
    ap.add_argument("--replay")
    a = ap.parse_args()
    tier = a.tier if a.tier in ("quick", "thorough") else "quick"
    try:
        seed = int(os.environ.get("VERIF_SEED", "0"))
    except ValueError:
        seed = 0
    pid = a.prop.upper()
    prop = load_prop(pid)
    t0 = time.time()

    if a.replay:
        payload = json.load(open(a.replay))
        lib.import_gfapy()
        if isinstance(payload.get("case"), dict) and "witness" in payload["case"]:
            r = run_witness(payload["case"]["witness"])
            print(json.dumps({"failures": r["failures"]}, indent=1))
            sys.exit(1 if r["failures"] else 0)
        if payload.get("kind") in ("oracle", "correspondence") and "case" in payload:
            r = eval_case(prop, payload["case"], src=payload.get("src", "prop"))
            print(json.dumps({"failures": r["failures"], "infra": r.get("infra")}, indent=1))
            if r["ops"]:
                n, dis = correspondence([r])
                print(json.dumps({"disagreements": dis}, indent=1))
            sys.exit(1 if r["failures"] else 0)
        else:
            print(json.dumps(payload, indent=1))
            sys.exit(0)

    # ---- lean
    try:
        lean = lean_side(prop, tier)
    except subprocess.TimeoutExpired:
        log("lean build timed out"); sys.exit(2)
    if not lean["model_ok"]:
        log("model/driver does not build (infrastructure):", *lean["log"]); sys.exit(2)
    obligations = list(prop.LEAN["theorems"])
    discharged = [t for t in obligations if lean["theorems"].get(t, {}).get("ok")]
    broken_thms = [t for t in obligations if t not in discharged]
    broken_mods = [m for m, v in lean["modules"].items() if not v["ok"]]
    if not lean["regen_ok"]:
        broken_mods.append("translator")

    # ---- python
    lib.import_gfapy()
    try:
        results = python_side(prop, tier, seed)
        n_ops, dis = correspondence(results)
    except Exception as e:
        log("infrastructure failure:", repr(e), traceback.format_exc()); sys.exit(2)
    infra = [r for r in results if r.get("infra")]
    if infra:
        log("harness exceptions (infrastructure):", infra[0]["infra"]); sys.exit(2)

    tie_broken = bool(broken_thms or broken_mods or dis)
    oracle_fail = [r for r in results if r["failures"]]
    if tie_broken and not oracle_fail:
        # search harder for a concrete failing input on the real library
        log("tie broken (%s); raising the search budget" % (broken_thms or broken_mods or "correspondence"))
        try:
            more = python_side(prop, "thorough", seed + 1, budget_scale=getattr(prop, "SEARCH_SCALE", 1.0))
        except Exception as e:
            log("infrastructure failure in search:", repr(e)); sys.exit(2)
        oracle_fail = [r for r in more if r["failures"]]
        results_for_evidence = results + more
    else:
        results_for_evidence = results

    known = load_known()
    violations = []
    known_lines = set()
    nrep = 0
    seen_sigs = set()
    for r in oracle_fail:
        case = r.get("case")
        for f in r["failures"]:
            is_w = isinstance(case, dict) and "witness" in case
            sig = f.split(":")[0] if is_w else (prop.signature(case, f) if hasattr(prop, "signature") else f)
            k = match_known(known, pid, sig, case)
            if k:
                known_lines.add("KNOWN-FINDING: property=%s %s" % (pid, k.get("what", sig)))
                continue
            if sig in seen_sigs:
                continue
            seen_sigs.add(sig)
            if hasattr(prop, "shrink") and case is not None and not is_w:
                try:
                    case = prop.shrink(case, f)
                except Exception:
                    pass
            path = write_replay(pid, seed, nrep, {"property": pid, "kind": "oracle", "case": case, "failure": f,
                                                  "signature": sig, "idx": r.get("idx"), "src": r.get("src", "prop"),
                                                  "replay_cmd": "./check %s --replay <this file>" % pid})
            nrep += 1
            violations.append("VIOLATION property=%s replay=%s" % (pid, path))
            if nrep >= 5:
                break
        if nrep >= 5:
            break
    if tie_broken and not violations and not known_lines:
        what = {"broken_theorems": broken_thms, "broken_modules": broken_mods,
                "lean_errors": {m: v["errors"] for m, v in lean["modules"].items() if not v["ok"]},
                "translator_log": None if lean["regen_ok"] else lean.get("regen_log"),
                "disagreements": dis[:10]}
        if dis:
            r0 = results[dis[0]["result"]]
            what["case"] = r0.get("case")
        path = write_replay(pid, seed, 0, {"property": pid, "kind": "proof" if (broken_thms or broken_mods) else "correspondence",
                                           "no_longer_checks": broken_thms + broken_mods + (["corr:" + dis[0]["op"]] if dis else []),
                                           **what})
        violations.append("VIOLATION property=%s replay=%s no-failing-input-found" % (pid, path))
    elif tie_broken and not violations and known_lines:
        # a tie is broken but only known findings fail: still not shown to hold
        path = write_replay(pid, seed, 0, {"property": pid, "kind": "proof", "no_longer_checks": broken_thms + broken_mods,
                                           "disagreements": dis[:10]})
        violations.append("VIOLATION property=%s replay=%s no-failing-input-found" % (pid, path))

    # ---- evidence
    hashes = {}
    tagcount = {}
    for r in results_for_evidence:
        if r["nontrivial"]:
            hashes[r["hash"]] = 1
        for t in r.get("tags", []):
            tagcount[t] = tagcount.get(t, 0) + 1
    samples = [r["case"] for r in results_for_evidence if "case" in r][:3]
    samples += [{"obligation": t, "axioms": lean["theorems"][t]["axioms"]} for t in obligations[:3]]
    ev = {
        "property_id": pid, "tier": tier, "seed": seed, "level": "proof",
        "coverage": {
            "obligations": len(obligations), "discharged": len(discharged),
            "checker_cmd": ("cd lean && lake build %s && lake env lean <#print axioms of every obligation>" % " ".join(prop.LEAN["modules"])) +
                           (" && lake env leanchecker <the same modules>" if tier == "thorough" else ""),
            "trusted_base": ["Lean 4.33.0 kernel", "axioms: propext, Classical.choice, Quot.sound (per theorem below)",
                             "translator/extract.py (GfaGen regenerated from /repo on this run)",
                             "harness correspondence + python oracle (differential testing, bounded)"] + list(getattr(prop, "TRUSTED", [])),
            "theorems": {t: lean["theorems"].get(t) for t in obligations},
            "bridge_modules": lean["modules"],
            "leanchecker": lean.get("leanchecker"),
            "evaluations": len(results_for_evidence),
            "distinct_nontrivial": len(hashes),
            "rule": getattr(prop, "RULE", ""),
            "samples": samples,
            "traces_validated_against_impl": n_ops,
            "model_impl_disagreements": len(dis),
            "generator_distribution": dict(sorted(tagcount.items())),
            "corpus_cases": len([r for r in results if r["idx"][0] == "corpus"]),
            "known_findings_hit": sorted(known_lines),
            "explanation": getattr(prop, "EXPLANATION", ""),
        },
        "assumptions": list(getattr(prop, "ASSUMPTIONS", [])),
        "wall_s": round(time.time() - t0, 2),
        "violations": len(violations),
    }
    os.makedirs(os.path.join(VERIF, "evidence"), exist_ok=True)
    json.dump(ev, open(os.path.join(VERIF, "evidence", pid + ".json"), "w"), indent=1, sort_keys=True, default=str)

    for l in sorted(known_lines):
        print(l)
    for v in violations:
        print(v)
    print("%s tier=%s seed=%d obligations=%d/%d cases=%d nontrivial=%d corr_ops=%d disagreements=%d wall=%.1fs" % (
        pid, tier, seed, len(discharged), len(obligations), len(results_for_evidence), len(hashes), n_ops, len(dis),
        time.time() - t0))
    sys.exit(1 if violations else 0)


if __name__ == "__main__":
    main()
