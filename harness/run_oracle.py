#!/venv/bin/python
"""run_oracle.py <prop> [--n N] [--seed S] [--tier quick|thorough] [--show K]
Runs only the python side of a property module (generator + oracle on the real library), no Lean.
Prints a histogram of failure signatures and the first K failing cases."""
import sys, os, argparse, importlib, json, collections, time
sys.path.insert(0, os.path.dirname(os.path.dirname(os.path.abspath(__file__))))
from harness import lib
ap = argparse.ArgumentParser()
ap.add_argument("prop"); ap.add_argument("--n", type=int, default=None); ap.add_argument("--seed", type=int, default=0)
ap.add_argument("--tier", default="quick"); ap.add_argument("--show", type=int, default=5)
a = ap.parse_args()
prop = importlib.import_module("harness.props." + a.prop.lower())
lib.import_gfapy()
n_ex = prop.n_exhaustive(a.tier) if hasattr(prop, "n_exhaustive") else 0
n = a.n if a.n is not None else prop.budget(a.tier)
hist = collections.Counter(); tags = collections.Counter(); shown = 0; nt = 0; t0 = time.time()
cases = [("x", i) for i in range(n_ex)] + [("r", i) for i in range(n)]
for kind, i in cases:
    case = prop.exhaustive_case(i, a.tier) if kind == "x" else prop.gen_case(lib.Rng(lib.sub_seed(a.seed, prop.ID, i)), a.tier, i)
    nt += bool(prop.nontrivial(case))
    for t in (prop.tags(case) if hasattr(prop, "tags") else []):
        tags[t] += 1
    fs = prop.oracle(case) or []
    for f in fs:
        sig = prop.signature(case, f) if hasattr(prop, "signature") else f
        hist[sig] += 1
        if shown < a.show:
            shown += 1
            print("FAIL", kind, i, f); print("  case:", json.dumps(case)[:1500])
print("cases=%d nontrivial=%d failures=%s wall=%.1fs" % (len(cases), nt, dict(hist), time.time() - t0))
print("tags:", dict(sorted(tags.items())))
