"""Shared helpers for the correspondence harness and the property oracles.

Everything here talks to the *real* gfapy from /repo's working tree through its
public API only.
"""
import sys, os, json, hashlib, random, traceback

REPO = os.environ.get("GFAPY_REPO", "/repo")
VERIF = os.path.dirname(os.path.dirname(os.path.abspath(__file__)))

def import_gfapy():
    """Import gfapy from /repo's working tree (never from a cached copy)."""
    if sys.path[0] != REPO:
        sys.path.insert(0, REPO)
    import gfapy
    assert os.path.abspath(gfapy.__file__).startswith(os.path.abspath(REPO) + os.sep), gfapy.__file__
    return gfapy

SEP = "\x1f"

def esc(s):
    return s.replace("\\", "\\\\").replace("\n", "\\n").replace("\r", "\\r")

def unesc(s):
    out = []; i = 0
    while i < len(s):
        c = s[i]
        if c == "\\" and i + 1 < len(s):
            n = s[i + 1]
            out.append({"n": "\n", "r": "\r", "\\": "\\"}.get(n, n)); i += 2
        else:
            out.append(c); i += 1
    return "".join(out)

def op(name, *args):
    """One protocol line for the model driver."""
    return SEP.join([name] + [esc(str(a)) for a in args])

def outcome(fn, *a, **k):
    """Run fn; classify as ('ok', value) | ('gerr', class name) | ('foreign', class name)."""
    gfapy = import_gfapy()
    try:
        return ("ok", fn(*a, **k))
    except gfapy.Error as e:
        return ("gerr", e.__class__.__name__)
    except RecursionError as e:
        return ("foreign", "RecursionError")
    except Exception as e:  # noqa
        return ("foreign", e.__class__.__name__)

def case_hash(case):
    return hashlib.sha1(json.dumps(case, sort_keys=True, default=str).encode()).hexdigest()[:16]

class Rng(random.Random):
    def pick(self, seq):
        return seq[self.randrange(len(seq))]
    def chance(self, p):
        return self.random() < p

def sub_seed(seed, *parts):
    h = hashlib.sha256(("%s|%s" % (seed, "|".join(map(str, parts)))).encode()).hexdigest()
    return int(h[:12], 16)

# ---------------------------------------------------------------- observation
def wl(line):
    """Written form of a line, with a GFA1 link printed in canonical direction."""
    gfapy = import_gfapy()
    try:
        if line.record_type == "L" and not line.is_canonical():
            return str(line.complement())
    except Exception:
        pass
    return str(line)

def refname(x):
    gfapy = import_gfapy()
    if isinstance(x, gfapy.OrientedLine):
        return str(x)
    if isinstance(x, gfapy.Line):
        n = x.get("name") if "name" in x.positional_fieldnames or x.record_type in "SEGOUP" else None
        return "<%s>%s" % (x.record_type, str(x))
    return "str:" + str(x)

BACKREF_COLLS = {
    "S": ["dovetails_L", "dovetails_R", "edges_to_contained", "edges_to_containers", "internals",
          "gaps_L", "gaps_R", "fragments", "paths", "sets"],
    "L": ["paths"], "C": [], "E": ["paths", "sets"], "G": ["sets"], "F": [],
    "P": [], "O": ["paths", "sets"], "U": ["sets"], "\n": ["paths", "sets"],
}

def obs(g):
    """Canonical observation of a Gfa through the public API only."""
    gfapy = import_gfapy()
    o = {"version": g.version}
    lines = g.lines
    o["text"] = sorted(wl(l) for l in lines)
    o["names"] = sorted(str(n) for n in g.names)
    o["virtual"] = sorted(str(l) for l in lines if l.virtual)
    back = {}
    owner_ok = True
    for l in lines:
        if l.gfa is not g:
            owner_ok = False
        rt = l.record_type
        d = {}
        for coll in BACKREF_COLLS.get(rt, []):
            try:
                d[coll] = sorted(wl(x) for x in getattr(l, coll))
            except Exception as e:  # observation must not hide an error
                d[coll] = "EXC:" + e.__class__.__name__
        if d:
            back[wl(l)] = d
    o["back"] = back
    o["owner_ok"] = owner_ok
    return o

def obs_str(g):
    return json.dumps(obs(g), sort_keys=True)


A_, B_, C_ = "\x1e", "\x1d", "\x1c"


def ambiguous_placeholders(g):
    """two placeholder links over the same pair of segment ends (paths that state different overlaps for one edge
    before any link is there): the library binds each path step to a link *object*, the model resolves a step to the
    first stored link that fits - after one of the placeholders gives up its overlap the two can differ, so the
    correspondence stops comparing such a state (the oracles still judge it)"""
    seen = set()
    try:
        for l in g._gfa1_links:
            if l.virtual:
                k = frozenset([(str(l.from_name), "R" if l.from_orient == "+" else "L"),
                               (str(l.to_name), "L" if l.to_orient == "+" else "R")])
                if k in seen:
                    return True
                seen.add(k)
    except Exception:
        return False
    return False


def obs_flat(g):
    """Canonical observation in the flat layout the Lean model prints (GfaModel/GraphObs.lean `obs`).
    Only graph records (S L C P E G F O U and virtual unknowns) are included."""
    lines = [l for l in g.lines if l.record_type in BACKREF_COLLS or l.record_type in ("C", "F", "P")]
    text = sorted(wl(l) for l in lines)
    names = sorted(str(n) for n in g.names)
    virt = sorted(wl(l) for l in lines if l.virtual)
    back = []
    for l in lines:
        colls = BACKREF_COLLS.get(l.record_type, [])
        if not colls:
            continue
        ents = []
        for c in colls:
            ents.append(c + "=" + A_.join(sorted(wl(x) for x in getattr(l, c))))
        back.append(wl(l) + C_ + C_.join(ents))
    back.sort()
    # path.links: the link every step of a GFA1 path is bound to, with its orientation flag
    plinks = sorted(wl(p) + C_ + A_.join(wl(ol.line) + " " + ol.orient for ol in p.links)
                    for p in lines if p.record_type == "P" and not p.virtual)
    return B_.join(["ver=" + str(g.version), "text=" + A_.join(text), "names=" + A_.join(names),
                    "virt=" + A_.join(virt), "back=" + (B_ + B_).join(back), "plinks=" + (B_ + B_).join(plinks)])
