"""C14 correspondence: reverse complement and spelled sequence, and the linear paths of whole graphs
(GfaModel/LinearPaths.lean vs Gfa.linear_paths / Gfa.linear_path, exact order and orientation), model vs gfapy."""
from harness import lib
from harness.lib import op
from harness.props import _graphgen as G
from harness.corr.graphcorr import supported_add


def budget(tier):
    return 600 if tier == "quick" else 12000


def gen_case(rng, tier, i):
    if rng.random() < 0.5:
        c = G.gen_graph(rng, tier)
        c["kind"] = "lpaths"
        return c
    if rng.random() < 0.4:
        alpha = "ACGTacgtNnRYKMSWBVHDuU.-=xZ"
        return {"kind": "rc", "s": "".join(rng.choice(alpha) for _ in range(rng.randint(1, 8)))}
    n = rng.randint(2, 4)
    segs = ["".join(rng.choice("ACGT") for _ in range(rng.randint(3, 7))) for _ in range(n)]
    return {"kind": "spell", "segs": segs, "rev": [rng.random() < 0.5 for _ in range(n)],
            "cut": [rng.randint(0, 2) for _ in range(n - 1)], "eqop": rng.random() < 0.3}


def tags(case):
    return ["corr:" + case["kind"]]


def nontrivial(case):
    return True


def _show(path):
    return ",".join("%s:%s" % (se.name, se.end_type) for se in path)


def lpaths_ops(case):
    gfapy = lib.import_gfapy()
    v = case["version"]
    if not all(supported_add(l) for l in case["lines"]):
        return [], []
    try:
        g = gfapy.Gfa(version=v, vlevel=1)
        for l in case["lines"]:
            g.add_line(l)
    except gfapy.Error:
        return [], []
    # the model is given the lines in the library's own order (segments in registry order)
    ops = [op("g.new", v)] + [op("g.add", str(l)) for l in g.lines if l.record_type in "SLCPEGFOU"]
    exp = ["ok"] * len(ops)
    r = lib.outcome(g.linear_paths)
    if r[0] != "ok":
        return [], []
    ops.append(op("g.lpaths")); exp.append("ok " + ";".join(_show(p) for p in r[1]))
    for sn in list(g.segment_names)[:6]:
        r = lib.outcome(g.linear_path, sn)
        if r[0] == "ok":
            ops.append(op("g.lpath", sn)); exp.append("ok " + _show(r[1]))
    return ops, exp


def model_ops(case):
    gfapy = lib.import_gfapy()
    if case["kind"] == "lpaths":
        return lpaths_ops(case)
    if case["kind"] == "rc":
        r = lib.outcome(gfapy.sequence.rc, case["s"])
        return [op("seq.rc", case["s"])], ["ok " + r[1] if r[0] == "ok" else "gerr " + r[1]]
    segs, rev, cut = case["segs"], case["rev"], case["cut"]
    lines = ["S\ts%d\t%s" % (i, s) for i, s in enumerate(segs)]
    for i in range(len(segs) - 1):
        ov = "*" if cut[i] == 0 else ("%d%s" % (cut[i], "=" if case["eqop"] else "M"))
        lines.append("L\ts%d\t%s\ts%d\t%s\t%s" % (i, "-" if rev[i] else "+", i + 1, "-" if rev[i + 1] else "+", ov))
    g = gfapy.Gfa(lines, vlevel=0)
    path = g.linear_path("s0")
    g.merge_linear_paths()
    merged = [s for s in g.segments if len(g.segments) == 1]
    if len(g.segments) != 1:
        return [], []
    seq = g.segments[0].sequence
    # the library may have walked the chain from the other end: then it spells the reverse complement
    members = ["%s,%d,%d" % (segs[i], int(rev[i]), 0 if i == 0 else cut[i - 1]) for i in range(len(segs))]
    fw = op("seq.spell", *members)
    if path and str(path[0].segment.name if hasattr(path[0].segment, "name") else path[0].segment) == "s0" :
        pass
    name = g.segments[0].name
    if name.startswith("s0"):
        return [fw], ["ok " + seq]
    n = len(segs)
    members_r = ["%s,%d,%d" % (segs[i], int(not rev[i]), 0 if i == n - 1 else cut[i]) for i in reversed(range(n))]
    return [op("seq.spell", *members_r)], ["ok " + seq]
