"""C14 correspondence: reverse complement and spelled sequence, and the linear paths of whole graphs
(GfaModel/LinearPaths.lean vs Gfa.linear_paths / Gfa.linear_path, exact order and orientation), model vs gfapy."""
from harness import lib
from harness.lib import op
from harness.props import _graphgen as G
from harness.corr.graphcorr import supported_add


def budget(tier):
    return 600 if tier == "quick" else 12000


def gen_case(rng, tier, i):
    r = rng.random()
    if r < 0.3:
        c = G.gen_graph(rng, tier)
        c["kind"] = "lpaths"
        return c
    if r < 0.65:
        c = G.gen_graph(rng, tier, max_segs=8)
        c["kind"] = "merge"
        c["pick"] = rng.randrange(1000)
        c["all"] = rng.random() < 0.35
        c["vlevel"] = rng.choice([0, 1, 1, 2, 3])
        c["spoil"] = rng.choice([None, None, None, "collision", "cigar", "ln"])
        return c
    if rng.random() < 0.4:
        alpha = "ACGTacgtNnRYKMSWBVHDuU.-=xZ"
        return {"kind": "rc", "s": "".join(rng.choice(alpha) for _ in range(rng.randint(1, 8)))}
    n = rng.randint(2, 4)
    segs = ["".join(rng.choice("ACGT") for _ in range(rng.randint(3, 7))) for _ in range(n)]
    return {"kind": "spell", "segs": segs, "rev": [rng.random() < 0.5 for _ in range(n)],
            "cut": [rng.randint(0, 2) for _ in range(n - 1)], "eqop": rng.random() < 0.3}


def tags(case):
    return ["corr:" + case["kind"]]


def nontrivial(case):
    return True


def _show(path):
    return ",".join("%s:%s" % (se.name, se.end_type) for se in path)


def lpaths_ops(case):
    gfapy = lib.import_gfapy()
    v = case["version"]
    if not all(supported_add(l) for l in case["lines"]):
        return [], []
    try:
        g = gfapy.Gfa(version=v, vlevel=1)
        for l in case["lines"]:
            g.add_line(l)
    except gfapy.Error:
        return [], []
    # the model is given the lines in the library's own order (segments in registry order)
    if any(l.virtual for l in g.lines):
        return [], []     # a placeholder line cannot be handed to the model as a line (it is written with a commentary tag)
    ops = [op("g.new", v)] + [op("g.add", str(l)) for l in g.lines if l.record_type in "SLCPEGFOU"]
    exp = ["ok"] * len(ops)
    r = lib.outcome(g.linear_paths)
    if r[0] != "ok":
        return [], []
    ops.append(op("g.lpaths")); exp.append("ok " + ";".join(_show(p) for p in r[1]))
    for sn in list(g.segment_names)[:6]:
        r = lib.outcome(g.linear_path, sn)
        if r[0] == "ok":
            ops.append(op("g.lpath", sn)); exp.append("ok " + _show(r[1]))
    return ops, exp


def merge_ops(case):
    """merge_linear_path(one of the linear paths) / merge_linear_paths(), complete observation afterwards"""
    gfapy = lib.import_gfapy()
    v, vl = case["version"], case.get("vlevel", 1)
    if not all(supported_add(l) for l in case["lines"]):
        return [], []
    try:
        g = gfapy.Gfa(version=v, vlevel=vl)
        for l in case["lines"]:
            g.add_line(l)
    except gfapy.Error:
        return [], []
    r = lib.outcome(g.linear_paths)
    if r[0] != "ok" or not r[1]:
        return [], []
    sp = case.get("spoil")
    if sp and not case.get("all"):
        # something that makes the merge of the picked path fail or take an unusual branch: the merged name is
        # taken, an overlap that is not M/= only, an LN tag that contradicts the sequence (level 0 only)
        path = r[1][case["pick"] % len(r[1])]
        lines = [str(l) for l in g.lines if l.record_type in "SLCPEGFOU"]
        if sp == "collision":
            nm = "_".join(se.name for se in path)
            lines.append("S\t%s\t*" % nm if v == "gfa1" else "S\t%s\t7\t*" % nm)
        elif sp == "cigar":
            a, b = path[0].name, path[1].name
            for k, l in enumerate(lines):
                f = l.split("\t")
                if v == "gfa1" and f[0] == "L" and {f[1], f[3]} == {a, b} and f[5] != "*":
                    f[5] = "1M1I1M"
                    lines[k] = "\t".join(f)
                elif v == "gfa2" and f[0] == "E" and {f[2][:-1], f[3][:-1]} == {a, b} and f[8] != "*":
                    f[8] = "1M1I1M" if f[8] != "1M1I1M" else "3M"
                    lines[k] = "\t".join(f)
        elif sp == "ln" and v == "gfa1" and vl == 0:
            for k, l in enumerate(lines):
                f = l.split("\t")
                if f[0] == "S" and f[1] == path[0].name and f[2] != "*":
                    f = [x for x in f if not x.startswith("LN:")] + ["LN:i:%d" % (len(f[2]) + 3)]
                    lines[k] = "\t".join(f)
        try:
            g = gfapy.Gfa(version=v, vlevel=vl)
            for l in lines:
                g.add_line(l)
        except gfapy.Error:
            return [], []
        r = lib.outcome(g.linear_paths)
        if r[0] != "ok" or not r[1]:
            return [], []
    if any(l.virtual for l in g.lines):
        return [], []     # a placeholder line cannot be handed to the model as a line (it is written with a commentary tag)
    ops = [op("g.new", v)] + [op("g.add", str(l)) for l in g.lines if l.record_type in "SLCPEGFOU"]
    exp = ["ok"] * len(ops)
    if case.get("all"):
        mop = op("g.mergeall", vl)
        r2 = lib.outcome(g.merge_linear_paths)
    else:
        path = r[1][case["pick"] % len(r[1])]
        mop = op("g.merge", _show(path), vl)
        r2 = lib.outcome(g.merge_linear_path, path)
    if r2[0] == "gerr":
        # refused: the model refuses too; what is left behind then is the oracle's business (C08 for the Gfa as a whole)
        ops.append(mop); exp.append("refused")
        return ops, exp
    if r2[0] != "ok":
        return [], []
    o = lib.outcome(lib.obs_flat, g)
    if o[0] != "ok" or "# INVALID" in o[1]:
        return [], []
    ops.append(mop); exp.append("ok")
    ops.append(op("g.obs")); exp.append("ok " + o[1])
    return ops, exp


def model_ops(case):
    gfapy = lib.import_gfapy()
    if case["kind"] == "lpaths":
        return lpaths_ops(case)
    if case["kind"] == "merge":
        return merge_ops(case)
    if case["kind"] == "rc":
        r = lib.outcome(gfapy.sequence.rc, case["s"])
        return [op("seq.rc", case["s"])], ["ok " + r[1] if r[0] == "ok" else "gerr " + r[1]]
    segs, rev, cut = case["segs"], case["rev"], case["cut"]
    lines = ["S\ts%d\t%s" % (i, s) for i, s in enumerate(segs)]
    for i in range(len(segs) - 1):
        ov = "*" if cut[i] == 0 else ("%d%s" % (cut[i], "=" if case["eqop"] else "M"))
        lines.append("L\ts%d\t%s\ts%d\t%s\t%s" % (i, "-" if rev[i] else "+", i + 1, "-" if rev[i + 1] else "+", ov))
    g = gfapy.Gfa(lines, vlevel=0)
    path = g.linear_path("s0")
    g.merge_linear_paths()
    merged = [s for s in g.segments if len(g.segments) == 1]
    if len(g.segments) != 1:
        return [], []
    seq = g.segments[0].sequence
    # the library may have walked the chain from the other end: then it spells the reverse complement
    members = ["%s,%d,%d" % (segs[i], int(rev[i]), 0 if i == 0 else cut[i - 1]) for i in range(len(segs))]
    fw = op("seq.spell", *members)
    if path and str(path[0].segment.name if hasattr(path[0].segment, "name") else path[0].segment) == "s0" :
        pass
    name = g.segments[0].name
    if name.startswith("s0"):
        return [fw], ["ok " + seq]
    n = len(segs)
    members_r = ["%s,%d,%d" % (segs[i], int(not rev[i]), 0 if i == n - 1 else cut[i]) for i in reversed(range(n))]
    return [op("seq.spell", *members_r)], ["ok " + seq]
