"""C02 correspondence: model Gfa vs library on the histories of the oracle generator."""
from harness.corr.graphcorr import model_ops_for_prop_case  # noqa
