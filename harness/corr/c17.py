"""C17 correspondence: same-identifier merge (through g.add/g.obs) and induced sets of the model vs the library."""
from harness import lib
from harness.lib import op
from harness.corr.graphcorr import supported_add, ERRS


def model_ops_for_prop_case(case):
    gfapy = lib.import_gfapy()
    if case.get("version") != "gfa2" or not all(supported_add(l) for l in case["lines"]):
        return [], []
    g = gfapy.Gfa(version="gfa2", vlevel=1)
    ops, exp = [op("g.new", "gfa2")], ["ok"]
    for l in case["lines"]:
        if lib.outcome(gfapy.Line, l, version="gfa2", vlevel=1)[0] != "ok":
            return ops, exp
        r = lib.outcome(g.add_line, l)
        if r[0] == "ok":
            e = "ok"
        elif r[0] == "gerr" and r[1] in ERRS:
            e = "gerr " + r[1]
        else:
            return ops, exp
        ops.append(op("g.add", l)); exp.append(e)
        o = lib.outcome(lib.obs_flat, g)
        if o[0] != "ok" or "# INVALID" in o[1]:
            return ops, exp
        ops.append(op("g.obs")); exp.append("ok " + o[1])
    for u in g.sets:
        if u.virtual or u.name is None or str(u.name) == "*":
            continue
        r = lib.outcome(lambda: sorted(str(s.name) for s in u.induced_segments_set))
        if r[0] != "ok":
            continue        # unresolved items / not a walk: the oracle's business
        ops.append(op("g.induced", str(u.name))); exp.append("ok " + ",".join(r[1]))
        r = lib.outcome(lambda: sorted(lib.wl(e) for e in u.induced_edges_set))
        if r[0] == "ok":
            ops.append(op("g.inducedE", str(u.name))); exp.append("ok " + ";".join(r[1]))
    for o in g.paths:
        if o.virtual or o.record_type != "O" or str(o.name) == "*":
            continue
        r = lib.outcome(lambda: "|".join((str(x.name) if x.line.record_type == "S" else lib.wl(x.line)) + x.orient for x in o.captured_path))
        if r[0] == "foreign":
            continue        # cyclic nesting: RecursionError (C07)
        ops.append(op("g.captured", str(o.name))); exp.append("ok " + r[1] if r[0] == "ok" else "gerr " + r[1])
    return ops, exp
