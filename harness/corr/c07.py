"""C07 correspondence: outcome class (ok / gfapy error / foreign exception) of the guarded front end, model vs library."""
from harness import lib
from harness.lib import op

ALPHA = {"i": "09+-_ a.", "Z": "a \t\n~", "A": "a~ \t", "H": "09AFafG", "f": "09+-.eE n", "position_gfa2": "09$+- "}


def budget(tier):
    return 600 if tier == "quick" else 30000


def gen_case(rng, tier, i):
    if rng.random() < 0.7:
        dt = rng.choice(sorted(ALPHA))
        s = "".join(rng.choice(ALPHA[dt]) for _ in range(rng.randint(0, 5)))
        return {"kind": "field", "dt": dt, "s": s}
    tags = []
    for _ in range(rng.randint(0, 3)):
        dt = rng.choice("iZAHf")
        tags.append("%s%s:%s:%s" % (rng.choice("axX"), rng.choice("b1"), dt, "".join(rng.choice(ALPHA[dt]) for _ in range(rng.randint(0, 4)))))
    fields = ["S", "A", "*"][:rng.randint(0, 3)] + tags
    return {"kind": "line", "text": "\t".join(fields)}


def tags(case):
    return ["corr:" + case["kind"]]


def nontrivial(case):
    return True


def cls(r):
    return "ok" if r[0] == "ok" else ("gerr" if r[0] == "gerr" else "foreign " + r[1])


def model_ops(case):
    gfapy = lib.import_gfapy()
    if case["kind"] == "field":
        r = lib.outcome(gfapy.Field._parse_gfa_field, case["s"], case["dt"], True)
        return [op("py.decode", case["dt"], case["s"])], [cls(r)]
    t = case["text"]
    # record type S in GFA1 syntax: 2 positional fields; duplicate tag names are a gfapy error the model does not look at
    names = [f[:2] for f in t.split("\t")[3:]]
    if len(set(names)) != len(names) or any(n in ("LN", "RC", "FC", "KC", "SH", "UR") for n in names):
        return [], []
    r = lib.outcome(gfapy.Line, t, version="gfa1", vlevel=1)
    if not t.startswith("S"):
        return [], []
    return [op("py.line", "segment_name_gfa1,sequence_gfa1", t)], [cls(r)]
