"""C16 correspondence: components and counts of the model Gfa vs the library."""
from harness import lib
from harness.lib import op
from harness.corr.graphcorr import supported_add


def model_ops_for_prop_case(case):
    gfapy = lib.import_gfapy()
    v = case.get("version")
    if v not in ("gfa1", "gfa2") or not all(supported_add(l) for l in case["lines"]):
        return [], []
    try:
        g = gfapy.Gfa(version=v, vlevel=1)
        for l in case["lines"]:
            g.add_line(l)
    except gfapy.Error:
        return [], []
    if any(l.virtual for l in g.lines):
        return [], []     # a placeholder line cannot be handed to the model as a line
    ops = [op("g.new", v)] + [op("g.add", str(l)) for l in g.lines if l.record_type in "SLCPEGFOU"]
    exp = ["ok"] * len(ops)
    ops.append(op("g.cc")); exp.append("ok " + ";".join(sorted(",".join(sorted(s.name for s in c)) for c in g.connected_components())))
    ops.append(op("g.counts")); exp.append("ok dovetails=%d containments=%d internals=%d dead_ends=%d" % (
        g.n_dovetails, g.n_containments, g.n_internals, g.n_dead_ends))
    if g.segment_names:
        s = sorted(g.segment_names)[0]
        ops.append(op("g.cc1", s)); exp.append("ok " + ",".join(sorted(x.name for x in g.segment_connected_component(s))))
    return ops, exp
