"""C15 correspondence: multiplication arithmetic, model vs gfapy."""
from harness import lib
from harness.lib import op


def budget(tier):
    return 300 if tier == "quick" else 8000


def gen_case(rng, tier, i):
    k = rng.choice(["auto", "windows", "names"])
    if k == "auto":
        return {"kind": "auto", "k": rng.randint(0, 7), "b": rng.randint(0, 7), "e": rng.randint(0, 7), "eq": rng.random() < 0.4}
    if k == "windows":
        return {"kind": "windows", "n": rng.randint(1, 6), "k": rng.randint(2, 6), "end": rng.choice("LR")}
    used = sorted(set(rng.randint(2, 9) for _ in range(rng.randint(0, 5))))
    return {"kind": "names", "used": used, "factor": rng.randint(2, 5)}


def tags(case):
    return ["corr:" + case["kind"]]


def nontrivial(case):
    return True


def model_ops(case):
    gfapy = lib.import_gfapy()
    from gfapy.graph_operations.multiplication import Multiplication
    if case["kind"] == "auto":
        r = Multiplication._auto_select_distribute_end(case["k"], case["b"], case["e"], case["eq"])
        return [op("mul.auto", case["k"], case["b"], case["e"], int(case["eq"]))], ["ok " + str(r)]
    if case["kind"] == "windows":
        n, k, end = case["n"], case["k"], case["end"]
        lines = ["S\tX\t*"] + ["S\tN%d\t*" % j for j in range(n)]
        for j in range(n):
            lines.append("L\tX\t+\tN%d\t+\t*" % j if end == "R" else "L\tN%d\t+\tX\t+\t*" % j)
        g = gfapy.Gfa(lines)
        g.multiply("X", k, distribute=end)
        names = ["X"] + ["X*%d" % (i + 2) for i in range(k - 1)]
        wins = []
        for nm in names:
            ls = g.segment(nm).dovetails_of_end(end)
            wins.append(",".join(str(x) for x in sorted(int(l.other(g.segment(nm)).name[1:]) for l in ls)))
        return [op("mul.windows", n, k)], ["ok " + ";".join(wins)]
    used, f = case["used"], case["factor"]
    lines = ["S\tX\t*"] + ["S\tX*%d\t*" % u for u in used]
    g = gfapy.Gfa(lines)
    names = g._compute_copy_names("X", f)
    return [op("mul.names", ",".join(map(str, used)), f - 1, 2)], ["ok " + ",".join(n.split("*")[1] for n in names)]
