"""C15 correspondence: multiplication arithmetic, and the whole multiply operation on graphs without link distribution
(GfaModel/MultiplyGraph.lean vs Gfa.multiply: complete observation afterwards), model vs gfapy."""
from harness import lib
from harness.lib import op
from harness.props import _graphgen as G
from harness.corr.graphcorr import supported_add


def budget(tier):
    return 500 if tier == "quick" else 10000


def gen_case(rng, tier, i):
    if rng.random() < 0.5:
        c = G.gen_graph(rng, tier, counts=True, max_segs=6)
        c["kind"] = "graph"
        c["factor"] = rng.choice([0, 1, 2, 2, 3, 3, 4])
        c["pick"] = rng.randrange(1000)
        c["given"] = rng.random() < 0.4
        c["distribute"] = rng.choice([None, None, "auto", "equal", "L", "R", "off"])
        return c
    k = rng.choice(["auto", "windows", "names"])
    if k == "auto":
        return {"kind": "auto", "k": rng.randint(0, 7), "b": rng.randint(0, 7), "e": rng.randint(0, 7), "eq": rng.random() < 0.4}
    if k == "windows":
        return {"kind": "windows", "n": rng.randint(1, 6), "k": rng.randint(2, 6), "end": rng.choice("LR")}
    used = sorted(set(rng.randint(2, 9) for _ in range(rng.randint(0, 5))))
    return {"kind": "names", "used": used, "factor": rng.randint(2, 5)}


def tags(case):
    return ["corr:" + case["kind"]]


def nontrivial(case):
    return True


def graph_ops(case):
    gfapy = lib.import_gfapy()
    v = case["version"]
    if not all(supported_add(l) for l in case["lines"]):
        return [], []
    # segments, then edges, then paths and groups: no placeholder is ever created, so the order of the links on a segment
    # end (which decides the distribution windows) is the order of the lines the model is given.  (A placeholder link
    # that is replaced keeps its place on the segment end but not in the registry: the model cannot know that order.)
    rank = {"S": 0, "L": 1, "C": 1, "E": 1, "G": 1, "F": 1}
    ordered = sorted(case["lines"], key=lambda l: rank.get(l.split("\t")[0], 2))
    try:
        g = gfapy.Gfa(version=v, vlevel=1)
        for l in ordered:
            g.add_line(l)
    except gfapy.Error:
        return [], []
    segs = list(g.segment_names)
    if not segs:
        return [], []
    if any(l.virtual for l in g.lines):
        return [], []     # a placeholder line cannot be handed to the model as a line (it is written with a commentary tag)
    ops = [op("g.new", v)] + [op("g.add", str(l)) for l in g.lines if l.record_type in "SLCPEGFOU"]
    exp = ["ok"] * len(ops)
    sn = segs[case["pick"] % len(segs)]
    k = case["factor"]
    if k >= 2:
        names = (["cp%d_%s" % (j, sn) for j in range(k - 1)] if case["given"] else g._compute_copy_names(sn, k))
    else:
        names = []
    pol = case.get("distribute")
    if pol is None:
        r = lib.outcome(g.multiply, sn, k, copy_names=(names if k >= 2 else None))
    else:
        r = lib.outcome(g.multiply, sn, k, copy_names=(names if k >= 2 else None), distribute=pol)
    if r[0] != "ok":
        return [], []     # what multiply refuses is the oracle's business
    o = lib.outcome(lib.obs_flat, g)
    if o[0] != "ok" or "# INVALID" in o[1]:
        return [], []
    if pol is None:
        ops.append(op("g.multiply", sn, k, ",".join(names))); exp.append("ok")
    else:
        ops.append(op("g.multiply", sn, k, ",".join(names), pol)); exp.append("ok")
    ops.append(op("g.obs")); exp.append("ok " + o[1])
    return ops, exp


def model_ops(case):
    gfapy = lib.import_gfapy()
    if case["kind"] == "graph":
        return graph_ops(case)
    from gfapy.graph_operations.multiplication import Multiplication
    if case["kind"] == "auto":
        r = Multiplication._auto_select_distribute_end(case["k"], case["b"], case["e"], case["eq"])
        return [op("mul.auto", case["k"], case["b"], case["e"], int(case["eq"]))], ["ok " + str(r)]
    if case["kind"] == "windows":
        n, k, end = case["n"], case["k"], case["end"]
        lines = ["S\tX\t*"] + ["S\tN%d\t*" % j for j in range(n)]
        for j in range(n):
            lines.append("L\tX\t+\tN%d\t+\t*" % j if end == "R" else "L\tN%d\t+\tX\t+\t*" % j)
        g = gfapy.Gfa(lines)
        g.multiply("X", k, distribute=end)
        names = ["X"] + ["X*%d" % (i + 2) for i in range(k - 1)]
        wins = []
        for nm in names:
            ls = g.segment(nm).dovetails_of_end(end)
            wins.append(",".join(str(x) for x in sorted(int(l.other(g.segment(nm)).name[1:]) for l in ls)))
        return [op("mul.windows", n, k)], ["ok " + ";".join(wins)]
    used, f = case["used"], case["factor"]
    lines = ["S\tX\t*"] + ["S\tX*%d\t*" % u for u in used]
    g = gfapy.Gfa(lines)
    names = g._compute_copy_names("X", f)
    return [op("mul.names", ",".join(map(str, used)), f - 1, 2)], ["ok " + ",".join(n.split("*")[1] for n in names)]
