"""C13 correspondence: version state machine, model vs Gfa(lines, version=...)."""
from harness import lib
from harness.lib import op

LINES = {
    "comment": ["# a comment"],
    "hNone": ["H\txx:i:%d"],
    "hVN1": ["H\tVN:Z:1.0"],
    "hVN2": ["H\tVN:Z:2.0"],
    "hBad": ["H\tVN:Z:3.0"],
    "s1": ["S\tS%d\t*"],
    "s2": ["S\tS%d\t10\t*"],
    "g1": ["L\tA%d\t+\tB%d\t-\t*", "C\tA%d\t+\tB%d\t+\t0\t*", "P\tp%d\tA%d+,B%d-\t*"],
    "g2": ["E\t*\tA%d+\tB%d-\t0\t1\t0\t1\t*", "G\t*\tA%d+\tB%d-\t10\t*", "F\tA%d\tr%d+\t0\t1\t0\t1\t*", "O\to%d\tA%d+", "U\tu%d\tA%d"],
    "custom": ["X\tfoo%d", "Y\tbar%d\txx:i:1"],
}
KINDS = list(LINES)


def budget(tier):
    return 600 if tier == "quick" else 30000


def gen_case(rng, tier, i):
    n = rng.randint(0, 6)
    w = {"comment": 2, "hNone": 2, "hVN1": 1, "hVN2": 1, "hBad": 0.3, "s1": 2, "s2": 2, "g1": 3, "g2": 3, "custom": 1.5}
    ks = rng.choices(KINDS, weights=[w[k] for k in KINDS], k=n)
    return {"kinds": ks, "explicit": rng.choice(["none", "none", "gfa1", "gfa2"]), "vlevel": rng.choice([1, 1, 2, 3]),
            "pick": rng.randrange(10 ** 6)}


def tags(case):
    return ["corr:explicit=" + case["explicit"], "n%d" % len(case["kinds"])]


def nontrivial(case):
    return len(set(case["kinds"])) >= 2


def model_ops(case):
    gfapy = lib.import_gfapy()
    r = lib.Rng(case["pick"])
    lines = []
    for j, k in enumerate(case["kinds"]):
        t = r.choice(LINES[k])
        lines.append(t.replace("%d", str(j)))
    ex = None if case["explicit"] == "none" else case["explicit"]
    def build():
        # line by line and without the final reference check of Gfa(list): only the version logic is compared
        g = gfapy.Gfa(version=ex, vlevel=case["vlevel"])
        for l in lines:
            g.add_line(l)
        g.process_line_queue()
        return g
    out = lib.outcome(build)
    if out[0] == "ok":
        g = out[1]
        n_h = sum(1 for k in case["kinds"] if k.startswith("h"))
        real = [l for l in g.lines if l.record_type != "H" and not l.virtual]
        exp = "ok %s %d" % (g.version, len(real) + n_h)
    elif out[0] == "gerr":
        exp = "gerr " + out[1]
    else:
        exp = "foreign " + out[1]
    return [op("ver.build", case["explicit"], *case["kinds"])], [exp]
