"""C13 correspondence: version state machine, model vs Gfa(lines, version=...)."""
from harness import lib
from harness.lib import op

LINES = {
    "comment": ["# a comment"],
    "hNone": ["H\txx:i:%d"],
    "hVN1": ["H\tVN:Z:1.0"],
    "hVN2": ["H\tVN:Z:2.0"],
    "hBad": ["H\tVN:Z:3.0"],
    "s1": ["S\tS%d\t*"],
    "s2": ["S\tS%d\t10\t*"],
    "g1": ["L\tA%d\t+\tB%d\t-\t*", "C\tA%d\t+\tB%d\t+\t0\t*", "P\tp%d\tA%d+,B%d-\t*"],
    "g2": ["E\t*\tA%d+\tB%d-\t0\t1\t0\t1\t*", "G\t*\tA%d+\tB%d-\t10\t*", "F\tA%d\tr%d+\t0\t1\t0\t1\t*", "O\to%d\tA%d+", "U\tu%d\tA%d"],
    "custom": ["X\tfoo%d", "Y\tbar%d\txx:i:1"],
}
KINDS = list(LINES)


def budget(tier):
    return 600 if tier == "quick" else 30000


def gen_rgfa_case(rng):
    """rGFA-conforming content (props/c13.gen_rgfa_doc) with 0-2 departures from the dialect: a mandatory tag missing
    or of another type, a link tag of another type, an overlap that is not 0M, a header / containment / path line,
    a link to an undefined segment (placeholder), GFA2 syntax; `validate_rgfa()` against GfaModel/Rgfa.lean"""
    from harness.props import c13 as P
    syntax = "gfa2" if rng.random() < 0.12 else "gfa1"
    lines = [l for l in P.gen_rgfa_doc(rng, syntax) if not l.startswith("#")]
    for _ in range(rng.choice([0, 0, 1, 1, 2])):
        k = rng.choice(["droptag", "typetag", "linktag", "overlap", "header", "contain", "path", "dangling"])
        idxS = [i for i, l in enumerate(lines) if l.startswith("S\t")]
        idxL = [i for i, l in enumerate(lines) if l.startswith("L\t")]
        if k == "droptag" and idxS:
            i = rng.choice(idxS); f = lines[i].split("\t"); t = rng.choice(["SN:", "SO:", "SR:"])
            lines[i] = "\t".join(x for x in f if not x.startswith(t))
        elif k == "typetag" and idxS:
            i = rng.choice(idxS); f = lines[i].split("\t")
            lines[i] = "\t".join({"SN:Z": "SN:i:3", "SO:i": "SO:Z:0", "SR:i": "SR:f:1.0"}.get(x[:4], x) if rng.random() < 0.5 else x for x in f)
        elif k == "linktag" and idxL:
            i = rng.choice(idxL)
            lines[i] += "\t" + rng.choice(["L1:Z:x", "L2:f:2.0", "SR:Z:0", "L1:i:2", "xy:Z:a"])
        elif k == "overlap" and idxL:
            i = rng.choice(idxL); f = lines[i].split("\t"); f[5] = rng.choice(["*", "1M", "00M", "0M0M"]); lines[i] = "\t".join(f)
        elif k == "header":
            lines.insert(rng.randrange(len(lines) + 1), rng.choice(["H\tVN:Z:1.0", "H\txx:i:1"]))
        elif k == "contain" and idxS and syntax == "gfa1":
            a = lines[rng.choice(idxS)].split("\t")[1]; b = lines[rng.choice(idxS)].split("\t")[1]
            if a != b:
                lines.append("C\t%s\t+\t%s\t+\t0\t*" % (a, b))
        elif k == "path" and idxS and syntax == "gfa1":
            a = lines[rng.choice(idxS)].split("\t")[1]
            lines.append("P\tpp\t%s+\t*" % a)
        elif k == "dangling" and idxS and syntax == "gfa1":
            a = lines[rng.choice(idxS)].split("\t")[1]
            lines.append("L\t%s\t+\tnowhere\t-\t0M" % a)
    return {"kinds": ["rgfa"], "lines": lines, "explicit": "none", "vlevel": 1, "pick": 0}


def rgfa_ops(case):
    from harness.corr.graphcorr import supported_add, ERRS
    gfapy = lib.import_gfapy()
    try:
        g = gfapy.Gfa(vlevel=1)
        for l in case["lines"]:
            g.add_line(l)
        g.process_line_queue()
    except gfapy.Error:
        return [], []
    v = g.version
    if v not in ("gfa1", "gfa2"):
        return [], []
    body = [l for l in case["lines"] if not l.startswith("H\t")]
    if not all(supported_add(l) for l in body):
        return [], []
    # the model is given the lines in the library's own order (segments in registry order, then the rest): which
    # complaint comes first depends on it
    own = [str(l) for l in g.lines if l.record_type in "SLCPEGFOU" and not l.virtual]
    ops = [op("g.new", v)] + [op("g.add", l) for l in own]
    exp = ["ok"] * len(ops)
    r = lib.outcome(g.validate_rgfa)
    if any(x.virtual for x in g.segments):
        # a placeholder sits somewhere in the library's order: compared only when no real segment has a complaint of
        # its own (then the placeholder's missing tags are the first complaint wherever it sits)
        clean = all(x.virtual or (x.get_datatype("SN") == "Z" and x.get_datatype("SO") == "i" and x.get_datatype("SR") == "i"
                                  and all(t in x.tagnames for t in ("SN", "SO", "SR"))) for x in g.segments)
        if not clean or g.headers or g.containments or g.paths:
            return [], []
    if r[0] == "ok":
        e = "ok"
    elif r[0] == "gerr" and r[1] in ("VersionError", "ValueError", "NotFoundError"):
        e = "gerr " + r[1]
    else:
        return [], []
    ops.append(op("g.rgfa", int(bool(g.headers)))); exp.append(e)
    return ops, exp


def gen_case(rng, tier, i):
    if i % 4 == 3:
        return gen_rgfa_case(rng)
    n = rng.randint(0, 6)
    w = {"comment": 2, "hNone": 2, "hVN1": 1, "hVN2": 1, "hBad": 0.3, "s1": 2, "s2": 2, "g1": 3, "g2": 3, "custom": 1.5}
    ks = rng.choices(KINDS, weights=[w[k] for k in KINDS], k=n)
    return {"kinds": ks, "explicit": rng.choice(["none", "none", "gfa1", "gfa2"]), "vlevel": rng.choice([1, 1, 2, 3]),
            "pick": rng.randrange(10 ** 6)}


def tags(case):
    return ["corr:explicit=" + case["explicit"], "n%d" % len(case["kinds"])]


def nontrivial(case):
    return len(set(case["kinds"])) >= 2


def model_ops(case):
    if case["kinds"] == ["rgfa"]:
        return rgfa_ops(case)
    return version_ops(case)


def version_ops(case):
    gfapy = lib.import_gfapy()
    r = lib.Rng(case["pick"])
    lines = []
    for j, k in enumerate(case["kinds"]):
        t = r.choice(LINES[k])
        lines.append(t.replace("%d", str(j)))
    ex = None if case["explicit"] == "none" else case["explicit"]
    def build():
        # line by line and without the final reference check of Gfa(list): only the version logic is compared
        g = gfapy.Gfa(version=ex, vlevel=case["vlevel"])
        for l in lines:
            g.add_line(l)
        g.process_line_queue()
        return g
    out = lib.outcome(build)
    if out[0] == "ok":
        g = out[1]
        n_h = sum(1 for k in case["kinds"] if k.startswith("h"))
        real = [l for l in g.lines if l.record_type != "H" and not l.virtual]
        exp = "ok %s %d" % (g.version, len(real) + n_h)
    elif out[0] == "gerr":
        exp = "gerr " + out[1]
    else:
        exp = "foreign " + out[1]
    return [op("ver.build", case["explicit"], *case["kinds"])], [exp]
