"""Correspondence of the model Gfa (GfaModel/Graph.lean) with the real library on operation histories."""
from harness import lib
from harness.lib import op

MODEL_RT = set("SLCPEGFOU")
ERRS = {"NotUniqueError", "NotFoundError", "VersionError"}
MODEL_EDITS = True     # rm(line) / disconnect / set and delete of a tag have model counterparts (GfaModel/Edit.lean)


def supported_add(text):
    f = text.split("\t")
    return len(f[0]) == 1 and f[0] in MODEL_RT and "\n" not in text


def history_ops(case, observe=("obs",)):
    """run a _hist-style case on the real library, emit model ops with the implementation's replies.
    Stops at the first step the model has no counterpart for."""
    gfapy = lib.import_gfapy()
    from harness.props import _hist as H
    v = case.get("version")
    if v not in ("gfa1", "gfa2"):
        return [], []
    g = H.new_gfa(case)
    ops, exp = [op("g.new", v)], ["ok"]
    for step in case["hist"]:
        kind = step[0]
        if kind == "add":
            if not supported_add(step[1]):
                rt = step[1].split("\t")[0]
                if "\n" in step[1] or (len(rt) == 1 and rt in MODEL_RT):
                    break
                # header, comment, custom record: no part of the model's state (the observation holds graph records
                # only, and nothing can refer to such a line); the library takes it, the model is not told
                H.apply_step(g, step)
                continue
            mop = op("g.add", step[1])
        elif kind == "rm":
            mop = op("g.rm", step[1])
        elif kind == "rename" and not str(step[1]).startswith("@") and step[2] not in ("*", "") and \
                not any(c in step[2] for c in " ,\t\n") and step[1] not in ("*", ""):
            mop = op("g.rename", step[1], step[2])
        elif kind in ("rmline", "disconnect", "settag", "deltag") and MODEL_EDITS:
            # a line given as an object is designated to the model by its written form
            tr = lib.outcome(H.resolve, g, H.step_target(step))
            line = tr[1] if tr[0] == "ok" else None
            if line is None or line.virtual or line.record_type not in MODEL_RT:
                break
            tw = lib.outcome(lib.wl, line)
            if tw[0] != "ok" or "# INVALID" in tw[1] or "\n" in tw[1]:
                break
            if kind in ("rmline", "disconnect"):
                mop = op("g.rmtext", tw[1])
            elif step[2] == "ID" or not isinstance(step[2], str) or len(step[2]) != 2:
                break          # the ID tag is the identifier of a link: a rename (not modelled as a tag edit)
            elif kind == "deltag" or step[3] is None:
                mop = op("g.deltag", tw[1], step[2])
            else:
                mop = None     # needs the written tag: after the call
        else:
            break
        if kind == "add":
            # syntax-level problems of the line itself (C04's business) are not modelled
            pre = lib.outcome(gfapy.Line, step[1], version=v, vlevel=case.get("vlevel", 1))
            if pre[0] != "ok":
                break
        r = H.apply_step(g, step)
        if mop is None:
            # the text of the tag is the library's (its encoding is C20's business); its place in the line, and
            # that nothing else changes, is the model's
            if r[0] != "ok":
                break
            ft = lib.outcome(line.field_to_s, step[2], True)
            if ft[0] != "ok" or not isinstance(ft[1], str) or not ft[1].startswith(step[2] + ":"):
                break
            mop = op("g.settag", tw[1], step[2], ft[1])
        elif kind in ("settag", "deltag") and r[0] != "ok":
            break
        if r[0] == "ok":
            e = "ok"
        elif r[0] == "gerr" and r[1] in ERRS:
            e = "gerr " + r[1]
        else:
            break        # malformed input, foreign exceptions …: not the model's business (C04/C07)
        ops.append(mop); exp.append(e)
        if lib.ambiguous_placeholders(g):
            break
        if "obs" in observe:
            o = lib.outcome(lib.obs_flat, g)
            if o[0] != "ok" or "# INVALID" in o[1]:
                break      # the library cannot write its own state (a finding of C07/C05 oracles, not of this correspondence)
            ops.append(op("g.obs")); exp.append("ok " + o[1])
    return ops, exp


def model_ops_for_prop_case(case):
    return history_ops(case)
