"""C01 correspondence: one line as text (split, positional fields, tags, rewriting) and the order of the written
records, model vs gfapy.

line   Gfa.Line.parseLine/writeLine (GfaModel/Line.lean) against gfapy.Line(s, vlevel=0): record type, the
       positional fields and the tags as written back one by one (field_to_s), and str(line); lines with a damaged
       tag or too few fields must be refused on both sides.  The number of positional fields comes from the
       line class (POSFIELDS; bridged to the model's table by GfaProofs.Bridge.LineFmt for C04), for a custom
       record from the number of leading fields that are not tags.
order  Gfa.Doc.writeOrder (GfaModel/DocOrder.lean) against the record types of str(Gfa(doc)) in written order
       (the header is merged and split by the library: H lines are left out on both sides).
"""
from harness import lib
from harness.lib import op
from harness.props import _docgen as D


def budget(tier):
    return 300 if tier == "quick" else 6000


def mutate(rng, s):
    f = s.split("\t")
    tagidx = [i for i in range(1, len(f)) if D.TAG_RE.match(f[i])]
    k = rng.choice(["tagname", "tagtype", "tagempty", "dropfield", "colon", "addtab"])
    if k in ("tagname", "tagtype", "tagempty", "colon") and tagidx:
        i = rng.choice(tagidx)
        t = f[i]
        if k == "tagname":
            f[i] = rng.choice(["1", "_", "a"]) + t[1:] if rng.random() < 0.5 else t[0] + rng.choice(["_", "-"]) + t[2:]
        elif k == "tagtype":
            f[i] = t[:3] + rng.choice(["x", "I", "z"]) + t[4:]
        elif k == "tagempty":
            f[i] = t[:5]
        else:
            f[i] = t[:2] + t[3:]
    elif k == "dropfield" and len(f) > 2:
        del f[rng.randrange(1, len(f))]
    else:
        f.insert(rng.randrange(1, len(f) + 1), "")
    return "\t".join(f)


def gen_case(rng, tier, i):
    d = D.gen_doc(rng, max_lines=rng.choice([4, 8, 12]), same_id_groups=False)
    lines = [l for l in d["lines"] if not l.startswith("#")]
    if i % 2 == 0 and lines:
        ls = []
        for l in lines:
            ls.append(l)
            if rng.random() < 0.4:
                ls.append(mutate(rng, l))
        return {"kind": "line", "version": d["version"], "lines": ls}
    return {"kind": "order", "version": d["version"], "lines": d["lines"]}


def tags(case):
    return ["corr:" + case["kind"], case["version"]]


def nontrivial(case):
    return len(case["lines"]) >= 2


def model_ops(case):
    gfapy = lib.import_gfapy()
    ops, exp = [], []
    ver = case["version"]
    if case["kind"] == "line":
        for s in case["lines"]:
            f = s.split("\t")
            r = lib.outcome(lambda: gfapy.Line(s, vlevel=0, version=ver))
            if r[0] == "ok":
                l = r[1]
                npos = len(l.positional_fieldnames)
                x = lib.outcome(lambda: (l.record_type, [l.field_to_s(fn) for fn in l.positional_fieldnames],
                                         [l.field_to_s(tn, tag=True) for tn in l.tagnames], str(l)))
                if x[0] != "ok":
                    continue
                rt, pos, tg, txt = x[1]
                if txt != s:
                    # eagerly parsed tag datatypes (i, f, J) are written in canonical spelling: the text model is asked
                    # about the written text instead (its own fixed point), the value comparison is the oracle's
                    r2 = lib.outcome(lambda: gfapy.Line(txt, vlevel=0, version=ver))
                    if r2[0] != "ok":
                        continue
                    l, s = r2[1], txt
                    f = s.split("\t")
                    x = lib.outcome(lambda: (l.record_type, [l.field_to_s(fn) for fn in l.positional_fieldnames],
                                             [l.field_to_s(tn, tag=True) for tn in l.tagnames], str(l)))
                    if x[0] != "ok" or len(l.positional_fieldnames) != npos:
                        continue
                    rt, pos, tg, txt = x[1]
                e = "ok " + rt + "|" + "|".join(pos) + "|#" + "|".join(tg) + "|=" + txt
            else:
                # which positional count the model is asked with: the class table, for a custom record the leading non-tags
                cls = gfapy.Line._subclass(f, version=ver) if hasattr(gfapy.Line, "_subclass") else None
                try:
                    npos = len(cls.POSFIELDS)
                except Exception:
                    npos = 0
                    for x in f[1:]:
                        if D.TAG_RE.match(x):
                            break
                        npos += 1
                if npos == 0 and f[0] not in ("H",):
                    continue
                e = "err"
                # refusals for reasons outside the text model (predefined tag datatype, duplicate tag ...) are C04's
                if not (len(f) - 1 < npos or any(not D.TAG_RE.match(x) for x in f[1 + npos:])):
                    continue
            if any("|" in x for x in f) or "\x1f" in s:
                continue
            ops.append(op("line.parse", npos, s)); exp.append(e)
        return ops, exp
    r = lib.outcome(lambda: gfapy.Gfa(case["lines"], version=ver))
    if r[0] != "ok":
        return [], []
    out = [l.split("\t")[0] for l in str(r[1]).split("\n") if l]
    rin = ["#" if l.startswith("#") else l.split("\t")[0] for l in case["lines"]]
    rin = [x for x in rin if x != "H"]
    out = ["#" if x.startswith("#") else x for x in out if x != "H"]
    if not rin or len(out) != len(rin):
        return [], []          # a link given in both complement forms is stored once (the oracle counts records)
    return [op("doc.order", *rin)], ["ok " + " ".join(out)]
