"""C06 correspondence: link -> edge coordinates and back, model vs gfapy."""
from harness import lib
from harness.lib import op


def budget(tier):
    return 800 if tier == "quick" else 15000


def gen_edge_case(rng):
    n1, n2 = rng.randint(2, 12), rng.randint(2, 12)
    def iv(n):
        k = rng.random()
        if k < 0.3:
            return 0, rng.randint(0, n)            # prefix
        if k < 0.6:
            return rng.randint(0, n), n            # suffix
        if k < 0.75:
            return 0, n                            # whole
        b = rng.randint(0, n)
        return b, rng.randint(b, n)
    b1, e1 = iv(n1)
    b2, e2 = iv(n2)
    ops = []
    for _ in range(rng.randint(1, 3)):
        ops.append("%d%s" % (rng.randint(0, 3), rng.choice("MIDP")))
    return {"kind": "edge", "o1": rng.choice("+-"), "o2": rng.choice("+-"), "n1": n1, "n2": n2, "b1": b1, "e1": e1, "b2": b2, "e2": e2,
            "cigar": "".join(ops)}


def edge_ops(case):
    gfapy = lib.import_gfapy()
    c = case
    p = lambda x, n: "%d$" % x if x == n else str(x)
    e = "E	*	A%s	B%s	%s	%s	%s	%s	%s" % (c["o1"], c["o2"], p(c["b1"], c["n1"]), p(c["e1"], c["n1"]), p(c["b2"], c["n2"]), p(c["e2"], c["n2"]), c["cigar"])
    r = lib.outcome(lambda: gfapy.Gfa(["S\tA\t%d\t*" % c["n1"], "S\tB\t%d\t*" % c["n2"], e], vlevel=1, version="gfa2"))
    if r[0] != "ok":
        return [], []
    ed = r[1].edges[0]
    mop = op("conv.edge", c["o1"], c["n1"], c["b1"], c["e1"], c["o2"], c["n2"], c["b2"], c["e2"], c["cigar"])
    t = lib.outcome(lambda: ed.to_gfa1_s())
    if t[0] == "gerr":
        return [mop], ["none"]
    if t[0] != "ok":
        return [], []
    f = t[1].split("\t")
    if f[0] == "L":
        return [mop], ["ok L " + "\t".join(f[1:6])]
    return [mop], ["ok C " + "\t".join(f[1:5] + [f[6]]) + " pos=" + f[5]]


def gen_case(rng, tier, i):
    if i % 2 == 1:
        return gen_edge_case(rng)
    nf, nt = rng.randint(2, 12), rng.randint(2, 12)
    ops = []
    for _ in range(rng.randint(1, 3)):
        ops.append("%d%s" % (rng.randint(0, 3), rng.choice("MIDP")))
    return {"fo": rng.choice("+-"), "to": rng.choice("+-"), "nf": nf, "nt": nt, "cigar": "".join(ops)}


def tags(case):
    return ["corr:edge" if case.get("kind") == "edge" else "corr:link"]


def nontrivial(case):
    return True


def model_ops(case):
    if case.get("kind") == "edge":
        return edge_ops(case)
    gfapy = lib.import_gfapy()
    nf, nt, c = case["nf"], case["nt"], case["cigar"]
    al = gfapy.Alignment(c, version="gfa1")
    if al.length_on_reference() >= nf or al.length_on_query() >= nt:
        return [], []          # overlap covering a whole segment: outside the claim (containment in GFA2)
    g = gfapy.Gfa(["S\tA\t*\tLN:i:%d" % nf, "S\tB\t*\tLN:i:%d" % nt, "L\tA\t%s\tB\t%s\t%s" % (case["fo"], case["to"], c)], vlevel=1)
    l = g.dovetails[0]
    r = lib.outcome(lambda: l.to_gfa2_s())
    if r[0] != "ok":
        return [op("conv.link", case["fo"], case["to"], nf, nt, c)], ["gerr " + r[1]]
    f = r[1].split("\t")
    coords = " ".join(f[4:8])
    e = gfapy.Line(r[1].replace("\t" + f[1] + "\t", "\t*\t", 1), version="gfa2")
    g2 = gfapy.Gfa(["S\tA\t%d\t*" % nf, "S\tB\t%d\t*" % nt, str(e)], vlevel=1)
    back = lib.outcome(lambda: g2.edges[0].to_gfa1_s())
    if back[0] == "ok":
        bf = back[1].split("\t")
        bs = "L " + "\t".join(bf[1:6])
    else:
        bs = "none"
    return [op("conv.link", case["fo"], case["to"], nf, nt, c)], ["ok %s | %s" % (coords, bs)]
