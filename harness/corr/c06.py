"""C06 correspondence: link -> edge coordinates and back, model vs gfapy."""
from harness import lib
from harness.lib import op


def budget(tier):
    return 400 if tier == "quick" else 15000


def gen_case(rng, tier, i):
    nf, nt = rng.randint(2, 12), rng.randint(2, 12)
    ops = []
    for _ in range(rng.randint(1, 3)):
        ops.append("%d%s" % (rng.randint(0, 3), rng.choice("MIDP")))
    return {"fo": rng.choice("+-"), "to": rng.choice("+-"), "nf": nf, "nt": nt, "cigar": "".join(ops)}


def tags(case):
    return ["corr:link"]


def nontrivial(case):
    return True


def model_ops(case):
    gfapy = lib.import_gfapy()
    nf, nt, c = case["nf"], case["nt"], case["cigar"]
    al = gfapy.Alignment(c, version="gfa1")
    if al.length_on_reference() >= nf or al.length_on_query() >= nt:
        return [], []          # overlap covering a whole segment: outside the claim (containment in GFA2)
    g = gfapy.Gfa(["S\tA\t*\tLN:i:%d" % nf, "S\tB\t*\tLN:i:%d" % nt, "L\tA\t%s\tB\t%s\t%s" % (case["fo"], case["to"], c)], vlevel=1)
    l = g.dovetails[0]
    r = lib.outcome(lambda: l.to_gfa2_s())
    if r[0] != "ok":
        return [op("conv.link", case["fo"], case["to"], nf, nt, c)], ["gerr " + r[1]]
    f = r[1].split("\t")
    coords = " ".join(f[4:8])
    e = gfapy.Line(r[1].replace("\t" + f[1] + "\t", "\t*\t", 1), version="gfa2")
    g2 = gfapy.Gfa(["S\tA\t%d\t*" % nf, "S\tB\t%d\t*" % nt, str(e)], vlevel=1)
    back = lib.outcome(lambda: g2.edges[0].to_gfa1_s())
    if back[0] == "ok":
        bf = back[1].split("\t")
        bs = "L " + "\t".join(bf[1:6])
    else:
        bs = "none"
    return [op("conv.link", case["fo"], case["to"], nf, nt, c)], ["ok %s | %s" % (coords, bs)]
