"""C18 correspondence: one field under set/get/write/validate at each level, model vs gfapy."""
from harness import lib
from harness.lib import op

VALID = {"i": ["5", "+05", "-3", "007"], "Z": ["abc", "a b"], "H": ["0A", "00FF"]}
BADRAW = {"i": ["x", "1.5", ""], "Z": ["a\tb", "a\nb"], "H": ["0a", "ABC", "G0"]}


def budget(tier):
    return 400 if tier == "quick" else 12000


def gen_case(rng, tier, i):
    dt = rng.choice("iZH")
    ops = []
    for _ in range(rng.randint(1, 6)):
        o = rng.choice(["get", "write", "validate", "setraw", "setraw", "setval"])
        if o == "setraw":
            # a Python str assigned to a Z tag *is* the value (no separate encoded form)
            ops.append("setraw:" + (rng.choice(VALID[dt]) if rng.random() < 0.5 else rng.choice(BADRAW[dt])))
        elif o == "setval":
            if dt == "i":
                ops.append("setval:%d" % rng.choice([0, -7, 12, 10**12]))
            elif dt == "Z":
                ops.append("setraw:" + rng.choice(["xyz", "q r"]))
            else:
                ops.append("setval:" + ",".join(str(rng.choice([0, 10, 255])) for _ in range(rng.randint(1, 3))))
        else:
            ops.append(o)
    return {"dt": dt, "k": rng.randint(0, 3), "text": rng.choice(VALID[dt]), "ops": ops}


def tags(case):
    return ["corr:%s:k%d" % (case["dt"], case["k"])]


def nontrivial(case):
    return any(o.startswith("set") for o in case["ops"])


def model_ops(case):
    gfapy = lib.import_gfapy()
    dt, k = case["dt"], case["k"]
    delayed = dt in gfapy.Line.DELAYED_PARSING_DATATYPES
    r = lib.outcome(lambda: gfapy.Line("S\tA\t*\txx:%s:%s" % (dt, case["text"]), vlevel=k))
    if r[0] != "ok":
        return [op("lvl.script", dt, k, int(delayed), case["text"], *case["ops"])], ["init:err"]
    l = r[1]
    out = []
    for o in case["ops"]:
        if o == "get":
            x = lib.outcome(l.get, "xx")
            out.append("get:ok" if x[0] == "ok" else "get:err")
        elif o == "write":
            x = lib.outcome(l.field_to_s, "xx")
            out.append("write:" + x[1] if x[0] == "ok" else "write:err")
        elif o == "validate":
            x = lib.outcome(l.validate_field, "xx")
            out.append("validate:ok" if x[0] == "ok" else "validate:err")
        elif o.startswith("setraw:"):
            x = lib.outcome(l.set, "xx", o[7:])
            out.append("set:ok" if x[0] == "ok" else "set:err")
        else:
            p = o[7:]
            v = int(p) if dt == "i" else (p if dt == "Z" else gfapy.ByteArray([int(t) for t in p.split(",")]))
            x = lib.outcome(l.set, "xx", v)
            out.append("set:ok" if x[0] == "ok" else "set:err")
    return [op("lvl.script", dt, k, int(delayed), case["text"], *case["ops"])], ["init:ok " + " ".join(out)]
