"""C04 correspondence: field acceptance, model (Grammar + side conditions) vs gfapy's safe decoders."""
import itertools
from harness import lib
from harness.lib import op

ALPHA = {
    "A": "a~ !\t", "i": "09+-_ a", "f": "09+-.eE ", "Z": "a ~\t\n", "H": "09AFaG", "B": "cCfi,1-+.9",
    "alignment_gfa1": "*19MIDNSHPX=,", "alignment_list_gfa1": "*1M=,", "oriented_identifier_list_gfa1": "a*=+-, ",
    "position_gfa1": "09+-$ ", "segment_name_gfa1": "a*=+-, ", "sequence_gfa1": "*Aa=.1", "path_name_gfa1": "a*=+,",
    "alignment_gfa2": "*19MIDPN,", "generic": "a \t\n", "identifier_gfa2": "a* +\t", "oriented_identifier_gfa2": "a+- ",
    "identifier_list_gfa2": "a + \t", "oriented_identifier_list_gfa2": "a+- ", "optional_identifier_gfa2": "a* ",
    "position_gfa2": "09$+-", "custom_record_type": "XES#a ", "sequence_gfa2": "*Aa ", "optional_integer": "*09+-",
    "orientation": "+-a",
}
DTS = sorted(ALPHA)


def strings(dt, maxlen):
    a = ALPHA[dt]
    out = []
    for n in range(0, maxlen + 1):
        for t in itertools.product(a, repeat=n):
            out.append("".join(t))
    return out


_CACHE = {}


def _space(tier):
    if tier not in _CACHE:
        ml = 3 if tier == "quick" else 4
        sp = []
        for dt in DTS:
            ss = strings(dt, ml if len(ALPHA[dt]) <= 8 else ml - (1 if tier == "quick" else 1))
            for i in range(0, len(ss), 200):
                sp.append((dt, ss[i:i + 200]))
        _CACHE[tier] = sp
    return _CACHE[tier]


def n_exhaustive(tier):
    return len(_space(tier))


def exhaustive_case(i, tier):
    dt, ss = _space(tier)[i]
    return {"dt": dt, "strings": ss}


def budget(tier):
    return 0


def gen_case(rng, tier, i):
    return {"dt": "i", "strings": ["0"]}


def tags(case):
    return ["corr:" + case["dt"]]


def nontrivial(case):
    return True


def real_accepts(gfapy, dt, s):
    try:
        gfapy.Field._parse_gfa_field(s, dt, safe=True)
        return True
    except gfapy.Error:
        return False
    except Exception as e:   # a foreign exception is C07's finding; here the field is simply not accepted
        return False


def model_ops(case):
    gfapy = lib.import_gfapy()
    ops, exp = [], []
    dt = case["dt"]
    for s in case["strings"]:
        if dt == "generic" and s == "":
            pass
        ops.append(op("field.accept", dt, s))
        exp.append("ok %d" % real_accepts(gfapy, dt, s))
    return ops, exp
