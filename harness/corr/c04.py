"""C04 correspondence: field acceptance, model (Grammar + side conditions) vs gfapy's safe decoders; and acceptance of
whole lines (GfaModel/LineFmt.lean `acceptLine`: arity, positional datatypes, tag syntax, unique tag names, predefined
tag types, cross-field rules) vs `gfapy.Line(text, version=v, vlevel=1)` on valid lines and their mutations."""
import itertools
from harness import lib
from harness.lib import op
from harness.props import _docgen as D

ALPHA = {
    "A": "a~ !\t", "i": "09+-_ a", "f": "09+-.eE ", "Z": "a ~\t\n", "H": "09AFaG", "B": "cCfi,1-+.9",
    "alignment_gfa1": "*19MIDNSHPX=,", "alignment_list_gfa1": "*1M=,", "oriented_identifier_list_gfa1": "a*=+-, ",
    "position_gfa1": "09+-$ ", "segment_name_gfa1": "a*=+-, ", "sequence_gfa1": "*Aa=.1", "path_name_gfa1": "a*=+,",
    "alignment_gfa2": "*19MIDPN,", "generic": "a \t\n", "identifier_gfa2": "a* +\t", "oriented_identifier_gfa2": "a+- ",
    "identifier_list_gfa2": "a + \t", "oriented_identifier_list_gfa2": "a+- ", "optional_identifier_gfa2": "a* ",
    "position_gfa2": "09$+-", "custom_record_type": "XES#a ", "sequence_gfa2": "*Aa ", "optional_integer": "*09+-",
    "orientation": "+-a",
}
DTS = sorted(ALPHA)


def strings(dt, maxlen):
    a = ALPHA[dt]
    out = []
    for n in range(0, maxlen + 1):
        for t in itertools.product(a, repeat=n):
            out.append("".join(t))
    return out


_CACHE = {}


def _space(tier):
    if tier not in _CACHE:
        ml = 3 if tier == "quick" else 4
        sp = []
        for dt in DTS:
            ss = strings(dt, ml if len(ALPHA[dt]) <= 8 else ml - (1 if tier == "quick" else 1))
            for i in range(0, len(ss), 200):
                sp.append((dt, ss[i:i + 200]))
        _CACHE[tier] = sp
    return _CACHE[tier]


def n_exhaustive(tier):
    return len(_space(tier))


def exhaustive_case(i, tier):
    dt, ss = _space(tier)[i]
    return {"dt": dt, "strings": ss}


def budget(tier):
    return 400 if tier == "quick" else 8000


MUT_CHARS = "\t +-*$,:;09aAZiJB=#"
EXTRA_TAGS = ["LN:i:4", "LN:i:0", "LN:Z:4", "RC:i:1", "RC:f:1.5", "KC:Z:1", "xx:i:1", "xx:i:2", "xx:Z:a b", "x1:A:c", "1x:i:1",
              "XX:i:1", "xx:i:", "xx:i", "xx::1", "SH:H:0A", "SH:H:0", "SH:Z:00", "UR:Z:x", "UR:i:3", "ID:Z:e1", "ID:i:1",
              "TS:i:5", "TS:Z:5", "MQ:i:1", "MQ:f:1.0", "NM:A:x", "VN:Z:1.0", "VN:i:1", "ab:B:c,1,2", "ab:B:c,200",
              "ab:H:1F", "ab:f:1e5", "ab:f:.", "ab:A:", "ab:A:xy"]


def mutate(rng, line):
    """one syntactic mutation of a line"""
    f = line.split("\t")
    k = rng.randrange(9)
    if k == 0 and len(f) > 1:            # drop a field
        del f[rng.randrange(1, len(f))]
    elif k == 1:                         # duplicate a field
        i = rng.randrange(len(f)); f.insert(i, f[i])
    elif k == 2:                         # append a tag
        f.append(rng.choice(EXTRA_TAGS))
    elif k == 3 and len(f) > 1:          # replace a character
        i = rng.randrange(1, len(f))
        if f[i]:
            j = rng.randrange(len(f[i])); f[i] = f[i][:j] + rng.choice(MUT_CHARS) + f[i][j + 1:]
    elif k == 4 and len(f) > 1:          # delete a character
        i = rng.randrange(1, len(f))
        if f[i]:
            j = rng.randrange(len(f[i])); f[i] = f[i][:j] + f[i][j + 1:]
    elif k == 5 and len(f) > 1:          # insert a character
        i = rng.randrange(1, len(f)); j = rng.randrange(len(f[i]) + 1); f[i] = f[i][:j] + rng.choice(MUT_CHARS) + f[i][j:]
    elif k == 6 and len(f) > 2:          # swap two fields
        i, j = rng.randrange(1, len(f)), rng.randrange(1, len(f)); f[i], f[j] = f[j], f[i]
    elif k == 7:                         # two tags
        f += [rng.choice(EXTRA_TAGS), rng.choice(EXTRA_TAGS)]
    else:                                # empty a field
        if len(f) > 1:
            f[rng.randrange(1, len(f))] = ""
    return "\t".join(f)


def gen_validate_case(rng):
    """a document, possibly with lines taken away (references left dangling) or a `$` put on / taken off a position:
    Gfa.validate() against GfaModel/Validate.lean"""
    v = rng.choice(["gfa1", "gfa2"])
    d = D.gen_doc(rng, version=v, max_lines=rng.choice([6, 10, 14]), no_custom=True, same_id_groups=False)
    lines = [l for l in d["lines"] if l.split("\t")[0] in ("S", "L", "C", "P", "E", "G", "F", "O", "U")]
    k = rng.choice([0, 0, 1, 1, 2])
    for _ in range(k):
        if len(lines) > 1:
            # segments and links are what others refer to
            cand = [i for i, l in enumerate(lines) if l[0] in "SLEG"] or list(range(len(lines)))
            del lines[rng.choice(cand)]
    if v == "gfa2" and rng.random() < 0.5:
        idx = [i for i, l in enumerate(lines) if l[0] in "EF"]
        if idx:
            i = rng.choice(idx)
            f = lines[i].split("\t")
            cols = [4, 5, 6, 7] if f[0] == "E" else [3, 4]
            c = rng.choice(cols)
            if f[c].endswith("$"):
                f[c] = rng.choice([f[c][:-1], str(max(0, int(f[c][:-1]) - 1)) + "$"])
            else:
                f[c] = f[c] + "$"
            lines[i] = "\t".join(f)
    if rng.random() < 0.5:
        rng.shuffle(lines)
    return {"dt": "gvalidate", "version": v, "strings": lines}


def validate_ops(case):
    from harness.corr.graphcorr import supported_add, ERRS
    gfapy = lib.import_gfapy()
    v = case["version"]
    g = gfapy.Gfa(version=v, vlevel=1)
    ops, exp = [op("g.new", v)], ["ok"]
    for l in case["strings"]:
        if not supported_add(l) or lib.outcome(gfapy.Line, l, version=v, vlevel=1)[0] != "ok":
            return [], []
        r = lib.outcome(g.add_line, l)
        if r[0] == "ok":
            e = "ok"
        elif r[0] == "gerr" and r[1] in ERRS:
            e = "gerr " + r[1]
        else:
            return [], []
        ops.append(op("g.add", l)); exp.append(e)
    r = lib.outcome(g.validate)
    if r[0] == "ok":
        e = "ok"
    elif r[0] == "gerr" and r[1] in ("NotFoundError", "InconsistencyError"):
        e = "gerr " + r[1]
    else:
        return [], []
    ops.append(op("g.validate")); exp.append(e)
    return ops, exp


def gen_case(rng, tier, i):
    if i % 3 == 2:
        return gen_validate_case(rng)
    v = rng.choice(["gfa1", "gfa2"])
    d = D.gen_doc(rng, version=v, max_lines=10, odd=0.3, no_custom=True)
    lines = [l for l in d["lines"] if l.split("\t")[0] in ("H", "S", "L", "C", "P", "E", "G", "F", "O", "U")]
    out = []
    for l in lines:
        out.append(l)
        for _ in range(3):
            m = l
            for _ in range(rng.choice([1, 1, 2])):
                m = mutate(rng, m)
            out.append(m)
    return {"dt": "line", "version": v, "strings": out}


def tags(case):
    return ["corr:" + case["dt"]]


def nontrivial(case):
    return True


def real_accepts(gfapy, dt, s):
    try:
        gfapy.Field._parse_gfa_field(s, dt, safe=True)
        return True
    except gfapy.Error:
        return False
    except Exception as e:   # a foreign exception is C07's finding; here the field is simply not accepted
        return False


def line_ops(case):
    gfapy = lib.import_gfapy()
    v = case["version"]
    ops, exp = [], []
    for s in case["strings"]:
        if ":J:" in s or "\n" in s or "\r" in s:
            continue        # JSON well-formedness is outside the model
        f = s.split("\t")
        if f[0] not in ("H", "S", "L", "C", "P", "E", "G", "F", "O", "U"):
            continue
        r = lib.outcome(gfapy.Line, s, version=v, vlevel=1)
        if r[0] == "foreign":
            continue        # C07's business
        if r[0] == "gerr" and r[1] == "VersionError":
            e = "other"
        else:
            e = "true" if r[0] == "ok" else "false"
        ops.append(op("line.accept", v, s)); exp.append("ok " + e)
    return ops, exp


def model_ops(case):
    gfapy = lib.import_gfapy()
    if case["dt"] == "line":
        return line_ops(case)
    if case["dt"] == "gvalidate":
        return validate_ops(case)
    ops, exp = [], []
    dt = case["dt"]
    for s in case["strings"]:
        if dt == "generic" and s == "":
            pass
        ops.append(op("field.accept", dt, s))
        exp.append("ok %d" % real_accepts(gfapy, dt, s))
    return ops, exp
