"""C10 correspondence: the model answers every query from the state alone and `Gfa.C10.step_frame` proves that no
query command changes that state.  Here the library is asked the catalogue of read-only calls of the C10 oracle
(each twice) between observations; the observations must stay those of the model."""
from harness import lib
from harness.lib import op
from harness.corr.graphcorr import supported_add


def _build(case):
    gfapy = lib.import_gfapy()
    from harness.props import c10 as P
    if case["kind"] == "sweep":
        ver, L = P.FIXED[case["fixed"]]
    else:
        ver, L = case["version"], case["lines"]
    if ver not in ("gfa1", "gfa2"):
        return None          # a Gfa of unknown version holding queued lines: oracle only (the model has no queue here)
    vl = max(1, case.get("vlevel", 1))
    g = gfapy.Gfa(vlevel=vl, version=ver)
    ops, exp = [op("g.new", ver)], ["ok"]
    for l in L:
        if not supported_add(l):
            r = lib.outcome(g.add_line, l)
            if r[0] != "ok":
                return None
            continue
        c = lib.outcome(lambda: str(gfapy.Line(l, version=ver, vlevel=vl)))
        if c[0] != "ok":
            return None
        r = lib.outcome(g.add_line, c[1])
        if r[0] != "ok":
            return None
        ops.append(op("g.add", c[1])); exp.append("ok")
    return gfapy, P, g, ops, exp


def model_ops_for_prop_case(case):
    b = _build(case)
    if b is None:
        return [], []
    gfapy, P, g, ops, exp = b

    def observe():
        o = lib.outcome(lib.obs_flat, g)
        if o[0] != "ok" or "# INVALID" in o[1]:
            return False
        ops.append(op("g.obs")); exp.append("ok " + o[1])
        cc = lib.outcome(lambda: ";".join(sorted(",".join(sorted(s.name for s in c)) for c in g.connected_components())))
        if cc[0] == "ok":
            ops.append(op("g.cc")); exp.append("ok " + cc[1])
        ct = lib.outcome(lambda: "ok dovetails=%d containments=%d internals=%d dead_ends=%d" % (
            g.n_dovetails, g.n_containments, g.n_internals, g.n_dead_ends))
        if ct[0] == "ok":
            ops.append(op("g.counts")); exp.append(ct[1])
        return True

    if not observe():
        return [], []
    held = []
    try:
        C = P.catalogue(gfapy, g, held)
    except Exception:
        return ops, exp
    if case["kind"] == "sweep":
        todo = C
    else:
        todo = [C[b_ % len(C)] for _, b_ in case["calls"]]
    # to_gfa2 of links/containments without ID stores the new ID in the source line: open known finding of C10
    todo = [(n, t) for (n, t) in todo if "to_gfa2" not in n]
    for k, (name, thunk) in enumerate(todo):
        P.run_call(gfapy, name, thunk)
        P.run_call(gfapy, name, thunk)
        if k % 8 == 7 or k == len(todo) - 1:
            if not observe():
                break
    return ops, exp
