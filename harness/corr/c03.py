"""C03 correspondence: the model Gfa built from a document in several arrival orders vs the library."""
import itertools
from harness import lib
from harness.lib import op
from harness.corr.graphcorr import supported_add, ERRS


def model_ops_for_prop_case(case):
    gfapy = lib.import_gfapy()
    v = case.get("version")
    if v not in ("gfa1", "gfa2"):
        return [], []
    lines = [l for l in case["lines"]]
    glines = [l for l in lines if supported_add(l)]
    if not glines or len(glines) > 7:
        return [], []
    # the model has no canonicalisation of spelling: both sides are given the library's own spelling of each line
    try:
        glines = [str(gfapy.Line(l, version=v, vlevel=1)) for l in glines]
    except Exception:
        return [], []
    r = lib.Rng(case.get("sample", 0))
    perms = list(itertools.permutations(range(len(glines)))) if len(glines) <= 4 else \
        [tuple(r.sample(range(len(glines)), len(glines))) for _ in range(8)]
    ops, exp = [], []
    for k, p in enumerate(perms[:24]):
        g = gfapy.Gfa(version=v, vlevel=1)
        ops.append(op("g.new", v)); exp.append("ok")
        ok = True
        for i in p:
            res = lib.outcome(g.add_line, glines[i])
            if res[0] == "ok":
                e = "ok"
            elif res[0] == "gerr" and res[1] in ERRS:
                e = "gerr " + res[1]
            else:
                ok = False
                break
            ops.append(op("g.add", glines[i])); exp.append(e)
            if lib.ambiguous_placeholders(g):
                ok = False
                break
            if k % 3 == 0 or len(glines) <= 5:
                # the state between arrivals too (placeholders, what a placeholder link has taken from a path step)
                o = lib.outcome(lib.obs_flat, g)
                if o[0] == "ok" and "# INVALID" not in o[1]:
                    ops.append(op("g.obs")); exp.append("ok " + o[1])
        if not ok:
            continue
        o = lib.outcome(lib.obs_flat, g)
        if o[0] == "ok" and "# INVALID" not in o[1]:
            ops.append(op("g.obs")); exp.append("ok " + o[1])
    return ops, exp
