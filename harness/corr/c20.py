"""C20 correspondence: tag encode / decode, model vs gfapy."""
from harness import lib
from harness.lib import op

BOUNDS = [-2**31 - 1, -2**31, -2**15 - 1, -2**15, -129, -128, -1, 0, 1, 127, 128, 255, 256, 2**15 - 1, 2**15, 2**16 - 1, 2**16,
          2**31 - 1, 2**31, 2**32 - 1, 2**32, 10**20, -10**20]


def budget(tier):
    return 400 if tier == "quick" else 20000


def gen_case(rng, tier, i):
    k = rng.choice(["int", "str", "chr", "bytes", "intarr", "decode"])
    if k == "int":
        return {"kind": "int", "v": rng.choice(BOUNDS) if rng.random() < 0.6 else rng.randint(-10**6, 10**6)}
    if k == "str":
        alpha = "ab ~!\t\n\x7fé:"
        return {"kind": "str", "v": "".join(rng.choice(alpha) for _ in range(rng.randint(0, 5)))}
    if k == "chr":
        return {"kind": "chr", "v": rng.choice("a~! \t\n\x7f")}
    if k == "bytes":
        return {"kind": "bytes", "v": [rng.choice([0, 1, 15, 16, 127, 128, 255]) for _ in range(rng.randint(0, 4))]}
    if k == "intarr":
        n = rng.randint(0, 4)
        return {"kind": "intarr", "v": [rng.choice(BOUNDS[:21]) if rng.random() < 0.7 else rng.randint(-300, 300) for _ in range(n)]}
    dt = rng.choice("iZAHB")
    alpha = {"i": "0123456789+-", "Z": "ab ~", "A": "a~ ", "H": "0123456789ABCDEFab", "B": "cCsSiI,-+0123456789"}[dt]
    if dt == "B" and rng.random() < 0.7:
        st = rng.choice("cCsSiI")
        s = st + "".join("," + rng.choice(["", "-", "+"]) + str(rng.choice([0, 1, 127, 128, 255, 256, 32767, 32768, 65535, 65536,
                                                                         2**31 - 1, 2**31, 2**32 - 1, 2**32]))
                         for _ in range(rng.randint(1, 3)))
    else:
        s = "".join(rng.choice(alpha) for _ in range(rng.randint(0, 5)))
    return {"kind": "decode", "dt": dt, "s": s}


def tags(case):
    return ["corr:" + case["kind"] + (":" + case["dt"] if case["kind"] == "decode" else "")]


def nontrivial(case):
    return True


def model_ops(case):
    gfapy = lib.import_gfapy()
    k = case["kind"]
    if k == "decode":
        dt, s = case["dt"], case["s"]
        r = lib.outcome(gfapy.Field._parse_gfa_field, s, dt, True)
        if r[0] != "ok":
            exp = "err"
        else:
            v = r[1]
            if dt == "i":
                exp = "ok int %d" % v
            elif dt == "Z":
                exp = "ok str " + v
            elif dt == "A":
                exp = "ok chr " + v
            elif dt == "H":
                exp = "ok bytes " + str(v)
            else:
                exp = "ok intarr " + ",".join(str(x) for x in v)
        return [op("tag.decode", dt, s)], [exp]
    v = case["v"]
    if k == "int":
        payload, obj, dt = str(v), v, "i"
    elif k == "str":
        payload, obj, dt = v, v, "Z"
    elif k == "chr":
        payload, obj, dt = v, v, "A"
    elif k == "bytes":
        payload, dt = ",".join(map(str, v)), "H"
        r0 = lib.outcome(gfapy.ByteArray, v)
        obj = r0[1] if r0[0] == "ok" else None
        if r0[0] != "ok" or len(v) == 0:
            # an empty byte array cannot be written (the model refuses it): the library must not emit a valid-looking tag
            r = lib.outcome(lambda: gfapy.Field._to_gfa_field(obj, datatype="H")) if obj is not None else ("gerr", "")
            ok = r[0] == "ok" and r[1] != ""
            return [op("tag.encode", "bytes", payload)], ["ok H:" + r[1] if ok else "err"]
    else:
        payload, obj, dt = ",".join(map(str, v)), v, "B"
    r = lib.outcome(lambda: gfapy.Field._to_gfa_field(obj, datatype=dt))
    if r[0] == "ok":
        # encode() of Z/A/… validates; an accepted encoding must itself be valid text
        exp = "ok %s:%s" % (dt, r[1])
    else:
        exp = "err"
    return [op("tag.encode", k, payload)], [exp]
