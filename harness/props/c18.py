"""C18 — validation levels only change when errors surface, never the result.

Oracle (real library only), five kinds of case:

levels   a valid document (props/_docgen.py) is loaded at levels 0..3 (list entry point; version explicit or
         inferred).  Every level must accept it.  At every level the same five observations are taken, in this order:
         str(g); lib.obs(g); the value of EVERY field of EVERY line read with line.get (type name and text; referenced
         lines by record type and name) - this is what any analysis of the graph does, and at level 0 it is the moment
         when lazily parsed fields (alignments, B/J/H tags, ...) are decoded by the unsafe decoders; str(g) again;
         lib.obs(g) again.  The five observations must be literally equal for the four levels (signatures
         levels-differ-text / -obs / -read / -text-after-read / -obs-after-read; a read or a write which raises on a
         valid document is read-raises-at-level / write-raises-at-level).  A difference that (i) involves level 0 only
         and (ii) vanishes when the tags of the delayed-parsing datatypes (B, J, H) are replaced by their semantic
         value (own canonicaliser, _docgen.canon_delayed) is the OPEN known finding #30 and is reported as exactly one
         failure with signature `lazy-spelling`.
mono     a document obtained from a valid one by changing one character (or the valid one itself) is loaded at
         levels 0..3; if level k accepts it every level j < k must accept it (acceptance = the constructor returns).
assign   assignment scripts (enumerated exhaustively, table ASSIGN x modes): a line of level k, a field f and a value v
         of known validity (valid / wrong-type / wrong-syntax / out-of-range, decided by the GFA grammar, only
         clear-cut values; "no value" of an optional field - sequence, eid, var, GFA1 overlap, GFA2 alignment of
         E and F - is assigned in each of its spellings: "*", the generic gfapy.Placeholder() which the library
         itself stores for unspecified fields, and for alignments gfapy.AlignmentPlaceholder(); alignments also as
         CIGAR / Trace objects).  The line of level k is obtained in one of these ways (mode):
           standalone          gfapy.Line(s, vlevel=k)
           connected           the same line in a small Gfa(vlevel=k)
         and, since the level contract is per Gfa and per Line whatever way the line came into being, lines which a
         public operation derives from lines / a Gfa of level k (the Gfa was built at level k, nothing else is said
         to the operation):
           cloned              line.clone() of the connected line
           disconnected        the connected line after line.disconnect()
           merged              the segment created by Gfa.merge_linear_paths() out of the record and a second segment
                               (both with a sequence); merged-placeholder: neither has a sequence (LN / slen only);
                               merged-tracked: only the record has one, second segment reversed, options
                               enable_tracking, merged_name="short", cut_counts
           multiplied          the copy created by Gfa.multiply("A", 2): of the segment (S records), or of the link /
                               containment / edge of the multiplied segment (L, C, E records)
           converted           the corresponding line of Gfa.to_gfa2() / Gfa.to_gfa1() (custom tags only)
           split-header        the single-tag line of Gfa.headers which carries the tag
         and, since the level of a line of a Gfa is the level of the Gfa whatever the ORDER in which its lines arrived:
           first-line          the record is the FIRST line of the text given to gfapy.Gfa(text, vlevel=k): no version
                               argument, no header, the lines it mentions (and a segment, if it mentions none) follow,
                               so the record is parsed while the version of the Gfa is still unknown (E, F, G, O, U: the
                               version is inferred from this very line; S: from its syntax; L, C, P, custom records wait
                               in the queue until a later line tells the version; comments are stored at once)
           first-line-added    the same lines given one by one to add_line() of an empty Gfa(vlevel=k), then
                               process_line_queue()
                               (all records but the headers; fields as in `connected`; these exhaustive cases come
                               after the scripts, so that the indices of the earlier cases are what they were)
         Then:
         - v valid:   set (line.set(f, v) or attribute assignment), get, field_to_s, str, validate_field, validate never
                      raise at any level and str(line) carries no "# INVALID" marker;
         - v invalid: level 3: the assignment raises a gfapy.Error;
                      level 2: unless the assignment already raised, field_to_s(f) raises a gfapy.Error and
                               str(line) raises or carries the "# INVALID" marker (Writer.to_list swallows and flags);
                      levels 0..2: unless the assignment already raised, validate_field(f) and validate() raise a
                               gfapy.Error.
         An exception that is not a gfapy.Error in any of these steps is reported as `foreign-exception[...]`.
script   a sequence of legal public calls on the tags of one line (records of ASSIGN; stand-alone, connected, cloned,
         disconnected), every value assigned being valid: line.set(t, v), line.t = v, line.delete(t),
         line.set(t, None), line.get(t), line.t, str(line), on new tag names (nw, zz), custom tags of the record
         and its predefined tags.  A tag name keeps one family of values for the whole script (table FAM) and every
         value of the family is valid for the tag whether the datatype of a removed tag is remembered or derived anew
         from the value.  The same script is run at levels 0..3; then every tag is read (value, datatype), the
         line is written, validated and written again (case["read_first"] decides whether reading or writing comes
         first, the same at every level).  Demanded:
         - no assignment raises at any level (valid-rejected-after-removal[set|attr] when the tag had been removed
           earlier in the script, else valid-rejected-in-script[...]); delete / set None never raise
           (legal-call-rejected[...]);
         - no read or write raises, in the script or after it (valid-tag-unreadable[get|getattr|str|final-get|
           final-str]), validate() does not raise (valid-rejected-by-validate-after-script), no "# INVALID" marker;
         - the line ends up with exactly the tags the calls leave, and numbers / strings have the value assigned last
           (script-result-wrong);
         - text, tags (name, datatype, value) and text after validation are the same at the four levels, up to the
           spelling of B/J/H tags parsed from the record (finding #30 is reported by `levels` only)
           (levels-differ-after-script).
         The exhaustive part contains the short scripts create / remove / create-again (fixed sample of 360
         combinations of record, mode, ways of the three steps, family, read_first) and remove / assign-again for one
         existing custom tag and one predefined tag per record; 12% of the random cases are scripts of 3-8 calls over
         2-5 tag names.
linelevel  (8% of the random cases) every line of a Gfa of level k is a line of level k, whenever it arrived: a valid
         random document (props/_docgen.py, GFA2 two times out of three) is loaded WITHOUT telling the version (no
         version argument; half of the documents have no VN header tag either) through Gfa(text), Gfa(list) or
         add_line + process_line_queue.  One line which is neither a header nor a comment (half of the time a
         GFA2-only record E/F/G/O/U if there is one) is marked with the tag zq:Z:mark and moved: to the front of the
         document (60%), behind the leading comments / headers without VN (15%), anywhere (25%) - so it mostly
         arrives before the lines it mentions and before anything tells the version.  The marked line (found again
         through its tag) is then assigned, each time on a freshly built Gfa, at levels 0-3, by set() or by attribute:
         one valid value (marker tag / new tag zr), one invalid value of the marker tag or of a new tag (tab, newline,
         a number for a Z tag) and up to two clear-cut invalid values of its assignable positional fields (those of
         the table ASSIGN for the record type: alignment, positions, disp, var, sequence, slen, pos ...).  Demands and
         signatures are those of `assign`.  A document which some level does not accept is not judged here (that is
         `levels` / `mono`).

FINDING ON THE UNCHANGED TREE (genuine, not hidden; signature `comment-before-version-known`, 8 exhaustive cases:
  record #1, fields content / spacer, modes first-line / first-line-added)
  a comment line which arrives while the version of the Gfa is unknown (e.g. the first line of a file, before any
  header or segment) is built by Creators.__add_line_unknown_version() as gfapy.Line(s, dialect=...) WITHOUT
  vlevel, i.e. at the default level 1 whatever the level of the Gfa.  On such a comment of a Gfa(vlevel=3)
  `c.content = "a\nb"`, `c.spacer = "\n"`, `c.content = 5` are accepted silently (level 3 must report at the
  assignment); in a Gfa(vlevel=2) `c.content = 5` is written as "# 5" by str(c) / field_to_s without error or
  "# INVALID" marker (level 2 must report when the line is written).  The same comment after a segment line behaves
  as the level demands.

NOT CHECKED:
  * connected lines (and lines derived from them which stay connected: merged, multiplied, converted): reference
    fields, fields related to back-references (orientations, positions, overlaps of L/E), identifiers (renaming
    is C09) and the header VN tag are read-only or special by design: not assigned;
  * assignment of a tag whose *name* is invalid, set_datatype; deletion of positional fields; in `assign` new tags
    are created only with str/int/float/list/dict values whose default datatype is unambiguous; in `script` a
    removed tag is only assigned values of its former family (whether a removed tag may change its datatype is
    not judged), scripts contain valid values only and touch one line only (no merged / multiplied / converted /
    split-header lines);
  * not clear-cut values: int for an f tag, scalars for J, H strings of odd length, an LN inconsistent with the
    sequence, a `$` position inconsistent with the segment length, lists for H, identifier lists with double spaces
    (the linear paths of the merged modes are built so that the merged GFA1 segment has length 4 like the record);
  * get() of an invalid value at levels < 3 (the property names the assignment, the write and validate only);
  * alignments spelled non-canonically (not generated), so lazy spelling of positional fields is not exercised;
  * acceptance in `mono` is the constructor only (a level-0 Gfa may still fail later, when a field is read);
  * in `levels` the fields are read with get() only, in the order of Gfa.lines; the equality of the text before
    and after reading at one level is not demanded (the property compares levels, not moments);
  * first-line modes: headers (the header of a Gfa is one merged line, not the line parsed); linelevel: headers and
    comments are never the marked line, tags other than the marker / a new one are not assigned, only the fields
    which the table ASSIGN assigns on connected lines of the record type, custom records: tags only;
  * derived lines: one fixed small graph per operation (no random graphs); a line object built at one level and
    added to a Gfa of another level, and a change of Gfa.vlevel after construction, are not exercised; converted
    lines: positional fields and predefined tags (renamed / recomputed by the conversion) are not assigned.
"""
from harness import lib
from harness.props import _docgen as D

ID = "C18"
RULE = ("levels: valid documents <=12 lines (quick) x 4 levels; text, observation, the value of every field (get), and "
        "text+observation after all fields have been read are compared; mono: one-character mutants of "
        "valid documents x 4 levels, acceptance monotone; assign: exhaustive table of (record, field, value kind) x level x "
        "origin of the line (stand-alone, connected, cloned, disconnected, merged segment x 3, multiplied copy, "
        "version-converted, split header, first line of a Gfa whose version is not told - text / add_line) x set()/attribute; "
        "linelevel (8% of the random cases): one marked line of a valid random document loaded without telling the "
        "version, mostly moved to the front (it arrives before the lines it mentions and before the version is known), "
        "is assigned valid and invalid values (tags, assignable positional fields) x 4 levels, same demands as assign; script: legal call sequences on the tags of one line "
        "(set, attribute assignment, delete, set None, get, attribute read, str; new, custom and predefined tags; "
        "valid values only) x 4 levels: nothing raises, the line is readable, writable, valid and the same at every "
        "level (exhaustive part: create/remove/create-again and remove/assign-again scripts; 12% of the random cases: "
        "3-8 calls). Non-trivial: a document with a tag of a delayed datatype "
        "or >= 3 lines; every assign, linelevel and script case.")
CASE_TIMEOUT = 60

# ----------------------------------------------------------------------------------------------- assignment table
V, WT, WS, OR = "valid", "wrong-type", "wrong-syntax", "out-of-range"


def tagvals(t):
    if t == "i":
        return [(V, 5), (V, -3), (V, "12"), (V, "+5"), (WT, 1.5), (WT, [1, 2]), (WT, {"a": 1}), (WS, "abc"),
                (WS, "1.5"), (WS, "1_0"), (WS, " 5"), (WS, "")]
    if t == "f":
        return [(V, 1.5), (V, "2.5e3"), (V, "-.5"), (V, -0.25), (WT, {"a": 1}), (WT, [1.0]), (WS, "abc"), (WS, "1."),
                (WS, "1e"), (WS, "nan"), (WS, "")]
    if t == "Z":
        return [(V, "hello world"), (V, "*"), (V, "a:b"), (WT, 12), (WT, [1]), (WS, "a\tb"), (WS, "a\nb"), (WS, "")]
    if t == "A":
        return [(V, "b"), (V, "*"), (WT, 5), (WS, "ab"), (WS, ""), (WS, " "), (WS, "\t")]
    if t == "J":
        return [(V, [1, 2]), (V, {"a": [1, None]}), (V, "[1, 2]"), (V, '{"a":1}'), (WS, "{"), (WS, "[1,"),
                (WS, "{'a':1}"), (WS, "[1]\t")]
    if t == "H":
        return [(V, "1A2B"), (V, ("@ByteArray", "FF")), (WT, 1.5), (WT, {"a": 1}), (WS, "GG"), (WS, "1a"), (WS, "")]
    if t == "B":
        return [(V, [1, 2, 3]), (V, [1.5, 2.5]), (V, "c,1,2"), (V, "f,1.5"), (V, ("@NumericArray", [1, -2])),
                (WT, 5), (WT, {"a": 1}), (WT, [1, 2.5]), (WT, ["a"]), (WS, "x,1,2"), (WS, "c,"), (WS, "c"),
                (WS, "c,1,,2"), (WS, "C,-1"), (OR, "c,300"), (OR, "C,256"), (OR, [2 ** 40]), (OR, "i,3000000000")]
    raise KeyError(t)


POS2 = [(V, 0), (V, 3), (V, "3"), (V, ("@LastPos", 4)), (V, "4$"), (WS, "x"), (WS, "1$$"), (WS, "-1"), (WS, "$"),
        (WS, ""), (WT, 1.5), (WT, [1]), (OR, -1)]
TAGLINE = "\txi:i:1\txf:f:1.5\txz:Z:abc\txa:A:a\txj:J:[1]\txh:H:1A\txb:B:c,1,2"
TAGFIELDS = {"xi": ("i", tagvals("i")), "xf": ("f", tagvals("f")), "xz": ("Z", tagvals("Z")), "xa": ("A", tagvals("A")),
             "xj": ("J", tagvals("J")), "xh": ("H", tagvals("H")), "xb": ("B", tagvals("B"))}
NEWTAG = {"nw": ("new", [(V, 5), (V, 1.5), (V, "abc"), (V, [1, 2]), (V, {"a": 1}), (V, [1.5]), (WS, "a\tb"),
                         (WS, "a\nb")])}

# (id, version, line, context lines for the connected variant, fields {name: (label, values)}, fields not
#  assignable when connected)
ASSIGN = [
    ("S1", "gfa1", "S\tA\tACGT\tLN:i:4\tSH:H:AB\tUR:Z:u" + TAGLINE, [], dict(TAGFIELDS, **dict(NEWTAG, **{
        "LN": ("i", [(V, 4), (V, "4"), (WT, 1.5), (WS, "x")]),
        "SH": ("H", [(V, "00FF"), (WS, "zz"), (WT, 1.5)]),
        "UR": ("Z", [(V, "http://a/b"), (WT, 5), (WS, "a\tb")]),
        "sequence": ("sequence_gfa1", [(V, "GATT"), (V, "*"), (V, ("@Placeholder",)), (WT, 12), (WT, ["A"]),
                                       (WS, "AC GT"), (WS, "AC\tGT"), (WS, "A*C"), (WS, "")]),
        "name": ("segment_name_gfa1", [(V, "B"), (V, "x:y"), (WS, "*A"), (WS, "A B"), (WS, "a+,b"), (WS, ""), (WT, 5)]),
    })), ["name"]),
    ("L1", "gfa1", "L\tA\t+\tB\t-\t4M\tMQ:i:3" + TAGLINE, ["S\tA\t*", "S\tB\t*"], dict(TAGFIELDS, **{
        "from_orient": ("orientation", [(V, "+"), (V, "-"), (WS, "x"), (WS, "++"), (WS, ""), (WT, 1)]),
        "overlap": ("alignment_gfa1", [(V, "3M1I"), (V, "*"), (V, ("@Alignment", "4M", "gfa1")), (V, ("@Placeholder",)),
                                       (WS, "4Q"), (WS, "M4"), (WS, "4"), (WS, "1,2"), (WS, ""), (WT, 5), (WT, 1.5)]),
        "from_segment": ("segment_name_gfa1", [(V, "C"), (WS, "a b"), (WT, 5)]),
        "MQ": ("i", [(V, 0), (WS, "x"), (WT, 1.5)]),
    }), ["from_orient", "overlap", "from_segment"]),
    ("C1", "gfa1", "C\tA\t+\tB\t+\t2\t4M\tNM:i:0", ["S\tA\t*", "S\tB\t*"], {
        "pos": ("position_gfa1", [(V, 0), (V, 5), (V, "7"), (WT, 1.5), (WT, [1]), (WS, "x"), (WS, "-1"), (WS, "1$"),
                                  (WS, ""), (OR, -1)]),
        "overlap": ("alignment_gfa1", [(V, "2M"), (V, "*"), (WS, "2Z"), (WT, 5)]),
        "NM": ("i", [(V, 1), (WS, "x")]),
    }, []),
    ("P1", "gfa1", "P\tp\tA+,B-\t4M\txi:i:1", ["S\tA\t*", "S\tB\t*", "L\tA\t+\tB\t-\t4M"], {
        "path_name": ("path_name_gfa1", [(V, "q"), (WS, "a b"), (WS, ""), (WT, 5)]),
        "segment_names": ("oriented_identifier_list_gfa1", [(V, "A+,C-"), (WS, "A,B"), (WS, "A+,"), (WS, ""),
                                                            (WT, 5)]),
        "overlaps": ("alignment_list_gfa1", [(V, "3M"), (V, "*"), (WS, "3Q"), (WS, "3M,"), (WS, "x"), (WT, 5)]),
        "xi": ("i", tagvals("i")),
    }, ["path_name", "segment_names", "overlaps"]),
    ("S2", "gfa2", "S\tA\t4\tACGT\tRC:i:1" + TAGLINE, [], dict(TAGFIELDS, **dict(NEWTAG, **{
        "slen": ("i", [(V, 4), (V, "4"), (V, 10), (WT, 1.5), (WT, [4]), (WS, "x"), (WS, "4$")]),
        "sequence": ("sequence_gfa2", [(V, "ACGTN"), (V, "*"), (V, ("@Placeholder",)), (WS, "A C"), (WS, "A\tC"), (WS, ""),
                                       (WT, 5)]),
        "sid": ("identifier_gfa2", [(V, "B"), (WS, "a b"), (WS, ""), (WT, 5)]),
        "RC": ("i", [(V, 7), (WS, "x"), (WT, [1])]),
    })), ["sid"]),
    ("E1", "gfa2", "E\te1\tA+\tB-\t0\t4$\t0\t4$\t2M\tTS:i:5\txi:i:1", ["S\tA\t4\t*", "S\tB\t4\t*"], {
        "beg1": ("position_gfa2", POS2),
        "end2": ("position_gfa2", POS2),
        "alignment": ("alignment_gfa2", [(V, "3M"), (V, "*"), (V, "1,2,3"), (V, ("@Alignment", "2M1D", "gfa2")),
                                         (V, ("@Placeholder",)), (V, ("@AlignmentPlaceholder",)),
                                         (WS, "3X"), (WS, "3Q"), (WS, "M"), (WS, "1,,2"), (WS, ""), (WT, 5)]),
        "eid": ("optional_identifier_gfa2", [(V, "e9"), (V, "*"), (V, ("@Placeholder",)), (WS, "a b"), (WS, ""), (WT, 5)]),
        "sid1": ("oriented_identifier_gfa2", [(V, "C+"), (V, ("@OrientedLine", "C", "-")), (WS, "C"), (WS, "C*"),
                                              (WS, "a b+"), (WS, ""), (WT, 5)]),
        "TS": ("i", [(V, 10), (WS, "x"), (WT, 1.5)]),
        "xi": ("i", tagvals("i")),
    }, ["beg1", "end2", "eid", "sid1"]),
    ("G1", "gfa2", "G\tg1\tA+\tB-\t100\t*\txz:Z:a", ["S\tA\t4\t*", "S\tB\t4\t*"], {
        "disp": ("i", [(V, 5), (V, -5), (V, "12"), (WS, "x"), (WS, "1.5"), (WT, 1.5), (WT, [1])]),
        "var": ("optional_integer", [(V, 3), (V, "*"), (V, "7"), (V, ("@Placeholder",)), (WS, "x"), (WS, "**"), (WS, ""),
                                     (WT, 1.5), (WT, [1])]),
        "xz": ("Z", tagvals("Z")),
    }, []),
    ("F1", "gfa2", "F\tA\tr1+\t0\t4$\t0\t3$\t*\txf:f:1.5", ["S\tA\t4\t*"], {
        "s_beg": ("position_gfa2", POS2),
        "f_end": ("position_gfa2", POS2),
        "external": ("oriented_identifier_gfa2", [(V, "r2-"), (WS, "r2"), (WS, ""), (WT, 5)]),
        "alignment": ("alignment_gfa2", [(V, "2M"), (V, "*"), (V, "1,2"), (V, ("@Placeholder",)),
                                         (V, ("@AlignmentPlaceholder",)), (V, ("@Alignment", "1,2", "gfa2")),
                                         (WS, "2X"), (WT, 1.5)]),
        "xf": ("f", tagvals("f")),
    }, ["external"]),
    ("O1", "gfa2", "O\to1\tA+ B-\txi:i:1", ["S\tA\t4\t*", "S\tB\t4\t*"], {
        "items": ("oriented_identifier_list_gfa2", [(V, "A+ C-"), (V, [("@OrientedLine", "A", "+")]), (WS, "A B"),
                                                    (WS, "A+ B"), (WS, "A+  B-"), (WS, ""), (WT, 5)]),
        "pid": ("optional_identifier_gfa2", [(V, "o9"), (V, "*"), (WS, "a b"), (WT, 5)]),
        "xi": ("i", tagvals("i")),
    }, ["items", "pid"]),
    ("U1", "gfa2", "U\tu1\tA B\txj:J:[1]", ["S\tA\t4\t*", "S\tB\t4\t*"], {
        "items": ("identifier_list_gfa2", [(V, "A C"), (V, ["A", "B"]), (WS, "A\tB"), (WS, ""), (WT, 5)]),
        "xj": ("J", tagvals("J")),
    }, ["items"]),
    ("H1", "gfa1", "H\tVN:Z:1.0\txi:i:1\txb:B:c,1,2\txz:Z:abc", [], dict(NEWTAG, **{
        "VN": ("Z", [(V, "1.0"), (WT, 5), (WS, "a\tb")]),
        "xi": ("i", tagvals("i")),
        "xb": ("B", tagvals("B")),
        "xz": ("Z", tagvals("Z")),
    }), ["VN"]),
    ("H2", "gfa2", "H\tTS:i:100\txf:f:1.5", [], {
        "TS": ("i", [(V, 5), (V, "16"), (WS, "x"), (WT, 1.5)]),
        "xf": ("f", tagvals("f")),
    }, []),
    ("#1", "gfa1", "# hello", [], {
        "content": ("comment", [(V, "new text"), (V, "with\ttab"), (WS, "a\nb"), (WT, 5)]),
        "spacer": ("comment", [(V, "  "), (V, ""), (WS, "\n"), (WT, 5)]),
    }, []),
    ("X1", "gfa2", "X\tfoo\tbar\txi:i:1\txh:H:1A", [], {
        "field1": ("generic", [(V, "any thing"), (V, "*"), (WS, "a\tb"), (WS, "a\nb"), (WT, 5)]),
        "xi": ("i", tagvals("i")),
        "xh": ("H", tagvals("H")),
    }, []),
]


# Lines which are not the direct result of parsing, but are produced by a public operation from lines / a Gfa of
# level k (the level contract of the property is per Gfa and per Line: such a line is a line of that level).
#   cloned             line.clone() of the connected line (disconnected copy: every field is assignable)
#   disconnected       the connected line after line.disconnect()
#   merged             the segment created by Gfa.merge_linear_paths() from the record (first segment of a linear
#                      path of two segments, all with a sequence);  merged-placeholder: no segment has a sequence;
#                      merged-tracked: only the record has a sequence, the other segment is reversed, and the
#                      options enable_tracking, merged_name="short", cut_counts are set
#   multiplied         the copy of the record created by Gfa.multiply("A", 2) (segment copy, or copy of the link /
#                      containment / edge of the multiplied segment)
#   converted          the line of Gfa.to_gfa2() / Gfa.to_gfa1() which corresponds to the record (custom tags only:
#                      positional fields and predefined tags are renamed / recomputed by the conversion)
#   split-header       the single-tag header line of Gfa.headers which carries the tag
DERIVED = ("cloned", "disconnected", "merged", "merged-placeholder", "merged-tracked", "multiplied", "converted",
           "split-header")
# mode -> (the record loses its sequence, {version: other lines of the linear path}, options of merge_linear_paths)
MERGE = {
    "merged": (False, {"gfa1": ["S\tBm\tGT\tLN:i:2", "L\tA\t+\tBm\t+\t2M"],
                       "gfa2": ["S\tBm\t3\tGTA", "E\t*\tA+\tBm+\t2\t4$\t0\t2\t2M"]}, {}),
    "merged-placeholder": (True, {"gfa1": ["S\tBm\t*\tLN:i:2", "L\tA\t+\tBm\t+\t2M"],
                                  "gfa2": ["S\tBm\t3\t*", "E\t*\tA+\tBm+\t2\t4$\t0\t2\t2M"]}, {}),
    # one segment with and one without sequence, the second one reversed, origin tracking, short name, counts
    "merged-tracked": (False, {"gfa1": ["S\tBm\t*\tLN:i:2\tRC:i:4", "L\tA\t+\tBm\t-\t2M"],
                               "gfa2": ["S\tBm\t3\t*\tRC:i:4", "E\t*\tA+\tBm-\t2\t4$\t1\t3$\t2M"]},
                       {"enable_tracking": True, "merged_name": "short", "cut_counts": True}),
}


def _custom_tags(text):
    return [x[:2] for x in text.split("\t")[1:] if len(x) > 4 and x[2] == ":" and x[4] == ":" and x[:2].islower()]


def _all_tags(text):
    return [x[:2] for x in text.split("\t")[1:] if len(x) > 4 and x[2] == ":" and x[4] == ":" and x[3] in "AifZJHB"
            and x[:2].isalnum()]


# The level of a line of a Gfa is the level of the Gfa whatever the ORDER in which the lines arrived: in these modes the
# record is the FIRST line of a Gfa which is told neither the version (no version argument, no header) nor anything
# else before it, so that the record is parsed while the version is still unknown (GFA2-only record types E, F, G, O,
# U: the version is inferred from this very line; S: from its syntax; L, C, P, custom records: the line waits until a
# later line tells the version; comments are stored at once); the lines it mentions follow.
#   first-line         gfapy.Gfa(text of the record + "\n" + the other lines, vlevel=k)
#   first-line-added   g = gfapy.Gfa(vlevel=k); g.add_line(s) for the record, then for every other line;
#                      g.process_line_queue()
FIRST = ("first-line", "first-line-added")


def first_line_doc(rec):
    """the record, then its context lines, then - if no S line is among them - a segment, whose syntax tells the
    version"""
    rid, ver, text, ctx, fields, ro = rec
    lines = [text] + list(ctx)
    if not any(x.startswith("S\t") for x in lines):
        lines.append("S\tZz\t*" if ver == "gfa1" else "S\tZz\t4\t*")
    return lines


def mode_fields(rec, mode):
    """The fields of the record which are assigned in the given mode ([]: the mode does not apply to the record)."""
    rid, ver, text, ctx, fields, ro = rec
    names = sorted(fields)
    if mode in FIRST:
        # (headers: the header of a Gfa is one merged line, not the line parsed)
        return [f for f in names if f not in ro] if not rid.startswith("H") else []
    if mode == "standalone":
        return names
    if mode == "connected":
        return [f for f in names if f not in ro]
    if mode == "cloned":
        return names
    if mode == "disconnected":
        return names if not rid.startswith("H") else []
    if mode in MERGE:
        return [f for f in names if f not in ro] if rid in ("S1", "S2") else []
    if mode == "multiplied":
        return [f for f in names if f not in ro] if rid in ("S1", "S2", "L1", "C1", "E1") else []
    if mode == "converted":
        if rid not in ("S1", "L1", "P1", "S2", "E1", "H1", "H2"):
            return []
        return [f for f in names if f not in ro and (f in _custom_tags(text) or f == "nw")]
    if mode == "split-header":
        return [f for f in names if f not in ro and (f in text or f == "nw")] if rid.startswith("H") else []
    raise KeyError(mode)


def _assign_space(groups):
    sp = []
    # the two original modes first: the index of an exhaustive case is stable
    for modes in groups:
        for ri, rec in enumerate(ASSIGN):
            for mode in modes:
                for f in mode_fields(rec, mode):
                    for via in ("set", "attr"):
                        if via == "attr" and f == "nw":
                            continue
                        sp.append((ri, f, mode, via))
    return sp


ASSIGN_SPACE = _assign_space((("standalone", "connected"), DERIVED))
# the first-line modes: these cases come after the scripts (the indices of the earlier exhaustive cases stay the same)
FIRST_SPACE = _assign_space((FIRST,))

# ----------------------------------------------------------------------------------------------- tag scripts
# A script is a sequence of legal public calls on the tags of ONE line (every value assigned is valid): the tag is
# created, read, removed (delete / set to None) and assigned again, through set() or through the attribute syntax.
# Values are grouped in families; a tag name keeps its family for the whole script, and every value of a family is
# valid for the tag whether the library still remembers the datatype of the removed tag or derives it anew from the
# value (so validity never depends on that choice).  A value is written [family, index] in the case.
FAM = {"i": [5, -3, 0, 7], "i+": [0, 5, 7], "LN": [4], "f": [1.5, -0.25, 2.5], "Z": ["hello world", "a:b", "xyz"],
       "A": ["b", "c"], "J": [{"a": 1}, {"a": [1, None]}, ["a", 1]],
       "H": [("@ByteArray", "FF"), ("@ByteArray", "1A2B")], "B": [[1, 2, 3], ("@NumericArray", [1, -2]), [1.5, 2.5]]}
NEW_FAMS = ["i", "Z", "f", "B", "J", "H"]
NEW_NAMES = ["nw", "zz"]
TAG_FAM = {"xi": "i", "xf": "f", "xz": "Z", "xa": "A", "xj": "J", "xh": "H", "xb": "B"}
# predefined tags of the records (datatype fixed by the name; LN must agree with the sequence)
PREDEF = {"S1": {"LN": "LN", "SH": "H", "UR": "Z"}, "L1": {"MQ": "i+"}, "C1": {"NM": "i+"}, "S2": {"RC": "i+"},
          "E1": {"TS": "i+"}, "H2": {"TS": "i+"}}
SCRIPT_OPS = ("set", "attr", "delete", "none", "get", "getattr", "str")
SCRIPT_RECORDS = [ri for ri, rec in enumerate(ASSIGN) if not rec[2].startswith("#")]


def script_modes(rec):
    return ["standalone", "connected", "cloned"] + ([] if rec[0].startswith("H") else ["disconnected"])


def _script_space():
    """The short scripts which are part of the exhaustive cases.  (i) A new tag is created, removed and created
    again: record x stand-alone/connected x way of creating (set, attribute) x way of removing (delete, set None) x
    way of assigning again x family of the values x whether the line is then read before it is written: a fixed
    sample of 360 of the 4992 combinations (drawn once with a fixed seed: the same at every run).  (ii) An existing
    custom tag / a predefined tag of a stand-alone record is removed and assigned again (all combinations)."""
    import itertools
    import random
    full = list(itertools.product(SCRIPT_RECORDS, ("standalone", "connected"), ("set", "attr"), ("delete", "none"),
                                  ("set", "attr"), NEW_FAMS, (False, True)))
    rnd = random.Random(2718)
    sp = []
    for j in sorted(rnd.sample(range(len(full)), 360)):
        ri, mode, create, remove, again, fam, read_first = full[j]
        k = len(FAM[fam])
        sp.append((ri, mode, read_first, [[create, "nw", fam, j % k], [remove, "nw"], [again, "nw", fam, (j + 1) % k]]))
    n = 0
    for ri in SCRIPT_RECORDS:
        rec = ASSIGN[ri]
        existing = [t for t in _custom_tags(rec[2]) if t in TAG_FAM][:1] + sorted(PREDEF.get(rec[0], {}))[:1]
        for f in existing:
            fam = TAG_FAM.get(f) or PREDEF[rec[0]][f]
            for remove in ("delete", "none"):
                for again in ("set", "attr"):
                    n += 1
                    sp.append((ri, "standalone", (n // 4) % 2 == 0, [[remove, f], [again, f, fam, n % len(FAM[fam])]]))
    return sp


SCRIPT_SPACE = _script_space()


def n_exhaustive(tier):
    return len(ASSIGN_SPACE) + len(SCRIPT_SPACE) + len(FIRST_SPACE)


def exhaustive_case(i, tier):
    if i >= len(ASSIGN_SPACE) + len(SCRIPT_SPACE):
        ri, f, mode, via = FIRST_SPACE[i - len(ASSIGN_SPACE) - len(SCRIPT_SPACE)]
        return {"kind": "assign", "record": ASSIGN[ri][0], "ri": ri, "field": f, "mode": mode, "via": via}
    if i >= len(ASSIGN_SPACE):
        ri, mode, read_first, ops = SCRIPT_SPACE[i - len(ASSIGN_SPACE)]
        return {"kind": "script", "record": ASSIGN[ri][0], "ri": ri, "mode": mode, "read_first": read_first,
                "ops": [list(o) for o in ops]}
    ri, f, mode, via = ASSIGN_SPACE[i]
    return {"kind": "assign", "record": ASSIGN[ri][0], "ri": ri, "field": f, "mode": mode, "via": via}


def gen_script(rng):
    ri = rng.choice(SCRIPT_RECORDS)
    rec = ASSIGN[ri]
    mode = rng.choice(script_modes(rec))
    fam = {}
    for f in rng.sample(NEW_NAMES, rng.randint(1, 2)):
        fam[f] = rng.choice(NEW_FAMS)
    existing = [t for t in _custom_tags(rec[2]) if t in TAG_FAM]
    for f in rng.sample(existing, min(len(existing), rng.randint(0, 2))):
        fam[f] = TAG_FAM[f]
    pre = sorted(PREDEF.get(rec[0], {}))
    if pre and rng.random() < 0.5:
        f = rng.choice(pre)
        fam[f] = PREDEF[rec[0]][f]
    pool = sorted(fam)
    ops = []
    f = rng.choice(pool)
    for _ in range(rng.randint(3, 8)):
        if rng.random() < 0.4:
            f = rng.choice(pool)
        kind = rng.choice(["set"] * 5 + ["attr"] * 6 + ["delete"] * 4 + ["none"] * 2 + ["get", "getattr", "str"])
        if kind in ("set", "attr"):
            ops.append([kind, f, fam[f], rng.randrange(len(FAM[fam[f]]))])
        elif kind == "str":
            ops.append([kind])
        else:
            ops.append([kind, f])
    return {"kind": "script", "record": rec[0], "ri": ri, "mode": mode, "read_first": rng.random() < 0.5, "ops": ops}


def budget(tier):
    return 2000 if tier == "quick" else 50000


MUT_CHARS = "\t:*+-$,;0159AaMZz ="


# ----------------------------------------------------------------------------------------------- linelevel
MARK = "zq"            # the tag which marks the line under test (no generated document uses this name)


def _positional_invalid():
    """{(version, record type): [(field, value spec, kind, label)]}: the clear-cut invalid values of the assignment table
    for the positional fields which may be assigned while the line is connected"""
    tab = {}
    for rid, ver, text, ctx, fields, ro in ASSIGN:
        rt = text.split("\t")[0]
        if rt in ("H", "X") or rt.startswith("#"):
            continue
        for f in sorted(fields):
            if f in ro or len(f) == 2:      # tags: two characters
                continue
            label, values = fields[f]
            for kind, spec in values:
                if kind != V and not isinstance(spec, (tuple, dict)):
                    tab.setdefault((ver, rt), []).append((f, spec, kind, label))
    return tab


POS_INVALID = _positional_invalid()
TAG_ENTRIES = [(MARK, "a\tb", WS, "Z"), (MARK, "a\nb", WS, "Z"), (MARK, 12, WT, "Z"), ("zr", "a\tb", WS, "new"),
               ("zr", "a\nb", WS, "new")]
TAG_VALID = [(MARK, "other text", V, "Z"), ("zr", "abc", V, "new"), ("zr", 5, V, "new"), (MARK, "*", V, "Z")]


def gen_linelevel(rng, tier):
    """A valid document whose version is NOT told (no version argument; headers without VN half of the time), one of
    its lines (not a header, not a comment) marked with the tag zq:Z:mark and, most of the time, moved to the front
    of the document: the line arrives before the lines it mentions and - if nothing before it tells the version -
    while the version is unknown.  The entries are assignments to the marked line: a valid and an invalid value of
    the marker tag / a new tag, and up to two invalid values of its positional fields."""
    ml = rng.choice([3, 5, 8, 12]) if tier == "quick" else rng.choice([8, 12, 20, 40])
    o = {"no_vn": True} if rng.random() < 0.5 else {}
    d = D.gen_doc(rng, version="gfa2" if rng.random() < 0.65 else "gfa1", max_lines=ml, same_id_groups=False, odd=0.5, **o)
    lines = list(d["lines"])
    cands = [j for j, l in enumerate(lines) if l[:1] not in ("H", "#") and l.strip()
             and not any(x.startswith(MARK + ":") for x in l.split("\t"))]
    if not cands:
        return None
    # GFA2-only record types half of the time, if there are any (the version is inferred from such a line)
    special = [j for j in cands if lines[j].split("\t")[0] in ("E", "F", "G", "O", "U")]
    j = rng.choice(special) if special and rng.random() < 0.5 else rng.choice(cands)
    target = lines[j] + "\t%s:Z:mark" % MARK
    del lines[j]
    r = rng.random()
    if r < 0.6:
        at = 0
    elif r < 0.75:
        # after the leading comments / headers without VN (they do not tell the version)
        at = 0
        while at < len(lines) and (lines[at][:1] == "#" or (lines[at][:1] == "H" and "VN:Z:" not in lines[at])):
            at += 1
    else:
        at = rng.randint(0, len(lines))
    lines.insert(at, target)
    rt = target.split("\t")[0]
    entries = [list(rng.choice(TAG_VALID)), list(rng.choice(TAG_ENTRIES))]
    pos = POS_INVALID.get((d["version"], rt), [])
    for e in rng.sample(pos, min(len(pos), 2)):
        entries.append(list(e))
    return {"kind": "linelevel", "version": d["version"], "lines": lines, "features": d["features"], "ver_param": None,
            "target": at, "how": rng.choice(["text", "list", "add"]), "via": rng.choice(["set", "attr"]),
            "entries": entries}


def gen_case(rng, tier, i):
    r0 = rng.random()
    if r0 < 0.12:
        return gen_script(rng)
    if r0 < 0.20:
        # (the cases of the other kinds, r0 >= 0.20, are what they were)
        c = gen_linelevel(rng, tier)
        if c is not None:
            return c
    ml = rng.choice([3, 5, 8, 12]) if tier == "quick" else rng.choice([8, 12, 20, 40])
    d = D.gen_doc(rng, max_lines=ml, same_id_groups=False, odd=0.5)
    ver = rng.choice([None, d["version"]])
    if rng.random() < 0.55:
        return {"kind": "levels", "version": d["version"], "lines": d["lines"], "features": d["features"], "ver_param": ver}
    lines = list(d["lines"])
    mut = "none"
    if rng.random() < 0.9:
        li = rng.randrange(len(lines))
        s = lines[li]
        r = rng.random()
        if s and r < 0.5:
            p = rng.randrange(len(s))
            s = s[:p] + rng.choice(MUT_CHARS) + s[p + 1:]
            mut = "replace"
        elif s and r < 0.75:
            p = rng.randrange(len(s))
            s = s[:p] + s[p + 1:]
            mut = "delete"
        else:
            p = rng.randrange(len(s) + 1)
            s = s[:p] + rng.choice(MUT_CHARS) + s[p:]
            mut = "insert"
        lines[li] = s
    return {"kind": "mono", "version": d["version"], "lines": lines, "features": d["features"], "ver_param": ver,
            "mutation": mut}


def nontrivial(case):
    if case["kind"] in ("assign", "script", "linelevel"):
        return True
    return len(case["lines"]) >= 3 or any(":B:" in l or ":J:" in l or ":H:" in l for l in case["lines"])


def tags(case):
    if case["kind"] == "assign":
        return ["assign", "assign:" + case["record"], case["mode"], case["via"],
                "dt:" + ASSIGN[case["ri"]][4][case["field"]][0]]
    if case["kind"] == "script":
        t = ["script", "script:" + case["record"], case["mode"]]
        removed, made = set(), set()
        for op in case["ops"]:
            t.append("op:" + op[0])
            if op[0] in ("set", "attr"):
                t.append("fam:" + op[2])
                if op[1] in removed:
                    t.append("%s-after-%s" % (op[0], "removal-of-new-tag" if op[1] in made and op[1] in NEW_NAMES else "removal"))
                    removed.discard(op[1])
                made.add(op[1])
            elif op[0] in ("delete", "none"):
                removed.add(op[1])
        return sorted(set(t))
    t = [case["kind"], case["version"], "version-param" if case["ver_param"] else "version-inferred"]
    if case["kind"] == "mono":
        t.append("mut:" + case["mutation"])
    if case["kind"] == "linelevel":
        tl = case["lines"][case["target"]]
        t += ["how:" + case["how"], case["via"], "target:" + tl.split("\t")[0][:1],
              "target-first" if case["target"] == 0 else "target-later"]
        if not any(l[:1] == "S" or "VN:Z:" in l for l in case["lines"][:case["target"]]):
            t.append("target-before-version-known")
    t += case.get("features", [])
    for l in case["lines"]:
        for x in l.split("\t")[1:]:
            m = D.TAG_RE.match(x) if not l.startswith("#") else None
            if m:
                t.append("dt:" + m.group(2))
    return sorted(set(t))


def signature(case, failure):
    return failure.split(":")[0]


# ----------------------------------------------------------------------------------------------- levels / mono
def _load(gfapy, lines, k, ver):
    try:
        return ("ok", gfapy.Gfa(list(lines), vlevel=k, version=ver))
    except gfapy.Error as e:
        return ("gerr", e.__class__.__name__, str(e).split("\n")[0][:100])
    except Exception as e:  # noqa
        return ("foreign", e.__class__.__name__, str(e).split("\n")[0][:100])


def _canon_obs(o):
    c = D.canon_delayed
    out = dict(o)
    out["text"] = sorted(c(x) for x in o["text"])
    out["virtual"] = sorted(c(x) for x in o["virtual"])
    out["back"] = {c(k): {kk: (sorted(c(x) for x in vv) if isinstance(vv, list) else vv) for kk, vv in d.items()}
                   for k, d in o["back"].items()}
    return out


def _render(gfapy, v):
    """A field value as seen through the public API: (type name, text); lines referenced by a field are named."""
    if isinstance(v, gfapy.Line):
        n = None
        if v.record_type in "SEGOUP":
            try:
                n = v.get("name")
            except Exception:  # noqa
                n = None
        return ("line", v.record_type, str(n) if n is not None else D.canon_delayed(lib.wl(v)))
    if isinstance(v, gfapy.OrientedLine):
        return ("OrientedLine", _render(gfapy, v.line), str(v.orient))
    if isinstance(v, (list, tuple)) and not isinstance(v, (gfapy.NumericArray, gfapy.ByteArray, gfapy.CIGAR, gfapy.Trace)):
        return (type(v).__name__, [_render(gfapy, x) for x in v])
    return (type(v).__name__, str(v))


def _read_all(gfapy, g):
    """Reads every field of every line with line.get (what any analysis of the graph does); returns the values."""
    out = []
    for l in g.lines:
        row = [l.record_type]
        for fn in list(l.positional_fieldnames) + list(l.tagnames):
            row.append((fn, _render(gfapy, l.get(fn))))
        out.append(row)
    return out


PARTS = ["text", "obs", "read", "text-after-read", "obs-after-read"]


def oracle_levels(case):
    gfapy = lib.import_gfapy()
    lines, ver = case["lines"], case["ver_param"]
    F = []
    res = {}
    for k in (0, 1, 2, 3):
        r = _load(gfapy, lines, k, ver)
        if r[0] != "ok":
            F.append("valid-rejected-at-level[%s]: level %d raises %s %s on %r" % (r[1], k, r[1], r[2], lines))
            continue
        g = r[1]
        try:
            t = str(g)
            o = lib.obs(g)
        except Exception as e:  # noqa
            F.append("write-raises-at-level[%s]: level %d: %s" % (e.__class__.__name__, k, str(e).split("\n")[0][:100]))
            continue
        try:
            rd = _read_all(gfapy, g)
        except Exception as e:  # noqa
            F.append("read-raises-at-level[%s]: level %d: %s" % (e.__class__.__name__, k, str(e).split("\n")[0][:100]))
            continue
        try:
            t2 = str(g)
            o2 = lib.obs(g)
        except Exception as e:  # noqa
            F.append("write-raises-at-level[%s]: level %d, after all fields have been read: %s"
                     % (e.__class__.__name__, k, str(e).split("\n")[0][:100]))
            continue
        res[k] = (t, o, rd, t2, o2)
    if F or len(res) < 2:
        return F
    ks = sorted(res)
    base = ks[-1]
    literal_diff = [k for k in ks if res[k] != res[base]]
    if not literal_diff:
        return []

    def canon(r):
        cl = lambda t: [D.canon_delayed(x) for x in t.split("\n")]
        return (cl(r[0]), _canon_obs(r[1]), r[2], cl(r[3]), _canon_obs(r[4]))

    cres = {k: canon(res[k]) for k in ks}
    canon_diff = [k for k in ks if cres[k] != cres[base]]
    if not canon_diff and literal_diff == [0]:
        for i in (0, 3):
            a, b = res[0][i].split("\n"), res[base][i].split("\n")
            d = [(x, y) for x, y in zip(a, b) if x != y][:1]
            if d:
                break
        return ["lazy-spelling: level 0 writes %r, levels >= 1 write %r" % (d[0] if d else ("<observation>", ""))]
    # real differences first; a spelling-only difference at level 0 next to a real one is not reported separately
    order = [k for k in literal_diff if k in canon_diff] or [k for k in literal_diff if k != 0] or literal_diff
    k = order[0]
    real = k in canon_diff
    A, B = (cres[k], cres[base]) if real else (res[k], res[base])
    i = [j for j in range(len(PARTS)) if A[j] != B[j]][0]
    what = PARTS[i]
    a, b = res[k][i], res[base][i]
    if i in (0, 3):
        a, b = a.split("\n"), b.split("\n")
        d = [(x, y) for x, y in zip(a, b) if x != y][:1] or [("%d lines" % len(a), "%d lines" % len(b))]
        det = "%r vs %r" % d[0]
    elif i == 2:
        d = [(x, y) for x, y in zip(a, b) if x != y][:1] or [("%d lines" % len(a), "%d lines" % len(b))]
        x, y = d[0]
        if isinstance(x, list) and len(x) == len(y):
            fd = [(p, q) for p, q in zip(x[1:], y[1:]) if p != q][:1]
            det = "%s line: get(%r) -> %r vs %r" % (x[0], fd[0][0][0], fd[0][0][1], fd[0][1][1]) if fd else "%r vs %r" % (x, y)
        else:
            det = "%r vs %r" % (x, y)
    else:
        keys = [x for x in a if a[x] != b[x]]
        det = "observation differs in %s" % keys
    F.append("levels-differ-%s%s: level %d vs level %d: %s" % (what, "" if real else "-spelling-only", k, base, det))
    return F


def oracle_mono(case):
    gfapy = lib.import_gfapy()
    lines, ver = case["lines"], case["ver_param"]
    acc = {}
    for k in (0, 1, 2, 3):
        r = _load(gfapy, lines, k, ver)
        acc[k] = r
    F = []
    for k in (1, 2, 3):
        if acc[k][0] != "ok":
            continue
        for j in range(k):
            if acc[j][0] != "ok":
                F.append("accepted-at-higher-level-only[%s]: level %d accepts, level %d raises %s %s on %r"
                         % (acc[j][1], k, j, acc[j][1], acc[j][2], lines))
                return F
    return F


# ----------------------------------------------------------------------------------------------- assign
def mk(gfapy, spec):
    if isinstance(spec, tuple) and spec and isinstance(spec[0], str) and spec[0].startswith("@"):
        n = spec[0][1:]
        if n == "Placeholder":
            return gfapy.Placeholder()
        if n == "AlignmentPlaceholder":
            return gfapy.AlignmentPlaceholder()
        if n == "LastPos":
            return gfapy.LastPos(spec[1])
        if n == "Alignment":
            return gfapy.Alignment(spec[1], version=spec[2])
        if n == "NumericArray":
            return gfapy.NumericArray(spec[1])
        if n == "ByteArray":
            return gfapy.ByteArray(spec[1])
        if n == "OrientedLine":
            return gfapy.OrientedLine(spec[1], spec[2])
    if isinstance(spec, list):
        return [mk(gfapy, x) for x in spec]
    if isinstance(spec, dict):
        return dict(spec)
    return spec


def _pick(g, rt, text):
    if rt == "H":
        return g.header
    if rt.startswith("#"):
        return g.comments[-1]
    cands = [l for l in g.lines if l.record_type == rt and not l.virtual]
    if rt == "S":
        cands = [l for l in cands if l.name == text.split("\t")[1]]
    return cands[-1]


def make_line(gfapy, rec, mode, level, field=None):
    """The line under test: built from the text of the record at the given level, by parsing (stand-alone or in a
    Gfa) or by a public operation on the parsed lines (modes DERIVED)."""
    rid, ver, text, ctx, fields, ro = rec
    if mode == "standalone":
        return gfapy.Line(text, vlevel=level, version=ver if not text.startswith("#") else None)
    rt = text.split("\t")[0]
    if mode in FIRST:
        lines = first_line_doc(rec)
        if mode == "first-line":
            g = gfapy.Gfa("\n".join(lines), vlevel=level)
        else:
            g = gfapy.Gfa(vlevel=level)
            for x in lines:
                g.add_line(x)
            g.process_line_queue()
        ln = g.comments[0] if rt.startswith("#") else _pick(g, rt, text)
        ln._c18_keepalive = g
        return ln
    if mode in MERGE:
        ph, others, opts = MERGE[mode]
        if ph:
            text = text.replace("\tACGT", "\t*", 1)
        g = gfapy.Gfa([text] + others[ver], vlevel=level, version=ver)
        g.merge_linear_paths(**opts)
        if len(g.segments) != 1 or g.segments[0].name in ("A", "Bm"):
            raise RuntimeError("merge_linear_paths did not merge A and Bm: %r" % [str(x) for x in g.segments])
        ln = g.segments[0]
        ln._c18_keepalive = g
        return ln
    if mode == "converted" and ver == "gfa1":
        ctx = [c + "\tLN:i:4" if c.startswith("S\t") and "LN:i:" not in c else c for c in ctx]
    g = gfapy.Gfa(ctx + [text], vlevel=level, version=ver)
    if mode == "multiplied":
        g.multiply("A", 2)
        if rt == "S":
            ln = g.segment("A*2")
        else:
            ln = [l for l in g.lines if l.record_type == rt and not l.virtual
                  and any(x.rstrip("+-") == "A*2" for x in str(l).split("\t")[1:4])][-1]
        ln._c18_keepalive = g
        return ln
    if mode == "converted":
        g2 = g.to_gfa2() if ver == "gfa1" else g.to_gfa1()
        if rt == "H":
            return g2.header
        marker = _custom_tags(text)[0]
        ln = [l for l in g2.lines if l.record_type != "H" and not l.virtual and marker in l.tagnames][-1]
        ln._c18_keepalive = g2
        return ln
    if mode == "split-header":
        hs = g.headers
        f = field if field is not None and field != "nw" else _custom_tags(text)[0]
        return [h for h in hs if f in h.tagnames][-1]
    ln = _pick(g, rt, text)
    if mode == "cloned":
        return ln.clone()
    if mode == "disconnected":
        ln.disconnect()
        return ln
    ln._c18_keepalive = g  # keep the Gfa referenced (plain attribute, not a field)
    return ln


def step(gfapy, fn):
    try:
        return ("ok", fn())
    except gfapy.Error as e:
        return ("gerr", e.__class__.__name__)
    except Exception as e:  # noqa
        return ("foreign", e.__class__.__name__)


def oracle_assign(case):
    gfapy = lib.import_gfapy()
    rec = ASSIGN[case["ri"]]
    f = case["field"]
    label, values = rec[4][f]
    F = {}

    def add(sig, msg):
        F.setdefault(sig, "%s: %s" % (sig, msg))

    for kind, spec in values:
        for level in (0, 1, 2, 3):
            def fresh():
                return make_line(gfapy, rec, case["mode"], level, f)

            def assign(line):
                v = mk(gfapy, spec)
                if case["via"] == "set":
                    return step(gfapy, lambda: line.set(f, v))
                return step(gfapy, lambda: setattr(line, f, v))

            where = "%s %s.%s = %r (%s, %s) at level %d" % (case["mode"], rec[0], f, spec, label, kind, level)
            try:
                line = fresh()
            except Exception as e:  # noqa
                add("harness-cannot-build", "%s: %s" % (where, e))
                continue
            r = assign(line)
            if r[0] == "foreign":
                add("foreign-exception%s[%s]" % ("-on-valid" if kind == V else "", label),
                    "%s: assignment raised %s" % (where, r[1]))
                continue
            if kind == V:
                if r[0] != "ok":
                    add("valid-rejected[%s]" % label, "%s: assignment raised %s" % (where, r[1]))
                    continue
                calls = [("get", lambda: line.get(f)), ("field_to_s", lambda: line.field_to_s(f)),
                         ("str", lambda: str(line)), ("validate_field", lambda: line.validate_field(f)),
                         ("validate", lambda: line.validate()), ("str", lambda: str(line))]
                for name, fn in calls:
                    q = step(gfapy, fn)
                    if q[0] == "foreign":
                        add("foreign-exception-on-valid[%s]" % label, "%s: %s raised %s" % (where, name, q[1]))
                        break
                    if q[0] == "gerr":
                        add("valid-rejected[%s]" % label, "%s: %s raised %s" % (where, name, q[1]))
                        break
                    if name == "str" and "# INVALID" in q[1] and not rec[2].startswith("#"):
                        add("valid-flagged-invalid[%s]" % label, "%s: str -> %r" % (where, q[1]))
                        break
                continue
            # invalid value
            if level == 3:
                if r[0] == "ok":
                    other = None
                    if case["via"] == "attr":
                        l3 = fresh()
                        v3 = mk(gfapy, spec)
                        other = step(gfapy, lambda: l3.set(f, v3))
                    if other is not None and other[0] != "ok":
                        # Line.__setattr__ swallows the (Attribute)Error raised while validating
                        add("attribute-assignment-swallows-error[%s]" % label,
                            "%s: line.%s = v is silent while line.set(%r, v) raises %s" % (where, f, f, other[1]))
                    else:
                        add("invalid-accepted-by-set-at-level3[%s]" % label, "%s: no error" % where)
                continue
            if r[0] == "gerr":
                continue  # reported early: allowed
            checks = [("validate_field", lambda l: l.validate_field(f)), ("validate", lambda l: l.validate())]
            if level == 2:
                checks += [("field_to_s", lambda l: l.field_to_s(f))]
            for name, fn in checks:
                l2 = fresh()
                if assign(l2)[0] != "ok":
                    continue
                q = step(gfapy, lambda: fn(l2))
                if q[0] == "foreign":
                    add("foreign-exception[%s]" % label, "%s: %s raised %s" % (where, name, q[1]))
                elif q[0] == "ok":
                    add("invalid-not-reported-by-%s[%s]" % ("validate" if name != "field_to_s" else "write-at-level2", label),
                        "%s: %s returned %r" % (where, name, q[1]))
            if level == 2:
                l2 = fresh()
                if assign(l2)[0] == "ok":
                    q = step(gfapy, lambda: str(l2))
                    if q[0] == "ok" and "# INVALID" not in q[1]:
                        add("invalid-not-reported-by-write-at-level2[%s]" % label, "%s: str -> %r" % (where, q[1]))
    return list(F.values())


# ----------------------------------------------------------------------------------------------- linelevel
def build_doc(gfapy, lines, how, level):
    if how == "text":
        return gfapy.Gfa("\n".join(lines), vlevel=level)
    if how == "list":
        return gfapy.Gfa(list(lines), vlevel=level)
    g = gfapy.Gfa(vlevel=level)
    for x in lines:
        g.add_line(x)
    g.process_line_queue()
    return g


def oracle_linelevel(case):
    """Every line of a Gfa of level k is a line of level k, whenever it arrived: the marked line of a valid document
    (version not told; the line is often the first one) is assigned valid and invalid values, with the demands of
    `assign` (valid: never rejected, readable, writable without marker, valid; invalid: reported by the assignment
    at level 3, by field_to_s / str at level 2 at the latest, by validate_field / validate at levels 0-2)."""
    gfapy = lib.import_gfapy()
    lines, how, via = case["lines"], case["how"], case["via"]
    tline = lines[case["target"]]
    rt = tline.split("\t")[0]
    F = {}

    def add(sig, msg):
        F.setdefault(sig, "%s: %s" % (sig, msg))

    def fresh(level):
        g = build_doc(gfapy, lines, how, level)
        ls = [l for l in g.lines if not l.virtual and l.record_type not in ("H", "#") and MARK in l.tagnames]
        if len(ls) != 1:
            raise RuntimeError("marked line not found")
        ls[0]._c18_keepalive = g
        return ls[0]

    for level in (0, 1, 2, 3):
        try:
            fresh(level)
        except Exception:  # noqa
            # whether the document is accepted at every level is judged by `levels` / `mono`
            return []
    for f, spec, kind, label in case["entries"]:
        for level in (0, 1, 2, 3):
            def assign(line):
                v = mk(gfapy, spec)
                if via == "set":
                    return step(gfapy, lambda: line.set(f, v))
                return step(gfapy, lambda: setattr(line, f, v))

            where = "line %d of %d (%s, Gfa built by %s, version not told): %s.%s = %r (%s, %s) at level %d; line: %r" % (
                case["target"] + 1, len(lines), "%s line" % rt, how, rt, f, spec, label, kind, level, tline)
            line = fresh(level)
            if f != MARK and f != "zr" and f not in line.positional_fieldnames:
                continue
            r = assign(line)
            if r[0] == "foreign":
                add("foreign-exception%s[%s]" % ("-on-valid" if kind == V else "", label), "%s: assignment raised %s" % (where, r[1]))
                continue
            if kind == V:
                if r[0] != "ok":
                    add("valid-rejected[%s]" % label, "%s: assignment raised %s" % (where, r[1]))
                    continue
                for name, fn in [("get", lambda: line.get(f)), ("field_to_s", lambda: line.field_to_s(f)), ("str", lambda: str(line)),
                                 ("validate_field", lambda: line.validate_field(f)), ("str", lambda: str(line))]:
                    q = step(gfapy, fn)
                    if q[0] == "foreign":
                        add("foreign-exception-on-valid[%s]" % label, "%s: %s raised %s" % (where, name, q[1]))
                        break
                    if q[0] == "gerr":
                        add("valid-rejected[%s]" % label, "%s: %s raised %s" % (where, name, q[1]))
                        break
                    if name == "str" and "# INVALID" in q[1]:
                        add("valid-flagged-invalid[%s]" % label, "%s: str -> %r" % (where, q[1]))
                        break
                continue
            if level == 3:
                if r[0] == "ok":
                    add("invalid-accepted-by-set-at-level3[%s]" % label, "%s: no error" % where)
                continue
            if r[0] == "gerr":
                continue
            checks = [("validate_field", lambda l: l.validate_field(f)), ("validate", lambda l: l.validate())]
            if level == 2:
                checks += [("field_to_s", lambda l: l.field_to_s(f))]
            for name, fn in checks:
                l2 = fresh(level)
                if assign(l2)[0] != "ok":
                    continue
                q = step(gfapy, lambda: fn(l2))
                if q[0] == "foreign":
                    add("foreign-exception[%s]" % label, "%s: %s raised %s" % (where, name, q[1]))
                elif q[0] == "ok":
                    add("invalid-not-reported-by-%s[%s]" % ("validate" if name != "field_to_s" else "write-at-level2", label),
                        "%s: %s returned %r" % (where, name, q[1]))
            if level == 2:
                l2 = fresh(level)
                if assign(l2)[0] == "ok":
                    q = step(gfapy, lambda: str(l2))
                    if q[0] == "ok" and "# INVALID" not in q[1]:
                        add("invalid-not-reported-by-write-at-level2[%s]" % label, "%s: str -> %r" % (where, q[1]))
    return list(F.values())


# ----------------------------------------------------------------------------------------------- script
def show_script(ops):
    out = []
    for op in ops:
        if op[0] in ("set", "attr"):
            v = FAM[op[2]][op[3]]
            out.append("line.set(%r, %r)" % (op[1], v) if op[0] == "set" else "line.%s = %r" % (op[1], v))
        elif op[0] == "delete":
            out.append("line.delete(%r)" % op[1])
        elif op[0] == "none":
            out.append("line.set(%r, None)" % op[1])
        elif op[0] == "get":
            out.append("line.get(%r)" % op[1])
        elif op[0] == "getattr":
            out.append("line.%s" % op[1])
        else:
            out.append("str(line)")
    return "; ".join(out)


def oracle_script(case):
    """The same legal calls at the four levels: none may raise, the line must end up the same at every level, with
    exactly the tags the calls leave (and, for numbers and strings, their values), valid and written without marker."""
    gfapy = lib.import_gfapy()
    rec = ASSIGN[case["ri"]]
    ops = case["ops"]
    F = {}

    def add(sig, msg):
        F.setdefault(sig, "%s: %s" % (sig, msg))

    present = dict((t, None) for t in _all_tags(rec[2]))
    known = {}          # tag -> last value assigned by the script (spec)
    removed = set()
    trace = []          # per op: was the target removed earlier in the script (and not assigned since)?
    for op in ops:
        trace.append(len(op) > 1 and op[1] in removed)
        if op[0] in ("set", "attr"):
            present[op[1]] = None
            known[op[1]] = (op[2], FAM[op[2]][op[3]])
            removed.discard(op[1])
        elif op[0] in ("delete", "none"):
            present.pop(op[1], None)
            known.pop(op[1], None)
            removed.add(op[1])
    text = show_script(ops)
    res = {}
    for level in (0, 1, 2, 3):
        where = "%s %s at level %d: %s" % (case["mode"], rec[0], level, text)
        try:
            line = make_line(gfapy, rec, case["mode"], level)
        except Exception as e:  # noqa
            add("harness-cannot-build", "%s: %s" % (where, e))
            continue
        bad = False
        for k, op in enumerate(ops):
            if op[0] in ("set", "attr"):
                v = mk(gfapy, FAM[op[2]][op[3]])
                fn = (lambda: line.set(op[1], v)) if op[0] == "set" else (lambda: setattr(line, op[1], v))
            elif op[0] == "delete":
                fn = lambda: line.delete(op[1])
            elif op[0] == "none":
                fn = lambda: line.set(op[1], None)
            elif op[0] == "get":
                fn = lambda: line.get(op[1])
            elif op[0] == "getattr":
                fn = lambda: getattr(line, op[1])
            else:
                fn = lambda: str(line)
            r = step(gfapy, fn)
            if r[0] != "ok":
                what = "call no. %d (%s) raised %s" % (k + 1, show_script([op]), r[1])
                if r[0] == "foreign":
                    add("foreign-exception-in-script[%s]" % op[0], "%s: %s" % (where, what))
                elif op[0] in ("set", "attr"):
                    add("valid-rejected-%s[%s]" % ("after-removal" if trace[k] else "in-script", op[0]),
                        "%s: %s; the value is valid for the tag" % (where, what))
                elif op[0] in ("delete", "none"):
                    add("legal-call-rejected[%s]" % op[0], "%s: %s" % (where, what))
                else:
                    add("valid-tag-unreadable[%s]" % op[0], "%s: %s; every value assigned is valid" % (where, what))
                bad = True
                break
            if op[0] == "str" and "# INVALID" in r[1]:
                add("valid-flagged-invalid-in-script", "%s: call no. %d: str -> %r" % (where, k + 1, r[1]))
        if bad:
            continue
        # the line is read and written; which one comes first depends on the case, not on the level
        # (the value first: asking for the datatype of a tag records the default datatype of its value)
        reads = lambda: [(lambda v: (n, line.get_datatype(n), v))(_render(gfapy, line.get(n))) for n in line.tagnames]
        finals = [("get", reads), ("str", lambda: str(line))]
        if not case.get("read_first"):
            finals.reverse()
        finals += [("validate", lambda: line.validate()), ("str", lambda: str(line))]
        got = []
        for name, fn in finals:
            r = step(gfapy, fn)
            if r[0] != "ok":
                if r[0] == "foreign":
                    add("foreign-exception-after-script[%s]" % name, "%s: then %s of the tags raised %s" % (where, name, r[1]))
                elif name == "validate":
                    add("valid-rejected-by-validate-after-script", "%s: then validate() raised %s" % (where, r[1]))
                else:
                    add("valid-tag-unreadable[final-%s]" % name, "%s: then %s raised %s; every value assigned is valid" % (
                        where, "get() of every tag" if name == "get" else "str(line)", r[1]))
                bad = True
                break
            got.append((name, r[1]))
        if bad:
            continue
        tagobs = [v for n, v in got if n == "get"][0]
        t1, t2 = [v for n, v in got if n == "str"]
        if "# INVALID" in t1 or "# INVALID" in t2:
            add("valid-flagged-invalid-after-script", "%s: str -> %r" % (where, t1))
        if sorted(n for n, _, _ in tagobs) != sorted(present):
            add("script-result-wrong", "%s: the line has the tags %r, the calls leave %r (%r)" % (
                where, sorted(n for n, _, _ in tagobs), sorted(present), t1))
        else:
            for n, (fam, v) in sorted(known.items()):
                if fam in ("i", "i+", "LN", "f", "Z", "A"):
                    q = line.get(n)
                    if q != v or type(q) is not type(v):
                        add("script-result-wrong", "%s: get(%r) -> %r, last assigned %r" % (where, n, q, v))
        # spelling of the delayed datatypes: known finding #30, reported by the `levels` cases
        res[level] = (D.canon_delayed(t1), tagobs, D.canon_delayed(t2))
    if len(res) >= 2:
        base = max(res)
        for k in sorted(res):
            if res[k] != res[base]:
                i = [j for j in range(3) if res[k][j] != res[base][j]][0]
                add("levels-differ-after-script", "%s %s: %s: level %d gives %r, level %d gives %r" % (
                    case["mode"], rec[0], text, k, res[k][i], base, res[base][i]))
                break
    # a rejected assignment first (it is what the property names); the order within a kind is the order of the levels
    return sorted(F.values(), key=lambda m: 0 if m.startswith("valid-rejected") else 1)


def oracle(case):
    if case["kind"] == "levels":
        return oracle_levels(case)
    if case["kind"] == "mono":
        return oracle_mono(case)
    if case["kind"] == "script":
        return oracle_script(case)
    if case["kind"] == "linelevel":
        return oracle_linelevel(case)
    F = oracle_assign(case)
    if case["mode"] in FIRST and case["record"].startswith("#"):
        # finding on the unchanged tree (see the module docstring): its own signature
        F = ["comment-before-version-known: " + x for x in F]
    return F


def shrink(case, failure):
    if case["kind"] == "assign":
        return case
    if case["kind"] == "linelevel":
        # lines other than the marked one are removed, then entries, while the signature stays
        sig = failure.split(":")[0]
        cur = dict(case)

        def same(c):
            try:
                return any(f.split(":")[0] == sig for f in oracle(c))
            except Exception:  # noqa
                return False
        changed = True
        while changed:
            changed = False
            for i in range(len(cur["lines"]) - 1, -1, -1):
                if i == cur["target"]:
                    continue
                c = dict(cur, lines=cur["lines"][:i] + cur["lines"][i + 1:], target=cur["target"] - (1 if i < cur["target"] else 0))
                if same(c):
                    cur = c
                    changed = True
            for i in range(len(cur["entries"]) - 1, -1, -1):
                c = dict(cur, entries=cur["entries"][:i] + cur["entries"][i + 1:])
                if c["entries"] and same(c):
                    cur = c
                    changed = True
        return cur
    if case["kind"] == "script":
        sig = failure.split(":")[0]
        cur = dict(case)
        changed = True
        while changed:
            changed = False
            for i in range(len(cur["ops"]) - 1, -1, -1):
                c = dict(cur, ops=cur["ops"][:i] + cur["ops"][i + 1:])
                try:
                    ok = bool(c["ops"]) and any(f.split(":")[0] == sig for f in oracle(c))
                except Exception:  # noqa
                    ok = False
                if ok:
                    cur = c
                    changed = True
        return cur
    sig = failure.split(":")[0]
    cur = dict(case)

    def still(c):
        try:
            return any(f.split(":")[0] == sig for f in oracle(c))
        except Exception:  # noqa
            return False

    changed = True
    while changed:
        changed = False
        for i in range(len(cur["lines"]) - 1, -1, -1):
            cand = cur["lines"][:i] + cur["lines"][i + 1:]
            if not cand:
                continue
            if cur["kind"] == "levels" and not D.refs_closed(cand, cur["version"]):
                continue
            c = dict(cur, lines=cand)
            if still(c):
                cur = c
                changed = True
        if cur["kind"] == "levels":
            for i, l in enumerate(cur["lines"]):
                if l.startswith("#"):
                    continue
                f = l.split("\t")
                k = D.split_tags(f)
                for j in range(len(f) - 1, k - 1, -1):
                    cand = list(cur["lines"])
                    g = cand[i].split("\t")
                    if j >= len(g):
                        continue
                    del g[j]
                    cand[i] = "\t".join(g)
                    c = dict(cur, lines=cand)
                    if still(c):
                        cur = c
                        changed = True
    return cur
