"""C08 — a failed mutation leaves the Gfa unchanged.

Oracle on the real library only.  Before every step of a history the full observation of the Gfa is taken
(lib.obs: written lines with L in canonical direction, names, virtual lines, every back-reference collection
of every line, version); when the step raises, the observation afterwards must be identical.

  * a call that raises a gfapy.Error and changes the observation   -> "changed-by-failed-<op>-<ErrorClass>"
  * a call that raises anything else is reported                   -> "foreign-exception"
    and, when it also changed the observation                      -> "changed-by-failed-<op>-<ExcClass>"
  * version unknown, the refused line is a header line that is also refused by a Gfa (same level, version unknown)
    holding nothing but the header lines accepted so far - so it is refused for what it says itself, no queued
    line has a part in it - and the observation changed (the version is fixed by the VN tag of a line that was
    not accepted)                                        -> "changed-by-refused-header-<ErrorClass>[version-unknown]"
  * a refused set / delete of a field: the tag names of the line and line.get_datatype(field) are read before and
    after; they must be the same                                   -> "field-changed-by-failed-<op>-<ErrorClass>"
  * "a caller may catch the error and carry on": when the history is over and nothing was reported, it is run again
    on a fresh Gfa without one of the refused calls (which one is fixed by the hash of the case); every other call
    must end as it did the first time (returns / raises the same class) and the final observation must be the same
                                                                   -> "refused-call-shows-later-<op>"

40% of the calls are built to fail, of every cause the property lists: duplicate identifier (same type / other
type, incl. a U/O line named like a segment, edge, gap), a link compatible with a stored one, version conflicts
(GFA2 line into a GFA1 graph and vice versa, wrong VN), malformed fields, inconsistent header values (TS
conflict, alone or next to a good tag, unsupported VN), contradictory tags of a multi-line group, rename to an
identifier in use, rm of a missing identifier, illegal edits of connected lines (reference fields, read-only
fields, invalid tag names), at level 3 a new tag with a value that is refused for the datatype its class implies
(string with tab / newline / non-printable character, empty string, empty list, boolean; 70% followed by a legal set
of the same tag to a value of another class), a header line with the VN tag of the history's version that
contradicts an earlier header line in another tag; (GFA2, level >= 1) an E line that takes the place of a placeholder
- its identifier is so far only mentioned by U/O lines - and is refused when it is connected, because the begin of one of
its intervals carries the $ mark and the end does not (weight 2 of 46; the U/O line that mentions the identifier is
added first when there is none): the placeholder must still be a line of the Gfa, listed by the groups as before;
(GFA2) line.set("external", x) on a connected F line with x no oriented identifier (no orientation, blank, empty, '*',
an integer, a list; weight 2 of 46; an F line is added first when there is none; 30%: after a legal assignment of
`external` to the same line) - `external` is the key under which the Gfa keeps a fragment, so a refused value must be
refused before the line is taken out of the collections - interleaved with successful calls.
The same call with x = None (10% of these calls at levels >= 1), and at level 0 with x in (None, 5, ""), cannot end with
the fragment kept under x; what is reported for such a call has the prefix "fragment-key-unvalidated-" before the
signatures above (on the unchanged tree: the line is unregistered, then registering it again raises - the fragment is no
longer a line of the Gfa while its segment still lists it).  (_hist.gen_case draws the failing calls of a level 0 history
from its default table, which has none of the optional kinds: the level 0 variant is written down in _hist and covered by
the prefix, but no history generated here contains it; x = None at levels 1-3 is what is generated.)

Family "unknown version" (25% of the histories, Gfa() without version): lines may sit in the queue, which has
no public accessor, so the observation is (str(g), version, names) only; a queued line that is replayed by a
later call is seen at that later call.
6% of the histories (always with the version unknown) start with a prelude: optional comment, one or two header lines
without VN (TS:i:3 and/or, at level >= 2, custom tags), for GFA1 optionally one or two L/C/P lines (queued), then a
header line that names a supported version in VN (70% the history's, 30% the other one) and is refused for a second TS
value or (level >= 2) a second datatype of a custom tag; the ordinary history follows.

Family "long decimal identifiers" (LONGDIGITS_P = 7% of the histories; the base history is generated as before and one or
two calls are inserted into it at random positions): an identifier that consists of decimal digits only and is as long as
the longest string int() converts (sys.get_int_max_str_digits(), 4300 by default) or one / two / a hundred digits longer
(LONG_LENGTHS; 4301 in half of the draws).  Such a name is legal in GFA1 and GFA2 (nothing bounds the length of an
identifier), so these calls are expected to succeed; they walk the code that keeps track of integer names, which runs
*after* a line has been unregistered / its placeholders have been created.  Inserted calls: the rename of a stored line
(segment, edge, gap, group, path, L/C with ID) to such a name (label rename:longdigits:<RT>); the addition of an
identified line (S / L / C with ID / P / E / G / O / U) under such a name, mentioning defined and undefined identifiers
(label add:<RT>:longdigits); a line that mentions such a name before it is defined - as a segment (L, P, E, G, F) or as
an item of a group (O, U) - optionally followed, later in the history, by the S line that defines it
(labels add:<RT>:longdigits-mention, add:S:longdigits-def).  Whatever these calls raise, the checks above apply.  In the
failure texts a run of 40 or more equal digits is written {<digit>*<count>}.

The history ends at the first report (later steps would only echo it).

On the pinned tree: changed-by-failed-add-O/U-TypeError = DESIGN 7 #4, add-O/U-NotUniqueError = #24,
add-H-InconsistencyError/VersionError/AssertionError = #17, add-<RT>-VersionError/FormatError with the version
unknown = #22 #23, add-S-* with the version unknown = #23 (queued line fails when the S line decides the version),
rm/disconnect/rmline-KeyError = echo of #20 (two lines under one ID), foreign-exception = #4 #7 #10 #11;
add-L/E/G-NotUniqueError with an explicit version = a line that mentions a non-segment identifier as a segment
is rejected half-way (rejected line stays in the segment's collections; not in DESIGN 7).
fragment-key-unvalidated-foreign-exception / -changed-by-failed-setfield-AttributeError (also on /repo HEAD): fragment.set(
"external", None) at levels 1-3 unregisters the fragment, drops the field and raises the builtin AttributeError when the
line is registered again - the F line is gone from the Gfa, its segment still lists it, rm(fragment) raises as well.

NOT CHECKED:
  * an E line with inconsistent positions over a placeholder is generated at levels >= 1 only, with the $ mark misplaced
    (begin > end is refused when the line is built at levels >= 1; at level 0 no malformed line is generated).
  * the continuation without a refused call is run for one refused call per history only, and compares how the calls
    end and the final observation, not the observation after every call.
  * identity of line objects (a failed call that swaps a line for an equal copy is not noticed).
  * the content of the line queue while the version is unknown (no public accessor).
  * g.unused_name()'s counter (reading it advances it).
  * at vlevel 0 no malformed line is generated (level 0 is documented as "no validation").
  * calls that succeed although the generator meant them to fail are simply successful calls here (C09/C04).
"""
import json
import re
from harness import lib
from harness.props import _hist as H
from harness.props import _hist_extra as X

ID = "C08"
RULE = ("random histories (4-25 calls quick, up to 60 thorough) with 40% failing calls of every listed cause, interleaved "
        "with successful additions/removals/renames/tag edits, GFA1 and GFA2, validation levels 0-3, 25% with the "
        "version unknown (6%: starting with header lines without VN, optional queued lines and a refused header line "
        "that names a version); failing calls include (GFA2) an E line with a misplaced $ mark that defines an identifier "
        "only U/O lines mention (refused when connected: the placeholder stays) and line.set('external', x) on a connected F line with x no oriented "
        "identifier (the fragment stays under its key; x None reported as fragment-key-unvalidated-*); "
        "refused set/delete of a field also leaves tag names and datatype of the field; one "
        "refused call per history is left out of a second run, which must end the same; 7% of the histories also rename a "
        "stored line to / add a line under / mention before its definition an identifier of 4300, 4301, 4302 or 4400 decimal "
        "digits (legal names at the limit of int(): calls that are expected to succeed). Non-trivial: at least one call raised on a Gfa holding at least two lines (decided by the "
        "generator's labels: at least one 'fail:' label after two additions). Distinct by case hash.")

PROF = H.profile(p_fail=0.40, close=0.3,
                 fails={"dup-same": 3, "dup-other": 4, "dup-link": 1, "version": 2, "malformed": 3, "header": 3,
                        "grouptag": 3, "rename-existing": 2, "rm-missing": 1, "illegal-edit": 3, "empty-line": 0.3,
                        "mention-nonsegment": 2, "path-nonsegment": 2, "placeholder-def-nonsegment": 2, "header-dt": 3.5,
                        "rename-invalid": 1, "path-short-overlaps": 1.5, "tag-value": 4, "header-vn-conflict": 1,
                        "placeholder-def-bad-positions": 2, "fragment-external": 2},
                 header_first=0.06)
CASE_TIMEOUT = 60


def budget(tier):
    return 2000 if tier == "quick" else 80000


# family "long decimal identifiers" (see the module text)
LONGDIGITS_P = 0.07
INT_MAX_STR_DIGITS = 4300     # default of sys.get_int_max_str_digits() (Python >= 3.11)
LONG_LENGTHS = [INT_MAX_STR_DIGITS + 1] * 4 + [INT_MAX_STR_DIGITS, INT_MAX_STR_DIGITS, INT_MAX_STR_DIGITS + 2,
                                               INT_MAX_STR_DIGITS + 100]


def _long_name(rng, avoid=()):
    for _ in range(20):
        n = rng.choice("123456789") * rng.choice(LONG_LENGTHS)
        if n not in avoid:
            return n
    return n


def _seg(rng, m, p_undefined=0.35):
    d = m.ids_of("S")
    return rng.choice(d) if d and not rng.chance(p_undefined) else rng.choice(H.SEGS)


def inject_long_digits(rng, case):
    """insert one or two calls that use an identifier of (about) INT_MAX_STR_DIGITS decimal digits; the steps of the base
    history keep their order"""
    v = case["flavour"]
    states = X.replay_states(case)
    n = len(case["hist"])
    ins = []  # (position, step, label)
    kinds = ["rename", "rename", "add-id", "mention"]
    kind = rng.choice(kinds)
    long1 = _long_name(rng)
    if kind == "rename":
        spots = [k for k in range(1, n + 1) if states[k].ids()]
        if not spots:
            kind = "add-id"
        else:
            # prefer a position where the line is mentioned by other lines (links, paths, groups follow the rename)
            k = rng.choice(spots)
            m = states[k]
            ids = m.ids()
            men = m.mentioned()
            named = sorted(ids)
            conn = [x for x in named if x in men]
            a = rng.choice(conn) if conn and rng.chance(0.7) else rng.choice(named)
            ins.append((k, ["rename", a, long1], "rename:longdigits:" + m.recs[ids[a]][0]))
            if rng.chance(0.3):
                # a second line gets another such name later on
                k2 = rng.randint(k, n)
                m2 = states[k2]
                others = sorted(x for x in m2.ids() if x != a)
                if others:
                    b = rng.choice(others)
                    ins.append((k2, ["rename", b, _long_name(rng, (long1,))], "rename:longdigits:" + m2.recs[m2.ids()[b]][0]))
    if kind in ("add-id", "mention"):
        k = rng.randint(0, n)
        m = states[k]
        a, b = _seg(rng, m), _seg(rng, m)
        oa, ob = rng.choice("+-"), rng.choice("+-")
        if kind == "add-id":
            if v == "gfa1":
                c = [("S", "S\t%s\t*" % long1), ("L", "L\t%s\t%s\t%s\t%s\t*\tID:Z:%s" % (a, oa, b, ob, long1)),
                     ("C", "C\t%s\t%s\t%s\t%s\t0\t*\tID:Z:%s" % (a, oa, b, ob, long1)),
                     ("P", "P\t%s\t%s%s,%s%s\t*" % (long1, a, oa, b, ob))]
            else:
                items = [rng.choice(H.SEGS + H.EDGE_IDS + ["x", "y"]) for _ in range(rng.choice([1, 2, 3]))]
                c = [("S", "S\t%s\t10\t*" % long1), ("E", "E\t%s\t%s%s\t%s%s\t0\t5\t5\t10$\t*" % (long1, a, oa, b, ob)),
                     ("G", "G\t%s\t%s%s\t%s%s\t5\t*" % (long1, a, oa, b, ob)),
                     ("U", "U\t%s\t%s" % (long1, " ".join(items))), ("U", "U\t%s\t%s" % (long1, " ".join(items))),
                     ("O", "O\t%s\t%s" % (long1, " ".join(x + rng.choice("+-") for x in items)))]
            rt, text = rng.choice(c)
            ins.append((k, ["add", text], "add:%s:longdigits" % rt))
        else:
            if v == "gfa1":
                c = [("L", "L\t%s\t%s\t%s\t%s\t*" % (long1, oa, b, ob)), ("L", "L\t%s\t%s\t%s\t%s\t*" % (a, oa, long1, ob)),
                     ("C", "C\t%s\t%s\t%s\t%s\t0\t*" % (a, oa, long1, ob)),
                     ("P", "P\tp8\t%s%s,%s%s\t*" % (a, oa, long1, ob))]
            else:
                c = [("U", "U\tu8\t%s %s" % (long1, a)), ("U", "U\tu8\t%s %s" % (a, long1)), ("U", "U\t*\t%s" % long1),
                     ("O", "O\to8\t%s%s %s%s" % (a, oa, long1, ob)),
                     ("E", "E\t*\t%s%s\t%s%s\t0\t5\t5\t10$\t*" % (a, oa, long1, ob)),
                     ("G", "G\t*\t%s%s\t%s%s\t5\t*" % (long1, oa, b, ob)), ("F", "F\t%s\tr1+\t0\t5\t0\t5\t*" % long1)]
            rt, text = rng.choice(c)
            ins.append((k, ["add", text], "add:%s:longdigits-mention" % rt))
            if rng.chance(0.6):
                ins.append((rng.randint(k, n), ["add", "S\t%s\t*" % long1 if v == "gfa1" else "S\t%s\t10\t*" % long1],
                            "add:S:longdigits-def"))
    return X.insert_steps(case, ins)


def gen_case(rng, tier, i):
    case = H.gen_case(rng, tier, PROF, p_unknown=0.25, vlevels=(1, 1, 1, 1, 1, 2, 2, 3, 3, 0))
    if rng.chance(LONGDIGITS_P):
        case = inject_long_digits(rng, case)
    return case


def nontrivial(case):
    adds = 0
    for s, lab in zip(case["hist"], case["labels"]):
        if lab.startswith("fail:") and adds >= 2:
            return True
        if s[0] == "add" and not lab.startswith("fail:"):
            adds += 1
    return False


def tags(case):
    return H.case_tags(case)


def signature(case, failure):
    return failure.split(":")[0]


def observe(g, full):
    """canonical observation as a dict; never raises (an exception while observing is part of the observation)"""
    try:
        if full:
            o = lib.obs(g)
        else:
            o = {"text": sorted(H.text_lines(g)), "version": g.version, "names": sorted(str(n) for n in g.names)}
        return o
    except Exception as e:
        return {"OBS-EXC": e.__class__.__name__}


def _short(s):
    """a run of 40 or more equal digits (family "long decimal identifiers") is written {<digit>*<count>}"""
    return re.sub(r"([0-9])\1{39,}", lambda m: "{%s*%d}" % (m.group(1), len(m.group(0))), s)


def _diff(a, b):
    return _short(_diff_full(a, b))[:900]


def _diff_full(a, b):
    out = []
    for k in sorted(set(a) | set(b)):
        if a.get(k) != b.get(k):
            x, y = a.get(k), b.get(k)
            if isinstance(x, list) and isinstance(y, list):
                xs, ys = list(x), list(y)
                for e in list(xs):
                    if e in ys:
                        xs.remove(e); ys.remove(e)
                out.append("%s: -%r +%r" % (k, xs, ys))
            elif isinstance(x, dict) and isinstance(y, dict):
                ks = [kk for kk in sorted(set(x) | set(y)) if x.get(kk) != y.get(kk)]
                out.append("%s: %s" % (k, "; ".join("%r: %r -> %r" % (kk, x.get(kk), y.get(kk)) for kk in ks[:3])))
            else:
                out.append("%s: %r -> %r" % (k, x, y))
    return " | ".join(out)


def field_obs(line, step):
    """what the line says about the field a settag / deltag / setfield step names: its tag names and the datatype of
    that field (the value is part of the written line); never raises"""
    if line is None or step[0] not in ("settag", "deltag", "setfield"):
        return None
    o = {}
    try:
        o["tagnames"] = sorted(line.tagnames)
    except Exception as e:
        o["tagnames"] = "EXC:" + e.__class__.__name__
    try:
        o["datatype of %s" % step[2]] = line.get_datatype(step[2])
    except Exception as e:
        o["datatype of %s" % step[2]] = "EXC:" + e.__class__.__name__
    return o


KEY_PREFIX = "fragment-key-unvalidated-"


def unvalidated_key(case, step):
    """line.set("external", x) with x None, or at validation level 0 (generator label fail:fragment-external:unvalidated):
    what such a call reports gets a signature of its own"""
    return step[0] == "setfield" and step[2] == "external" and (step[3] is None or case.get("vlevel", 1) == 0)


def refused_on_its_own(case, headers, text):
    """is the header line `text` also refused by a Gfa (same validation level, version unknown) that holds nothing but
    the header lines accepted so far?  Then no queued line and no other line has a part in the refusal."""
    g = H.new_gfa(case)
    for t in headers:
        if lib.outcome(g.add_line, t)[0] != "ok":
            return False
    return lib.outcome(g.add_line, text)[0] != "ok"


def _res(r):
    return r[0] if r[0] in ("ok", "skip") else "%s %s" % (r[0], r[1])


def twin_check(case, results, skip, final, full):
    """the history again, on a fresh Gfa, without the refused call number `skip`: every other call must end as it did
    (returned / raised the same class) and the final observation must be the same -> failure text or None"""
    t = H.new_gfa(case)
    for k, step in enumerate(case["hist"][:len(results)]):
        if k == skip:
            continue
        r = _res(H.apply_step(t, step))
        if r != results[k]:
            return "call %d %r: %s after the refused call, %s without it" % (k, step, results[k], r)
    o = observe(t, full)
    if "OBS-EXC" not in final and json.dumps(o, sort_keys=True) != json.dumps(final, sort_keys=True):
        return "final observation (without the refused call -> with it): %s" % _diff(o, final)
    return None


def oracle(case):
    g = H.new_gfa(case)
    full = case["version"] is not None
    before = observe(g, full)
    headers = []   # header lines accepted so far (version unknown only)
    results = []   # how every call ended
    refused = []   # indices of the calls that raised
    for k, step in enumerate(case["hist"]):
        if "OBS-EXC" in before:
            return []  # the Gfa cannot be observed any more (corrupted by a *successful* call: not this property)
        line, fb = None, None
        if step[0] in ("settag", "deltag", "setfield"):
            rl = lib.outcome(H.resolve, g, H.step_target(step))
            line = rl[1] if rl[0] == "ok" else None
            fb = field_obs(line, step)
        r = H.apply_step(g, step, line) if line is not None else H.apply_step(g, step)
        results.append(_res(r))
        if r[0] == "skip":
            continue
        after = observe(g, full)
        if r[0] in ("gerr", "foreign"):
            refused.append(k)
            F = []
            # the storage key of a fragment set to None, or to anything that cannot be a key at level 0 (see the module text)
            pre = KEY_PREFIX if unvalidated_key(case, step) else ""
            if r[0] == "foreign":
                F.append("%sforeign-exception: %s raises %s [step %d %r]" % (pre, H.step_kind(step), r[1], k, step))
            if json.dumps(after, sort_keys=True) != json.dumps(before, sort_keys=True):
                # the version was still unknown when the call was made: the (open) finding unknown-version-commit ...
                unk = "[version-unknown]" if before.get("version") is None else ""
                sig = "%schanged-by-failed-%s-%s%s" % (pre, H.step_kind(step), r[1], unk)
                if unk and step[0] == "add" and step[1].startswith("H") and refused_on_its_own(case, headers, step[1]):
                    # ... unless the line is a header line that is refused for what it says itself
                    sig = "changed-by-refused-header-%s%s" % (r[1], unk)
                F.append("%s: %s [step %d %r]" % (sig, _diff(before, after), k, step))
            elif fb is not None:
                fa = field_obs(line, step)
                if fa != fb:
                    F.append("%sfield-changed-by-failed-%s-%s: %s [step %d %r]" % (pre, H.step_kind(step), r[1], _diff(fb, fa), k, step))
            if F:
                return [_short(x) for x in F]
        elif not full and step[0] == "add" and step[1].startswith("H"):
            headers.append(step[1])
        before = after
    if refused and "OBS-EXC" not in before:
        # one of the refused calls (fixed by the case) is left out of a second run of the history
        skip = refused[int(lib.case_hash(case), 16) % len(refused)]
        d = twin_check(case, results, skip, before, full)
        if d is not None:
            unk = "[version-unknown]" if not full else ""
            return [_short("refused-call-shows-later-%s%s: refused call %d %r; %s" % (H.step_kind(case["hist"][skip]), unk, skip, case["hist"][skip], d))]
    return []


def shrink(case, failure):
    return H.shrink_history(case, failure, oracle, signature)
