"""C08 — a failed mutation leaves the Gfa unchanged.

Oracle on the real library only.  Before every step of a history the full observation of the Gfa is taken
(lib.obs: written lines with L in canonical direction, names, virtual lines, every back-reference collection
of every line, version); when the step raises, the observation afterwards must be identical.

  * a call that raises a gfapy.Error and changes the observation   -> "changed-by-failed-<op>-<ErrorClass>"
  * a call that raises anything else is reported                   -> "foreign-exception"
    and, when it also changed the observation                      -> "changed-by-failed-<op>-<ExcClass>"

40% of the calls are built to fail, of every cause the property lists: duplicate identifier (same type / other
type, incl. a U/O line named like a segment, edge, gap), a link compatible with a stored one, version conflicts
(GFA2 line into a GFA1 graph and vice versa, wrong VN), malformed fields, inconsistent header values (TS
conflict, alone or next to a good tag, unsupported VN), contradictory tags of a multi-line group, rename to an
identifier in use, rm of a missing identifier, illegal edits of connected lines (reference fields, read-only
fields, invalid tag names) - interleaved with successful calls.

Family "unknown version" (25% of the histories, Gfa() without version): lines may sit in the queue, which has
no public accessor, so the observation is (str(g), version, names) only; a queued line that is replayed by a
later call is seen at that later call.

The history ends at the first report (later steps would only echo it).

On the pinned tree: changed-by-failed-add-O/U-TypeError = DESIGN 7 #4, add-O/U-NotUniqueError = #24,
add-H-InconsistencyError/VersionError/AssertionError = #17, add-<RT>-VersionError/FormatError with the version
unknown = #22 #23, add-S-* with the version unknown = #23 (queued line fails when the S line decides the version),
rm/disconnect/rmline-KeyError = echo of #20 (two lines under one ID), foreign-exception = #4 #7 #10 #11;
add-L/E/G-NotUniqueError with an explicit version = a line that mentions a non-segment identifier as a segment
is rejected half-way (rejected line stays in the segment's collections; not in DESIGN 7).

NOT CHECKED:
  * identity of line objects (a failed call that swaps a line for an equal copy is not noticed).
  * the content of the line queue while the version is unknown (no public accessor).
  * g.unused_name()'s counter (reading it advances it).
  * at vlevel 0 no malformed line is generated (level 0 is documented as "no validation").
  * calls that succeed although the generator meant them to fail are simply successful calls here (C09/C04).
"""
import json
from harness import lib
from harness.props import _hist as H

ID = "C08"
RULE = ("random histories (4-25 calls quick, up to 60 thorough) with 40% failing calls of every listed cause, interleaved "
        "with successful additions/removals/renames/tag edits, GFA1 and GFA2, validation levels 0-3, 25% with the "
        "version unknown. Non-trivial: at least one call raised on a Gfa holding at least two lines (decided by the "
        "generator's labels: at least one 'fail:' label after two additions). Distinct by case hash.")

PROF = H.profile(p_fail=0.40, close=0.3,
                 fails={"dup-same": 3, "dup-other": 4, "dup-link": 1, "version": 2, "malformed": 3, "header": 3,
                        "grouptag": 3, "rename-existing": 2, "rm-missing": 1, "illegal-edit": 3, "empty-line": 0.3,
                        "mention-nonsegment": 2, "path-nonsegment": 2, "placeholder-def-nonsegment": 2, "header-dt": 3.5,
                        "rename-invalid": 1, "path-short-overlaps": 1.5})
CASE_TIMEOUT = 60


def budget(tier):
    return 2000 if tier == "quick" else 80000


def gen_case(rng, tier, i):
    return H.gen_case(rng, tier, PROF, p_unknown=0.25, vlevels=(1, 1, 1, 1, 1, 2, 2, 3, 3, 0))


def nontrivial(case):
    adds = 0
    for s, lab in zip(case["hist"], case["labels"]):
        if lab.startswith("fail:") and adds >= 2:
            return True
        if s[0] == "add" and not lab.startswith("fail:"):
            adds += 1
    return False


def tags(case):
    return H.case_tags(case)


def signature(case, failure):
    return failure.split(":")[0]


def observe(g, full):
    """canonical observation as a dict; never raises (an exception while observing is part of the observation)"""
    try:
        if full:
            o = lib.obs(g)
        else:
            o = {"text": sorted(H.text_lines(g)), "version": g.version, "names": sorted(str(n) for n in g.names)}
        return o
    except Exception as e:
        return {"OBS-EXC": e.__class__.__name__}


def _diff(a, b):
    out = []
    for k in sorted(set(a) | set(b)):
        if a.get(k) != b.get(k):
            x, y = a.get(k), b.get(k)
            if isinstance(x, list) and isinstance(y, list):
                xs, ys = list(x), list(y)
                for e in list(xs):
                    if e in ys:
                        xs.remove(e); ys.remove(e)
                out.append("%s: -%r +%r" % (k, xs, ys))
            elif isinstance(x, dict) and isinstance(y, dict):
                ks = [kk for kk in sorted(set(x) | set(y)) if x.get(kk) != y.get(kk)]
                out.append("%s: %s" % (k, "; ".join("%r: %r -> %r" % (kk, x.get(kk), y.get(kk)) for kk in ks[:3])))
            else:
                out.append("%s: %r -> %r" % (k, x, y))
    return " | ".join(out)[:900]


def oracle(case):
    g = H.new_gfa(case)
    full = case["version"] is not None
    before = observe(g, full)
    for k, step in enumerate(case["hist"]):
        if "OBS-EXC" in before:
            return []  # the Gfa cannot be observed any more (corrupted by a *successful* call: not this property)
        r = H.apply_step(g, step)
        if r[0] == "skip":
            continue
        after = observe(g, full)
        if r[0] in ("gerr", "foreign"):
            F = []
            if r[0] == "foreign":
                F.append("foreign-exception: %s raises %s [step %d %r]" % (H.step_kind(step), r[1], k, step))
            if json.dumps(after, sort_keys=True) != json.dumps(before, sort_keys=True):
                # the version was still unknown when the call was made: the (open) finding unknown-version-commit
                unk = "[version-unknown]" if before.get("version") is None else ""
                F.append("changed-by-failed-%s-%s%s: %s [step %d %r]" % (H.step_kind(step), r[1], unk, _diff(before, after), k, step))
            if F:
                return F
        before = after
    return []


def shrink(case, failure):
    return H.shrink_history(case, failure, oracle, signature)
