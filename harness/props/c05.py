"""C05 — mutating a Gfa is equivalent to editing its text (exact removal cascade).

Oracle: an independent pure-python text model (harness/props/_hist.py, class TextModel: a bag of tab-split
records; add / rm with the transitive closure over the *documented* dependency table / rename = substitution
of the identifier at record positions / tag edits) is run next to the real Gfa.  After every successful
step:

  * text      the non-virtual, non-header lines of str(g) (L lines in canonical direction, tags sorted)
              are exactly the model's records                                   -> "text-differs-after-<op>"
  * reparse   when g holds no virtual line: the lines of str(g) equal the lines of
              str(gfapy.Gfa(model text)) (headers included)                       -> "reparse-differs-after-<op>"
  * neighbours  for every surviving segment: every element of its collections (dovetails_L/R, edges_to_contained/
              _containers, internals, gaps_L/R, fragments, paths, sets) is a line of this Gfa
                                                                -> "neighbourhood-holds-removed-line-after-<op>"
              and the distinct non-virtual lines in them are, as text, exactly the model's records that mention
              the segment (the dependants the next removal will cascade over)    -> "neighbourhood-differs-after-<op>"

The generator (profile options copy / rm_copy of _hist.py) also repeats stored lines that carry no identifier
(E/G/O/U '*', F, C without ID: two lines with exactly the same text are legal) and removes one of several lines
with the same text by instance; the model removes one record of that text.
Profile option retag of _hist.py (2 of 98 mutation draws): a tag (xx integer / yy string) is removed and then set again,
on the same line, to a value of the other type (string where it held an integer and vice versa): the history denotes
the text in which the tag has the datatype the new value gets when a tag is created (xx:Z:w3, yy:i:5), whatever the
removed tag was.  The tag is removed with delete(tag) (75%) or with set(tag, None) (25%), the two documented ways
(doc/tutorial/tags.rst).  A failure at the set that follows a removal by set(tag, None) has the signature prefix
"after-setnone-".

Dependency table used by the model (doc/tutorial/references.rst + the property text):
  GFA1  removed segment -> its L (and the P over them), its C, the P through it;  removed link -> the P over it
  GFA2  removed segment -> its E, G, F and the O/U listing it;  removed E / O / U -> the O/U listing it
        removed gap     -> only dropped from the item list of the sets that list it

The oracle stops a history (silently) as soon as the model and the library disagree on whether a step is
*legal* (the property quantifies over legal steps; which calls must raise is C08/C09), or when the model marks
the step's outcome as not pinned down by the documentation ("ambiguous").

Signatures: text-differs-after-<op>, reparse-differs-after-<op>, neighbourhood-holds-removed-line-after-<op>,
neighbourhood-differs-after-<op>, text-unwritable-after-<op>, foreign-exception
(op in {add-<RT>, rm, rmline-<RT>, disconnect, rename, settag, deltag}); after-setnone-text-differs-after-settag,
after-setnone-text-unwritable-after-settag (the tag set had been removed by set(tag, None): the line keeps the datatype
of the removed tag, so the new value is written under the old datatype or the line cannot be written).  On the pinned tree:
text-differs-after-rm/rmline-S|L|E|O/disconnect = DESIGN 7 #1 (half of the dependants survive),
text-differs-after-rm/rmline-G = #2 (gap stays listed in the set), foreign-exception = #10 (one-segment path).

NOT CHECKED:
  * whether a given call should have raised (C08/C09); a failed call is only required to have left the text
    as it was for the history to go on.
  * histories after: renaming onto an identifier in use (incl. the documented U/U, O/O merge by rename) or
    onto an identifier that is only mentioned (placeholder); removing a link under a path when a parallel
    link could carry the same path step; a gap that is the only item of a set (the set would be left empty);
    groups that list themselves; a repeated link that carries tags or an ID; setting a tag that the line has
    to a value of another type (a tag that was removed first is checked, see above); deleting the ID tag of an L/C line; O groups listing a gap (the property speaks of sets only).
  * placeholders (virtual lines) are filtered from str(g) before comparing; orphan placeholders that survive
    the removal of their last referrer are therefore not reported.
  * header lines are compared through the reparse only (the way several H lines are merged is not part of
    this property).
  * the order of lines in str(g).
  * *which* collection of a segment a dependant is filed under (C11) and how often it occurs there; collections of
    lines other than segments (C02 walks those).
"""
import collections
from harness import lib
from harness.props import _hist as H

ID = "C05"
STATS = collections.Counter()   # why histories stop / how much is compared (diagnostics only)
RULE = ("exhaustive: every history of length <= 4 (quick) / <= 5 (thorough) over a 7-step alphabet per version (2 segments, 2 links, a path, rm, rename / segment, edge, gap, O, U, rm segment, rm edge); random: histories (4-25 steps quick, up to 60 thorough) of legal calls (4% meant to fail) on GFA1 and GFA2 "
        "graphs over 4-6 segment names: all record types, lines arriving before the lines they mention, fan-out > 1 "
        "in every collection, repeated lines without identifier (8% of additions once one exists) and removal of one of "
        "several equal lines by instance, nested and multi-line groups, rm by name and by instance, disconnect, rename, "
        "set/delete tag, remove a tag (delete(tag) 75% / set(tag, None) 25%) and set it again to a value of the other type "
        "(2% of the mutation draws); 85% of histories end by defining everything still undefined. Non-trivial: at least one "
        "rm/disconnect/rename in a history with at least two additions. Distinct by case hash.")

PROF = H.profile(p_fail=0.04, gap_in_o=False, close=0.85, copy=0.08, rm_copy=0.5, retag_setnone=0.25,
                 ops={"add": 46, "rm": 14, "rmline": 7, "disconnect": 7, "rename": 10, "settag": 8, "deltag": 4, "retag": 2})
CASE_TIMEOUT = 60


def n_exhaustive(tier):
    return H.ex_count(4 if tier == "quick" else 5)


def exhaustive_case(i, tier):
    return H.ex_case(i, 4 if tier == "quick" else 5)


def budget(tier):
    return 2000 if tier == "quick" else 80000


def gen_case(rng, tier, i):
    return H.gen_case(rng, tier, PROF, p_unknown=0.0, vlevels=(1, 1, 1, 1, 2, 3, 0))


def nontrivial(case):
    ops = [s[0] for s in case["hist"]]
    return sum(1 for o in ops if o == "add") >= 2 and any(o in ("rm", "rmline", "disconnect", "rename") for o in ops)


def tags(case):
    return H.case_tags(case)


def signature(case, failure):
    return failure.split(":")[0]


def real_text(g, v, drop_h):
    out = []
    for t in H.text_lines(g):
        if H.VIRTUAL_MARK in t or t.startswith(H.UNKNOWN_RT):
            continue
        out.append(t)
    return H.norm_lines(out, v, drop_h=drop_h)


def _diff(got, exp):
    g, e = list(got), list(exp)
    for x in list(g):
        if x in e:
            g.remove(x); e.remove(x)
    return "only in Gfa %r; only in text model %r" % (g, e)


def neighbourhood(g, m, v):
    """the dependants every surviving segment knows of (all its collections together) against the records of the
    text model that mention the segment -> failure text or None"""
    gfapy = lib.import_gfapy()
    for s in g.lines:
        if s.record_type != "S" or s.virtual:
            continue
        seen, got = set(), []
        for coll in lib.BACKREF_COLLS["S"]:
            for x in getattr(s, coll):
                x = x.line if isinstance(x, gfapy.OrientedLine) else x
                if not isinstance(x, gfapy.Line) or x.gfa is not g:
                    return "neighbourhood-holds-removed-line", "%s of segment %s holds %r, which is not a line of the Gfa" % (
                        coll, s.name, str(x))
                if id(x) not in seen and not x.virtual:
                    seen.add(id(x))
                    got.append(H.norm_text(str(x), v))
        exp = sorted(H.norm_rec(r, v) for r in m.recs if r[0] in "LCPEGFOU" and s.name in H.mentions(r, v))
        if sorted(got) != exp:
            return "neighbourhood-differs", "segment %s: %s" % (s.name, _diff(sorted(got), exp))
    return None


def oracle(case):
    gfapy = lib.import_gfapy()
    v = case["flavour"]
    g = H.new_gfa(case)
    m = H.TextModel(v)
    hist = case["hist"]
    setnone = set()  # (id of the line, tag): the tag was removed with set(tag, None) and not set since
    for k, step in enumerate(hist):
        line, sel = None, None
        tgt = H.step_target(step)
        if tgt is not None and step[0] != "rm":
            r = lib.outcome(H.resolve, g, tgt)
            if r[0] != "ok":
                STATS["stop:resolve-raises"] += 1
                return []
            line = r[1]
            if line is None:
                if m.find(tgt) is None:
                    continue  # nothing to act on, on either side
                STATS["stop:target-only-in-model"] += 1
                return []
            if line.virtual:
                STATS["stop:target-virtual"] += 1
                return []
            if tgt.startswith("@"):
                sel = H.norm_text(str(line), v)
        before = str(g)
        r = H.apply_step(g, step, line)
        if r[0] == "skip":
            continue
        if r[0] == "foreign":
            return ["foreign-exception: %s raises %s [step %d %r]" % (H.step_kind(step), r[1], k, step)]
        if r[0] == "gerr":
            if str(g) != before:
                STATS["stop:rejected-call-changed-text"] += 1
                return []  # a rejected call that changed the Gfa: C08
            STATS["rejected:" + ("model-ok" if m.copy().apply(step, sel) in ("ok", "noop") else "model-illegal")] += 1
            continue
        st = m.apply(step, sel)
        if st not in ("ok", "noop"):
            STATS["stop:" + st] += 1
            return []
        STATS["compared"] += 1
        kind, pre = H.step_kind(step), ""
        if step[0] == "settag" and line is not None:
            if step[3] is None:
                setnone.add((id(line), step[2]))
            elif (id(line), step[2]) in setnone:
                setnone.discard((id(line), step[2]))
                pre = "after-setnone-"  # own signature: the tag was removed by set(tag, None), not by delete(tag)
        try:
            got = real_text(g, v, True)
        except Exception as e:
            return ["%stext-unwritable-after-%s: %s [step %d %r]" % (pre, kind, e.__class__.__name__, k, step)]
        exp = m.lines(drop_h=True)
        if got != exp:
            return ["%stext-differs-after-%s: %s [step %d %r]" % (pre, kind, _diff(got, exp), k, step)]
        nb = neighbourhood(g, m, v)
        if nb is not None:
            return ["%s-after-%s: %s [step %d %r]" % (nb[0], H.step_kind(step), nb[1], k, step)]
        if not H.has_virtual(g) and (step[0] != "add" or k == len(hist) - 1 or m.all_defined()):
            txt = m.text()
            if txt:
                rr = lib.outcome(gfapy.Gfa, txt, version=v, vlevel=case.get("vlevel", 1))
                STATS["reparse:" + (rr[0] if rr[0] != "ok" else ("ok" if not H.has_virtual(rr[1]) else "virtual"))] += 1
                if rr[0] == "ok" and not H.has_virtual(rr[1]):
                    got2 = real_text(g, v, False)
                    exp2 = real_text(rr[1], v, False)
                    if got2 != exp2:
                        return ["reparse-differs-after-%s: %s [step %d %r]" % (H.step_kind(step), _diff(got2, exp2), k, step)]
    return []


def shrink(case, failure):
    return H.shrink_history(case, failure, oracle, signature)
