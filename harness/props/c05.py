"""C05 — mutating a Gfa is equivalent to editing its text (exact removal cascade).

Oracle: an independent pure-python text model (harness/props/_hist.py, class TextModel: a bag of tab-split
records; add / rm with the transitive closure over the *documented* dependency table / rename = substitution
of the identifier at record positions / tag edits) is run next to the real Gfa.  After every successful
step:

  * text      the non-virtual, non-header lines of str(g) (L lines in canonical direction, tags sorted)
              are exactly the model's records                                   -> "text-differs-after-<op>"
  * reparse   when g holds no virtual line: the lines of str(g) equal the lines of
              str(gfapy.Gfa(model text)) (headers included)                       -> "reparse-differs-after-<op>"
  * neighbours  for every surviving segment: every element of its collections (dovetails_L/R, edges_to_contained/
              _containers, internals, gaps_L/R, fragments, paths, sets) is a line of this Gfa
                                                                -> "neighbourhood-holds-removed-line-after-<op>"
              and the distinct non-virtual lines in them are, as text, exactly the model's records that mention
              the segment (the dependants the next removal will cascade over)    -> "neighbourhood-differs-after-<op>"
  * link paths  (GFA1) for every stored link: every element of link.paths is a line of this Gfa
                                                                      -> "link-holds-removed-path-after-<op>"
              and these paths are, as text, exactly the P records of the model with a step that runs over the link (in
              either direction; an open overlap fits any link between the two segment ends) - the paths the removal of
              the link will cascade over.  Links that share such a step with a parallel link are left out
                                                                      -> "link-paths-differ-after-<op>"

The generator (profile options copy / rm_copy of _hist.py) also repeats stored lines that carry no identifier
(E/G/O/U '*', F, C without ID: two lines with exactly the same text are legal) and removes one of several lines
with the same text by instance; the model removes one record of that text.
Profile option retag of _hist.py (2 of 98 mutation draws): a tag (xx integer / yy string) is removed and then set again,
on the same line, to a value of the other type (string where it held an integer and vice versa): the history denotes
the text in which the tag has the datatype the new value gets when a tag is created (xx:Z:w3, yy:i:5), whatever the
removed tag was.  The tag is removed with delete(tag) (75%) or with set(tag, None) (25%), the two documented ways
(doc/tutorial/tags.rst).  A failure at the set that follows a removal by set(tag, None) has the signature prefix
"after-setnone-".

Two families of histories are made from a finished base history by inserting calls (harness/props/_hist_extra.py; the
calls of the base history keep their order):
  * "awaited" (AWAITED_P = 12% of the GFA2 histories): a stored segment, edge or gap is renamed onto an identifier that
    no line defines and that only groups (O / U lines) list - the library holds a placeholder of unknown type for it;
    where the base history offers no such identifier a group that lists one (N1) is added first - and, in 70%, the
    renamed line is removed afterwards (rm / disconnect by the new identifier, rm by instance), at once or later.
    Labels add:<O|U>:awaits, rename:awaited:<RT>, rm|disconnect|rmline:<RT>:awaited.  The library may refuse such a
    rename (then it denotes no edit, and the history goes on; the removal that names the identifier ends it).  When it
    takes it, the text the history denotes is plain - the identifier is rewritten wherever the line was mentioned, and
    the items of that name in the groups are now mentions of the renamed line - so the oracle goes on comparing: the
    sets / paths of a renamed segment include those groups, and the removal of the renamed line takes them along.
  * "twoway" (TWOWAY_P = 12% of the GFA1 histories): two paths q1, q2 over one link a->b which arrive before the link,
    one walking it forwards and one backwards (15%: both the same way); one leaves the overlaps open (*), the other
    states an overlap that reads differently in the two directions (2M3M / 3M2M ...; M operations only); 75%: the open
    one arrives first; 30%: a path has one more segment; then the L line arrives (spelled in either direction, 60% with
    an ID), then (80%) the link is removed (rm / disconnect by ID, rm by instance).  The four calls follow each other
    (60%) or are spread over the base history.  Labels add:P:twoway, add:L:twoway, rm|disconnect|rmline:L:twoway.

Dependency table used by the model (doc/tutorial/references.rst + the property text):
  GFA1  removed segment -> its L (and the P over them), its C, the P through it;  removed link -> the P over it
  GFA2  removed segment -> its E, G, F and the O/U listing it;  removed E / O / U -> the O/U listing it
        removed gap     -> only dropped from the item list of the sets that list it

The oracle stops a history (silently) as soon as the model and the library disagree on whether a step is
*legal* (the property quantifies over legal steps; which calls must raise is C08/C09), or when the model marks
the step's outcome as not pinned down by the documentation ("ambiguous").

Signatures: text-differs-after-<op>, reparse-differs-after-<op>, neighbourhood-holds-removed-line-after-<op>,
neighbourhood-differs-after-<op>, link-holds-removed-path-after-<op>, link-paths-differ-after-<op>,
text-unwritable-after-<op>, foreign-exception
(op in {add-<RT>, rm, rmline-<RT>, disconnect, rename, settag, deltag}); after-setnone-text-differs-after-settag,
after-setnone-text-unwritable-after-settag (the tag set had been removed by set(tag, None): the line keeps the datatype
of the removed tag, so the new value is written under the old datatype or the line cannot be written).  On the pinned tree:
text-differs-after-rm/rmline-S|L|E|O/disconnect = DESIGN 7 #1 (half of the dependants survive),
text-differs-after-rm/rmline-G = #2 (gap stays listed in the set), foreign-exception = #10 (one-segment path).

NOT CHECKED:
  * whether a given call should have raised (C08/C09); a failed call is only required to have left the text
    as it was for the history to go on.
  * histories after: renaming onto an identifier in use (incl. the documented U/U, O/O merge by rename) or
    onto an identifier that is only mentioned (placeholder) - except a segment, edge or gap renamed onto an identifier
    that only groups list (see "awaited" above; a gap only when all of them are sets); removing a link under a path when a parallel
    link could carry the same path step; a gap that is the only item of a set (the set would be left empty);
    groups that list themselves; a repeated link that carries tags or an ID; setting a tag that the line has
    to a value of another type (a tag that was removed first is checked, see above); deleting the ID tag of an L/C line; O groups listing a gap (the property speaks of sets only).
  * placeholders (virtual lines) are filtered from str(g) before comparing; orphan placeholders that survive
    the removal of their last referrer are therefore not reported.
  * header lines are compared through the reparse only (the way several H lines are merged is not part of
    this property).
  * the order of lines in str(g).
  * *which* collection of a segment a dependant is filed under (C11) and how often it occurs there; collections of
    lines other than segments and GFA1 links (C02 walks those).
"""
import collections
from harness import lib
from harness.props import _hist as H
from harness.props import _hist_extra as X

ID = "C05"
STATS = collections.Counter()   # why histories stop / how much is compared (diagnostics only)
RULE = ("exhaustive: every history of length <= 4 (quick) / <= 5 (thorough) over a 7-step alphabet per version (2 segments, 2 links, a path, rm, rename / segment, edge, gap, O, U, rm segment, rm edge); random: histories (4-25 steps quick, up to 60 thorough) of legal calls (4% meant to fail) on GFA1 and GFA2 "
        "graphs over 4-6 segment names: all record types, lines arriving before the lines they mention, fan-out > 1 "
        "in every collection, repeated lines without identifier (8% of additions once one exists) and removal of one of "
        "several equal lines by instance, nested and multi-line groups, rm by name and by instance, disconnect, rename, "
        "set/delete tag, remove a tag (delete(tag) 75% / set(tag, None) 25%) and set it again to a value of the other type "
        "(2% of the mutation draws); 85% of histories end by defining everything still undefined; inserted into 12% of the GFA2 "
        "histories: rename of a segment / edge / gap onto an identifier that only groups list (not defined), 70% followed by "
        "its removal; inserted into 12% of the GFA1 histories: two paths over one link in opposite directions, one with open "
        "and one with a stated direction-dependent overlap (2M3M ...), arriving before the link, then the link, 80% followed "
        "by its removal. Non-trivial: at least one "
        "rm/disconnect/rename in a history with at least two additions. Distinct by case hash.")

PROF = H.profile(p_fail=0.04, gap_in_o=False, close=0.85, copy=0.08, rm_copy=0.5, retag_setnone=0.25,
                 ops={"add": 46, "rm": 14, "rmline": 7, "disconnect": 7, "rename": 10, "settag": 8, "deltag": 4, "retag": 2})
CASE_TIMEOUT = 60


def n_exhaustive(tier):
    return H.ex_count(4 if tier == "quick" else 5)


def exhaustive_case(i, tier):
    return H.ex_case(i, 4 if tier == "quick" else 5)


def budget(tier):
    return 2000 if tier == "quick" else 80000


# two families of histories that are made from a finished base history by inserting a few calls (see the module text)
AWAITED_P = 0.12   # of the GFA2 histories: rename onto an identifier that only groups mention
TWOWAY_P = 0.12    # of the GFA1 histories: two paths over one link, in opposite directions, before the link
# overlaps that read differently in the two directions of a link (the complement reverses the operations), made of M
# operations only (the grammar of the text model); the last two read the same both ways (control)
TWOWAY_OVERLAPS = ["2M3M", "1M2M", "3M1M", "2M1M", "1M1M2M", "3M2M1M", "1M3M", "2M3M", "2M", "2M3M2M"]


def inject_awaited_rename(rng, case):
    """GFA2: a stored segment, edge or gap is renamed onto an identifier that no line defines and only groups (O / U
    lines) list - where the base history has no such identifier, a group listing one ("N1") is added first - and
    (70%) the renamed line is removed afterwards, at once or later in the history"""
    states = X.replay_states(case)
    n = len(case["hist"])
    gap_in_o = PROF["gap_in_o"]

    def options(m):
        aw = X.awaited(m)
        ids = m.ids()
        both = {(a, x) for r in m.recs if r[0] in "OU" for a in H.mentions(r, m.v) for x in H.mentions(r, m.v)}
        return [(a, m.recs[ids[a]][0], x) for a in sorted(ids) for x in sorted(aw)
                if X.fits_awaited(m.recs[ids[a]][0], aw[x], gap_in_o) and (a, x) not in both]  # no item listed twice
    ins = []
    spots = [k for k in range(1, n + 1) if options(states[k])]
    if spots:
        k = rng.choice(spots)
        a, rt, x = rng.choice(options(states[k]))
    else:
        spots = [k for k in range(1, n + 1) if any(states[k].recs[i][0] in "SE" for i in states[k].ids().values())]
        if not spots:
            return case
        k = rng.choice(spots)
        m = states[k]
        ids = m.ids()
        a = rng.choice([y for y in sorted(ids) if m.recs[ids[y]][0] in "SE"])
        rt, x = m.recs[ids[a]][0], "N1"
        mates = [y for y in sorted(ids) if y != a and m.recs[ids[y]][0] in "SE"]  # a second item for the group
        items = ["N1"] + ([rng.choice(mates)] if mates and rng.chance(0.6) else [])
        rng.shuffle(items)
        if rng.chance(0.6):
            text = "U\t%s\t%s" % (rng.choice(["u7", "u7", "*"]), " ".join(items))
        else:
            text = "O\t%s\t%s" % (rng.choice(["o7", "o7", "*"]), " ".join(y + rng.choice("+-") for y in items))
        ins.append((k, ["add", text], "add:%s:awaits" % text[0]))
    ins.append((k, ["rename", a, x], "rename:awaited:" + rt))
    if rng.chance(0.7):
        k2 = k if rng.chance(0.5) else rng.randint(k, n)
        form = rng.choice(["rm", "rm", "rmline", "disconnect"])
        if form == "rm":
            ins.append((k2, ["rm", x], "rm:%s:awaited" % rt))
        elif form == "disconnect":
            ins.append((k2, ["disconnect", x], "disconnect:%s:awaited" % rt))
        else:
            # the line registered last under its record type (a renamed line is registered again)
            ins.append((k2, ["rmline", rt, max(states[k2].count(rt) - 1, 0)], "rmline:%s:awaited" % rt))
    return X.insert_steps(case, ins)


def inject_two_way_paths(rng, case):
    """GFA1: two paths q1, q2 walk one link a->b, one of them forwards and one backwards (15%: both the same way); one
    leaves the overlaps open (*), the other one states the overlap, which reads differently in the two directions;
    they arrive before the link (75%: the open one first), then the L line arrives (spelled in either direction,
    60% with an ID), then (80%) the link is removed (rm / disconnect by ID, rm by instance).  60%: the four calls
    follow each other, else they are spread over the base history (in this order)."""
    states = X.replay_states(case)
    n = len(case["hist"])
    for _try in range(6):
        a, b = rng.sample(H.SEGS, 2)
        if rng.chance(0.6):
            ks = [rng.randint(0, n)] * 4
        else:
            ks = sorted(rng.randint(0, n) for _ in range(4))
        # no link between a and b in the base history while the paths wait for theirs
        if any(r[0] == "L" and {r[1], r[3]} == {a, b} for k in range(ks[0], ks[2] + 1) for r in states[k].recs):
            continue
        if any(H.rec_id(r, "gfa1") in ("q1", "q2", "k1") for k in range(ks[0], n + 1) for r in states[k].recs):
            continue
        break
    else:
        return case
    oa, ob = rng.choice("+-"), rng.choice("+-")
    c = rng.choice(TWOWAY_OVERLAPS)
    fwd = (["%s%s" % (a, oa), "%s%s" % (b, ob)], c)
    rev = (["%s%s" % (b, H.inv(ob)), "%s%s" % (a, H.inv(oa))], H.cigar_compl(c))
    d_open, d_spec = (fwd, rev) if rng.chance(0.5) else (rev, fwd)
    if rng.chance(0.15):
        d_spec = d_open

    def path(name, d, stated):
        segs, ovs = list(d[0]), [d[1]]
        if rng.chance(0.3):
            # one more segment before or after the step
            e = "%s%s" % (rng.choice([x for x in H.SEGS if x not in (a, b)]), rng.choice("+-"))
            if rng.chance(0.5):
                segs.insert(0, e); ovs.insert(0, "2M")
            else:
                segs.append(e); ovs.append("2M")
        return "P\t%s\t%s\t%s" % (name, ",".join(segs), ",".join(ovs) if stated else "*")
    p_open, p_spec = path("q1", d_open, False), path("q2", d_spec, True)
    first, second = (p_open, p_spec) if rng.chance(0.75) else (p_spec, p_open)
    ins = [(ks[0], ["add", first], "add:P:twoway"), (ks[1], ["add", second], "add:P:twoway")]
    spelled = fwd if rng.chance(0.5) else rev
    x, y = spelled[0]
    link = "L\t%s\t%s\t%s\t%s\t%s" % (x[:-1], x[-1], y[:-1], y[-1], spelled[1])
    named = rng.chance(0.6)
    if named:
        link += "\tID:Z:k1"
    ins.append((ks[2], ["add", link], "add:L:twoway"))
    if rng.chance(0.8):
        if named:
            step = [rng.choice(["rm", "rm", "disconnect"]), "k1"]
        else:
            step = ["rmline", "L", states[ks[2]].count("L")]
        ins.append((ks[3], step, "%s:L:twoway" % step[0]))
    return X.insert_steps(case, ins)


def gen_case(rng, tier, i):
    case = H.gen_case(rng, tier, PROF, p_unknown=0.0, vlevels=(1, 1, 1, 1, 2, 3, 0))
    if case["flavour"] == "gfa2":
        if rng.chance(AWAITED_P):
            case = inject_awaited_rename(rng, case)
    elif rng.chance(TWOWAY_P):
        case = inject_two_way_paths(rng, case)
    return case


def nontrivial(case):
    ops = [s[0] for s in case["hist"]]
    return sum(1 for o in ops if o == "add") >= 2 and any(o in ("rm", "rmline", "disconnect", "rename") for o in ops)


def tags(case):
    return H.case_tags(case)


def signature(case, failure):
    return failure.split(":")[0]


def real_text(g, v, drop_h):
    out = []
    for t in H.text_lines(g):
        if H.VIRTUAL_MARK in t or t.startswith(H.UNKNOWN_RT):
            continue
        out.append(t)
    return H.norm_lines(out, v, drop_h=drop_h)


def _diff(got, exp):
    g, e = list(got), list(exp)
    for x in list(g):
        if x in e:
            g.remove(x); e.remove(x)
    return "only in Gfa %r; only in text model %r" % (g, e)


def neighbourhood(g, m, v):
    """the dependants every surviving segment knows of (all its collections together) against the records of the
    text model that mention the segment -> failure text or None"""
    gfapy = lib.import_gfapy()
    for s in g.lines:
        if s.record_type != "S" or s.virtual:
            continue
        seen, got = set(), []
        for coll in lib.BACKREF_COLLS["S"]:
            for x in getattr(s, coll):
                x = x.line if isinstance(x, gfapy.OrientedLine) else x
                if not isinstance(x, gfapy.Line) or x.gfa is not g:
                    return "neighbourhood-holds-removed-line", "%s of segment %s holds %r, which is not a line of the Gfa" % (
                        coll, s.name, str(x))
                if id(x) not in seen and not x.virtual:
                    seen.add(id(x))
                    got.append(H.norm_text(str(x), v))
        exp = sorted(H.norm_rec(r, v) for r in m.recs if r[0] in "LCPEGFOU" and s.name in H.mentions(r, v))
        if sorted(got) != exp:
            return "neighbourhood-differs", "segment %s: %s" % (s.name, _diff(sorted(got), exp))
    return None


def link_paths(g, m, v):
    """GFA1: the paths every stored link knows of (link.paths) against the P records of the text model that run over the
    link (the dependants the removal of the link will cascade over) -> failure text or None.  Links that share a path
    step with a parallel link (the step fits both) - a stored one or a placeholder - and links whose text occurs twice are left out."""
    if v != "gfa1":
        return None
    gfapy = lib.import_gfapy()
    over, shared = {}, set()
    for p in m.recs:
        if p[0] != "P":
            continue
        for st in m.path_steps(p):
            ms = m.links_matching(*st)
            if len(ms) > 1:
                shared.update(ms)
            for i in ms:
                over.setdefault(i, set()).add(H.norm_rec(p, v))
    index = {}
    for i, r in enumerate(m.recs):
        if r[0] == "L":
            index.setdefault(H.norm_rec(r, v), []).append(i)
    def ends(l):
        f = str(l).split("\t")
        return tuple(sorted([(f[1], "R" if f[2] == "+" else "L"), (f[3], "L" if f[4] == "+" else "R")]))
    # a placeholder link (the link a path asked for with an overlap no stored link has) joins the same segment ends as a
    # stored link: a path step that leaves the overlap open fits both, which of them it is bound to is not pinned down
    beside_placeholder = set(ends(l) for l in g.lines if l.record_type == "L" and l.virtual)
    for l in g.lines:
        if l.record_type != "L" or l.virtual:
            continue
        ix = index.get(H.norm_text(str(l), v), [])
        if len(ix) != 1 or ix[0] in shared or ends(l) in beside_placeholder:
            continue
        got = set()
        for x in l.paths:
            x = x.line if isinstance(x, gfapy.OrientedLine) else x
            if not isinstance(x, gfapy.Line) or x.gfa is not g:
                return "link-holds-removed-path", "paths of link %s holds %r, which is not a line of the Gfa" % (
                    str(l).replace("\t", " "), str(x))
            got.add(H.norm_text(str(x), v))
        exp = over.get(ix[0], set())
        if got != exp:
            return "link-paths-differ", "link %s: %s" % (str(l).replace("\t", " "), _diff(sorted(got), sorted(exp)))
    return None


def oracle(case):
    gfapy = lib.import_gfapy()
    v = case["flavour"]
    g = H.new_gfa(case)
    m = H.TextModel(v)
    hist = case["hist"]
    setnone = set()  # (id of the line, tag): the tag was removed with set(tag, None) and not set since
    for k, step in enumerate(hist):
        line, sel = None, None
        tgt = H.step_target(step)
        if tgt is not None and step[0] != "rm":
            r = lib.outcome(H.resolve, g, tgt)
            if r[0] != "ok":
                STATS["stop:resolve-raises"] += 1
                return []
            line = r[1]
            if line is None:
                if m.find(tgt) is None:
                    continue  # nothing to act on, on either side
                STATS["stop:target-only-in-model"] += 1
                return []
            if line.virtual:
                STATS["stop:target-virtual"] += 1
                return []
            if tgt.startswith("@"):
                sel = H.norm_text(str(line), v)
        before = str(g)
        r = H.apply_step(g, step, line)
        if r[0] == "skip":
            continue
        if r[0] == "foreign":
            return ["foreign-exception: %s raises %s [step %d %r]" % (H.step_kind(step), r[1], k, step)]
        if r[0] == "gerr":
            if str(g) != before:
                STATS["stop:rejected-call-changed-text"] += 1
                return []  # a rejected call that changed the Gfa: C08
            STATS["rejected:" + ("model-ok" if m.copy().apply(step, sel) in ("ok", "noop") else "model-illegal")] += 1
            continue
        st = m.apply(step, sel)
        if st == "ambiguous:rename-onto-placeholder":
            # the library took a rename onto an identifier that is mentioned and not defined.  When only groups mention
            # it and the renamed line is a segment, an edge or a gap (of a set), the text this denotes is plain: the
            # identifier is rewritten wherever it is mentioned, and the items of that name are now this line
            i = m.find(tgt, sel)
            if i is not None and X.rename_onto_awaited(m, i, step[2], PROF["gap_in_o"]) == "ok":
                st = "ok"
                STATS["rename-onto-awaited-accepted"] += 1
        if st not in ("ok", "noop"):
            STATS["stop:" + st] += 1
            return []
        STATS["compared"] += 1
        kind, pre = H.step_kind(step), ""
        if step[0] == "settag" and line is not None:
            if step[3] is None:
                setnone.add((id(line), step[2]))
            elif (id(line), step[2]) in setnone:
                setnone.discard((id(line), step[2]))
                pre = "after-setnone-"  # own signature: the tag was removed by set(tag, None), not by delete(tag)
        try:
            got = real_text(g, v, True)
        except Exception as e:
            return ["%stext-unwritable-after-%s: %s [step %d %r]" % (pre, kind, e.__class__.__name__, k, step)]
        exp = m.lines(drop_h=True)
        if got != exp:
            return ["%stext-differs-after-%s: %s [step %d %r]" % (pre, kind, _diff(got, exp), k, step)]
        nb = neighbourhood(g, m, v)
        if nb is None:
            nb = link_paths(g, m, v)
        if nb is not None:
            return ["%s-after-%s: %s [step %d %r]" % (nb[0], H.step_kind(step), nb[1], k, step)]
        if not H.has_virtual(g) and (step[0] != "add" or k == len(hist) - 1 or m.all_defined()):
            txt = m.text()
            if txt:
                rr = lib.outcome(gfapy.Gfa, txt, version=v, vlevel=case.get("vlevel", 1))
                STATS["reparse:" + (rr[0] if rr[0] != "ok" else ("ok" if not H.has_virtual(rr[1]) else "virtual"))] += 1
                if rr[0] == "ok" and not H.has_virtual(rr[1]):
                    got2 = real_text(g, v, False)
                    exp2 = real_text(rr[1], v, False)
                    if got2 != exp2:
                        return ["reparse-differs-after-%s: %s [step %d %r]" % (H.step_kind(step), _diff(got2, exp2), k, step)]
    return []


def shrink(case, failure):
    return H.shrink_history(case, failure, oracle, signature)
